(* C13 — the peer machinery of block sync: proofs over Model.v (pool bookkeeping + the processing
   turn of poolRoutine) for ALL operation lists.
     Part A  pool well-formedness, an invariant of every step from every well-formed node
     Part B  a processing turn on a pair that fails the acceptance rule
     Part C  lifted over all runs: stopped peers stay out, suppliers of stored blocks, heights
   (Part D, the canonical chain / liars, and Part E, progress, are in ProofsSync.v.)
   The model treats bpRequester.redo as immediate (see Model.v); so do these statements. *)
From Coq Require Import List ZArith NArith Bool Lia.
From TM Require Import Generated.Consts C07.Model C07.Proofs C13.Model C13.Proofs.
Import ListNotations.
Open Scope Z_scope.

Section PP.

Variable sig : Type.
Variable validate_block : sstate -> block sig -> bool.
Variable apply_block : sstate -> block sig -> option (list validator * Z).

(* [sent p b]: any relation between a peer and a block that holds of every block response fed to
   the node (see [op_sent]); the invariant then knows it of every block a requester holds and of
   the peer the requester is assigned to.  Instances: [fun _ _ => True]; "p delivered b in the
   operation list"; "b is canonical whenever p is honest" (ProofsSync.v). *)
Variable sent : peer -> block sig -> Prop.

Notation step' := (step validate_block apply_block).
Notation run' := (run validate_block apply_block).
Notation process' := (process_step validate_block apply_block).
Notation verify_first' := (verify_first validate_block).

(* ================================================================== Part A: well-formedness *)

(* ids of the peers the pool knows *)
Definition ids (pl : pool sig) : list peer := map bp_id (p_peers pl).

(* the block a requester holds is a block of the requester's height *)
Fixpoint aligned (h : Z) (rs : list (requester sig)) : Prop :=
  match rs with
  | [] => True
  | r :: rs' => (forall b, rq_block r = Some b -> b_height b = h) /\ aligned (h + 1) rs'
  end.

(* a requester holds a block only if it is assigned (clause 9), and it is assigned only to a peer
   the pool knows *)
Definition req_ok (is : list peer) (r : requester sig) : Prop :=
  (rq_block r <> None -> rq_peer r <> 0) /\ (rq_peer r <> 0 -> In (rq_peer r) is) /\
  (forall b, rq_block r = Some b -> sent (rq_peer r) b).

(* the pool knows no stopped peer and not the empty id *)
Definition ids_ok (S : list peer) (is : list peer) : Prop :=
  Forall (fun i => i <> 0 /\ ~ In i S) is.

Definition pool_ok (S : list peer) (pl : pool sig) : Prop :=
  aligned (p_height pl) (p_reqs pl) /\
  Forall (req_ok (ids pl)) (p_reqs pl) /\
  ids_ok S (ids pl).

Definition node_ok (n : node sig) : Prop := pool_ok (n_stopped n) (n_pool n).

Lemma is_stopped_iff : forall (n : node sig) p, is_stopped n p = true <-> In p (n_stopped n).
Proof.
  intros n p. unfold is_stopped. rewrite existsb_exists. split.
  - intros [x [Hx E]]. apply Z.eqb_eq in E. subst x. exact Hx.
  - intro H. exists p. split; [exact H | apply Z.eqb_refl].
Qed.

Lemma is_stopped_false : forall (n : node sig) p, is_stopped n p = false <-> ~ In p (n_stopped n).
Proof.
  intros n p. rewrite <- is_stopped_iff. destruct (is_stopped n p); split; intro H; congruence.
Qed.

(* ---- lists *)

Lemma aligned_app_new : forall rs h,
  aligned h rs -> aligned h (rs ++ [{| rq_peer := 0; rq_block := None |}]).
Proof.
  induction rs as [|r rs IH]; intros h H; cbn [app aligned] in *.
  - split; [intros b E; discriminate | exact I].
  - destruct H as [H1 H2]. split; [exact H1 | apply IH; exact H2].
Qed.

Lemma aligned_set_nth : forall rs h i (r' : requester sig),
  aligned h rs ->
  (forall b, rq_block r' = Some b -> b_height b = h + Z.of_nat i) ->
  aligned h (set_nth rs i r').
Proof.
  induction rs as [|r rs IH]; intros h i r' H Hr; [destruct i; exact I|].
  destruct H as [H1 H2]. destruct i as [|i]; cbn [set_nth aligned].
  - split; [|exact H2]. intros b E. rewrite (Hr b E). cbn. lia.
  - split; [exact H1|]. apply IH; [exact H2|]. intros b E. rewrite (Hr b E). lia.
Qed.

Lemma aligned_nth : forall rs h i (r : requester sig) b,
  aligned h rs -> nth_error rs i = Some r -> rq_block r = Some b -> b_height b = h + Z.of_nat i.
Proof.
  induction rs as [|r0 rs IH]; intros h i r b H Hn Hb; [destruct i; discriminate|].
  destruct H as [H1 H2]. destruct i as [|i]; cbn [nth_error] in Hn.
  - injection Hn as ->. rewrite (H1 b Hb). cbn. lia.
  - rewrite (IH (h + 1) i r b H2 Hn Hb). lia.
Qed.

Lemma aligned_map_redo : forall q rs h, aligned h rs -> aligned h (map (redo_req q) rs).
Proof.
  induction rs as [|r rs IH]; intros h H; [exact I|].
  destruct H as [H1 H2]. cbn [map aligned]. split; [|apply IH; exact H2].
  unfold redo_req. destruct (rq_peer r =? q); [intros b E; discriminate | exact H1].
Qed.

Lemma Forall_set_nth : forall (A : Type) (P : A -> Prop) l i x,
  Forall P l -> P x -> Forall P (set_nth l i x).
Proof.
  induction l as [|y l IH]; intros i x H Hx; [destruct i; constructor|].
  inversion H as [|? ? Hy Hl]; subst. destruct i; cbn [set_nth]; constructor; auto.
Qed.

Lemma nth_error_set_nth_eq : forall (A : Type) (l : list A) i x y,
  nth_error l i = Some y -> nth_error (set_nth l i x) i = Some x.
Proof.
  induction l as [|z l IH]; intros i x y H; [destruct i; discriminate|].
  destruct i; cbn [set_nth nth_error] in *; [reflexivity | eapply IH; exact H].
Qed.

Lemma nth_error_set_nth_neq : forall (A : Type) (l : list A) i j x,
  i <> j -> nth_error (set_nth l i x) j = nth_error l j.
Proof.
  induction l as [|z l IH]; intros i j x H; [destruct i; reflexivity|].
  destruct i, j; cbn [set_nth nth_error]; try reflexivity; try congruence.
  apply IH. congruence.
Qed.

Lemma length_set_nth : forall (A : Type) (l : list A) i x, length (set_nth l i x) = length l.
Proof.
  induction l as [|z l IH]; intros i x; [destruct i; reflexivity|].
  destruct i; cbn [set_nth length]; [reflexivity | rewrite IH; reflexivity].
Qed.

Lemma req_ok_mono : forall is is' (r : requester sig),
  (forall i, In i is -> In i is') -> req_ok is r -> req_ok is' r.
Proof. intros is is' r H [A [B C]]. split; [exact A | split; [intro H0; apply H, B, H0 | exact C]]. Qed.

Lemma Forall_req_ok_mono : forall is is' (rs : list (requester sig)),
  (forall i, In i is -> In i is') -> Forall (req_ok is) rs -> Forall (req_ok is') rs.
Proof. intros is is' rs H. apply Forall_impl. intro r. apply req_ok_mono. exact H. Qed.

(* ---- peers *)

Lemma find_peer_some : forall ps p x, find_peer ps p = Some x -> In x ps /\ bp_id x = p.
Proof.
  induction ps as [|y ps IH]; intros p x H; [discriminate|]. cbn [find_peer] in H.
  destruct (Z.eqb_spec (bp_id y) p) as [E|E].
  - injection H as <-. split; [left; reflexivity | exact E].
  - destruct (IH p x H) as [A B]. split; [right; exact A | exact B].
Qed.

Lemma find_peer_none : forall ps p, find_peer ps p = None -> ~ In p (map bp_id ps).
Proof.
  induction ps as [|y ps IH]; intros p H; [intros []|]. cbn [find_peer] in H.
  destruct (Z.eqb_spec (bp_id y) p) as [E|E]; [discriminate|].
  cbn [map In]. intros [A|A]; [exact (E A) | exact (IH p H A)].
Qed.

Lemma find_peer_in_ids : forall ps p x, find_peer ps p = Some x -> In p (map bp_id ps).
Proof.
  intros ps p x H. destruct (find_peer_some ps p x H) as [A B]. rewrite <- B. apply in_map. exact A.
Qed.

Lemma in_ids_find_peer : forall ps p, In p (map bp_id ps) -> exists x, find_peer ps p = Some x.
Proof.
  intros ps p H. destruct (find_peer ps p) as [x|] eqn:E; [exists x; reflexivity|].
  exfalso. exact (find_peer_none ps p E H).
Qed.

Lemma map_peer_ids : forall f p ps,
  (forall y, bp_id (f y) = bp_id y) -> map bp_id (map_peer f p ps) = map bp_id ps.
Proof.
  intros f p ps Hf. unfold map_peer. rewrite map_map. apply map_ext.
  intro y. destruct (bp_id y =? p); [apply Hf | reflexivity].
Qed.

Lemma filter_ids : forall p ps,
  map bp_id (filter (fun y => negb (bp_id y =? p)) ps) = filter (fun i => negb (i =? p)) (map bp_id ps).
Proof.
  induction ps as [|y ps IH]; [reflexivity|]. cbn [filter map].
  destruct (bp_id y =? p); cbn [negb map]; [exact IH | rewrite IH; reflexivity].
Qed.

Lemma in_filter_ids : forall p is i, In i (filter (fun i => negb (i =? p)) is) <-> In i is /\ i <> p.
Proof.
  intros p is i. rewrite filter_In. split; intros [A B]; split; try exact A.
  - intro E. subst i. rewrite Z.eqb_refl in B. discriminate.
  - apply negb_true_iff, Z.eqb_neq. exact B.
Qed.

(* ---- the pool functions keep the pool well-formed *)

Lemma make_next_requester_ok : forall S pl, pool_ok S pl -> pool_ok S (make_next_requester pl).
Proof.
  intros S pl [A [B C]]. unfold make_next_requester.
  destruct (_ >=? _); [repeat split; assumption|].
  destruct (_ >=? _); [repeat split; assumption|].
  destruct (_ >? _); [repeat split; assumption|].
  unfold pool_ok, ids. cbn [p_height p_reqs p_peers]. split; [apply aligned_app_new; exact A|].
  split; [|exact C]. apply Forall_app. split; [exact B|]. constructor; [|constructor].
  split; [|split]; cbn [rq_block rq_peer]; congruence.
Qed.

Lemma req_at_some : forall (pl : pool sig) h r,
  req_at pl h = Some r ->
  p_height pl <= h /\ nth_error (p_reqs pl) (Z.to_nat (h - p_height pl)) = Some r.
Proof.
  intros pl h r. unfold req_at. destruct (Z.ltb_spec h (p_height pl)); [discriminate|].
  intro H0. split; [lia | exact H0].
Qed.

Lemma set_peer_range_ok : forall S pl p base height,
  p <> 0 -> ~ In p S -> pool_ok S pl -> pool_ok S (set_peer_range pl p base height).
Proof.
  intros S pl p base height Hp Hs [A [B C]]. unfold set_peer_range, pool_ok, ids.
  cbn [p_height p_reqs p_peers]. split; [exact A|].
  destruct (find_peer (p_peers pl) p) as [x|] eqn:E.
  - rewrite map_peer_ids by reflexivity. split; assumption.
  - rewrite map_app. cbn [map bp_id]. split.
    + eapply Forall_req_ok_mono; [|exact B]. intros i Hi. apply in_or_app. left. exact Hi.
    + apply Forall_app. split; [exact C|]. constructor; [split; assumption | constructor].
Qed.

Lemma assign_ok : forall S pl h p, pool_ok S pl -> pool_ok S (assign pl h p).
Proof.
  intros S pl h p [A [B C]]. unfold assign.
  destruct (req_at pl h) as [r|] eqn:Er; [|repeat split; assumption].
  destruct (negb (rq_peer r =? 0)) eqn:E0; [repeat split; assumption|].
  destruct (find_peer (p_peers pl) p) as [x|] eqn:Ef; [|repeat split; assumption].
  destruct (negb (eligible h x)); [repeat split; assumption|].
  apply req_at_some in Er as [Hh Hn].
  assert (Hin : In p (ids pl)) by (exact (find_peer_in_ids _ _ _ Ef)).
  assert (Hp0 : p <> 0).
  { unfold ids_ok in C. rewrite Forall_forall in C. exact (proj1 (C p Hin)). }
  unfold pool_ok, ids. cbn [p_height p_reqs p_peers].
  rewrite map_peer_ids by reflexivity. fold (ids pl).
  split; [|split; [|exact C]].
  - apply aligned_set_nth; [exact A|]. cbn [rq_block]. intros b Eb.
    rewrite (aligned_nth _ _ _ _ _ A Hn Eb). reflexivity.
  - apply Forall_set_nth; [exact B|]. split; [|split]; cbn [rq_block rq_peer]; try (intros _; assumption).
    intros b Eb. exfalso. rewrite Forall_forall in B. destruct (B r (nth_error_In _ _ Hn)) as [R1 _].
    apply negb_false_iff, Z.eqb_eq in E0. apply R1; congruence.
Qed.

Lemma add_block_ok : forall S pl p b, p <> 0 -> sent p b -> pool_ok S pl -> pool_ok S (add_block pl p b).
Proof.
  intros S pl p b Hp0 Hsent [A [B C]]. unfold add_block.
  destruct (req_at pl (b_height b)) as [r|] eqn:Er.
  - destruct (_ || _) eqn:Ec; [repeat split; assumption|].
    apply orb_false_iff in Ec as [Ec1 Ec2]. apply negb_false_iff, Z.eqb_eq in Ec2.
    apply req_at_some in Er as [Hh Hn].
    assert (Hr : req_ok (ids pl) r).
    { rewrite Forall_forall in B. apply B. eapply nth_error_In. exact Hn. }
    unfold pool_ok, ids. cbn [p_height p_reqs p_peers].
    rewrite map_peer_ids by reflexivity. fold (ids pl).
    split; [|split; [|exact C]].
    + apply aligned_set_nth; [exact A|]. cbn [rq_block]. intros b' Eb. injection Eb as <-. lia.
    + apply Forall_set_nth; [exact B|]. destruct Hr as [R1 [R2 R3]].
      split; [|split]; cbn [rq_block rq_peer]; [intros _; congruence | exact R2 |].
      intros b' Eb. injection Eb as <-. rewrite Ec2. exact Hsent.
  - destruct (_ >? _); repeat split; assumption.
Qed.

Lemma filter_notin : forall q is, ~ In q is -> filter (fun i => negb (i =? q)) is = is.
Proof.
  induction is as [|i is IH]; intro H; [reflexivity|]. cbn [filter].
  destruct (Z.eqb_spec i q) as [E|E]; [exfalso; apply H; left; exact E|].
  cbn [negb]. rewrite IH; [reflexivity|]. intro H1. apply H. right. exact H1.
Qed.

Lemma remove_peer_shape : forall (pl : pool sig) q,
  p_reqs (remove_peer pl q) = map (redo_req q) (p_reqs pl) /\
  p_height (remove_peer pl q) = p_height pl /\
  ids (remove_peer pl q) = filter (fun i => negb (i =? q)) (ids pl) /\
  p_errors (remove_peer pl q) = p_errors pl.
Proof.
  intros pl q. unfold remove_peer. destruct (find_peer (p_peers pl) q) as [x|] eqn:E;
    unfold ids; cbn [p_reqs p_height p_peers p_errors]; repeat split.
  - apply filter_ids.
  - symmetry. apply filter_notin. exact (find_peer_none _ _ E).
Qed.

Lemma redo_req_ok : forall is q (r : requester sig),
  req_ok is r -> req_ok (filter (fun i => negb (i =? q)) is) (redo_req q r).
Proof.
  intros is q r [A [B C]]. unfold redo_req. destruct (Z.eqb_spec (rq_peer r) q) as [E|E].
  - split; [|split]; cbn [rq_block rq_peer]; congruence.
  - split; [exact A|]. split; [|exact C]. intro H0. apply in_filter_ids. split; [exact (B H0) | exact E].
Qed.

Lemma remove_peer_ok : forall S pl q,
  pool_ok S pl -> pool_ok S (remove_peer pl q) /\ ~ In q (ids (remove_peer pl q)).
Proof.
  intros S pl q [A [B C]]. destruct (remove_peer_shape pl q) as [E1 [E2 [E3 _]]].
  unfold pool_ok. rewrite E1, E2, E3. split; [split; [|split]|].
  - apply aligned_map_redo. exact A.
  - rewrite Forall_forall in *. intros r' Hr'. apply in_map_iff in Hr' as [r [<- Hr]].
    apply redo_req_ok. exact (B r Hr).
  - unfold ids_ok in *. rewrite Forall_forall in *. intros i Hi. apply in_filter_ids in Hi as [Hi _].
    exact (C i Hi).
  - intro H. apply in_filter_ids in H as [_ H]. exact (H eq_refl).
Qed.

Lemma pool_ok_cons : forall S pl p, pool_ok S pl -> ~ In p (ids pl) -> pool_ok (p :: S) pl.
Proof.
  intros S pl p [A [B C]] Hp. split; [exact A|]. split; [exact B|].
  unfold ids_ok in *. rewrite Forall_forall in *. intros i Hi. destruct (C i Hi) as [C1 C2].
  split; [exact C1|]. intros [E|E]; [subst i; exact (Hp Hi) | exact (C2 E)].
Qed.

Lemma stop_peer_ok : forall (n : node sig) p, node_ok n -> node_ok (stop_peer n p).
Proof.
  intros n p H. unfold stop_peer. destruct ((p =? 0) || is_stopped n p); [exact H|].
  unfold node_ok. cbn [n_stopped n_pool]. destruct (remove_peer_ok _ _ p H) as [H1 H2].
  apply pool_ok_cons; assumption.
Qed.

Lemma stop_peer_stopped : forall (n : node sig) p, p <> 0 -> In p (n_stopped (stop_peer n p)).
Proof.
  intros n p Hp. unfold stop_peer. destruct (Z.eqb_spec p 0) as [E|E]; [contradiction|]. cbn [orb].
  destruct (is_stopped n p) eqn:Es; [apply is_stopped_iff; exact Es | cbn [n_stopped]; left; reflexivity].
Qed.

Lemma stop_peer_mono : forall (n : node sig) p q, In q (n_stopped n) -> In q (n_stopped (stop_peer n p)).
Proof.
  intros n p q H. unfold stop_peer. destruct ((p =? 0) || is_stopped n p); [exact H|].
  cbn [n_stopped]. right. exact H.
Qed.

Lemma pop_request_ok : forall S (pl pl' : pool sig), pop_request pl = Some pl' -> pool_ok S pl -> pool_ok S pl'.
Proof.
  intros S pl pl' E [A [B C]]. unfold pop_request in E. destruct (p_reqs pl) as [|r rs] eqn:Er; [discriminate|].
  injection E as <-. unfold pool_ok, ids. cbn [p_height p_reqs p_peers].
  destruct A as [_ A]. inversion B; subst. repeat split; assumption.
Qed.

Lemma redo_request_ok : forall S (pl pl1 : pool sig) h p1,
  redo_request pl h = Some (pl1, p1) -> pool_ok S pl -> pool_ok S pl1.
Proof.
  intros S pl pl1 h p1 E H. unfold redo_request in E. destruct (req_at pl h) as [r|]; [|discriminate].
  destruct (rq_peer r =? 0); injection E as <- <-; [exact H|]. exact (proj1 (remove_peer_ok _ _ _ H)).
Qed.

Lemma reject_step_ok : forall (n : node sig) v f s, node_ok n -> node_ok (reject_step n v f s).
Proof.
  intros n v f s H. unfold reject_step.
  destruct (redo_request (n_pool n) (b_height f)) as [[pl1 p1]|] eqn:E1; [|exact H].
  assert (H1 : node_ok (stop_peer (with_pool n pl1) p1)).
  { apply stop_peer_ok. exact (redo_request_ok _ _ _ _ _ E1 H). }
  set (n1 := stop_peer (with_pool n pl1) p1) in *.
  destruct (redo_request (n_pool n1) (b_height s)) as [[pl2 p2]|] eqn:E2; [|exact H1].
  assert (H2 : node_ok (with_pool n1 pl2)) by exact (redo_request_ok _ _ _ _ _ E2 H1).
  assert (H3 : node_ok (if p2 =? p1 then with_pool n1 pl2 else stop_peer (with_pool n1 pl2) p2)).
  { destruct (p2 =? p1); [exact H2 | apply stop_peer_ok; exact H2]. }
  exact H3.
Qed.

Lemma process_ok : forall vc (n : node sig), node_ok n -> node_ok (process' vc n).
Proof.
  intros vc n H. unfold process_step.
  destruct (peek_two (n_pool n)) as [[f|] [s|]]; try exact H.
  destruct (verify_first' vc (n_state n) f s); try (apply reject_step_ok; exact H).
  destruct (pop_request (n_pool n)) as [pl|] eqn:Ep; [|exact H].
  pose proof (pop_request_ok _ _ _ Ep H) as H1.
  destruct (apply_block (n_state n) f); exact H1.
Qed.

Lemma add_block_errors : forall (pl : pool sig) p b,
  p_errors (add_block pl p b) = p_errors pl \/ p_errors (add_block pl p b) = p :: p_errors pl.
Proof.
  intros pl p b. unfold add_block. destruct (req_at pl (b_height b)) as [r|].
  - destruct (_ || _); [right | left]; reflexivity.
  - destruct (_ >? _); [right | left]; reflexivity.
Qed.

(* a block response either is taken / ignored, or its sender is reported and stopped at once *)
Lemma step_block_cases : forall vc (n : node sig) p b,
  n_panicked n = false -> (p =? 0) || is_stopped n p = false ->
  (p_errors (add_block (n_pool n) p b) = p_errors (n_pool n) /\
   step' vc n (OBlock p b) = with_pool n (add_block (n_pool n) p b)) \/
  (p_errors (add_block (n_pool n) p b) = p :: p_errors (n_pool n) /\
   step' vc n (OBlock p b) = stop_peer (with_pool n (add_block (n_pool n) p b)) p).
Proof.
  intros vc n p b Hp Hc. unfold step. rewrite Hp, Hc. unfold stop_reported. cbn [n_pool with_pool].
  destruct (add_block_errors (n_pool n) p b) as [E|E]; rewrite E.
  - left. split; [reflexivity|]. rewrite Nat.sub_diag. reflexivity.
  - right. split; [reflexivity|].
    match goal with |- context [firstn ?k _] => replace k with 1%nat by (cbn [length]; lia) end.
    reflexivity.
Qed.

Lemma step_remove_is_stop : forall vc (n : node sig) p,
  n_panicked n = false -> step' vc n (ORemovePeer p) = stop_peer n p.
Proof. intros vc n p Hp. unfold step, stop_peer. rewrite Hp. reflexivity. Qed.

Definition op_sent (o : op sig) : Prop :=
  match o with OBlock p b => sent p b | _ => True end.

Theorem step_ok : forall vc (n : node sig) o, op_sent o -> node_ok n -> node_ok (step' vc n o).
Proof.
  intros vc n o Hsent H. destruct (n_panicked n) eqn:Hp; [unfold step; rewrite Hp; exact H|].
  destruct o as [p base height| |h p|p b|p|].
  - unfold step. rewrite Hp. destruct (Z.eqb_spec p 0) as [E0|E0]; [exact H|]. cbn [orb].
    destruct (is_stopped n p) eqn:Es; [exact H|].
    apply set_peer_range_ok; [exact E0 | apply is_stopped_false; exact Es | exact H].
  - unfold step. rewrite Hp. apply make_next_requester_ok. exact H.
  - unfold step. rewrite Hp. apply assign_ok. exact H.
  - destruct ((p =? 0) || is_stopped n p) eqn:Hc; [unfold step; rewrite Hp, Hc; exact H|].
    assert (E0 : p <> 0) by (apply orb_false_iff in Hc as [Hc _]; apply Z.eqb_neq; exact Hc).
    assert (H1 : node_ok (with_pool n (add_block (n_pool n) p b))) by (apply add_block_ok; assumption).
    destruct (step_block_cases vc n p b Hp Hc) as [[_ E]|[_ E]]; rewrite E;
      [exact H1 | apply stop_peer_ok; exact H1].
  - rewrite step_remove_is_stop by exact Hp. apply stop_peer_ok. exact H.
  - unfold step. rewrite Hp. apply process_ok. exact H.
Qed.

Theorem run_ok : forall vc ops (n : node sig), Forall op_sent ops -> node_ok n -> node_ok (run' vc ops n).
Proof.
  intros vc ops. induction ops as [|o ops IH]; intros n Hs H; [exact H|].
  inversion Hs; subst. cbn [run fold_left]. apply IH; [assumption|]. apply step_ok; assumption.
Qed.

(* consequences of well-formedness: a stopped peer owns no requester and is not known to the pool;
   a held block sits in an assigned requester whose peer is known, not stopped, not the empty id *)
Lemma ok_stopped_out : forall (n : node sig) p,
  node_ok n -> p <> 0 -> In p (n_stopped n) ->
  ~ In p (ids (n_pool n)) /\ forall r, In r (p_reqs (n_pool n)) -> rq_peer r <> p.
Proof.
  intros n p [A [B C]] E0 Hs. unfold ids_ok in C. rewrite Forall_forall in B, C.
  assert (H1 : ~ In p (ids (n_pool n))) by (intro Hi; exact (proj2 (C p Hi) Hs)).
  split; [exact H1|]. intros r Hr E. destruct (B r Hr) as [_ [B2 _]].
  apply H1. rewrite <- E. apply B2. congruence.
Qed.

(* ================================================================== Part B: a rejected pair *)

Lemma redo_req_idem : forall q (r : requester sig), redo_req q (redo_req q r) = redo_req q r.
Proof.
  intros q r. unfold redo_req. destruct (rq_peer r =? q) eqn:E.
  - cbn [rq_peer]. destruct (0 =? q); reflexivity.
  - rewrite E. reflexivity.
Qed.

Lemma map_redo_idem : forall q (rs : list (requester sig)),
  map (redo_req q) (map (redo_req q) rs) = map (redo_req q) rs.
Proof. intros q rs. rewrite map_map. apply map_ext. intro r. apply redo_req_idem. Qed.

Lemma filter_idem : forall q (is : list peer),
  filter (fun i => negb (i =? q)) (filter (fun i => negb (i =? q)) is) = filter (fun i => negb (i =? q)) is.
Proof.
  intros q is. apply filter_notin. intro H. apply in_filter_ids in H as [_ H]. exact (H eq_refl).
Qed.

Lemma req_at_remove_peer : forall (pl : pool sig) q h,
  req_at (remove_peer pl q) h = option_map (redo_req q) (req_at pl h).
Proof.
  intros pl q h. destruct (remove_peer_shape pl q) as [E1 [E2 _]]. unfold req_at. rewrite E1, E2.
  destruct (h <? p_height pl); [reflexivity|]. apply nth_error_map.
Qed.

Lemma redo_request_at : forall (pl : pool sig) h r,
  req_at pl h = Some r ->
  redo_request pl h = Some (if rq_peer r =? 0 then (pl, 0) else (remove_peer pl (rq_peer r), rq_peer r)).
Proof. intros pl h r E. unfold redo_request. rewrite E. destruct (rq_peer r =? 0); reflexivity. Qed.

Lemma stop_peer_fresh : forall (n : node sig) p,
  p <> 0 -> ~ In p (n_stopped n) ->
  stop_peer n p =
  {| n_state := n_state n; n_store := n_store n; n_pool := remove_peer (n_pool n) p;
     n_stopped := p :: n_stopped n; n_log := n_log n; n_panicked := n_panicked n |}.
Proof.
  intros n p H0 Hs. unfold stop_peer. apply Z.eqb_neq in H0. apply is_stopped_false in Hs.
  rewrite H0, Hs. reflexivity.
Qed.

(* the peer a requester is assigned to (0 = none / no requester) *)
Definition supplier (n : node sig) (h : Z) : peer :=
  match req_at (n_pool n) h with Some r => rq_peer r | None => 0 end.

Definition fresh_req : requester sig := {| rq_peer := 0; rq_block := None |}.

Lemma reject_step_shape : forall (n : node sig) v f s r1 r2,
  req_at (n_pool n) (p_height (n_pool n)) = Some r1 ->
  req_at (n_pool n) (p_height (n_pool n) + 1) = Some r2 ->
  b_height f = p_height (n_pool n) -> b_height s = p_height (n_pool n) + 1 ->
  rq_peer r1 <> 0 -> rq_peer r2 <> 0 ->
  ~ In (rq_peer r1) (n_stopped n) -> ~ In (rq_peer r2) (n_stopped n) ->
  let p1 := rq_peer r1 in
  let p2 := rq_peer r2 in
  let n' := reject_step n v f s in
  n_store n' = n_store n /\ n_state n' = n_state n /\ n_panicked n' = n_panicked n /\
  p_height (n_pool n') = p_height (n_pool n) /\
  p_reqs (n_pool n') = map (redo_req p2) (map (redo_req p1) (p_reqs (n_pool n))) /\
  ids (n_pool n') = filter (fun i => negb (i =? p2)) (filter (fun i => negb (i =? p1)) (ids (n_pool n))) /\
  n_stopped n' = (if p2 =? p1 then [p1] else [p2; p1]) ++ n_stopped n /\
  n_log n' = E_rejected v f s p1 (if p2 =? p1 then 0 else p2) :: n_log n.
Proof.
  intros n v f s r1 r2 E1 E2 Hf Hs N1 N2 S1 S2 p1 p2. cbv zeta.
  unfold reject_step. rewrite Hf, (redo_request_at _ _ _ E1).
  fold p1. assert (Z1 : (p1 =? 0) = false) by (apply Z.eqb_neq; exact N1). rewrite Z1.
  rewrite (stop_peer_fresh (with_pool n (remove_peer (n_pool n) p1)) p1 N1 S1).
  cbn [with_pool n_state n_store n_pool n_stopped n_log n_panicked].
  set (pl1 := remove_peer (remove_peer (n_pool n) p1) p1).
  assert (Eh1 : p_height pl1 = p_height (n_pool n)).
  { subst pl1. rewrite !(proj1 (proj2 (remove_peer_shape _ _))). reflexivity. }
  assert (Er1 : p_reqs pl1 = map (redo_req p1) (p_reqs (n_pool n))).
  { subst pl1. rewrite !(proj1 (remove_peer_shape _ _)). apply map_redo_idem. }
  assert (Ei1 : ids pl1 = filter (fun i => negb (i =? p1)) (ids (n_pool n))).
  { subst pl1. rewrite !(proj1 (proj2 (proj2 (remove_peer_shape _ _)))). apply filter_idem. }
  assert (E2' : req_at pl1 (b_height s) = Some (redo_req p1 r2)).
  { rewrite Hs. subst pl1. rewrite !req_at_remove_peer, E2. cbn [option_map]. rewrite redo_req_idem. reflexivity. }
  rewrite (redo_request_at _ _ _ E2').
  destruct (Z.eqb_spec p2 p1) as [E|E].
  - (* one peer supplied both blocks *)
    assert (Ered : redo_req p1 r2 = fresh_req).
    { unfold redo_req. fold p2. rewrite E, Z.eqb_refl. reflexivity. }
    rewrite Ered. cbn [fresh_req rq_peer]. change (0 =? 0) with true. cbv iota.
    assert (Z0 : (0 =? p1) = false) by (apply Z.eqb_neq; intro H0; apply N1; symmetry; exact H0). rewrite Z0.
    unfold stop_peer. change (0 =? 0) with true. cbn [orb with_pool n_state n_store n_pool n_stopped n_log n_panicked].
    rewrite Eh1, Er1, Ei1. repeat split.
    + rewrite E. symmetry. apply map_redo_idem.
    + rewrite E. symmetry. apply filter_idem.
  - assert (Ered : redo_req p1 r2 = r2).
    { unfold redo_req. fold p2. apply Z.eqb_neq in E. rewrite E. reflexivity. }
    rewrite Ered. fold p2. assert (Z2 : (p2 =? 0) = false) by (apply Z.eqb_neq; exact N2). rewrite Z2.
    apply Z.eqb_neq in E. rewrite E.
    rewrite stop_peer_fresh; cbn [with_pool n_state n_store n_pool n_stopped n_log n_panicked].
    + repeat split.
      * rewrite !(proj1 (proj2 (remove_peer_shape _ _))). exact Eh1.
      * rewrite !(proj1 (remove_peer_shape _ _)), map_redo_idem, Er1. reflexivity.
      * rewrite !(proj1 (proj2 (proj2 (remove_peer_shape _ _)))), filter_idem, Ei1. reflexivity.
    + exact N2.
    + intros [H|H]; [apply Z.eqb_neq in E; congruence | exact (S2 H)].
Qed.

Lemma req_at_map : forall (pl pl' : pool sig) g h,
  p_height pl' = p_height pl -> p_reqs pl' = map g (p_reqs pl) ->
  req_at pl' h = option_map g (req_at pl h).
Proof.
  intros pl pl' g h E1 E2. unfold req_at. rewrite E1, E2.
  destruct (h <? p_height pl); [reflexivity | apply nth_error_map].
Qed.

(* what PeekTwoBlocks returns in a well-formed node: the blocks of heights pool.height and
   pool.height+1, each held by a requester assigned to a known, not stopped peer *)
Lemma peek_two_some : forall (n : node sig) f s,
  node_ok n -> peek_two (n_pool n) = (Some f, Some s) ->
  exists r1 r2,
    req_at (n_pool n) (p_height (n_pool n)) = Some r1 /\
    req_at (n_pool n) (p_height (n_pool n) + 1) = Some r2 /\
    rq_block r1 = Some f /\ rq_block r2 = Some s /\
    b_height f = p_height (n_pool n) /\ b_height s = p_height (n_pool n) + 1 /\
    rq_peer r1 <> 0 /\ rq_peer r2 <> 0 /\
    ~ In (rq_peer r1) (n_stopped n) /\ ~ In (rq_peer r2) (n_stopped n) /\
    In (rq_peer r1) (ids (n_pool n)) /\ In (rq_peer r2) (ids (n_pool n)) /\
    sent (rq_peer r1) f /\ sent (rq_peer r2) s.
Proof.
  intros n f s [A [B C]] H. unfold peek_two, block_at in H.
  destruct (req_at (n_pool n) (p_height (n_pool n))) as [r1|] eqn:E1; [|discriminate].
  destruct (req_at (n_pool n) (p_height (n_pool n) + 1)) as [r2|] eqn:E2; [|discriminate].
  injection H as Hb1 Hb2. exists r1, r2.
  destruct (req_at_some _ _ _ E1) as [_ N1]. destruct (req_at_some _ _ _ E2) as [_ N2].
  pose proof (aligned_nth _ _ _ _ _ A N1 Hb1) as Hf. pose proof (aligned_nth _ _ _ _ _ A N2 Hb2) as Hs.
  rewrite Forall_forall in B. unfold ids_ok in C. rewrite Forall_forall in C.
  destruct (B r1 (nth_error_In _ _ N1)) as [R1a [R1b R1c]]. destruct (B r2 (nth_error_In _ _ N2)) as [R2a [R2b R2c]].
  assert (P1 : rq_peer r1 <> 0) by (apply R1a; congruence).
  assert (P2 : rq_peer r2 <> 0) by (apply R2a; congruence).
  repeat split; try assumption; try lia.
  - exact (proj2 (C _ (R1b P1))).
  - exact (proj2 (C _ (R2b P2))).
  - exact (R1b P1).
  - exact (R2b P2).
  - exact (R1c _ Hb1).
  - exact (R2c _ Hb2).
Qed.

(* ---- clause 3 / 6 for one processing turn.
   In ANY well-formed node (Part A: every node reached from a well-formed one by any operation
   list), a processing turn whose pair (first, second) fails the acceptance rule — the commit
   check of first with second.LastCommit, or ValidateBlock — stores nothing, executes nothing,
   leaves pool.height, does not panic, stops BOTH peers that supplied the pair (exactly them; a
   single peer when it supplied both), removes them from the pool and from every requester, and
   re-opens both heights: their requesters exist, unassigned and empty (redo is immediate in the
   model).  Every requester that belonged to neither supplier is untouched. *)
Theorem bad_response_turn : forall vc (n : node sig) first second,
  node_ok n -> n_panicked n = false ->
  peek_two (n_pool n) = (Some first, Some second) ->
  verify_first' vc (n_state n) first second <> SV_accept ->
  let h := p_height (n_pool n) in
  let p1 := supplier n h in
  let p2 := supplier n (h + 1) in
  let n' := step' vc n OProcess in
  (b_height first = h /\ b_height second = h + 1 /\
   p1 <> 0 /\ p2 <> 0 /\ ~ In p1 (n_stopped n) /\ ~ In p2 (n_stopped n)) /\
  (n_store n' = n_store n /\ n_state n' = n_state n /\ n_panicked n' = false /\
   p_height (n_pool n') = h /\ length (p_reqs (n_pool n')) = length (p_reqs (n_pool n))) /\
  (n_stopped n' = (if p2 =? p1 then [p1] else [p2; p1]) ++ n_stopped n /\
   forall q, In q (n_stopped n') <-> q = p1 \/ q = p2 \/ In q (n_stopped n)) /\
  (~ In p1 (ids (n_pool n')) /\ ~ In p2 (ids (n_pool n')) /\
   forall r, In r (p_reqs (n_pool n')) -> rq_peer r <> p1 /\ rq_peer r <> p2) /\
  (req_at (n_pool n') h = Some fresh_req /\ req_at (n_pool n') (h + 1) = Some fresh_req) /\
  (forall k r, req_at (n_pool n) k = Some r -> rq_peer r <> p1 -> rq_peer r <> p2 ->
               req_at (n_pool n') k = Some r) /\
  (exists v q2, n_log n' = E_rejected v first second p1 q2 :: n_log n /\ v <> SV_accept /\
                (q2 = p2 \/ (q2 = 0 /\ p2 = p1))) /\
  node_ok n'.
Proof.
  intros vc n f s Hok Hp Hpeek Hv h p1 p2 n'.
  destruct (peek_two_some n f s Hok Hpeek)
    as [r1 [r2 [E1 [E2 [B1 [B2 [Hf [Hs [N1 [N2 [S1 [S2 [I1 [I2 _]]]]]]]]]]]]]].
  assert (Ep1 : p1 = rq_peer r1) by (unfold p1, supplier, h; rewrite E1; reflexivity).
  assert (Ep2 : p2 = rq_peer r2) by (unfold p2, supplier, h; rewrite E2; reflexivity).
  assert (Hok' : node_ok n') by (apply step_ok; [exact I | exact Hok]).
  assert (En' : exists v, v <> SV_accept /\ n' = reject_step n v f s).
  { unfold n', step, process_step. rewrite Hp, Hpeek.
    destruct (verify_first' vc (n_state n) f s) eqn:Ev; [contradiction| |];
      eexists; (split; [|reflexivity]); discriminate. }
  destruct En' as [v [Hva En']].
  destruct (reject_step_shape n v f s r1 r2 E1 E2 Hf Hs N1 N2 S1 S2)
    as [T1 [T2 [T3 [T4 [T5 [T6 [T7 T8]]]]]]].
  rewrite <- En' in T1, T2, T3, T4, T5, T6, T7, T8. rewrite <- Ep1, <- Ep2 in T5, T6, T7, T8. clear En'.
  assert (Hst : forall q, In q (n_stopped n') <-> q = p1 \/ q = p2 \/ In q (n_stopped n)).
  { intro q. rewrite T7. destruct (Z.eqb_spec p2 p1) as [E|E]; cbn [app In]; intuition congruence. }
  assert (Hredo : forall k, req_at (n_pool n') k =
                            option_map (fun r => redo_req p2 (redo_req p1 r)) (req_at (n_pool n) k)).
  { intro k. apply req_at_map; [exact T4|]. rewrite T5, map_map. reflexivity. }
  split; [rewrite Ep1, Ep2; repeat split; assumption|].
  split; [repeat split; try assumption; try congruence; rewrite T5, !map_length; reflexivity|].
  split; [split; [exact T7 | exact Hst]|].
  split.
  { assert (Q1 : In p1 (n_stopped n')) by (apply Hst; left; reflexivity).
    assert (Q2 : In p2 (n_stopped n')) by (apply Hst; right; left; reflexivity).
    assert (P1 : p1 <> 0) by (rewrite Ep1; exact N1). assert (P2 : p2 <> 0) by (rewrite Ep2; exact N2).
    destruct (ok_stopped_out n' p1 Hok' P1 Q1) as [A1 A2].
    destruct (ok_stopped_out n' p2 Hok' P2 Q2) as [A3 A4].
    repeat split; try assumption; [apply A2 | apply A4]; assumption. }
  split.
  { rewrite !Hredo. fold h. unfold h. rewrite E1, E2. cbn [option_map].
    assert (F1 : redo_req p2 (redo_req p1 r1) = fresh_req).
    { unfold redo_req at 2. rewrite <- Ep1, Z.eqb_refl. unfold redo_req. cbn [rq_peer].
      destruct (0 =? p2); reflexivity. }
    assert (F2 : redo_req p2 (redo_req p1 r2) = fresh_req).
    { unfold redo_req at 2. rewrite <- Ep2. destruct (Z.eqb_spec p2 p1) as [E|E].
      - unfold redo_req. cbn [rq_peer]. destruct (0 =? p2); reflexivity.
      - unfold redo_req. rewrite <- Ep2, Z.eqb_refl. reflexivity. }
    rewrite F1, F2. split; reflexivity. }
  split.
  { intros k r Ek K1 K2. rewrite Hredo, Ek. cbn [option_map]. f_equal.
    unfold redo_req at 2. apply Z.eqb_neq in K1. rewrite K1.
    unfold redo_req. apply Z.eqb_neq in K2. rewrite K2. reflexivity. }
  split; [|exact Hok'].
  exists v, (if p2 =? p1 then 0 else p2). split; [exact T8|]. split; [exact Hva|].
  destruct (Z.eqb_spec p2 p1) as [E|E]; [right; split; [reflexivity | exact E] | left; reflexivity].
Qed.

(* ================================================================== Part C: over all runs *)

Lemma reject_stopped_mono : forall (n : node sig) v f s q,
  In q (n_stopped n) -> In q (n_stopped (reject_step n v f s)).
Proof.
  intros n v f s q H. unfold reject_step.
  destruct (redo_request (n_pool n) (b_height f)) as [[pl1 p1]|]; [|exact H].
  assert (H1 : In q (n_stopped (stop_peer (with_pool n pl1) p1))) by (apply stop_peer_mono; exact H).
  set (n1 := stop_peer (with_pool n pl1) p1) in *.
  destruct (redo_request (n_pool n1) (b_height s)) as [[pl2 p2]|]; [|exact H1].
  cbn [n_stopped]. destruct (p2 =? p1); [exact H1 | apply stop_peer_mono; exact H1].
Qed.

(* a stopped peer stays stopped: the model has no operation that re-admits a peer (in the real
   node that takes a new connection, i.e. Reactor.AddPeer) *)
Lemma step_stopped_mono : forall vc (n : node sig) o q,
  In q (n_stopped n) -> In q (n_stopped (step' vc n o)).
Proof.
  intros vc n o q H. destruct (n_panicked n) eqn:Hp; [unfold step; rewrite Hp; exact H|].
  destruct o as [p base height| |h p|p b|p|].
  - unfold step. rewrite Hp. destruct ((p =? 0) || is_stopped n p); exact H.
  - unfold step. rewrite Hp. exact H.
  - unfold step. rewrite Hp. exact H.
  - destruct ((p =? 0) || is_stopped n p) eqn:Hc; [unfold step; rewrite Hp, Hc; exact H|].
    destruct (step_block_cases vc n p b Hp Hc) as [[_ E]|[_ E]]; rewrite E;
      [exact H | apply stop_peer_mono; exact H].
  - rewrite step_remove_is_stop by exact Hp. apply stop_peer_mono. exact H.
  - unfold step. rewrite Hp. unfold process_step.
    destruct (peek_two (n_pool n)) as [[f|] [s|]]; try exact H.
    destruct (verify_first' vc (n_state n) f s); try (apply reject_stopped_mono; exact H).
    destruct (pop_request (n_pool n)); [|exact H]. destruct (apply_block (n_state n) f); exact H.
Qed.

Lemma run_stopped_mono : forall vc ops (n : node sig) q,
  In q (n_stopped n) -> In q (n_stopped (run' vc ops n)).
Proof.
  intros vc ops. induction ops as [|o ops IH]; intros n q H; [exact H|].
  cbn [run fold_left]. apply IH. apply step_stopped_mono. exact H.
Qed.

(* whatever a stopped peer sends later is ignored, and it is never picked again *)
Lemma stopped_ignored : forall vc (n : node sig) q,
  node_ok n -> q <> 0 -> In q (n_stopped n) ->
  (forall b, step' vc n (OBlock q b) = n) /\
  (forall base height, step' vc n (OStatus q base height) = n) /\
  (forall h, n_pool (step' vc n (OPick h q)) = n_pool n).
Proof.
  intros vc n q Hok H0 Hs. pose proof (proj2 (is_stopped_iff n q) Hs) as Es.
  repeat split; intros; unfold step; destruct (n_panicked n); try reflexivity;
    try (rewrite Es, orb_true_r; reflexivity).
  cbn [with_pool n_pool]. unfold assign. destruct (req_at (n_pool n) h) as [r|]; [|reflexivity].
  destruct (negb (rq_peer r =? 0)); [reflexivity|].
  destruct (find_peer (p_peers (n_pool n)) q) as [x|] eqn:Ef; [|reflexivity].
  exfalso. exact (proj1 (ok_stopped_out n q Hok H0 Hs) (find_peer_in_ids _ _ _ Ef)).
Qed.

(* ---- the step that stores a block *)

Lemma op_eq_process : forall o : op sig, o = OProcess \/ o <> OProcess.
Proof. intro o. destruct o; try (right; discriminate). left. reflexivity. Qed.

Lemma step_log_other : forall vc (n : node sig) o,
  o <> OProcess ->
  n_log (step' vc n o) = n_log n /\ n_store (step' vc n o) = n_store n /\
  p_height (n_pool (step' vc n o)) = p_height (n_pool n).
Proof.
  intros vc n o Ho. destruct (n_panicked n) eqn:Hp; [unfold step; rewrite Hp; auto|].
  assert (Hstop : forall m p, n_log (stop_peer m p) = n_log m /\ n_store (stop_peer m p) = n_store m /\
                              p_height (n_pool (stop_peer m p)) = p_height (n_pool (m : node sig))).
  { intros m p. unfold stop_peer. destruct ((p =? 0) || is_stopped m p); [auto|].
    cbn [n_log n_store n_pool]. rewrite (proj1 (proj2 (remove_peer_shape _ _))). auto. }
  destruct o as [p base height| |h p|p b|p|]; try congruence.
  - unfold step. rewrite Hp. destruct ((p =? 0) || is_stopped n p); auto.
  - unfold step. rewrite Hp. cbn [with_pool n_log n_store n_pool]. repeat split.
    unfold make_next_requester. destruct (_ >=? _); [reflexivity|]. destruct (_ >=? _); [reflexivity|].
    destruct (_ >? _); reflexivity.
  - unfold step. rewrite Hp. cbn [with_pool n_log n_store n_pool]. repeat split.
    unfold assign. destruct (req_at (n_pool n) h); [|reflexivity].
    destruct (negb _); [reflexivity|]. destruct (find_peer _ _); [|reflexivity].
    destruct (negb _); reflexivity.
  - destruct ((p =? 0) || is_stopped n p) eqn:Hc; [unfold step; rewrite Hp, Hc; auto|].
    assert (Hadd : p_height (add_block (n_pool n) p b) = p_height (n_pool n)).
    { unfold add_block. destruct (req_at (n_pool n) (b_height b)).
      - destruct (_ || negb _); reflexivity.
      - destruct (_ >? _); reflexivity. }
    destruct (step_block_cases vc n p b Hp Hc) as [[_ E]|[_ E]]; rewrite E.
    + cbn [with_pool n_log n_store n_pool]. auto.
    + destruct (Hstop (with_pool n (add_block (n_pool n) p b)) p) as [A [B C]].
      rewrite A, B, C. cbn [with_pool n_log n_store n_pool]. auto.
  - rewrite step_remove_is_stop by exact Hp. apply Hstop.
Qed.

Lemma process_accept_shape : forall vc (n : node sig) f s,
  n_panicked n = false ->
  peek_two (n_pool n) = (Some f, Some s) ->
  verify_first' vc (n_state n) f s = SV_accept ->
  let n' := step' vc n OProcess in
  n_log n' = E_saved (n_state n) f s :: n_log n /\
  n_store n' = save_block (n_store n) f (b_last_commit s) /\
  p_height (n_pool n') = p_height (n_pool n) + 1 /\
  p_reqs (n_pool n') = tl (p_reqs (n_pool n)) /\
  p_peers (n_pool n') = p_peers (n_pool n) /\
  n_stopped n' = n_stopped n.
Proof.
  intros vc n f s Hp Hpeek Hv. cbv zeta. unfold step, process_step. rewrite Hp, Hpeek, Hv.
  unfold pop_request. destruct (p_reqs (n_pool n)) as [|r rs] eqn:Er.
  - exfalso. unfold peek_two, block_at, req_at in Hpeek. rewrite Er, Z.ltb_irrefl in Hpeek.
    destruct (Z.to_nat _) in Hpeek; discriminate.
  - destruct (apply_block (n_state n) f); cbn [n_log n_store n_pool n_stopped p_height p_reqs p_peers tl];
      repeat split.
Qed.

(* the events a step can add to the log *)
Lemma reject_log : forall (n : node sig) v f s,
  n_log (reject_step n v f s) = n_log n \/
  exists p1 p2, n_log (reject_step n v f s) = E_rejected v f s p1 p2 :: n_log n.
Proof.
  intros n v f s. unfold reject_step.
  destruct (redo_request (n_pool n) (b_height f)) as [[pl1 p1]|]; [|left; reflexivity].
  destruct (stop_peer_frame sig (with_pool n pl1) p1) as [A _]. cbn [with_pool n_log] in A.
  destruct (redo_request (n_pool (stop_peer (with_pool n pl1) p1)) (b_height s)) as [[pl2 p2]|].
  - right. exists p1, p2. cbn [n_log]. destruct (p2 =? p1).
    + cbn [with_pool n_log]. rewrite A. reflexivity.
    + rewrite (proj1 (stop_peer_frame sig _ p2)). cbn [with_pool n_log]. rewrite A. reflexivity.
  - left. cbn [panic n_log]. exact A.
Qed.

Lemma step_log_cases : forall vc (n : node sig) o,
  n_log (step' vc n o) = n_log n \/
  (o = OProcess /\ n_panicked n = false /\
   exists f s e, peek_two (n_pool n) = (Some f, Some s) /\
     n_log (step' vc n o) = e :: n_log n /\
     ((verify_first' vc (n_state n) f s = SV_accept /\ e = E_saved (n_state n) f s) \/
      (verify_first' vc (n_state n) f s <> SV_accept /\ exists v p1 p2, e = E_rejected v f s p1 p2))).
Proof.
  intros vc n o. destruct (n_panicked n) eqn:Hp; [left; unfold step; rewrite Hp; reflexivity|].
  destruct o as [p base height| |h p|p b|p|];
    try (left; apply step_log_other; discriminate).
  destruct (peek_two (n_pool n)) as [[f|] [s|]] eqn:Hpeek;
    try solve [left; unfold step, process_step; rewrite Hp, Hpeek; reflexivity].
  destruct (verify_first' vc (n_state n) f s) eqn:Hv.
  - right. split; [reflexivity|]. split; [reflexivity|]. exists f, s, (E_saved (n_state n) f s).
    split; [reflexivity|]. split; [exact (proj1 (process_accept_shape vc n f s Hp Hpeek Hv))|].
    left. split; [exact Hv | reflexivity].
  - unfold step, process_step. rewrite Hp, Hpeek, Hv.
    destruct (reject_log n (SV_bad_commit r) f s) as [E|[p1 [p2 E]]]; [left; exact E|].
    right. split; [reflexivity|]. split; [reflexivity|]. exists f, s, (E_rejected (SV_bad_commit r) f s p1 p2).
    split; [reflexivity|]. split; [exact E|]. right. split; [rewrite Hv; discriminate|]. eauto.
  - unfold step, process_step. rewrite Hp, Hpeek, Hv.
    destruct (reject_log n SV_bad_block f s) as [E|[p1 [p2 E]]]; [left; exact E|].
    right. split; [reflexivity|]. split; [reflexivity|]. exists f, s, (E_rejected SV_bad_block f s p1 p2).
    split; [reflexivity|]. split; [exact E|]. right. split; [rewrite Hv; discriminate|]. eauto.
Qed.

(* every event in the log after a run was either there before or was logged by one processing
   turn [OProcess] of the run, on the pair PeekTwoBlocks returned in the node [m] reached by the
   operations before it *)
Lemma event_origin : forall vc ops (n : node sig) e,
  In e (n_log (run' vc ops n)) ->
  In e (n_log n) \/
  exists a c, ops = a ++ OProcess :: c /\
    let m := run' vc a n in
    n_panicked m = false /\
    exists f s, peek_two (n_pool m) = (Some f, Some s) /\
      n_log (step' vc m OProcess) = e :: n_log m /\
      ((verify_first' vc (n_state m) f s = SV_accept /\ e = E_saved (n_state m) f s) \/
       (verify_first' vc (n_state m) f s <> SV_accept /\ exists v p1 p2, e = E_rejected v f s p1 p2)).
Proof.
  intros vc ops. induction ops as [|o ops IH]; intros n e H; [left; exact H|].
  cbn [run fold_left] in H. destruct (IH _ _ H) as [H1|[a [c [Eo H1]]]].
  - destruct (step_log_cases vc n o) as [E|[Eo [Hp [f [s [e0 [Hpeek [E K]]]]]]]].
    + left. rewrite <- E. exact H1.
    + rewrite E in H1. destruct H1 as [H1|H1]; [|left; exact H1]. subst e0 o.
      right. exists [], ops. split; [reflexivity|]. cbn [run fold_left]. split; [exact Hp|].
      exists f, s. auto.
  - right. exists (o :: a), c. split; [rewrite Eo; reflexivity|]. exact H1.
Qed.

(* ---- a stored block comes from peers that were not stopped (lifted clause 6).
   From any well-formed node, along ANY operation list: every block the run stores was, at the
   turn that stored it, the block of pool.height held by a requester whose peer [p1] is known,
   not the empty id and NOT STOPPED at that moment, and [sent p1 first] (whatever relation holds
   of all block responses of the list, e.g. "p1 delivered it"); likewise the second block of the
   pair, whose LastCommit is stored as the seen commit.  In particular no peer that was stopped
   before (at the start [n], hence at any earlier point of a run: split the list there) supplied
   either of them: a stopped peer is out for good, the model has no re-admission (AddPeer). *)
Theorem run_saved_suppliers : forall vc ops (n : node sig),
  Forall op_sent ops -> node_ok n ->
  forall st f s, In (E_saved st f s) (n_log (run' vc ops n)) ->
  In (E_saved st f s) (n_log n) \/
  exists a c, ops = a ++ OProcess :: c /\
    let m := run' vc a n in
    let h := p_height (n_pool m) in
    let p1 := supplier m h in
    let p2 := supplier m (h + 1) in
    st = n_state m /\ verify_first' vc st f s = SV_accept /\
    b_height f = h /\ b_height s = h + 1 /\
    p1 <> 0 /\ p2 <> 0 /\ ~ In p1 (n_stopped m) /\ ~ In p2 (n_stopped m) /\
    sent p1 f /\ sent p2 s /\
    (forall q, In q (n_stopped n) -> p1 <> q /\ p2 <> q).
Proof.
  intros vc ops n Hs Hok st f s H.
  destruct (event_origin vc ops n _ H) as [H1|[a [c [Eo [Hp [f0 [s0 [Hpeek [_ K]]]]]]]]]; [left; exact H1|].
  right. exists a, c. split; [exact Eo|]. cbv zeta.
  destruct K as [[Hv E]|[_ [v [p1 [p2 E]]]]]; [|discriminate]. injection E as -> -> ->.
  assert (Hok' : node_ok (run' vc a n)).
  { apply run_ok; [|exact Hok]. rewrite Eo in Hs. apply Forall_app in Hs. exact (proj1 Hs). }
  destruct (peek_two_some _ _ _ Hok' Hpeek)
    as [r1 [r2 [E1 [E2 [B1 [B2 [Hf [Hs2 [N1 [N2 [S1 [S2 [I1 [I2 [T1 T2]]]]]]]]]]]]]]].
  unfold supplier. rewrite E1, E2. repeat split; try assumption.
  - intro E. apply S1. rewrite E. apply run_stopped_mono. assumption.
  - intro E. apply S2. rewrite E. apply run_stopped_mono. assumption.
Qed.

(* ---- the height never skips *)

Fixpoint desc (top : Z) (k : nat) : list Z :=
  match k with O => [] | S k' => (top - 1) :: desc (top - 1) k' end.

Lemma desc_snoc : forall k top, desc top (S k) = desc top k ++ [top - Z.of_nat k - 1].
Proof.
  induction k as [|k IH]; intro top; [cbn; f_equal; lia|].
  change (desc top (S (S k))) with ((top - 1) :: desc (top - 1) (S k)).
  rewrite IH. cbn [desc app].
  replace (top - 1 - Z.of_nat k - 1) with (top - Z.of_nat (S k) - 1) by lia. reflexivity.
Qed.

Lemma step_height_cases : forall vc (n : node sig) o,
  node_ok n ->
  (n_store (step' vc n o) = n_store n /\ p_height (n_pool (step' vc n o)) = p_height (n_pool n)) \/
  (exists e, n_store (step' vc n o) = e :: n_store n /\ se_height e = p_height (n_pool n) /\
             p_height (n_pool (step' vc n o)) = p_height (n_pool n) + 1).
Proof.
  intros vc n o Hok. destruct (n_panicked n) eqn:Hp; [left; unfold step; rewrite Hp; auto|].
  destruct (op_eq_process o) as [->|Ho];
    [|left; destruct (step_log_other vc n o Ho) as [_ [A B]]; auto].
  destruct (peek_two (n_pool n)) as [[f|] [s|]] eqn:Hpeek;
    try solve [left; unfold step, process_step; rewrite Hp, Hpeek; auto].
  destruct (verify_first' vc (n_state n) f s) eqn:Hv.
  - right. destruct (process_accept_shape vc n f s Hp Hpeek Hv) as [_ [A [B _]]].
    eexists. split; [exact A|]. split; [|exact B]. cbn [se_height].
    destruct (peek_two_some _ _ _ Hok Hpeek) as [r1 [r2 [_ [_ [_ [_ [Hf _]]]]]]]. exact Hf.
  - left. assert (Hne : verify_first' vc (n_state n) f s <> SV_accept) by (rewrite Hv; discriminate).
    destruct (bad_response_turn vc n f s Hok Hp Hpeek Hne) as [_ [[A [_ [_ [B _]]]] _]]. auto.
  - left. assert (Hne : verify_first' vc (n_state n) f s <> SV_accept) by (rewrite Hv; discriminate).
    destruct (bad_response_turn vc n f s Hok Hp Hpeek Hne) as [_ [[A [_ [_ [B _]]]] _]]. auto.
Qed.

(* From any well-formed node, along ANY operation list: the store grows by entries of heights
   pool.height, pool.height+1, ... without a gap or a repetition (newest first), and pool.height
   advances by exactly the number of blocks stored. *)
Theorem run_heights : forall vc ops (n : node sig),
  Forall op_sent ops -> node_ok n ->
  exists new,
    n_store (run' vc ops n) = new ++ n_store n /\
    p_height (n_pool (run' vc ops n)) = p_height (n_pool n) + Z.of_nat (length new) /\
    map (@se_height sig) new = desc (p_height (n_pool (run' vc ops n))) (length new).
Proof.
  intros vc ops. induction ops as [|o ops IH]; intros n Hs Hok.
  - exists []. cbn. split; [reflexivity|]. split; [lia | reflexivity].
  - inversion Hs as [|? ? Ho Hs']; subst. cbn [run fold_left].
    destruct (IH (step' vc n o) Hs' (step_ok vc n o Ho Hok)) as [new [A [B C]]]. fold (run' vc ops (step' vc n o)) in *.
    destruct (step_height_cases vc n o Hok) as [[S1 S2]|[e [S1 [S2 S3]]]].
    + exists new. rewrite A, B, S1, S2. repeat split. rewrite <- S2, <- B. exact C.
    + exists (new ++ [e]). rewrite A, S1, <- app_assoc. split; [reflexivity|].
      rewrite app_length. cbn [length]. split; [rewrite B, S3; lia|].
      rewrite map_app, C. cbn [map]. rewrite Nat.add_1_r, desc_snoc. f_equal. rewrite S2. f_equal. lia.
Qed.

(* ---- clause 6 for block responses nobody asked this peer for: a block for a height whose
   requester already holds a block or is assigned to another peer (a pusher, a duplicate), or a
   block more than maxDiffBetweenCurrentAndReceivedBlockHeight away from pool.height with no
   requester, is not taken; the sender is reported and stopped in the same step, and only its
   own requesters are reset *)
Theorem unsolicited_block_stops_sender : forall vc (n : node sig) p b,
  n_panicked n = false -> p <> 0 -> ~ In p (n_stopped n) ->
  (exists r, req_at (n_pool n) (b_height b) = Some r /\ (rq_block r <> None \/ rq_peer r <> p)) \/
  (req_at (n_pool n) (b_height b) = None /\
   Z.abs (p_height (n_pool n) - b_height b) > bc0_max_diff_current_received_height) ->
  let n' := step' vc n (OBlock p b) in
  n' = stop_peer (with_pool n (report (n_pool n) p)) p /\
  n_stopped n' = p :: n_stopped n /\
  n_store n' = n_store n /\ n_state n' = n_state n /\
  p_height (n_pool n') = p_height (n_pool n) /\
  p_reqs (n_pool n') = map (redo_req p) (p_reqs (n_pool n)) /\
  (forall k r', req_at (n_pool n) k = Some r' -> rq_peer r' <> p -> req_at (n_pool n') k = Some r').
Proof.
  intros vc n p b Hp H0 Hs Hcase n'.
  assert (Hc : (p =? 0) || is_stopped n p = false).
  { apply orb_false_iff. split; [apply Z.eqb_neq; exact H0 | apply is_stopped_false; exact Hs]. }
  assert (Ea : add_block (n_pool n) p b = report (n_pool n) p).
  { unfold add_block. destruct Hcase as [[r [Er Hr]]|[Er Hd]]; rewrite Er.
    - destruct (rq_block r) as [b0|] eqn:Eb; [reflexivity|]. cbn [orb].
      destruct Hr as [Hr|Hr]; [congruence|]. apply Z.eqb_neq in Hr. rewrite Hr. reflexivity.
    - destruct (Z.gtb_spec (Z.abs (p_height (n_pool n) - b_height b)) bc0_max_diff_current_received_height);
        [reflexivity | lia]. }
  assert (En : n' = stop_peer (with_pool n (report (n_pool n) p)) p).
  { unfold n'. destruct (step_block_cases vc n p b Hp Hc) as [[Ee _]|[_ E]].
    - exfalso. rewrite Ea in Ee. cbn [report p_errors] in Ee.
      apply (f_equal (@length peer)) in Ee. cbn [length] in Ee. lia.
    - rewrite E, Ea. reflexivity. }
  split; [exact En|]. rewrite En.
  rewrite (stop_peer_fresh (with_pool n (report (n_pool n) p)) p H0 Hs).
  cbn [with_pool n_stopped n_store n_state n_pool].
  destruct (remove_peer_shape (report (n_pool n) p) p) as [E1 [E2 _]].
  rewrite E1, E2. cbn [report p_height p_reqs]. repeat split.
  intros k r' Ek Hne.
  rewrite (req_at_map (n_pool n) (remove_peer (report (n_pool n) p) p) (redo_req p) k E2 E1), Ek.
  cbn [option_map]. unfold redo_req. apply Z.eqb_neq in Hne. rewrite Hne. reflexivity.
Qed.

End PP.
