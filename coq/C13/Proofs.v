(* C13 — lemmas and proofs about the block-sync model (Model.v); uses C07's lemmas about
   commit verification. *)
From Coq Require Import List ZArith NArith Bool Lia.
From TM Require Import Generated.Consts C07.Model C07.Proofs C13.Model.
Import ListNotations.
Open Scope Z_scope.

Section P.

Variable sig : Type.
Variable sv : key -> signmsg -> sig -> bool.
Variable pk_addr : key -> addr.
Variable validate_block : sstate -> block sig -> bool.
Variable apply_block : sstate -> block sig -> option (list validator * Z).

Notation nonneg := (Forall (fun v => 0 <= v_power v)).
Notation add_vote' := (add_vote sig sv pk_addr).
Notation ctv_loop' := (ctv_loop sig sv pk_addr).
Notation commit_to_voteset' := (commit_to_voteset sig sv pk_addr).
Notation reconstruct' := (reconstruct_last_commit sig sv pk_addr).
Notation handover' := (handover sig sv pk_addr).
Notation process' := (process_step sig validate_block apply_block).
Notation step' := (step sig validate_block apply_block).
Notation run' := (run sig validate_block apply_block).
Notation verify_first' := (verify_first sig validate_block).

(* ================================================================== CommitToVoteSet *)

Lemma bsum_get_add : forall m b x b',
  bsum_get (bsum_add m b x) b' = if b =? b' then bsum_get m b' + x else bsum_get m b'.
Proof.
  induction m as [|[b0 s] m IH]; intros b x b'; cbn [bsum_add bsum_get].
  - destruct (Z.eqb_spec b b'); reflexivity.
  - destruct (Z.eqb_spec b0 b) as [E|E]; cbn [bsum_get].
    + subst b0. destruct (Z.eqb_spec b b'); [lia | reflexivity].
    + destruct (Z.eqb_spec b0 b') as [E'|E'].
      * subst b0. destruct (Z.eqb_spec b b'); [congruence | reflexivity].
      * apply IH.
Qed.

(* validators carry the address of their key, and it is not the empty address:
   what types.NewValidator produces *)
Definition keys_ok (vals : list validator) : Prop :=
  Forall (fun v => pk_addr (v_key v) = v_addr v /\ v_addr v <> 0) vals.

(* every non-absent slot carries the address of the validator at its position
   (the complement of the known-finding class) *)
Definition addrs_ok (vals : list validator) (sigs : list (commitsig sig)) : Prop :=
  Forall (fun p => cs_absent (snd p) = true \/ cs_addr (snd p) = v_addr (fst p)) (combine vals sigs).

(* maj23 is set as soon as some block's sum reaches the quorum *)
Definition maj_inv (q : Z) (vs : voteset) : Prop :=
  vs_maj23 vs = None -> forall b, bsum_get (vs_bsum vs) b < q.

Lemma ctv_loop_ok : forall chain (c : commit sig) total sigs pre vsuf vs,
  total_voting_power (pre ++ vsuf) = Some total ->
  length vsuf = length sigs ->
  nonneg vsuf -> keys_ok vsuf -> addrs_ok vsuf sigs ->
  all_slots_ok sig sv chain c vsuf sigs ->
  Forall (fun i => i < Z.of_nat (length pre)) (vs_seen vs) ->
  maj_inv (Z.quot (total * 2) 3 + 1) vs ->
  exists vs',
    ctv_loop' chain c (pre ++ vsuf) sigs (Z.of_nat (length pre)) vs = Some vs' /\
    maj_inv (Z.quot (total * 2) 3 + 1) vs' /\
    bsum_get (vs_bsum vs') (c_bid c) >= bsum_get (vs_bsum vs) (c_bid c) + block_tally sig vsuf sigs /\
    (vs_maj23 vs <> None -> vs_maj23 vs' <> None).
Proof.
  intros chain c total sigs. induction sigs as [|cs sigs IH]; intros pre vsuf vs Ht Hl Hnn Hk Ha Hs Hseen Hm.
  - destruct vsuf; [|discriminate]. exists vs. cbn. repeat split; try assumption; lia.
  - destruct vsuf as [|v vsuf]; [discriminate|]. cbn [length] in Hl. injection Hl as Hl.
    inversion Hnn as [|? ? Hv Hnn']; subst. inversion Hk as [|? ? [Hkv Hv0] Hk']; subst.
    unfold addrs_ok in Ha. cbn [combine] in Ha. apply Forall_cons_iff in Ha as [Ha1 Ha2]. cbn [fst snd] in Ha1.
    unfold all_slots_ok in Hs. cbn [combine] in Hs. apply Forall_cons_iff in Hs as [Hs1 Hs2]. cbn [fst snd] in Hs1.
    assert (Epre : pre ++ v :: vsuf = (pre ++ [v]) ++ vsuf) by (rewrite <- app_assoc; reflexivity).
    assert (Elen : Z.of_nat (length pre) + 1 = Z.of_nat (length (pre ++ [v])))
      by (rewrite app_length; cbn [length]; lia).
    cbn [ctv_loop]. destruct (cs_absent cs) eqn:Eabs.
    + (* absent: skipped *)
      rewrite Epre, Elen.
      destruct (IH (pre ++ [v]) vsuf vs) as [vs' [E1 [E2 [E3 E4]]]]; try assumption.
      * rewrite <- Epre. exact Ht.
      * eapply Forall_impl; [|exact Hseen]. cbn. intros i Hi. rewrite app_length. cbn [length]. lia.
      * exists vs'. repeat split; try assumption.
        cbn [block_tally]. rewrite (absent_not_for_block cs Eabs). lia.
    + destruct Hs1 as [Hs1|[m [Em Esig]]]; [congruence|].
      destruct Ha1 as [Ha1|Ha1]; [congruence|].
      unfold vote_sign_bytes in Em. destruct (cs_block_id cs (c_bid c)) as [b|] eqn:Eb; [|discriminate].
      injection Em as <-.
      (* add_vote succeeds *)
      unfold add_vote.
      assert (Hidx : (Z.of_nat (length pre) <? 0) = false) by lia. rewrite Hidx.
      assert (Haddr0 : (cs_addr cs =? 0) = false) by (rewrite Ha1; apply Z.eqb_neq; exact Hv0).
      rewrite Haddr0. rewrite Nat2Z.id.
      assert (Hnth : nth_error (pre ++ v :: vsuf) (length pre) = Some v).
      { rewrite nth_error_app2 by lia. rewrite Nat.sub_diag. reflexivity. }
      rewrite Hnth. rewrite Ha1, Z.eqb_refl. cbn [negb].
      assert (Hnew : existsb (Z.eqb (Z.of_nat (length pre))) (vs_seen vs) = false).
      { destruct (existsb _ _) eqn:Ex; [|reflexivity]. apply existsb_exists in Ex as [i [Hi Ei]].
        apply Z.eqb_eq in Ei. subst i. rewrite Forall_forall in Hseen. specialize (Hseen _ Hi). lia. }
      rewrite Hnew. rewrite Hkv, Z.eqb_refl. cbn [negb]. rewrite Esig. cbn [negb]. rewrite Ht.
      set (q := Z.quot (total * 2) 3 + 1) in *.
      set (orig := bsum_get (vs_bsum vs) b).
      match goal with |- context [ctv_loop' _ _ _ _ _ ?X] => set (vs1 := X) end.
      rewrite Epre, Elen.
      destruct (IH (pre ++ [v]) vsuf vs1) as [vs' [E1 [E2 [E3 E4]]]]; try assumption.
      * rewrite <- Epre. exact Ht.
      * subst vs1. cbn [vs_seen]. constructor.
        -- rewrite app_length. cbn [length]. lia.
        -- eapply Forall_impl; [|exact Hseen]. cbn. intros i Hi. rewrite app_length. cbn [length]. lia.
      * (* maj_inv for vs1 *)
        subst vs1. unfold maj_inv. cbn [vs_maj23 vs_bsum]. intros Hnone b'.
        rewrite bsum_get_add.
        destruct (vs_maj23 vs) eqn:Emj.
        -- destruct ((orig <? q) && (q <=? orig + v_power v)); discriminate.
        -- pose proof (Hm eq_refl) as Hlt.
           destruct ((orig <? q) && (q <=? orig + v_power v)) eqn:Ecross; [discriminate|].
           destruct (Z.eqb_spec b b') as [Ebb|Ebb]; [|apply Hlt].
           subst b'. specialize (Hlt b). fold orig in Hlt. fold orig.
           apply andb_false_iff in Ecross as [Ec|Ec]; lia.
      * exists vs'. split; [exact E1|]. split; [exact E2|]. split.
        -- subst vs1. cbn [vs_bsum] in E3. rewrite bsum_get_add in E3. cbn [block_tally].
           pose proof (block_tally_nonneg sig vsuf sigs Hnn') as Hbt.
           destruct (cs_for_block cs) eqn:Efb.
           ++ unfold cs_block_id in Eb. pose proof (for_block_not_absent cs Efb) as Hna.
              unfold cs_absent in Hna. unfold cs_for_block in Efb. rewrite Hna, Efb in Eb.
              injection Eb as <-. rewrite Z.eqb_refl in E3. lia.
           ++ destruct (b =? c_bid c); lia.
        -- intro Hsome. apply E4. subst vs1. cbn [vs_maj23].
           destruct ((orig <? q) && (q <=? orig + v_power v)); [|exact Hsome].
           destruct (vs_maj23 vs); [discriminate | congruence].
Qed.

(* A commit that passes the full verification against a well-formed set whose validators carry
   their key's address, and whose non-absent slots carry the positional address, can be turned
   into a vote set with a +2/3 majority: reconstructLastCommit does not panic. *)
Lemma reconstruct_ok : forall chain (c : commit sig) vals bid h,
  wf_valset vals -> keys_ok vals -> 0 < h ->
  verify_commit sv vals chain bid h c = R_ok ->
  addrs_ok vals (c_sigs c) ->
  reconstruct' chain (Some c) vals = true.
Proof.
  intros chain c vals bid h Hwf Hk Hh Hv Ha.
  apply (verify_commit_iff sig sv vals chain bid h c Hwf) in Hv as [Hl [Eh [Eb [Hs Ht]]]].
  unfold reconstruct_last_commit, commit_to_voteset.
  assert (Hh0 : (c_height c =? 0) = false) by lia. rewrite Hh0.
  pose proof (total_voting_power_wf vals Hwf) as Htot. destruct Hwf as [Hnn Hle].
  destruct (ctv_loop_ok chain c (sum_power vals) (c_sigs c) [] vals empty_voteset) as [vs' [E1 [E2 [E3 _]]]];
    try assumption.
  - constructor.
  - unfold maj_inv. cbn. intros _ b. pose proof (sum_power_nonneg vals Hnn) as H0.
    pose proof (quot_nonneg (sum_power vals * 2) 3 ltac:(lia) ltac:(lia)). lia.
  - cbn [app length Z.of_nat] in E1. rewrite E1.
    destruct (vs_maj23 vs') eqn:Em; [reflexivity|]. exfalso.
    specialize (E2 Em (c_bid c)). cbn [empty_voteset vs_bsum bsum_get] in E3.
    pose proof (sum_power_nonneg vals Hnn) as H0.
    assert (Hq : block_tally sig vals (c_sigs c) > Z.quot (sum_power vals * 2) 3).
    { apply gt_quot_iff; lia. }
    lia.
Qed.

(* ================================================================== the sync step *)

(* what a sound commit check guarantees (C07: both verify_commit and verify_commit_light) *)
Definition vc_sound (vc : vcheck sig) : Prop :=
  forall vs chain bid h c, wf_valset vs -> vc vs chain bid h c = R_ok ->
    length vs = length (c_sigs c) /\ h = c_height c /\ bid = c_bid c /\
    3 * good_tally sig sv chain h (c_round c) bid vs (c_sigs c) > 2 * sum_power vs.

Lemma verify_commit_vc_sound : vc_sound (verify_commit sv).
Proof. intros vs chain bid h c Hwf H. exact (verify_commit_sound sig sv vs chain bid h c Hwf H). Qed.

Lemma verify_commit_light_vc_sound : vc_sound (verify_commit_light sv).
Proof. intros vs chain bid h c Hwf H. exact (verify_commit_light_sound sig sv vs chain bid h c Hwf H). Qed.

(* the justification every saved block has *)
Definition saved_ok (e : event sig) : Prop :=
  match e with
  | E_saved st first second =>
    let c := b_last_commit sig second in
    validate_block st first = true /\
    (wf_valset (st_vals st) ->
     length (st_vals st) = length (c_sigs c) /\
     c_height c = b_height sig first /\ c_bid c = b_id sig first /\
     3 * good_tally sig sv (st_chain st) (b_height sig first) (c_round c) (b_id sig first)
                    (st_vals st) (c_sigs c) > 2 * sum_power (st_vals st))
  | E_rejected _ _ _ _ _ => True
  end.

(* the store entries the events of a log account for (newest first, like the log) *)
Fixpoint log_store (l : list (event sig)) : list (sentry sig) :=
  match l with
  | [] => []
  | E_saved _ first second :: r =>
    {| se_height := b_height sig first; se_id := b_id sig first; se_seen := b_last_commit sig second |}
      :: log_store r
  | E_rejected _ _ _ _ _ :: r => log_store r
  end.

Lemma stop_peer_frame : forall (n : node sig) p,
  n_log sig (stop_peer sig n p) = n_log sig n /\ n_store sig (stop_peer sig n p) = n_store sig n /\
  n_state sig (stop_peer sig n p) = n_state sig n /\ n_panicked sig (stop_peer sig n p) = n_panicked sig n.
Proof. intros n p. unfold stop_peer. destruct ((p =? 0) || is_stopped sig n p); cbn; repeat split. Qed.

Lemma stop_list_frame : forall l (n : node sig),
  let m := fold_right (fun p m => stop_peer sig m p) n l in
  n_log sig m = n_log sig n /\ n_store sig m = n_store sig n /\ n_state sig m = n_state sig n.
Proof.
  induction l as [|p l IH]; intros n; cbn; [repeat split|].
  destruct (IH n) as [A [B C]]. destruct (stop_peer_frame (fold_right (fun p m => stop_peer sig m p) n l) p) as [A' [B' [C' _]]].
  cbn in *. rewrite A', B', C'. repeat split; assumption.
Qed.

Lemma verify_first_accept : forall vc st first second,
  verify_first' vc st first second = SV_accept ->
  vc (st_vals st) (st_chain st) (b_id sig first) (b_height sig first) (b_last_commit sig second) = R_ok /\
  validate_block st first = true.
Proof.
  intros vc st first second. unfold verify_first.
  destruct (vc _ _ _ _ _); try discriminate. destruct (validate_block st first); [auto | discriminate].
Qed.

(* one step: the log grows by events [evs], the store by exactly their entries, and the state
   changes only by executing a saved block *)
Lemma step_frame : forall vc, vc_sound vc -> forall (n : node sig) o,
  exists evs,
    n_log sig (step' vc n o) = evs ++ n_log sig n /\
    n_store sig (step' vc n o) = log_store evs ++ n_store sig n /\
    Forall saved_ok evs /\
    (n_state sig (step' vc n o) = n_state sig n \/
     exists first second nv,
       evs = [E_saved (n_state sig n) first second] /\
       apply_block (n_state sig n) first = Some nv /\
       n_state sig (step' vc n o) = next_state (n_state sig n) (b_height sig first) (b_id sig first) nv).
Proof.
Abort.

End P.
