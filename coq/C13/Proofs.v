(* C13 — lemmas and proofs about the block-sync model (Model.v); uses C07's lemmas about
   commit verification. *)
From Coq Require Import List ZArith NArith Bool Lia.
From TM Require Import Generated.Consts C07.Model C07.Proofs C13.Model.
Import ListNotations.
Open Scope Z_scope.

Section P.

Variable sig : Type.
Variable sv : key -> signmsg -> sig -> bool.
Variable pk_addr : key -> addr.
Variable validate_block : sstate -> block sig -> bool.
Variable apply_block : sstate -> block sig -> option (list validator * Z).

Notation nonneg := (Forall (fun v => 0 <= v_power v)).
Notation add_vote' := (add_vote sv pk_addr).
Notation ctv_loop' := (ctv_loop sv pk_addr).
Notation commit_to_voteset' := (commit_to_voteset sv pk_addr).
Notation reconstruct' := (reconstruct_last_commit sv pk_addr).
Notation handover' := (handover sv pk_addr).
Notation process' := (process_step validate_block apply_block).
Notation step' := (step validate_block apply_block).
Notation run' := (run validate_block apply_block).
Notation verify_first' := (verify_first validate_block).

(* ================================================================== CommitToVoteSet *)

Lemma bsum_get_add : forall m b x b',
  bsum_get (bsum_add m b x) b' = if b =? b' then bsum_get m b' + x else bsum_get m b'.
Proof.
  induction m as [|[b0 s] m IH]; intros b x b'; cbn [bsum_add bsum_get].
  - destruct (Z.eqb_spec b b'); reflexivity.
  - destruct (Z.eqb_spec b0 b) as [E|E]; cbn [bsum_get].
    + subst b0. destruct (Z.eqb_spec b b'); [lia | reflexivity].
    + destruct (Z.eqb_spec b0 b') as [E'|E'].
      * subst b0. destruct (Z.eqb_spec b b'); [congruence | reflexivity].
      * apply IH.
Qed.

(* validators carry the address of their key, and it is not the empty address:
   what types.NewValidator produces *)
Definition keys_ok (vals : list validator) : Prop :=
  Forall (fun v => pk_addr (v_key v) = v_addr v /\ v_addr v <> 0) vals.

(* every non-absent slot carries the address of the validator at its position
   (the complement of the known-finding class) *)
Definition addrs_ok (vals : list validator) (sigs : list (commitsig sig)) : Prop :=
  Forall (fun p => cs_absent (snd p) = true \/ cs_addr (snd p) = v_addr (fst p)) (combine vals sigs).

(* maj23 is set as soon as some block's sum reaches the quorum *)
Definition maj_inv (q : Z) (vs : voteset) : Prop :=
  vs_maj23 vs = None -> forall b, bsum_get (vs_bsum vs) b < q.

Lemma ctv_loop_ok : forall chain (c : commit sig) total sigs pre vsuf vs,
  total_voting_power (pre ++ vsuf) = Some total ->
  length vsuf = length sigs ->
  nonneg vsuf -> keys_ok vsuf -> addrs_ok vsuf sigs ->
  all_slots_ok sig sv chain c vsuf sigs ->
  Forall (fun i => i < Z.of_nat (length pre)) (vs_seen vs) ->
  maj_inv (Z.quot (total * 2) 3 + 1) vs ->
  exists vs',
    ctv_loop' chain c (pre ++ vsuf) sigs (Z.of_nat (length pre)) vs = Some vs' /\
    maj_inv (Z.quot (total * 2) 3 + 1) vs' /\
    bsum_get (vs_bsum vs') (c_bid c) >= bsum_get (vs_bsum vs) (c_bid c) + block_tally sig vsuf sigs /\
    (vs_maj23 vs <> None -> vs_maj23 vs' <> None).
Proof.
  intros chain c total sigs. induction sigs as [|cs sigs IH]; intros pre vsuf vs Ht Hl Hnn Hk Ha Hs Hseen Hm.
  - destruct vsuf; [|discriminate]. exists vs. split; [reflexivity|]. split; [assumption|].
    split; [cbn [block_tally]; lia | auto].
  - destruct vsuf as [|v vsuf]; [discriminate|]. cbn [length] in Hl. injection Hl as Hl.
    inversion Hnn as [|? ? Hv Hnn']; subst. inversion Hk as [|? ? [Hkv Hv0] Hk']; subst.
    unfold addrs_ok in Ha. cbn [combine] in Ha. apply Forall_cons_iff in Ha as [Ha1 Ha2]. cbn [fst snd] in Ha1.
    unfold all_slots_ok in Hs. cbn [combine] in Hs. apply Forall_cons_iff in Hs as [Hs1 Hs2]. cbn [fst snd] in Hs1.
    assert (Epre : pre ++ v :: vsuf = (pre ++ [v]) ++ vsuf) by (rewrite <- app_assoc; reflexivity).
    assert (Elen : Z.of_nat (length pre) + 1 = Z.of_nat (length (pre ++ [v])))
      by (rewrite app_length; cbn [length]; lia).
    cbn [ctv_loop]. destruct (cs_absent cs) eqn:Eabs.
    + (* absent: skipped *)
      rewrite Epre, Elen.
      destruct (IH (pre ++ [v]) vsuf vs) as [vs' [E1 [E2 [E3 E4]]]]; try assumption.
      * rewrite <- Epre. exact Ht.
      * eapply Forall_impl; [|exact Hseen]. cbn. intros i Hi. rewrite app_length. cbn [length]. lia.
      * exists vs'. repeat split; try assumption.
        cbn [block_tally]. rewrite (absent_not_for_block cs Eabs). lia.
    + destruct Hs1 as [Hs1|[m [Em Esig]]]; [congruence|].
      destruct Ha1 as [Ha1|Ha1]; [congruence|].
      unfold vote_sign_bytes in Em. destruct (cs_block_id cs (c_bid c)) as [b|] eqn:Eb; [|discriminate].
      injection Em as <-.
      (* add_vote succeeds *)
      unfold add_vote.
      assert (Hidx : (Z.of_nat (length pre) <? 0) = false) by lia. rewrite Hidx.
      assert (Haddr0 : (cs_addr cs =? 0) = false) by (rewrite Ha1; apply Z.eqb_neq; exact Hv0).
      rewrite Haddr0. rewrite Nat2Z.id.
      assert (Hnth : nth_error (pre ++ v :: vsuf) (length pre) = Some v).
      { rewrite nth_error_app2 by lia. rewrite Nat.sub_diag. reflexivity. }
      rewrite Hnth. rewrite Ha1, Z.eqb_refl. cbn [negb].
      assert (Hnew : existsb (Z.eqb (Z.of_nat (length pre))) (vs_seen vs) = false).
      { destruct (existsb _ _) eqn:Ex; [|reflexivity]. apply existsb_exists in Ex as [i [Hi Ei]].
        apply Z.eqb_eq in Ei. subst i. rewrite Forall_forall in Hseen. specialize (Hseen _ Hi). lia. }
      rewrite Hnew. rewrite Hkv, Z.eqb_refl. cbn [negb]. rewrite Esig. cbn [negb]. rewrite Ht.
      set (q := Z.quot (total * 2) 3 + 1) in *.
      set (orig := bsum_get (vs_bsum vs) b).
      match goal with |- context [ctv_loop' _ _ _ _ _ ?X] => set (vs1 := X) end.
      rewrite Epre, Elen.
      destruct (IH (pre ++ [v]) vsuf vs1) as [vs' [E1 [E2 [E3 E4]]]]; try assumption.
      * rewrite <- Epre. exact Ht.
      * subst vs1. cbn [vs_seen]. constructor.
        -- rewrite app_length. cbn [length]. lia.
        -- eapply Forall_impl; [|exact Hseen]. cbn. intros i Hi. rewrite app_length. cbn [length]. lia.
      * (* maj_inv for vs1 *)
        subst vs1. unfold maj_inv. cbn [vs_maj23 vs_bsum]. intros Hnone b'.
        rewrite bsum_get_add.
        destruct (vs_maj23 vs) eqn:Emj.
        -- destruct ((orig <? q) && (q <=? orig + v_power v)); discriminate.
        -- pose proof (Hm Emj) as Hlt.
           destruct ((orig <? q) && (q <=? orig + v_power v)) eqn:Ecross; [discriminate|].
           destruct (Z.eqb_spec b b') as [Ebb|Ebb]; [|apply Hlt].
           subst b'. specialize (Hlt b). fold orig in Hlt. fold orig.
           apply andb_false_iff in Ecross as [Ec|Ec]; lia.
      * exists vs'. split; [exact E1|]. split; [exact E2|]. split.
        -- subst vs1. cbn [vs_bsum] in E3. rewrite bsum_get_add in E3. cbn [block_tally].
           pose proof (block_tally_nonneg sig vsuf sigs Hnn') as Hbt.
           destruct (cs_for_block cs) eqn:Efb.
           ++ unfold cs_block_id in Eb. pose proof (for_block_not_absent cs Efb) as Hna.
              unfold cs_absent in Hna. unfold cs_for_block in Efb. rewrite Hna, Efb in Eb.
              injection Eb as <-. rewrite Z.eqb_refl in E3. lia.
           ++ destruct (b =? c_bid c); lia.
        -- intro Hsome. apply E4. subst vs1. cbn [vs_maj23].
           destruct ((orig <? q) && (q <=? orig + v_power v)); [|exact Hsome].
           destruct (vs_maj23 vs); [discriminate | congruence].
Qed.

(* A commit that passes the full verification against a well-formed set whose validators carry
   their key's address, and whose non-absent slots carry the positional address, can be turned
   into a vote set with a +2/3 majority: reconstructLastCommit does not panic. *)
Lemma reconstruct_ok : forall chain (c : commit sig) vals bid h,
  wf_valset vals -> keys_ok vals -> 0 < h ->
  verify_commit sv vals chain bid h c = R_ok ->
  addrs_ok vals (c_sigs c) ->
  reconstruct' chain (Some c) vals = true.
Proof.
  intros chain c vals bid h Hwf Hk Hh Hv Ha.
  apply (verify_commit_iff sig sv vals chain bid h c Hwf) in Hv as [Hl [Eh [Eb [Hs Ht]]]].
  unfold reconstruct_last_commit, commit_to_voteset.
  assert (Hh0 : (c_height c =? 0) = false) by lia. rewrite Hh0.
  pose proof (total_voting_power_wf vals Hwf) as Htot. destruct Hwf as [Hnn Hle].
  destruct (ctv_loop_ok chain c (sum_power vals) (c_sigs c) [] vals empty_voteset) as [vs' [E1 [E2 [E3 _]]]];
    try assumption.
  - constructor.
  - unfold maj_inv. cbn. intros _ b. pose proof (sum_power_nonneg vals Hnn) as H0.
    pose proof (quot_nonneg (sum_power vals * 2) 3 ltac:(lia) ltac:(lia)). lia.
  - cbn [app length Z.of_nat] in E1. rewrite E1.
    destruct (vs_maj23 vs') eqn:Em; [reflexivity|]. exfalso.
    specialize (E2 Em (c_bid c)). cbn [empty_voteset vs_bsum bsum_get] in E3.
    pose proof (sum_power_nonneg vals Hnn) as H0.
    assert (Hq : block_tally sig vals (c_sigs c) > Z.quot (sum_power vals * 2) 3).
    { apply gt_quot_iff; lia. }
    lia.
Qed.

(* ---- the +2/3 majority of a reconstructed LastCommit is for the commit's own block id *)

Fixpoint bsum_total (m : list (blockid * Z)) : Z :=
  match m with [] => 0 | (_, s) :: r => s + bsum_total r end.

Definition bsum_nonneg (m : list (blockid * Z)) : Prop := Forall (fun p => 0 <= snd p) m.

Lemma bsum_total_add : forall m b x, bsum_total (bsum_add m b x) = bsum_total m + x.
Proof.
  induction m as [|[b0 s] m IH]; intros b x; cbn [bsum_add bsum_total]; [lia|].
  destruct (b0 =? b); cbn [bsum_total]; [lia | rewrite IH; lia].
Qed.

Lemma bsum_nonneg_add : forall m b x, bsum_nonneg m -> 0 <= x -> bsum_nonneg (bsum_add m b x).
Proof.
  induction m as [|[b0 s] m IH]; intros b x Hm Hx; cbn [bsum_add].
  - constructor; [cbn; lia | constructor].
  - inversion Hm as [|? ? H1 H2]; subst. cbn [snd] in H1.
    destruct (b0 =? b); constructor; cbn [snd]; try lia; try assumption. apply IH; assumption.
Qed.

Lemma bsum_get_le_total : forall m b, bsum_nonneg m -> 0 <= bsum_get m b <= bsum_total m.
Proof.
  induction m as [|[b0 s] m IH]; intros b Hm; cbn [bsum_get bsum_total]; [lia|].
  inversion Hm as [|? ? H1 H2]; subst. cbn [snd] in H1. specialize (IH b H2).
  destruct (b0 =? b); lia.
Qed.

Lemma bsum_two_le_total : forall m b b', bsum_nonneg m -> b <> b' ->
  bsum_get m b + bsum_get m b' <= bsum_total m.
Proof.
  induction m as [|[b0 s] m IH]; intros b b' Hm Hne; cbn [bsum_get bsum_total]; [lia|].
  inversion Hm as [|? ? H1 H2]; subst. cbn [snd] in H1.
  pose proof (bsum_get_le_total m b H2). pose proof (bsum_get_le_total m b' H2).
  specialize (IH b b' H2 Hne).
  destruct (Z.eqb_spec b0 b); destruct (Z.eqb_spec b0 b'); lia.
Qed.

Definition maj_sound (q : Z) (pre : list validator) (vs : voteset) : Prop :=
  bsum_nonneg (vs_bsum vs) /\ bsum_total (vs_bsum vs) <= sum_power pre /\
  (forall b, vs_maj23 vs = Some b -> q <= bsum_get (vs_bsum vs) b).

Lemma sum_power_app : forall a b, sum_power (a ++ b) = sum_power a + sum_power b.
Proof. induction a as [|v a IH]; intros b; cbn [app sum_power]; [lia | rewrite IH; lia]. Qed.

Lemma ctv_loop_maj_sound : forall chain (c : commit sig) total sigs pre vsuf vs vs',
  total_voting_power (pre ++ vsuf) = Some total ->
  length vsuf = length sigs -> nonneg vsuf ->
  maj_sound (Z.quot (total * 2) 3 + 1) pre vs ->
  ctv_loop' chain c (pre ++ vsuf) sigs (Z.of_nat (length pre)) vs = Some vs' ->
  maj_sound (Z.quot (total * 2) 3 + 1) (pre ++ vsuf) vs'.
Proof.
  intros chain c total sigs. induction sigs as [|cs sigs IH]; intros pre vsuf vs vs' Ht Hl Hnn Hm Hrun.
  - destruct vsuf; [|discriminate]. cbn [ctv_loop] in Hrun. injection Hrun as <-. rewrite app_nil_r. exact Hm.
  - destruct vsuf as [|v vsuf]; [discriminate|]. cbn [length] in Hl. injection Hl as Hl.
    inversion Hnn as [|? ? Hv Hnn']; subst.
    assert (Epre : pre ++ v :: vsuf = (pre ++ [v]) ++ vsuf) by (rewrite <- app_assoc; reflexivity).
    assert (Elen : Z.of_nat (length pre) + 1 = Z.of_nat (length (pre ++ [v])))
      by (rewrite app_length; cbn [length]; lia).
    destruct Hm as [M1 [M2 M3]].
    cbn [ctv_loop] in Hrun. destruct (cs_absent cs).
    + rewrite Epre, Elen in Hrun. rewrite Epre. apply (IH (pre ++ [v]) vsuf vs vs'); try assumption.
      * rewrite <- Epre. exact Ht.
      * split; [exact M1|]. split; [|exact M3]. rewrite sum_power_app. cbn [sum_power]. lia.
    + destruct (cs_block_id cs (c_bid c)) as [b|]; [|discriminate].
      destruct (add_vote' chain (c_height c) (c_round c) (pre ++ v :: vsuf) vs (Z.of_nat (length pre)) cs b)
        as [vs1|] eqn:Eadd; [|discriminate].
      rewrite Epre, Elen in Hrun. rewrite Epre. apply (IH (pre ++ [v]) vsuf vs1 vs'); try assumption.
      * rewrite <- Epre. exact Ht.
      * (* the step of add_vote *)
        unfold add_vote in Eadd.
        destruct (Z.of_nat (length pre) <? 0); [discriminate|].
        destruct (cs_addr cs =? 0); [discriminate|]. rewrite Nat2Z.id in Eadd.
        assert (Hnth : nth_error (pre ++ v :: vsuf) (length pre) = Some v).
        { rewrite nth_error_app2 by lia. rewrite Nat.sub_diag. reflexivity. }
        rewrite Hnth in Eadd.
        destruct (negb (cs_addr cs =? v_addr v)); [discriminate|].
        destruct (existsb _ _); [discriminate|].
        destruct (negb (pk_addr (v_key v) =? cs_addr cs)); [discriminate|].
        destruct (negb (sv _ _ _)); [discriminate|].
        rewrite Ht in Eadd. injection Eadd as <-.
        set (q := Z.quot (total * 2) 3 + 1) in *.
        split; [|split]; cbn [vs_bsum vs_maj23].
        -- apply bsum_nonneg_add; assumption.
        -- rewrite bsum_total_add, sum_power_app. cbn [sum_power]. lia.
        -- intros b' Hb'. rewrite bsum_get_add.
           destruct ((bsum_get (vs_bsum vs) b <? q) && (q <=? bsum_get (vs_bsum vs) b + v_power v)) eqn:Ecross.
           ++ destruct (vs_maj23 vs) as [b0|] eqn:Emj.
              ** injection Hb' as <-. specialize (M3 _ eq_refl). destruct (b =? b0); lia.
              ** injection Hb' as <-. rewrite Z.eqb_refl. apply andb_true_iff in Ecross as [_ Ec]. lia.
           ++ specialize (M3 _ Hb'). destruct (b =? b'); lia.
Qed.

(* a vote set made from a commit whose for-the-block slots carry more than 2/3: if it has a
   majority at all, it is for the commit's block id *)
Lemma ctv_maj_is_commit_bid : forall chain (c : commit sig) vals vs b,
  wf_valset vals -> length vals = length (c_sigs c) ->
  commit_to_voteset sv pk_addr chain c vals = Some vs ->
  3 * bsum_get (vs_bsum vs) (c_bid c) > 2 * sum_power vals ->
  vs_maj23 vs = Some b -> b = c_bid c.
Proof.
  intros chain c vals vs b Hwf Hl Hctv Hq Hb.
  unfold commit_to_voteset in Hctv. destruct (c_height c =? 0); [discriminate|].
  pose proof (total_voting_power_wf vals Hwf) as Htot. destruct Hwf as [Hnn Hle].
  pose proof (ctv_loop_maj_sound chain c (sum_power vals) (c_sigs c) [] vals empty_voteset vs) as H.
  cbn [app length Z.of_nat] in H. specialize (H Htot Hl Hnn).
  assert (H0 : maj_sound (Z.quot (sum_power vals * 2) 3 + 1) [] empty_voteset).
  { split; [constructor|]. split; [cbn; lia|]. cbn. discriminate. }
  destruct (H H0 Hctv) as [M1 [M2 M3]]. specialize (M3 _ Hb).
  destruct (Z.eq_dec b (c_bid c)) as [E|E]; [exact E|]. exfalso.
  pose proof (bsum_two_le_total _ _ _ M1 E) as H2.
  pose proof (sum_power_nonneg vals Hnn) as Hp.
  rewrite Z.quot_div_nonneg in M3 by lia.
  assert (3 * bsum_get (vs_bsum vs) b > 2 * sum_power vals).
  { pose proof (Z.mul_div_le (sum_power vals * 2) 3 ltac:(lia)).
    pose proof (Z.mod_pos_bound (sum_power vals * 2) 3 ltac:(lia)).
    pose proof (Z.div_mod (sum_power vals * 2) 3 ltac:(lia)). lia. }
  lia.
Qed.

(* the vote set consensus rebuilds from a commit that passed the full verification for block id
   [bid] has its +2/3 majority for exactly [bid] *)
Lemma reconstruct_maj_bid : forall chain (c : commit sig) vals bid h vs,
  wf_valset vals -> keys_ok vals -> 0 < h ->
  verify_commit sv vals chain bid h c = R_ok ->
  addrs_ok vals (c_sigs c) ->
  commit_to_voteset' chain c vals = Some vs ->
  vs_maj23 vs = Some bid.
Proof.
  intros chain c vals bid h vs Hwf Hk Hh Hv Ha Hctv.
  pose proof Hv as Hv'.
  apply (verify_commit_iff sig sv vals chain bid h c Hwf) in Hv' as [Hl [Eh [Eb [Hs Ht]]]].
  pose proof (total_voting_power_wf vals Hwf) as Htot.
  assert (Hnn : nonneg vals) by (destruct Hwf; assumption).
  (* the run of ctv_loop behind Hctv *)
  pose proof Hctv as Hrun. unfold commit_to_voteset in Hrun.
  assert (Hh0 : (c_height c =? 0) = false) by lia. rewrite Hh0 in Hrun.
  destruct (ctv_loop_ok chain c (sum_power vals) (c_sigs c) [] vals empty_voteset) as [vs' [E1 [E2 [E3 _]]]];
    try assumption.
  - constructor.
  - unfold maj_inv. cbn. intros _ b. pose proof (sum_power_nonneg vals Hnn) as H0.
    pose proof (quot_nonneg (sum_power vals * 2) 3 ltac:(lia) ltac:(lia)). lia.
  - cbn [app length Z.of_nat] in E1. rewrite E1 in Hrun. injection Hrun as ->.
    cbn [empty_voteset vs_bsum bsum_get] in E3.
    assert (Hq : 3 * bsum_get (vs_bsum vs) (c_bid c) > 2 * sum_power vals) by lia.
    destruct (vs_maj23 vs) as [b|] eqn:Em.
    + rewrite (ctv_maj_is_commit_bid chain c vals vs b Hwf Hl Hctv Hq Em). congruence.
    + exfalso. specialize (E2 Em (c_bid c)).
      pose proof (sum_power_nonneg vals Hnn) as H0.
      assert (block_tally sig vals (c_sigs c) > Z.quot (sum_power vals * 2) 3) by (apply gt_quot_iff; lia).
      lia.
Qed.

(* ================================================================== the sync step *)

(* what a sound commit check guarantees (C07: both verify_commit and verify_commit_light) *)
Definition vc_sound (vc : vcheck sig) : Prop :=
  forall vs chain bid h c, wf_valset vs -> vc vs chain bid h c = R_ok ->
    length vs = length (c_sigs c) /\ h = c_height c /\ bid = c_bid c /\
    3 * good_tally sig sv chain h (c_round c) bid vs (c_sigs c) > 2 * sum_power vs.

Lemma verify_commit_vc_sound : vc_sound (verify_commit sv).
Proof. intros vs chain bid h c Hwf H. exact (verify_commit_sound sig sv vs chain bid h c Hwf H). Qed.

Lemma verify_commit_light_vc_sound : vc_sound (verify_commit_light sv).
Proof. intros vs chain bid h c Hwf H. exact (verify_commit_light_sound sig sv vs chain bid h c Hwf H). Qed.

(* the justification every saved block has *)
Definition saved_ok (e : event sig) : Prop :=
  match e with
  | E_saved st first second =>
    let c := b_last_commit second in
    validate_block st first = true /\
    (wf_valset (st_vals st) ->
     length (st_vals st) = length (c_sigs c) /\
     c_height c = b_height first /\ c_bid c = b_id first /\
     3 * good_tally sig sv (st_chain st) (b_height first) (c_round c) (b_id first)
                    (st_vals st) (c_sigs c) > 2 * sum_power (st_vals st))
  | E_rejected _ _ _ _ _ => True
  end.

(* the store entries the events of a log account for (newest first, like the log) *)
Fixpoint log_store (l : list (event sig)) : list (sentry sig) :=
  match l with
  | [] => []
  | E_saved _ first second :: r =>
    {| se_height := b_height first; se_id := b_id first; se_seen := b_last_commit second |}
      :: log_store r
  | E_rejected _ _ _ _ _ :: r => log_store r
  end.

Lemma stop_peer_frame : forall (n : node sig) p,
  n_log (stop_peer n p) = n_log n /\ n_store (stop_peer n p) = n_store n /\
  n_state (stop_peer n p) = n_state n.
Proof. intros n p. unfold stop_peer. destruct ((p =? 0) || is_stopped n p); cbn; repeat split. Qed.

Lemma stop_list_frame : forall l (n : node sig),
  n_log (fold_right (fun p m => stop_peer m p) n l) = n_log n /\
  n_store (fold_right (fun p m => stop_peer m p) n l) = n_store n /\
  n_state (fold_right (fun p m => stop_peer m p) n l) = n_state n.
Proof.
  induction l as [|p l IH]; intros n; cbn [fold_right]; [repeat split|].
  destruct (IH n) as [A [B C]].
  destruct (stop_peer_frame (fold_right (fun p m => stop_peer m p) n l) p) as [A' [B' C']].
  rewrite A', B', C'. repeat split; assumption.
Qed.

Lemma verify_first_accept : forall vc st first second,
  verify_first' vc st first second = SV_accept ->
  vc (st_vals st) (st_chain st) (b_id first) (b_height first) (b_last_commit second) = R_ok /\
  validate_block st first = true.
Proof.
  intros vc st first second. unfold verify_first.
  destruct (vc _ _ _ _ _); try discriminate. destruct (validate_block st first); [auto | discriminate].
Qed.

(* quiet: nothing stored, nothing executed; the log gains at most a rejection *)
Definition quiet (n n' : node sig) : Prop :=
  n_store n' = n_store n /\ n_state n' = n_state n /\
  (n_log n' = n_log n \/ exists v f s p1 p2, n_log n' = E_rejected v f s p1 p2 :: n_log n).

(* saving: exactly one block stored, after an accepting verdict, then executed *)
Definition saving (vc : vcheck sig) (n n' : node sig) : Prop :=
  exists first second,
    verify_first' vc (n_state n) first second = SV_accept /\
    n_log n' = E_saved (n_state n) first second :: n_log n /\
    n_store n' = save_block (n_store n) first (b_last_commit second) /\
    ((apply_block (n_state n) first = None /\ n_state n' = n_state n) \/
     exists nv, apply_block (n_state n) first = Some nv /\ n_state n' = next_state (n_state n) first nv).

Lemma reject_quiet : forall (n : node sig) v first second, quiet n (reject_step n v first second).
Proof.
  intros n v first second. unfold reject_step, quiet.
  destruct (redo_request (n_pool n) (b_height first)) as [[pl1 p1]|]; [|cbn; auto].
  destruct (stop_peer_frame (with_pool n pl1) p1) as [A [B C]].
  destruct (redo_request (n_pool (stop_peer (with_pool n pl1) p1)) (b_height second)) as [[pl2 p2]|].
  - destruct (p2 =? p1); cbn [n_store n_state n_log].
    + cbn [with_pool n_store n_state n_log]. rewrite A, B, C. cbn. repeat split. right. eauto 10.
    + destruct (stop_peer_frame (with_pool (stop_peer (with_pool n pl1) p1) pl2) p2) as [A' [B' C']].
      rewrite A', B', C'. cbn [with_pool n_store n_state n_log]. rewrite A, B, C. cbn. repeat split. right. eauto 10.
  - cbn [panic n_store n_state n_log]. rewrite A, B, C. cbn. auto.
Qed.

Lemma process_cases : forall vc (n : node sig), quiet n (process' vc n) \/ saving vc n (process' vc n).
Proof.
  intros vc n. unfold process_step.
  destruct (peek_two (n_pool n)) as [[first|] [second|]]; try solve [left; unfold quiet; auto].
  destruct (verify_first' vc (n_state n) first second) eqn:Ev.
  - destruct (pop_request (n_pool n)) as [pl|]; [|left; unfold quiet; cbn; auto].
    right. exists first, second. split; [exact Ev|].
    destruct (apply_block (n_state n) first) as [nv|] eqn:Ea; cbn; repeat split; eauto.
  - left. apply reject_quiet.
  - left. apply reject_quiet.
Qed.

Lemma step_cases : forall vc (n : node sig) o, quiet n (step' vc n o) \/ saving vc n (step' vc n o).
Proof.
  intros vc n o. unfold step. destruct (n_panicked n); [left; unfold quiet; auto|].
  destruct o as [p base height| |h p|p b|p|].
  - left. destruct ((p =? 0) || is_stopped n p); unfold quiet; cbn; auto.
  - left. unfold quiet; cbn; auto.
  - left. unfold quiet; cbn; auto.
  - left. destruct ((p =? 0) || is_stopped n p); [unfold quiet; auto|].
    unfold stop_reported.
    match goal with |- quiet _ (fold_right _ ?m ?l) => destruct (stop_list_frame l m) as [A [B C]] end.
    unfold quiet. rewrite A, B, C. cbn. auto.
  - left. destruct ((p =? 0) || is_stopped n p); unfold quiet; cbn; auto.
  - apply process_cases.
Qed.

(* ---- saved only if committed: along any run the log grows by events [evs], the store by exactly
   their entries, and every saved event is justified *)
Lemma saving_ok : forall vc, vc_sound vc -> forall (n : node sig) first second,
  verify_first' vc (n_state n) first second = SV_accept ->
  saved_ok (E_saved (n_state n) first second).
Proof.
  intros vc Hvc n first second Ev. apply verify_first_accept in Ev as [Hc Hv].
  cbn. split; [exact Hv|]. intro Hwf.
  destruct (Hvc _ _ _ _ _ Hwf Hc) as [A [B [C D]]]. repeat split; try assumption; try congruence.
Qed.

Lemma step_frame : forall vc, vc_sound vc -> forall (n : node sig) o,
  exists evs,
    n_log (step' vc n o) = evs ++ n_log n /\
    n_store (step' vc n o) = log_store evs ++ n_store n /\
    Forall saved_ok evs.
Proof.
  intros vc Hvc n o. destruct (step_cases vc n o) as [[A [B [C|[v [f [s [p1 [p2 C]]]]]]]]|[first [second [Ev [A [B _]]]]]].
  - exists []. cbn. auto.
  - exists [E_rejected v f s p1 p2]. cbn. repeat split; try assumption. repeat constructor.
  - exists [E_saved (n_state n) first second]. cbn. repeat split; try assumption.
    constructor; [|constructor]. exact (saving_ok vc Hvc n first second Ev).
Qed.

Lemma run_frame : forall vc, vc_sound vc -> forall ops (n : node sig),
  exists evs,
    n_log (run' vc ops n) = evs ++ n_log n /\
    n_store (run' vc ops n) = log_store evs ++ n_store n /\
    Forall saved_ok evs.
Proof.
  intros vc Hvc ops. induction ops as [|o ops IH]; intros n.
  - exists []. cbn. auto.
  - cbn [run fold_left]. destruct (step_frame vc Hvc n o) as [e1 [A1 [B1 C1]]].
    destruct (IH (step' vc n o)) as [e2 [A2 [B2 C2]]]. unfold run in *.
    exists (e2 ++ e1). rewrite A2, B2, A1, B1. repeat split.
    + rewrite app_assoc. reflexivity.
    + assert (Hls : forall a b, log_store (a ++ b) = log_store a ++ log_store b).
      { induction a as [|[st f s|v f s p1 p2] a IHa]; intros b; cbn; [reflexivity| |apply IHa].
        rewrite IHa. reflexivity. }
      rewrite Hls, app_assoc. reflexivity.
    + apply Forall_app. split; assumption.
Qed.

(* the state changes only by executing a block that is being saved *)
Lemma step_state : forall vc (n : node sig) o,
  n_state (step' vc n o) = n_state n \/
  exists first second nv,
    In (E_saved (n_state n) first second) (n_log (step' vc n o)) /\
    apply_block (n_state n) first = Some nv /\
    n_state (step' vc n o) = next_state (n_state n) first nv.
Proof.
  intros vc n o. destruct (step_cases vc n o) as [[_ [B _]]|[first [second [_ [A [_ [[_ C]|[nv [Ea C]]]]]]]]].
  - left. exact B.
  - left. exact C.
  - right. exists first, second, nv. rewrite A. cbn. auto.
Qed.

(* ================================================================== hand-over *)

Definition ev_good (e : event sig) : Prop :=
  match e with
  | E_saved st first second =>
    wf_valset (st_vals st) /\ keys_ok (st_vals st) /\
    addrs_ok (st_vals st) (c_sigs (b_last_commit second))
  | E_rejected _ _ _ _ _ => True
  end.

Definition ho_inv (n : node sig) : Prop := 0 <= st_height (n_state n) /\ handover' n = true.

Section Handover.
(* ValidateBlock accepts only a block above the state's height (state/validation.go validateBlock:
   LastBlockHeight+1, or InitialHeight when LastBlockHeight = 0; both instances are below) *)
Hypothesis validate_grows : forall st b,
  0 <= st_height st -> validate_block st b = true -> st_height st < b_height b.

Lemma step_handover : forall (n : node sig) o,
  Forall ev_good (n_log (step' (verify_commit sv) n o)) -> ho_inv n -> ho_inv (step' (verify_commit sv) n o).
Proof.
  intros n o Hg [H0 Hh].
  destruct (step_cases (verify_commit sv) n o) as [[A [B _]]|[first [second [Ev [A [B C]]]]]].
  - unfold ho_inv, handover in *. rewrite A, B. auto.
  - rewrite A in Hg. apply Forall_cons_iff in Hg as [[Hwf [Hk Ha]] _].
    apply verify_first_accept in Ev as [Hc Hv]. pose proof (validate_grows _ _ H0 Hv) as Hht.
    destruct C as [[_ C]|[nv [_ C]]]; unfold ho_inv, handover in *; rewrite B, C.
    + split; [exact H0|]. cbn [save_block load_seen se_height].
      assert (E : (b_height first =? st_height (n_state n)) = false) by lia. rewrite E. exact Hh.
    + cbn [next_state st_height st_chain st_last_vals]. split; [lia|].
      assert (E : (b_height first >? 0) = true) by lia. rewrite E.
      cbn [save_block load_seen se_height se_seen]. rewrite Z.eqb_refl.
      apply (reconstruct_ok (st_chain (n_state n)) (b_last_commit second) (st_vals (n_state n))
                            (b_id first) (b_height first)); try assumption. lia.
Qed.

Lemma run_log_mono : forall vc ops (n : node sig), exists evs, n_log (run' vc ops n) = evs ++ n_log n.
Proof.
  intros vc ops. induction ops as [|o ops IH]; intros n; [exists []; reflexivity|].
  cbn [run fold_left]. destruct (IH (step' vc n o)) as [e2 E2]. unfold run in *.
  destruct (step_cases vc n o) as [[_ [_ [C|[v [f [s [p1 [p2 C]]]]]]]]|[first [second [_ [A _]]]]].
  - exists e2. rewrite E2, C. reflexivity.
  - exists (e2 ++ [E_rejected v f s p1 p2]). rewrite E2, C, <- app_assoc. reflexivity.
  - exists (e2 ++ [E_saved (n_state n) first second]). rewrite E2, A, <- app_assoc. reflexivity.
Qed.

Lemma run_handover : forall ops (n : node sig),
  Forall ev_good (n_log (run' (verify_commit sv) ops n)) -> ho_inv n -> ho_inv (run' (verify_commit sv) ops n).
Proof.
  induction ops as [|o ops IH]; intros n Hg Hi; [exact Hi|].
  cbn [run fold_left] in *. apply IH; [exact Hg|]. apply step_handover; [|exact Hi].
  destruct (run_log_mono (verify_commit sv) ops (step' (verify_commit sv) n o)) as [evs E].
  unfold run in E. rewrite E in Hg. apply Forall_app in Hg as [_ Hg]. exact Hg.
Qed.


(* ---- heights never decrease along a run *)
Lemma step_height_mono : forall vc (n : node sig) o,
  0 <= st_height (n_state n) -> st_height (n_state n) <= st_height (n_state (step' vc n o)).
Proof.
  intros vc n o H0.
  destruct (step_cases vc n o) as [[_ [B _]]|[first [second [Ev [_ [_ C]]]]]].
  - rewrite B. lia.
  - apply verify_first_accept in Ev as [_ Hv]. pose proof (validate_grows _ _ H0 Hv) as Hht.
    destruct C as [[_ C]|[nv [_ C]]]; rewrite C; cbn [next_state st_height]; lia.
Qed.

Lemma run_height_mono : forall vc ops (n : node sig),
  0 <= st_height (n_state n) -> st_height (n_state n) <= st_height (n_state (run' vc ops n)).
Proof.
  intros vc ops. induction ops as [|o ops IH]; intros n H0; [cbn; lia|].
  cbn [run fold_left]. pose proof (step_height_mono vc n o H0) as H1.
  assert (H2 : 0 <= st_height (n_state (step' vc n o))) by lia.
  specialize (IH _ H2). unfold run in IH. lia.
Qed.

End Handover.

(* ================================================================== NewState / SwitchToConsensus *)

Notation reconstruct_vs' := (reconstruct_vs sv pk_addr).
Notation new_state' := (new_state sv pk_addr).
Notation switch' := (switch_to_consensus sv pk_addr).

Lemma reconstruct_vs_of_bool : forall chain seen lv,
  reconstruct' chain seen lv = true ->
  exists c vs, seen = Some c /\ commit_to_voteset' chain c lv = Some vs /\ vs_maj23 vs <> None /\
               reconstruct_vs' chain seen lv = Some vs.
Proof.
  intros chain seen lv. unfold reconstruct_last_commit, reconstruct_vs.
  destruct seen as [c|]; [|discriminate].
  destruct (commit_to_voteset' chain c lv) as [vs|] eqn:E; [|discriminate].
  destruct (vs_maj23 vs) eqn:Em; [|discriminate]. intros _.
  exists c, vs. repeat split; try assumption. rewrite Em. discriminate.
Qed.

Lemma reconstruct_bool_of_vs : forall chain seen lv vs,
  reconstruct_vs' chain seen lv = Some vs -> reconstruct' chain seen lv = true.
Proof.
  intros chain seen lv vs. unfold reconstruct_last_commit, reconstruct_vs.
  destruct seen as [c|]; [|discriminate].
  destruct (commit_to_voteset' chain c lv) as [vs0|]; [|discriminate].
  destruct (vs_maj23 vs0); [reflexivity | discriminate].
Qed.

(* LastCommit of the consensus state is the vote set made from the seen commit stored for the
   state's last block (nil before the first block) *)
Definition last_commit_is_seen (store : list (sentry sig)) (st : sstate) (cs : cstate) : Prop :=
  (st_height st = 0 -> cs_last_commit cs = None) /\
  (0 < st_height st ->
   exists c vs, load_seen store (st_height st) = Some c /\
                commit_to_voteset' (st_chain st) c (st_last_vals st) = Some vs /\
                vs_maj23 vs <> None /\ cs_last_commit cs = Some vs).

Lemma next_height_eq : forall ih (a b : sstate), st_height a = st_height b -> next_height ih a = next_height ih b.
Proof. intros ih a b E. unfold next_height. rewrite E. reflexivity. Qed.

(* what NewState leaves behind when it returns *)
Lemma new_state_inv : forall ih store st cs,
  0 <= st_height st ->
  new_state' ih store st = Some cs ->
  cs_commit_round cs = -1 /\ cs_height cs = next_height ih st /\ cs_state cs = Some st /\
  (st_height st = 0 -> cs_last_commit cs = None) /\
  (0 < st_height st ->
   reconstruct' (st_chain st) (load_seen store (st_height st)) (st_last_vals st) = true).
Proof.
  intros ih store st cs H0. unfold new_state, reconstruct_if_needed.
  destruct (st_height st >? 0) eqn:Eh.
  - unfold cs_reconstruct.
    destruct (reconstruct_vs' (st_chain st) (load_seen store (st_height st)) (st_last_vals st)) as [vs|] eqn:Er;
      [|discriminate].
    unfold update_to_state. cbn [cs_commit_round cs_height cs_state cs_votes cs_last_commit cs_zero].
    change ((0 >? -1) && (0 <? 0)) with false. cbn [andb].
    assert (E0 : (st_height st =? 0) = false) by lia. rewrite E0.
    change (0 >? -1) with true. cbn [andb].
    intro H. injection H as <-. cbn [cs_commit_round cs_height cs_state cs_last_commit].
    repeat split; try reflexivity; try lia.
    intros _. exact (reconstruct_bool_of_vs _ _ _ _ Er).
  - unfold update_to_state. cbn [cs_commit_round cs_height cs_state cs_votes cs_last_commit cs_zero].
    change ((0 >? -1) && (0 <? 0)) with false. cbn [andb].
    destruct (st_height st =? 0) eqn:E0.
    + intro H. injection H as <-. cbn [cs_commit_round cs_height cs_state cs_last_commit].
      repeat split; try reflexivity; lia.
    + change (0 >? -1) with true. cbn [andb]. discriminate.
Qed.

(* SwitchToConsensus on a consensus state that NewState built for [old], with a state [st] that is
   not behind [old] and whose seen commit can be reconstructed *)
Lemma switch_ok : forall ih store cs0 old st,
  cs_commit_round cs0 = -1 -> cs_height cs0 = next_height ih old -> cs_state cs0 = Some old ->
  (st_height old = 0 -> cs_last_commit cs0 = None) ->
  0 <= st_height old -> (st_height old = 0 \/ ih <= st_height old) ->
  st_height old <= st_height st ->
  (0 < st_height st ->
   reconstruct' (st_chain st) (load_seen store (st_height st)) (st_last_vals st) = true) ->
  exists cs',
    switch' ih store cs0 st = Some cs' /\
    cs_height cs' = next_height ih st /\ cs_commit_round cs' = -1 /\
    last_commit_is_seen store st cs'.
Proof.
  intros ih store cs0 old st Hcr Hch Hcs Hlc H0 Hih Hle Hrec.
  unfold switch_to_consensus, reconstruct_if_needed.
  destruct (st_height st >? 0) eqn:Eh.
  - assert (Hpos : 0 < st_height st) by lia.
    destruct (reconstruct_vs_of_bool _ _ _ (Hrec Hpos)) as [c [vs [Es [Ec [Em Er]]]]].
    unfold cs_reconstruct. rewrite Er.
    unfold update_to_state. cbn [cs_commit_round cs_height cs_state cs_votes cs_last_commit].
    rewrite Hcr, Hcs. change (-1 >? -1) with false. cbn [andb].
    assert (EA : ((st_height old >? 0) && negb (st_height old + 1 =? cs_height cs0)) = false).
    { rewrite Hch. unfold next_height. destruct (st_height old >? 0) eqn:Eo; [|reflexivity]. cbn [andb].
      assert (E1 : (st_height old + 1 =? 1) = false) by lia. rewrite E1, Z.eqb_refl. reflexivity. }
    rewrite EA.
    assert (EB : ((st_height old >? 0) && (cs_height cs0 =? ih)) = false).
    { rewrite Hch. unfold next_height. destruct (st_height old >? 0) eqn:Eo; [|reflexivity]. cbn [andb].
      assert (E1 : (st_height old + 1 =? 1) = false) by lia. rewrite E1.
      destruct Hih as [Hih|Hih]; lia. }
    rewrite EB.
    destruct (st_height st <=? st_height old) eqn:Ele.
    + (* nothing was synced: updateToState ignores the state, LastCommit was rebuilt *)
      eexists. split; [reflexivity|]. cbn [cs_height cs_commit_round cs_last_commit].
      split; [rewrite Hch; apply next_height_eq; lia|]. split; [first [exact Hcr | reflexivity]|].
      split; [intro; lia|]. intros _. exists c, vs. auto.
    + assert (E0 : (st_height st =? 0) = false) by lia. rewrite E0.
      eexists. split; [reflexivity|]. cbn [cs_height cs_commit_round cs_last_commit].
      split; [reflexivity|]. split; [reflexivity|].
      split; [intro; lia|]. intros _. exists c, vs. auto.
  - assert (Hz : st_height st = 0) by lia. assert (Hzo : st_height old = 0) by lia.
    unfold update_to_state. rewrite Hcr, Hcs. change (-1 >? -1) with false. cbn [andb].
    rewrite Hzo, Hz. change (0 >? 0) with false. cbn [andb]. change (0 <=? 0) with true. cbn iota.
    eexists. split; [reflexivity|].
    split; [rewrite Hch; apply next_height_eq; lia|]. split; [first [exact Hcr | reflexivity]|].
    split; [intros _; exact (Hlc Hzo) | intro; lia].
Qed.

Section Switch.
Variable ih : Z.
Hypothesis ih_pos : 1 <= ih.
(* state/validation.go validateBlock: block.Height must be InitialHeight when the state has no
   block yet, LastBlockHeight+1 afterwards *)
Hypothesis validate_next : forall st b, validate_block st b = true -> b_height b = next_height ih st.

Lemma validate_next_grows : forall st b,
  0 <= st_height st -> validate_block st b = true -> st_height st < b_height b.
Proof.
  intros st b H0 Hv. rewrite (validate_next _ _ Hv). unfold next_height.
  destruct (st_height st + 1 =? 1) eqn:E; lia.
Qed.

Lemma run_switch : forall ops (n : node sig) cs0,
  Forall ev_good (n_log (run' (verify_commit sv) ops n)) ->
  0 <= st_height (n_state n) ->
  (st_height (n_state n) = 0 \/ ih <= st_height (n_state n)) ->
  new_state' ih (n_store n) (n_state n) = Some cs0 ->
  exists cs',
    switch' ih (n_store (run' (verify_commit sv) ops n)) cs0 (n_state (run' (verify_commit sv) ops n)) = Some cs' /\
    cs_height cs' = next_height ih (n_state (run' (verify_commit sv) ops n)) /\
    cs_commit_round cs' = -1 /\
    last_commit_is_seen (n_store (run' (verify_commit sv) ops n)) (n_state (run' (verify_commit sv) ops n)) cs'.
Proof.
  intros ops n cs0 Hg H0 Hih Hns.
  destruct (new_state_inv ih _ _ _ H0 Hns) as [Hcr [Hch [Hcs [Hlc Hrec]]]].
  assert (Hho : ho_inv n).
  { split; [exact H0|]. unfold handover. destruct (st_height (n_state n) >? 0) eqn:E; [|reflexivity].
    apply Hrec. lia. }
  destruct (run_handover validate_next_grows ops n Hg Hho) as [H0' Hh'].
  pose proof (run_height_mono validate_next_grows (verify_commit sv) ops n H0) as Hmono.
  apply (switch_ok ih _ cs0 (n_state n)); try assumption.
  intro Hpos. unfold handover in Hh'.
  assert (E : (st_height (n_state (run' (verify_commit sv) ops n)) >? 0) = true) by lia.
  rewrite E in Hh'. exact Hh'.
Qed.

End Switch.

(* the instance the first hand-over theorem was stated with (chains whose InitialHeight is 1) *)
Lemma run_handover_plus1 :
  (forall st b, validate_block st b = true -> b_height b = st_height st + 1) ->
  forall ops (n : node sig),
    Forall ev_good (n_log (run' (verify_commit sv) ops n)) -> ho_inv n -> ho_inv (run' (verify_commit sv) ops n).
Proof.
  intros Hv. apply run_handover. intros st b _ H. rewrite (Hv _ _ H). lia.
Qed.

End P.
