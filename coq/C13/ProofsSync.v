(* C13 — block sync against a canonical chain: who is blamed by a rejection (Part D) and progress
   with honest peers (Part E).  Over Model.v; uses the pool invariant of ProofsPool.v.
   The model treats bpRequester.redo as immediate (see Model.v); so do these statements. *)
From Coq Require Import List ZArith NArith Bool Lia ZifyBool.
From TM Require Import Generated.Consts C07.Model C07.Proofs C13.Model C13.Proofs C13.ProofsPool.
Import ListNotations.
Open Scope Z_scope.

Section Canon.

Variable sig : Type.
Variable validate_block : sstate -> block sig -> bool.
Variable apply_block : sstate -> block sig -> option (list validator * Z).
Variable vc : vcheck sig.

(* the canonical chain: the block of every height and the state the node verifies it with
   (the state after executing the canonical blocks below it) *)
Variable canon : Z -> block sig.
Variable cst : Z -> sstate.
(* the peers that serve nothing but canonical blocks *)
Variable honest : peer -> bool.

Notation step' := (step validate_block apply_block vc).
Notation run' := (run validate_block apply_block vc).
Notation verify_first' := (verify_first validate_block vc).

Hypothesis canon_height : forall h, b_height (canon h) = h.
(* the canonical chain is valid: the LastCommit of block h+1 commits block h under the validators
   of the state at h, and ValidateBlock accepts block h there *)
Hypothesis canon_accept : forall h, verify_first' (cst h) (canon h) (canon (h + 1)) = SV_accept.
(* executing the canonical block leads to the next canonical state *)
Hypothesis canon_apply : forall h,
  exists nv, apply_block (cst h) (canon h) = Some nv /\ next_state (cst h) (canon h) nv = cst (h + 1).
(* nothing but the canonical block of height h passes the acceptance rule in the canonical state
   (see [canon_only_of_quorum] below: follows from a sound commit check when no other block id of
   that height ever gets +2/3 of valid signatures and the block id binds the block) *)
Hypothesis canon_only : forall h f s,
  b_height f = h -> verify_first' (cst h) f s = SV_accept -> f = canon h.

(* what every block response satisfies: an honest sender sends the canonical block of the height *)
Definition hsent (p : peer) (b : block sig) : Prop := honest p = true -> b = canon (b_height b).

Notation node_ok' := (node_ok sig hsent).

(* the node's state is the canonical state of pool.height *)
Definition canon_inv (n : node sig) : Prop := n_state n = cst (p_height (n_pool n)).

(* ================================================================== Part D: rejections and liars *)

Definition liars (l : list peer) : nat := length (filter (fun p => negb (honest p)) l).
Definition honests (l : list peer) : nat := length (filter honest l).

Lemma count_two : forall p1 p2 : peer,
  (honest p1 = false \/ honest p2 = false) ->
  (honests [p2; p1] <= 1)%nat /\ (1 <= liars [p2; p1])%nat.
Proof.
  intros p1 p2 H. unfold honests, liars. cbn [filter].
  destruct (honest p1), (honest p2); cbn [negb length]; destruct H; try discriminate; lia.
Qed.

(* clause 10 for one turn: a rejected pair is not the canonical pair, at least one of its
   suppliers is not honest, and of the peers the turn stops at most one is honest and at least
   one is not *)
Theorem rejection_blames_a_liar_turn : forall (n : node sig) first second,
  node_ok' n -> canon_inv n -> n_panicked n = false ->
  peek_two (n_pool n) = (Some first, Some second) ->
  verify_first' (n_state n) first second <> SV_accept ->
  let h := p_height (n_pool n) in
  let p1 := supplier sig n h in
  let p2 := supplier sig n (h + 1) in
  let n' := step' n OProcess in
  ~ (first = canon h /\ second = canon (h + 1)) /\
  (honest p1 = false \/ honest p2 = false) /\
  (exists new, n_stopped n' = new ++ n_stopped n /\ (forall q, In q new -> q = p1 \/ q = p2) /\
               (honests new <= 1)%nat /\ (1 <= liars new)%nat) /\
  canon_inv n' /\ node_ok' n'.
Proof.
  intros n f s Hok Hc Hp Hpeek Hv h p1 p2 n'.
  destruct (peek_two_some sig hsent n f s Hok Hpeek)
    as [r1 [r2 [E1 [E2 [B1 [B2 [Hf [Hs [N1 [N2 [S1 [S2 [I1 [I2 [T1 T2]]]]]]]]]]]]]]].
  assert (Ep1 : p1 = rq_peer r1) by (unfold p1, supplier, h; rewrite E1; reflexivity).
  assert (Ep2 : p2 = rq_peer r2) by (unfold p2, supplier, h; rewrite E2; reflexivity).
  rewrite <- Ep1 in T1. rewrite <- Ep2 in T2. unfold hsent in T1, T2. rewrite Hf in T1. rewrite Hs in T2.
  fold h in T1, T2.
  assert (Hnc : ~ (f = canon h /\ s = canon (h + 1))).
  { intros [-> ->]. apply Hv. rewrite Hc. apply canon_accept. }
  assert (Hl : honest p1 = false \/ honest p2 = false).
  { destruct (honest p1); [|left; reflexivity]. destruct (honest p2); [|right; reflexivity].
    exfalso. apply Hnc. split; [apply T1 | apply T2]; reflexivity. }
  destruct (bad_response_turn sig validate_block apply_block hsent vc n f s Hok Hp Hpeek Hv)
    as [_ [[_ [K2 [_ [K4 _]]]] [[K5 _] [_ [_ [_ [_ K9]]]]]]].
  fold h p1 p2 n' in K2, K4, K5, K9.
  split; [exact Hnc|]. split; [exact Hl|]. split; [|split; [|exact K9]].
  - eexists. split; [exact K5|]. destruct (Z.eqb_spec p2 p1) as [E|E].
    + split; [intros q [<-|[]]; left; reflexivity|].
      assert (Hl1 : honest p1 = false) by (destruct Hl as [Hl|Hl]; [exact Hl | rewrite <- E; exact Hl]).
      unfold honests, liars. cbn [filter]. rewrite Hl1. cbn. lia.
    + split; [intros q [<-|[<-|[]]]; auto|]. apply count_two. exact Hl.
  - unfold canon_inv. rewrite K2, K4. exact Hc.
Qed.

(* ---- over all runs in which the honest peers behave *)

(* how honest peers behave: they answer only an open request that is assigned to them, with the
   canonical block of that height, and they do not disconnect.  Everybody else is unconstrained. *)
Definition op_behaved (n : node sig) (o : op sig) : Prop :=
  match o with
  | OBlock p b =>
    honest p = true ->
    b = canon (b_height b) /\
    exists r, req_at (n_pool n) (b_height b) = Some r /\ rq_peer r = p /\ rq_block r = None
  | ORemovePeer p => honest p = false
  | _ => True
  end.

Fixpoint behaved (n : node sig) (ops : list (op sig)) : Prop :=
  match ops with
  | [] => True
  | o :: r => op_behaved n o /\ behaved (step' n o) r
  end.

Lemma behaved_sent : forall n o, op_behaved n o -> op_sent sig hsent o.
Proof.
  intros n o H. destruct o; try exact I. cbn [op_sent]. intro Hh. exact (proj1 (H Hh)).
Qed.

Lemma peek_none_nil : forall (pl : pool sig), p_reqs pl = [] -> peek_two pl = (None, None).
Proof.
  intros pl E. unfold peek_two, block_at, req_at. rewrite E.
  assert (Hn : forall k, nth_error (@nil (requester sig)) k = None) by (intros [|k]; reflexivity).
  rewrite !Hn. destruct (_ <? _); destruct (_ <? _); reflexivity.
Qed.

Lemma accept_state : forall (n : node sig) f s nv,
  n_panicked n = false -> peek_two (n_pool n) = (Some f, Some s) ->
  verify_first' (n_state n) f s = SV_accept -> apply_block (n_state n) f = Some nv ->
  n_state (step' n OProcess) = next_state (n_state n) f nv /\ n_panicked (step' n OProcess) = false.
Proof.
  intros n f s nv Hp Hpeek Hv Ha. unfold step, process_step. rewrite Hp, Hpeek, Hv.
  unfold pop_request. destruct (p_reqs (n_pool n)) as [|r rs] eqn:Er.
  - rewrite (peek_none_nil _ Er) in Hpeek. discriminate.
  - rewrite Ha. cbn [n_state n_panicked]. auto.
Qed.

(* an accepting turn in a canonical node stores the canonical block and moves to the next
   canonical state *)
Lemma accept_canon : forall (n : node sig) f s,
  node_ok' n -> canon_inv n -> n_panicked n = false ->
  peek_two (n_pool n) = (Some f, Some s) ->
  verify_first' (n_state n) f s = SV_accept ->
  f = canon (p_height (n_pool n)) /\ canon_inv (step' n OProcess) /\ n_panicked (step' n OProcess) = false.
Proof.
  intros n f s Hok Hc Hp Hpeek Hv.
  destruct (peek_two_some sig hsent n f s Hok Hpeek) as [r1 [r2 [_ [_ [_ [_ [Hf _]]]]]]].
  rewrite Hc in Hv. pose proof (canon_only _ _ _ Hf Hv) as Ef. split; [exact Ef|].
  destruct (canon_apply (p_height (n_pool n))) as [nv [Ea En]].
  rewrite <- Hc in Hv.
  assert (Ea' : apply_block (n_state n) f = Some nv) by (rewrite Hc, Ef; exact Ea).
  destruct (accept_state n f s nv Hp Hpeek Hv Ea') as [A B].
  destruct (process_accept_shape sig validate_block apply_block vc n f s Hp Hpeek Hv) as [_ [_ [C _]]].
  split; [|exact B]. unfold canon_inv. rewrite A, C, Hc, Ef. exact En.
Qed.

Lemma stop_peer_new : forall (n : node sig) p,
  n_stopped (stop_peer n p) = n_stopped n \/
  (n_stopped (stop_peer n p) = p :: n_stopped n /\ ~ In p (n_stopped n)).
Proof.
  intros n p. unfold stop_peer. destruct (p =? 0); [left; reflexivity|]. cbn [orb].
  destruct (is_stopped n p) eqn:E; [left; reflexivity|]. right. cbn [n_stopped].
  split; [reflexivity | apply is_stopped_false; exact E].
Qed.

Lemma liar_new : forall (n : node sig) p,
  honest p = false ->
  exists new, n_stopped (stop_peer n p) = new ++ n_stopped n /\ (honests new <= liars new)%nat /\
              NoDup new /\ (forall q, In q new -> ~ In q (n_stopped n)).
Proof.
  intros n p Hh. destruct (stop_peer_new n p) as [E|[E Hn]].
  - exists []. rewrite E. repeat split; [cbn; lia | constructor | intros q []].
  - exists [p]. rewrite E. repeat split.
    + unfold honests, liars. cbn [filter]. rewrite Hh. cbn. lia.
    + constructor; [intros [] | constructor].
    + intros q [<-|[]]. exact Hn.
Qed.

Lemma list_not_cons_self : forall (A : Type) (l : list A) x, l <> x :: l.
Proof. intros A l x E. apply (f_equal (@length A)) in E. cbn in E. lia. Qed.

(* one step: the peers it stops, of which at least as many are liars as honest *)
Lemma step_balance : forall (n : node sig) o,
  node_ok' n -> canon_inv n -> op_behaved n o ->
  (exists new, n_stopped (step' n o) = new ++ n_stopped n /\ (honests new <= liars new)%nat /\
               NoDup new /\ (forall q, In q new -> ~ In q (n_stopped n))) /\
  (n_panicked n = false -> canon_inv (step' n o) /\ n_panicked (step' n o) = false).
Proof.
  intros n o Hok Hc Hb.
  assert (Triv : forall m : node sig, n_stopped m = n_stopped n ->
            exists new, n_stopped m = new ++ n_stopped n /\ (honests new <= liars new)%nat /\
                        NoDup new /\ (forall q, In q new -> ~ In q (n_stopped n))).
  { intros m E. exists []. rewrite E. repeat split; [cbn; lia | constructor | intros q []]. }
  destruct (n_panicked n) eqn:Hp.
  { split; [|discriminate]. apply Triv. unfold step. rewrite Hp. reflexivity. }
  destruct o as [p base height| |h p|p b|p|].
  - assert (E : n_stopped (step' n (OStatus p base height)) = n_stopped n /\
                n_state (step' n (OStatus p base height)) = n_state n /\
                p_height (n_pool (step' n (OStatus p base height))) = p_height (n_pool n) /\
                n_panicked (step' n (OStatus p base height)) = false).
    { unfold step. rewrite Hp. destruct ((p =? 0) || is_stopped n p); auto. }
    destruct E as [E1 [E2 [E3 E4]]]. split; [apply Triv; exact E1|]. intros _.
    split; [unfold canon_inv; rewrite E2, E3; exact Hc | exact E4].
  - destruct (step_log_other sig validate_block apply_block vc n OMakeRequester ltac:(discriminate)) as [_ [_ E3]].
    split; [apply Triv; unfold step; rewrite Hp; reflexivity|]. intros _.
    split; [unfold canon_inv; rewrite E3; unfold step; rewrite Hp; exact Hc | unfold step; rewrite Hp; exact Hp].
  - destruct (step_log_other sig validate_block apply_block vc n (OPick h p) ltac:(discriminate)) as [_ [_ E3]].
    split; [apply Triv; unfold step; rewrite Hp; reflexivity|]. intros _.
    split; [unfold canon_inv; rewrite E3; unfold step; rewrite Hp; exact Hc | unfold step; rewrite Hp; exact Hp].
  - destruct (step_log_other sig validate_block apply_block vc n (OBlock p b) ltac:(discriminate)) as [_ [_ E3]].
    destruct ((p =? 0) || is_stopped n p) eqn:Hcond.
    { assert (E : step' n (OBlock p b) = n) by (unfold step; rewrite Hp, Hcond; reflexivity).
      rewrite E. split; [apply Triv; reflexivity | auto]. }
    destruct (step_block_cases sig validate_block apply_block vc n p b Hp Hcond) as [[_ E]|[Ee E]].
    + rewrite E. split; [apply Triv; reflexivity|]. intros _. rewrite E in E3.
      split; [unfold canon_inv; rewrite E3; exact Hc | exact Hp].
    + assert (Hh : honest p = false).
      { destruct (honest p) eqn:Hh; [|reflexivity]. exfalso.
        destruct (Hb Hh) as [_ [r [Er [Erp Erb]]]].
        unfold add_block in Ee. rewrite Er, Erb, Erp, Z.eqb_refl in Ee. cbn in Ee.
        exact (list_not_cons_self _ _ _ Ee). }
      rewrite E. split; [exact (liar_new (with_pool n (add_block (n_pool n) p b)) p Hh)|].
      intros _. rewrite E in E3. split.
      * unfold canon_inv. rewrite E3.
        rewrite (proj2 (proj2 (stop_peer_frame sig (with_pool n (add_block (n_pool n) p b)) p))). exact Hc.
      * unfold stop_peer. destruct (_ || _); exact Hp.
  - rewrite (step_remove_is_stop sig validate_block apply_block vc n p Hp).
    split; [exact (liar_new n p Hb)|]. intros _.
    destruct (step_log_other sig validate_block apply_block vc n (ORemovePeer p) ltac:(discriminate)) as [_ [_ E3]].
    rewrite (step_remove_is_stop sig validate_block apply_block vc n p Hp) in E3. split.
    + unfold canon_inv. rewrite E3, (proj2 (proj2 (stop_peer_frame sig n p))). exact Hc.
    + unfold stop_peer. destruct (_ || _); exact Hp.
  - destruct (peek_two (n_pool n)) as [[f|] [s|]] eqn:Hpeek;
      try (assert (E : step' n OProcess = n) by (unfold step, process_step; rewrite Hp, Hpeek; reflexivity);
           rewrite E; split; [apply Triv; reflexivity | auto]).
    destruct (verify_first' (n_state n) f s) eqn:Hv.
    + destruct (accept_canon n f s Hok Hc Hp Hpeek Hv) as [_ [A B]].
      split; [|auto]. apply Triv.
      exact (proj2 (proj2 (proj2 (proj2 (proj2
               (process_accept_shape sig validate_block apply_block vc n f s Hp Hpeek Hv)))))).
    + assert (Hne : verify_first' (n_state n) f s <> SV_accept) by (rewrite Hv; discriminate).
      destruct (rejection_blames_a_liar_turn n f s Hok Hc Hp Hpeek Hne) as [_ [_ [[new [N1 [N2 [N3 N4]]]] [N5 _]]]].
      destruct (bad_response_turn sig validate_block apply_block hsent vc n f s Hok Hp Hpeek Hne)
        as [[_ [_ [_ [_ [S1 S2]]]]] [[_ [_ [K3 _]]] [[K5 _] _]]].
      split; [|auto]. exists new. split; [exact N1|]. split; [lia|].
      rewrite N1 in K5. apply app_inv_tail in K5. rewrite K5. split.
      * destruct (Z.eqb_spec (supplier sig n (p_height (n_pool n) + 1)) (supplier sig n (p_height (n_pool n)))) as [E|E].
        -- constructor; [intros [] | constructor].
        -- constructor; [intros [H|[]]; congruence | constructor; [intros [] | constructor]].
      * intros q Hq. destruct (Z.eqb_spec (supplier sig n (p_height (n_pool n) + 1)) (supplier sig n (p_height (n_pool n)))) as [E|E].
        -- destruct Hq as [<-|[]]. exact S1.
        -- destruct Hq as [<-|[<-|[]]]; assumption.
    + assert (Hne : verify_first' (n_state n) f s <> SV_accept) by (rewrite Hv; discriminate).
      destruct (rejection_blames_a_liar_turn n f s Hok Hc Hp Hpeek Hne) as [_ [_ [[new [N1 [N2 [N3 N4]]]] [N5 _]]]].
      destruct (bad_response_turn sig validate_block apply_block hsent vc n f s Hok Hp Hpeek Hne)
        as [[_ [_ [_ [_ [S1 S2]]]]] [[_ [_ [K3 _]]] [[K5 _] _]]].
      split; [|auto]. exists new. split; [exact N1|]. split; [lia|].
      rewrite N1 in K5. apply app_inv_tail in K5. rewrite K5. split.
      * destruct (Z.eqb_spec (supplier sig n (p_height (n_pool n) + 1)) (supplier sig n (p_height (n_pool n)))) as [E|E].
        -- constructor; [intros [] | constructor].
        -- constructor; [intros [H|[]]; congruence | constructor; [intros [] | constructor]].
      * intros q Hq. destruct (Z.eqb_spec (supplier sig n (p_height (n_pool n) + 1)) (supplier sig n (p_height (n_pool n)))) as [E|E].
        -- destruct Hq as [<-|[]]. exact S1.
        -- destruct Hq as [<-|[<-|[]]]; assumption.
Qed.

Lemma honests_app : forall a b, honests (a ++ b) = (honests a + honests b)%nat.
Proof. intros a b. unfold honests. rewrite filter_app, app_length. reflexivity. Qed.

Lemma liars_app : forall a b, liars (a ++ b) = (liars a + liars b)%nat.
Proof. intros a b. unfold liars. rewrite filter_app, app_length. reflexivity. Qed.

Lemma nodup_app_disj : forall (a b : list peer),
  NoDup a -> NoDup b -> (forall q, In q a -> ~ In q b) -> NoDup (a ++ b).
Proof.
  induction a as [|x a IH]; intros b Ha Hb Hd; [exact Hb|].
  inversion Ha as [|? ? Hx Ha']; subst. cbn [app]. constructor.
  - intro H. apply in_app_or in H as [H|H]; [exact (Hx H) | exact (Hd x (or_introl eq_refl) H)].
  - apply IH; [exact Ha' | exact Hb |]. intros q Hq. apply Hd. right. exact Hq.
Qed.

Lemma nodup_app_l : forall (a b : list peer), NoDup (a ++ b) -> NoDup a.
Proof.
  induction a as [|x a IH]; intros b H; [constructor|]. cbn [app] in H.
  inversion H as [|? ? Hx H']; subst. constructor; [|exact (IH b H')].
  intro Hi. apply Hx. apply in_or_app. left. exact Hi.
Qed.

(* clause 10 over ALL runs in which the honest peers behave (liars, order, disconnects of liars
   arbitrary): of the peers stopped during the run at least as many are liars as honest *)
Theorem run_balance : forall ops (n : node sig),
  node_ok' n -> canon_inv n -> n_panicked n = false -> NoDup (n_stopped n) -> behaved n ops ->
  exists new,
    n_stopped (run' ops n) = new ++ n_stopped n /\ (honests new <= liars new)%nat /\
    NoDup (new ++ n_stopped n) /\
    node_ok' (run' ops n) /\ canon_inv (run' ops n) /\ n_panicked (run' ops n) = false.
Proof.
  induction ops as [|o ops IH]; intros n Hok Hc Hp Hnd Hb.
  - exists []. cbn [app run fold_left honests liars filter length].
    split; [reflexivity|]. split; [lia|]. auto.
  - destruct Hb as [Hb1 Hb2]. cbn [run fold_left].
    destruct (step_balance n o Hok Hc Hb1) as [[new1 [A1 [A2 [A3 A4]]]] A5].
    destruct (A5 Hp) as [Hc1 Hp1].
    assert (Hok1 : node_ok' (step' n o)) by (apply step_ok; [exact (behaved_sent n o Hb1) | exact Hok]).
    assert (Hnd1 : NoDup (n_stopped (step' n o))) by (rewrite A1; apply nodup_app_disj; assumption).
    destruct (IH (step' n o) Hok1 Hc1 Hp1 Hnd1 Hb2) as [new2 [B1 [B2 [B3 [B4 [B5 B6]]]]]].
    fold (run' ops (step' n o)) in *.
    exists (new2 ++ new1). rewrite B1, A1, app_assoc. split; [reflexivity|].
    rewrite honests_app, liars_app. split; [lia|]. split; [|auto].
    rewrite <- app_assoc, <- A1. exact B3.
Qed.

(* ... hence, when the liars are fewer than the honest peers, the honest set never becomes empty:
   [Hs] honest peers none of which is stopped at the start, [Ls] a list of all peers that are not
   honest; after ANY behaved run some peer of [Hs] is still not stopped. *)
Theorem honest_set_survives : forall ops (n : node sig) (Hs Ls : list peer),
  node_ok' n -> canon_inv n -> n_panicked n = false -> NoDup (n_stopped n) -> behaved n ops ->
  NoDup Hs -> (forall p, In p Hs -> honest p = true /\ ~ In p (n_stopped n)) ->
  (forall p, honest p = false -> In p Ls) ->
  (length Ls < length Hs)%nat ->
  exists p, In p Hs /\ ~ In p (n_stopped (run' ops n)).
Proof.
  intros ops n Hs Ls Hok Hc Hp Hnd Hb HndH HH HL Hlt.
  destruct (run_balance ops n Hok Hc Hp Hnd Hb) as [new [A [B [C _]]]].
  destruct (Forall_Exists_dec (fun p => In p (n_stopped (run' ops n)))
              (fun p => in_dec Z.eq_dec p (n_stopped (run' ops n))) Hs) as [Hall|Hex].
  - exfalso. rewrite Forall_forall in Hall.
    assert (I1 : incl Hs (filter honest new)).
    { intros p Hin. destruct (HH p Hin) as [Hh Hn]. apply filter_In. split; [|exact Hh].
      specialize (Hall p Hin). rewrite A in Hall. apply in_app_or in Hall as [H|H]; [exact H | contradiction]. }
    assert (I2 : incl (filter (fun p => negb (honest p)) new) Ls).
    { intros p Hin. apply filter_In in Hin as [_ Hh]. apply HL. apply negb_true_iff. exact Hh. }
    pose proof (NoDup_incl_length HndH I1) as L1.
    assert (Hndn : NoDup new) by (exact (nodup_app_l _ _ C)).
    pose proof (NoDup_incl_length (NoDup_filter (fun p => negb (honest p)) Hndn) I2) as L2.
    unfold honests, liars in B. lia.
  - apply Exists_exists in Hex as [p [Hin Hn]]. exists p. split; assumption.
Qed.

(* every block a behaved run stores is the canonical block of its height *)
Lemma behaved_app : forall a c (n : node sig), behaved n (a ++ c) -> behaved n a /\ behaved (run' a n) c.
Proof.
  induction a as [|o a IH]; intros c n H; [split; [exact I | exact H]|].
  cbn [app behaved] in H. destruct H as [H1 H2]. destruct (IH c _ H2) as [A B].
  split; [split; assumption | exact B].
Qed.

Lemma behaved_all_sent : forall ops (n : node sig), behaved n ops -> Forall (op_sent sig hsent) ops.
Proof.
  induction ops as [|o ops IH]; intros n H; [constructor|]. destruct H as [H1 H2].
  constructor; [exact (behaved_sent n o H1) | exact (IH _ H2)].
Qed.

Theorem run_saved_canonical : forall ops (n : node sig),
  node_ok' n -> canon_inv n -> n_panicked n = false -> NoDup (n_stopped n) -> behaved n ops ->
  forall st f s, In (E_saved st f s) (n_log (run' ops n)) ->
  In (E_saved st f s) (n_log n) \/ (f = canon (b_height f) /\ st = cst (b_height f)).
Proof.
  intros ops n Hok Hc Hp Hnd Hb st f s H.
  destruct (event_origin sig validate_block apply_block vc ops n _ H)
    as [H1|[a [c [Eo [Hpm [f0 [s0 [Hpeek [_ K]]]]]]]]]; [left; exact H1|].
  right. destruct K as [[Hv E]|[_ [v [p1 [p2 E]]]]]; [|discriminate]. injection E as -> <- <-.
  rewrite Eo in Hb. destruct (behaved_app a _ n Hb) as [Hba _].
  destruct (run_balance a n Hok Hc Hp Hnd Hba) as [_ [_ [_ [_ [Hokm [Hcm _]]]]]].
  destruct (accept_canon _ f s Hokm Hcm Hpm Hpeek Hv) as [Ef _].
  destruct (peek_two_some sig hsent _ f s Hokm Hpeek) as [r1 [r2 [_ [_ [_ [_ [Hf _]]]]]]].
  rewrite Hf. split; [exact Ef | exact Hcm].
Qed.

(* ================================================================== Part E: progress *)

(* weighted sums over the requesters *)
Definition sumw (w : requester sig -> Z) (rs : list (requester sig)) : Z :=
  fold_right (fun r a => w r + a) 0 rs.

Lemma sumw_cons : forall w r a, sumw w (r :: a) = w r + sumw w a.
Proof. reflexivity. Qed.

Lemma sumw_app : forall w a b, sumw w (a ++ b) = sumw w a + sumw w b.
Proof.
  intros w a b. induction a as [|r a IH]; [reflexivity|].
  rewrite <- app_comm_cons, !sumw_cons, IH. lia.
Qed.

Lemma sumw_set_nth : forall w l i (x old : requester sig),
  nth_error l i = Some old -> sumw w (set_nth l i x) = sumw w l - w old + w x.
Proof.
  intros w l. induction l as [|y l IH]; intros i x old H; [destruct i; discriminate|].
  destruct i as [|i]; cbn [nth_error set_nth] in *.
  - injection H as ->. rewrite !sumw_cons. lia.
  - rewrite !sumw_cons, (IH i x old H). lia.
Qed.

Lemma sumw_nonneg : forall w l, (forall r, 0 <= w r) -> 0 <= sumw w l.
Proof. intros w l Hw. induction l as [|y l IH]; [cbn; lia|]. rewrite sumw_cons. specialize (Hw y). lia. Qed.

Lemma sumw_pos_ex : forall w l, (forall r, 0 <= w r) -> 0 < sumw w l -> exists r, In r l /\ 0 < w r.
Proof.
  intros w l Hw. induction l as [|y l IH]; intro H; [cbn in H; lia|]. rewrite sumw_cons in H.
  destruct (Z_lt_le_dec 0 (w y)) as [Hy|Hy]; [exists y; split; [left; reflexivity | exact Hy]|].
  destruct IH as [r [Hr Hr']]; [lia|]. exists r. split; [right; exact Hr | exact Hr'].
Qed.

(* what a requester still needs: 2 = a peer and a block, 1 = the block, 0 = nothing *)
Definition rc (r : requester sig) : Z :=
  match rq_block r with Some _ => 0 | None => if rq_peer r =? 0 then 2 else 1 end.
Definition noblk (r : requester sig) : Z := match rq_block r with Some _ => 0 | None => 1 end.
(* open requests of peer p *)
Definition cntw (p : peer) (r : requester sig) : Z := if rq_peer r =? p then noblk r else 0.

Lemma rc_nonneg : forall r, 0 <= rc r.
Proof. intro r. unfold rc. destruct (rq_block r); [lia|]. destruct (_ =? _); lia. Qed.
Lemma noblk_nonneg : forall r, 0 <= noblk r.
Proof. intro r. unfold noblk. destruct (rq_block r); lia. Qed.
Lemma cntw_nonneg : forall p r, 0 <= cntw p r.
Proof. intros p r. unfold cntw. destruct (_ =? _); [apply noblk_nonneg | lia]. Qed.

(* the target: every connected peer reports at least height T *)
Variable T : Z.

(* the measure: what is still missing to have fetched every block up to the highest reported
   height M and stored every block below it — 3 per requester not yet made, [rc] per requester,
   1 per block still to be stored *)
Definition mu (pl : pool sig) : Z :=
  sumw rc (p_reqs pl)
  + 3 * (p_max_peer_height pl + 1 - p_height pl - Z.of_nat (length (p_reqs pl)))
  + (p_max_peer_height pl - p_height pl).

Definition peer_inv (pl : pool sig) (x : bpeer) : Prop :=
  T <= bp_height x /\ bp_height x <= p_max_peer_height pl /\ bp_base x <= p_height pl /\
  bp_pending x = sumw (cntw (bp_id x)) (p_reqs pl).

(* the situation of the progress theorem: a well-formed pool, the node in the canonical state of
   pool.height, every peer the pool knows is honest, reports a height >= T (and at most the
   recorded maximum) and has the blocks from pool.height on; no requester above the recorded
   maximum; the two pending counters are what they count *)
Definition pinv (S : list peer) (st : sstate) (pl : pool sig) : Prop :=
  pool_ok sig hsent S pl /\ st = cst (p_height pl) /\
  (forall p, In p (ids sig pl) -> honest p = true) /\
  p_peers pl <> [] /\
  Forall (peer_inv pl) (p_peers pl) /\
  p_height pl + Z.of_nat (length (p_reqs pl)) <= p_max_peer_height pl + 1 /\
  p_height pl <= p_max_peer_height pl /\
  p_num_pending pl = sumw noblk (p_reqs pl).

Definition prog_inv (n : node sig) : Prop :=
  pinv (n_stopped n) (n_state n) (n_pool n) /\ n_panicked n = false.

(* the operations of the progress phase: requester creation, picks, processing turns, and
   answers of connected peers to their open requests with the canonical block *)
Definition penv (n : node sig) (o : op sig) : Prop :=
  match o with
  | OMakeRequester => True
  | OPick _ _ => True
  | OProcess => True
  | OBlock p b =>
    In p (ids sig (n_pool n)) /\ b = canon (b_height b) /\
    exists r, req_at (n_pool n) (b_height b) = Some r /\ rq_peer r = p /\ rq_block r = None
  | _ => False
  end.

(* the operation changes the pool *)
Definition eff (n : node sig) (o : op sig) : bool :=
  let pl := n_pool n in
  match o with
  | OMakeRequester =>
    negb (p_num_pending pl >=? bc0_max_total_requesters)
    && negb (Z.of_nat (length (p_reqs pl)) >=? bc0_max_total_requesters)
    && negb (p_height pl + Z.of_nat (length (p_reqs pl)) >? p_max_peer_height pl)
  | OPick h p =>
    match req_at pl h with
    | Some r => (rq_peer r =? 0) &&
                match find_peer (p_peers pl) p with Some x => eligible h x | None => false end
    | None => false
    end
  | OBlock _ _ => true
  | OProcess => match peek_two pl with (Some _, Some _) => true | _ => false end
  | _ => false
  end.

Definition dec (b : bool) : Z := if b then 1 else 0.

Lemma req_at_idx : forall (pl : pool sig) i,
  req_at pl (p_height pl + Z.of_nat i) = nth_error (p_reqs pl) i.
Proof.
  intros pl i. unfold req_at.
  assert (E : (p_height pl + Z.of_nat i <? p_height pl) = false) by lia. rewrite E.
  replace (Z.to_nat (p_height pl + Z.of_nat i - p_height pl)) with i by lia. reflexivity.
Qed.

Lemma pool_ok_id : forall S (pl : pool sig) x,
  pool_ok sig hsent S pl -> In x (p_peers pl) -> bp_id x <> 0 /\ ~ In (bp_id x) S /\ In (bp_id x) (ids sig pl).
Proof.
  intros S pl x [_ [_ C]] Hx. assert (Hi : In (bp_id x) (ids sig pl)) by (apply in_map; exact Hx).
  unfold ids_ok in C. rewrite Forall_forall in C. destruct (C _ Hi) as [C1 C2]. auto.
Qed.

Lemma cntw_fresh : forall q, q <> 0 -> cntw q {| rq_peer := 0; rq_block := None |} = 0.
Proof. intros q Hq. unfold cntw. cbn [rq_peer]. destruct (Z.eqb_spec 0 q); [congruence | reflexivity]. Qed.

(* ---- requester creation *)
Definition b_make (pl : pool sig) : bool :=
  negb (p_num_pending pl >=? bc0_max_total_requesters)
  && negb (Z.of_nat (length (p_reqs pl)) >=? bc0_max_total_requesters)
  && negb (p_height pl + Z.of_nat (length (p_reqs pl)) >? p_max_peer_height pl).

Lemma make_cases : forall pl : pool sig,
  (b_make pl = false /\ make_next_requester pl = pl) \/
  (b_make pl = true /\
   make_next_requester pl =
   {| p_height := p_height pl; p_reqs := p_reqs pl ++ [{| rq_peer := 0; rq_block := None |}];
      p_peers := p_peers pl; p_max_peer_height := p_max_peer_height pl;
      p_num_pending := p_num_pending pl + 1; p_errors := p_errors pl |}).
Proof.
  intro pl. unfold b_make, make_next_requester.
  destruct (p_num_pending pl >=? _); [left; auto|].
  destruct (Z.of_nat (length (p_reqs pl)) >=? _); [left; auto|].
  destruct (_ >? _); [left; auto | right; auto].
Qed.

Lemma pinv_make : forall S st pl,
  pinv S st pl ->
  pinv S st (make_next_requester pl) /\ mu (make_next_requester pl) = mu pl - dec (b_make pl).
Proof.
  intros S st pl H. pose proof (make_next_requester_ok sig hsent S pl (proj1 H)) as Hok'.
  destruct (make_cases pl) as [[Eb E]|[Eb E]]; rewrite Eb, E in *; [split; [exact H | cbn; lia]|].
  destruct H as [Hok [Hst [Hh [Hne [Hpe [Hlen [Hle Hnp]]]]]]].
  assert (Hc3 : p_height pl + Z.of_nat (length (p_reqs pl)) <= p_max_peer_height pl).
  { unfold b_make in Eb. apply andb_true_iff in Eb as [_ Eb]. apply negb_true_iff in Eb. lia. }
  unfold pinv, mu, ids. cbn [p_height p_reqs p_peers p_max_peer_height p_num_pending].
  rewrite app_length, !sumw_app. cbn [length sumw fold_right rc noblk rq_block rq_peer].
  change (0 =? 0) with true. cbv iota.
  split; [|unfold dec; lia]. split; [exact Hok'|]. split; [exact Hst|]. split; [exact Hh|]. split; [exact Hne|].
  split; [|split; [lia | split; [exact Hle | lia]]].
  rewrite Forall_forall in *. intros x Hx. destruct (Hpe x Hx) as [A [B [C D]]].
  unfold peer_inv. cbn [p_height p_reqs p_max_peer_height]. repeat split; try assumption.
  rewrite sumw_app, D. cbn [sumw fold_right]. rewrite cntw_fresh; [lia|].
  exact (proj1 (pool_ok_id S pl x Hok Hx)).
Qed.

(* ---- picks *)
Definition b_pick (pl : pool sig) (h : Z) (p : peer) : bool :=
  match req_at pl h with
  | Some r => (rq_peer r =? 0) &&
              match find_peer (p_peers pl) p with Some x => eligible h x | None => false end
  | None => false
  end.

Definition incr_pending (d : Z) (y : bpeer) : bpeer :=
  {| bp_id := bp_id y; bp_base := bp_base y; bp_height := bp_height y; bp_pending := bp_pending y + d |}.

Lemma assign_cases : forall (pl : pool sig) h p,
  (b_pick pl h p = false /\ assign pl h p = pl) \/
  (b_pick pl h p = true /\
   exists r x, req_at pl h = Some r /\ rq_peer r = 0 /\ find_peer (p_peers pl) p = Some x /\
     eligible h x = true /\
     assign pl h p =
     {| p_height := p_height pl;
        p_reqs := set_nth (p_reqs pl) (Z.to_nat (h - p_height pl)) {| rq_peer := p; rq_block := rq_block r |};
        p_peers := map_peer (incr_pending 1) p (p_peers pl);
        p_max_peer_height := p_max_peer_height pl; p_num_pending := p_num_pending pl;
        p_errors := p_errors pl |}).
Proof.
  intros pl h p. unfold b_pick, assign. destruct (req_at pl h) as [r|]; [|left; auto].
  destruct (Z.eqb_spec (rq_peer r) 0) as [E0|E0]; cbn [negb andb]; [|left; auto].
  destruct (find_peer (p_peers pl) p) as [x|]; [|left; auto].
  destruct (eligible h x) eqn:Ee; cbn [negb]; [|left; auto].
  right. split; [reflexivity|]. exists r, x. auto 10.
Qed.

Lemma map_peer_nonempty : forall f p ps, ps <> [] -> map_peer f p ps <> [].
Proof. intros f p ps H. destruct ps; [congruence | discriminate]. Qed.

(* the effect of replacing one requester on the counters of the peers *)
Lemma peers_after_set : forall (pl pl' : pool sig) i (old new : requester sig) p d,
  nth_error (p_reqs pl) i = Some old ->
  p_reqs pl' = set_nth (p_reqs pl) i new ->
  p_height pl' = p_height pl -> p_max_peer_height pl' = p_max_peer_height pl ->
  (forall q, q <> 0 -> cntw q new - cntw q old = if q =? p then d else 0) ->
  (forall x, In x (p_peers pl) -> bp_id x <> 0) ->
  Forall (peer_inv pl) (p_peers pl) -> Forall (peer_inv pl') (map_peer (incr_pending d) p (p_peers pl)).
Proof.
  intros pl pl' i old new p d Hn Er Eh Em Hd Hid H.
  rewrite Forall_forall in *. intros y Hy. unfold map_peer in Hy. apply in_map_iff in Hy as [x [<- Hx]].
  destruct (H x Hx) as [A [B [C D]]]. specialize (Hd (bp_id x) (Hid x Hx)).
  unfold peer_inv. rewrite Eh, Em, Er.
  destruct (Z.eqb_spec (bp_id x) p) as [E|E]; cbn [incr_pending bp_id bp_height bp_base bp_pending];
    repeat split; try assumption; rewrite (sumw_set_nth _ _ _ _ _ Hn), D; lia.
Qed.

Lemma pinv_assign : forall S st pl h p,
  pinv S st pl ->
  pinv S st (assign pl h p) /\ mu (assign pl h p) = mu pl - dec (b_pick pl h p).
Proof.
  intros S st pl h p H. pose proof (assign_ok sig hsent S pl h p (proj1 H)) as Hok'.
  destruct (assign_cases pl h p) as [[Eb E]|[Eb [r [x [Er [Er0 [Ef [Ee E]]]]]]]]; rewrite Eb.
  { rewrite E. split; [exact H | cbn; lia]. }
  destruct H as [Hok [Hst [Hh [Hne [Hpe [Hlen [Hle Hnp]]]]]]].
  destruct (req_at_some sig _ _ _ Er) as [Hhh Hn].
  assert (Hrb : rq_block r = None).
  { destruct Hok as [_ [B _]]. rewrite Forall_forall in B. destruct (B r (nth_error_In _ _ Hn)) as [R1 _].
    destruct (rq_block r); [exfalso; apply R1; [discriminate | exact Er0] | reflexivity]. }
  destruct (find_peer_some _ _ _ Ef) as [Hx Hxp].
  assert (Hp0 : p <> 0) by (rewrite <- Hxp; exact (proj1 (pool_ok_id S pl x Hok Hx))).
  assert (Hids : ids sig (assign pl h p) = ids sig pl).
  { rewrite E. unfold ids. cbn [p_peers]. apply map_peer_ids. reflexivity. }
  rewrite Hrb in E.
  split.
  - split; [exact Hok'|]. rewrite Hids. rewrite E.
    cbn [p_height p_reqs p_peers p_max_peer_height p_num_pending]. rewrite length_set_nth.
    split; [exact Hst|]. split; [exact Hh|]. split; [apply map_peer_nonempty; exact Hne|].
    split; [|split; [exact Hlen | split; [exact Hle|]]].
    + apply (peers_after_set pl _ _ r {| rq_peer := p; rq_block := None |} p 1 Hn); try reflexivity.
      * intros q Hq. unfold cntw, noblk. cbn [rq_peer rq_block]. rewrite Er0, Hrb.
        destruct (Z.eqb_spec 0 q); [congruence|].
        rewrite (Z.eqb_sym p q). destruct (q =? p); lia.
      * intros y Hy. exact (proj1 (pool_ok_id S pl y Hok Hy)).
      * exact Hpe.
    + rewrite (sumw_set_nth _ _ _ _ _ Hn), <- Hnp. unfold noblk. cbn [rq_block]. rewrite Hrb. lia.
  - rewrite E. unfold mu. cbn [p_height p_reqs p_max_peer_height]. rewrite length_set_nth.
    rewrite (sumw_set_nth _ _ _ _ _ Hn). unfold rc at 2 3. cbn [rq_block rq_peer]. rewrite Hrb, Er0.
    change (0 =? 0) with true. apply Z.eqb_neq in Hp0. rewrite Hp0. unfold dec. lia.
Qed.

(* ---- answers *)
Lemma add_block_answer : forall (pl : pool sig) p b r,
  req_at pl (b_height b) = Some r -> rq_peer r = p -> rq_block r = None ->
  add_block pl p b =
  {| p_height := p_height pl;
     p_reqs := set_nth (p_reqs pl) (Z.to_nat (b_height b - p_height pl)) {| rq_peer := p; rq_block := Some b |};
     p_peers := map_peer (incr_pending (-1)) p (p_peers pl);
     p_max_peer_height := p_max_peer_height pl; p_num_pending := p_num_pending pl - 1;
     p_errors := p_errors pl |}.
Proof.
  intros pl p b r Er Erp Erb. unfold add_block. rewrite Er, Erb, Erp, Z.eqb_refl. reflexivity.
Qed.

Lemma pinv_answer : forall S st pl p b r,
  pinv S st pl -> In p (ids sig pl) -> b = canon (b_height b) ->
  req_at pl (b_height b) = Some r -> rq_peer r = p -> rq_block r = None ->
  pinv S st (add_block pl p b) /\ mu (add_block pl p b) = mu pl - 1.
Proof.
  intros S st pl p b r H Hin Hb Er Erp Erb.
  destruct H as [Hok [Hst [Hh [Hne [Hpe [Hlen [Hle Hnp]]]]]]].
  assert (Hp0 : p <> 0).
  { destruct Hok as [_ [_ C]]. unfold ids_ok in C. rewrite Forall_forall in C. exact (proj1 (C p Hin)). }
  assert (Hok' : pool_ok sig hsent S (add_block pl p b)).
  { apply add_block_ok; [exact Hp0 | intros _; exact Hb | exact Hok]. }
  pose proof (add_block_answer pl p b r Er Erp Erb) as E.
  destruct (req_at_some sig _ _ _ Er) as [Hhh Hn].
  assert (Hids : ids sig (add_block pl p b) = ids sig pl).
  { rewrite E. unfold ids. cbn [p_peers]. apply map_peer_ids. reflexivity. }
  split.
  - split; [exact Hok'|]. rewrite Hids. rewrite E.
    cbn [p_height p_reqs p_peers p_max_peer_height p_num_pending]. rewrite length_set_nth.
    split; [exact Hst|]. split; [exact Hh|]. split; [apply map_peer_nonempty; exact Hne|].
    split; [|split; [exact Hlen | split; [exact Hle|]]].
    + apply (peers_after_set pl _ _ r {| rq_peer := p; rq_block := Some b |} p (-1) Hn); try reflexivity.
      * intros q Hq. unfold cntw, noblk. cbn [rq_peer rq_block]. rewrite Erp, Erb.
        rewrite (Z.eqb_sym p q). destruct (q =? p); lia.
      * intros y Hy. exact (proj1 (pool_ok_id S pl y Hok Hy)).
      * exact Hpe.
    + rewrite (sumw_set_nth _ _ _ _ _ Hn), <- Hnp. unfold noblk. cbn [rq_block]. rewrite Erb. lia.
  - rewrite E. unfold mu. cbn [p_height p_reqs p_max_peer_height]. rewrite length_set_nth.
    rewrite (sumw_set_nth _ _ _ _ _ Hn). unfold rc at 2 3. cbn [rq_block rq_peer]. rewrite Erb, Erp.
    apply Z.eqb_neq in Hp0. rewrite Hp0. lia.
Qed.

(* ---- storing the first block of the pair *)
Definition popped (pl : pool sig) : pool sig :=
  {| p_height := p_height pl + 1; p_reqs := tl (p_reqs pl); p_peers := p_peers pl;
     p_max_peer_height := p_max_peer_height pl; p_num_pending := p_num_pending pl;
     p_errors := p_errors pl |}.

Lemma pinv_pop : forall S st pl r1 r2 rest,
  pinv S st pl -> p_reqs pl = r1 :: r2 :: rest -> rq_block r1 <> None ->
  pinv S (cst (p_height pl + 1)) (popped pl) /\ mu (popped pl) = mu pl - 1.
Proof.
  intros S st pl r1 r2 rest H Er Hb.
  destruct H as [Hok [Hst [Hh [Hne [Hpe [Hlen [Hle Hnp]]]]]]].
  assert (Hpop : pop_request pl = Some (popped pl)).
  { unfold pop_request, popped. rewrite Er. reflexivity. }
  assert (Hn1 : noblk r1 = 0) by (unfold noblk; destruct (rq_block r1); [reflexivity | congruence]).
  assert (Hr1 : rc r1 = 0) by (unfold rc; destruct (rq_block r1); [reflexivity | congruence]).
  rewrite Er in Hlen, Hnp. cbn [length] in Hlen. rewrite sumw_cons in Hnp.
  split.
  - split; [exact (pop_request_ok sig hsent S _ _ Hpop Hok)|].
    unfold popped, ids. cbn [p_height p_reqs p_peers p_max_peer_height p_num_pending]. rewrite Er. cbn [tl length].
    split; [reflexivity|]. split; [exact Hh|]. split; [exact Hne|].
    split; [|split; [lia | split; [lia | lia]]].
    rewrite Forall_forall in *. intros x Hx. destruct (Hpe x Hx) as [A [B [C D]]].
    unfold peer_inv. cbn [p_height p_reqs p_max_peer_height]. repeat split; try assumption; try lia.
    rewrite D, Er, sumw_cons. unfold cntw at 1. destruct (_ =? _); lia.
  - unfold mu, popped. cbn [p_height p_reqs p_max_peer_height]. rewrite Er. cbn [tl length].
    rewrite !sumw_cons. lia.
Qed.

Lemma accept_pool : forall (n : node sig) f s,
  n_panicked n = false -> peek_two (n_pool n) = (Some f, Some s) ->
  verify_first' (n_state n) f s = SV_accept ->
  n_pool (step' n OProcess) = popped (n_pool n) /\ n_stopped (step' n OProcess) = n_stopped n.
Proof.
  intros n f s Hp Hpeek Hv. unfold step, process_step. rewrite Hp, Hpeek, Hv.
  unfold pop_request, popped. destruct (p_reqs (n_pool n)) as [|r rs] eqn:Er.
  - rewrite (peek_none_nil _ Er) in Hpeek. discriminate.
  - destruct (apply_block (n_state n) f); cbn [n_pool n_stopped tl]; auto.
Qed.

(* ---- one operation of the progress phase: the invariant stays, the measure goes down by one
   when the operation changes the pool and stays otherwise *)
Lemma prog_step : forall (n : node sig) o,
  prog_inv n -> penv n o ->
  prog_inv (step' n o) /\ mu (n_pool (step' n o)) = mu (n_pool n) - dec (eff n o).
Proof.
  intros n o [H Hp] He. destruct o as [p base height| |h p|p b|p|]; try contradiction.
  - unfold step. rewrite Hp. destruct (pinv_make _ _ _ H) as [A B].
    split; [split; [exact A | exact Hp] | exact B].
  - unfold step. rewrite Hp. destruct (pinv_assign _ _ _ h p H) as [A B].
    split; [split; [exact A | exact Hp] | exact B].
  - destruct He as [Hin [Hb [r [Er [Erp Erb]]]]].
    destruct (pinv_answer _ _ _ p b r H Hin Hb Er Erp Erb) as [A B].
    assert (Hcond : (p =? 0) || is_stopped n p = false).
    { destruct H as [[_ [_ C]] _]. unfold ids_ok in C. rewrite Forall_forall in C. destruct (C p Hin) as [C1 C2].
      apply orb_false_iff. split; [apply Z.eqb_neq; exact C1 | apply is_stopped_false; exact C2]. }
    destruct (step_block_cases sig validate_block apply_block vc n p b Hp Hcond) as [[_ E]|[Ee _]].
    + rewrite E. split; [split; [exact A | exact Hp] | exact B].
    + exfalso. rewrite (add_block_answer _ p b r Er Erp Erb) in Ee. cbn [p_errors] in Ee.
      exact (list_not_cons_self _ _ _ Ee).
  - destruct (peek_two (n_pool n)) as [[f|] [s|]] eqn:Hpeek;
      try (assert (E : step' n OProcess = n) by (unfold step, process_step; rewrite Hp, Hpeek; reflexivity);
           rewrite E; split; [split; assumption | unfold eff; rewrite Hpeek; cbn; lia]).
    assert (Hok : node_ok' n) by exact (proj1 H).
    assert (Hc : canon_inv n) by exact (proj1 (proj2 H)).
    destruct (peek_two_some sig hsent n f s Hok Hpeek)
      as [r1 [r2 [E1 [E2 [B1 [B2 [Hf [Hs [N1 [N2 [S1 [S2 [I1 [I2 [T1 T2]]]]]]]]]]]]]]].
    destruct H as [Hok0 [Hst [Hh H']]].
    assert (Ef : f = canon (p_height (n_pool n))) by (rewrite <- Hf; apply T1, Hh, I1).
    assert (Es : s = canon (p_height (n_pool n) + 1)) by (rewrite <- Hs; apply T2, Hh, I2).
    assert (Hv : verify_first' (n_state n) f s = SV_accept) by (rewrite Hc, Ef, Es; apply canon_accept).
    destruct (accept_canon n f s Hok Hc Hp Hpeek Hv) as [_ [Hc' Hp']].
    destruct (accept_pool n f s Hp Hpeek Hv) as [Epool Estop].
    (* the two requesters *)
    destruct (req_at_some sig _ _ _ E1) as [_ Hn1]. destruct (req_at_some sig _ _ _ E2) as [_ Hn2].
    rewrite Z.sub_diag in Hn1.
    replace (Z.to_nat (p_height (n_pool n) + 1 - p_height (n_pool n))) with 1%nat in Hn2 by lia.
    assert (Er : exists rest, p_reqs (n_pool n) = r1 :: r2 :: rest).
    { destruct (p_reqs (n_pool n)) as [|q1 [|q2 rest]]; try discriminate.
      cbn in Hn1, Hn2. injection Hn1 as ->. injection Hn2 as ->. exists rest. reflexivity. }
    destruct Er as [rest Er].
    assert (Hb1 : rq_block r1 <> None) by congruence.
    destruct (pinv_pop (n_stopped n) (n_state n) (n_pool n) r1 r2 rest (conj Hok0 (conj Hst (conj Hh H'))) Er Hb1)
      as [A B].
    split.
    + split; [|exact Hp']. unfold canon_inv in Hc'. rewrite Hc', Epool, Estop.
      change (p_height (popped (n_pool n))) with (p_height (n_pool n) + 1). exact A.
    + rewrite Epool, B. unfold eff. rewrite Hpeek. reflexivity.
Qed.

(* ---- no deadlock below the tip: as long as pool.height < T some operation of the progress phase
   is enabled and changes the pool (a requester can be made, or an unassigned requester of the
   pair can be given to a peer, or a peer has an open request to answer, or the pair is complete
   and is processed) *)
Lemma no_deadlock : forall n : node sig,
  prog_inv n -> p_height (n_pool n) < T -> exists o, penv n o /\ eff n o = true.
Proof.
  intros n [H Hp] Hlt. destruct H as [Hok [Hst [Hh [Hne [Hpe [Hlen [Hle Hnp]]]]]]].
  destruct (p_peers (n_pool n)) as [|x ps] eqn:Eps; [congruence|].
  assert (Hx : peer_inv (n_pool n) x) by (inversion Hpe; assumption).
  destruct Hx as [X1 [X2 [X3 X4]]].
  assert (Hxin : In (bp_id x) (ids sig (n_pool n))) by (unfold ids; rewrite Eps; left; reflexivity).
  (* an open request of some peer can be answered *)
  assert (Answer : forall j r, nth_error (p_reqs (n_pool n)) j = Some r -> rq_block r = None ->
             rq_peer r <> 0 -> exists o, penv n o /\ eff n o = true).
  { intros j r Hn Hb Hq. exists (OBlock (rq_peer r) (canon (p_height (n_pool n) + Z.of_nat j))).
    split; [|reflexivity]. cbn [penv]. rewrite canon_height.
    destruct Hok as [_ [B _]]. rewrite Forall_forall in B. destruct (B r (nth_error_In _ _ Hn)) as [_ [R2 _]].
    split; [exact (R2 Hq)|]. split; [reflexivity|]. exists r. rewrite req_at_idx. auto. }
  (* a requester of the pair that has no block can be served *)
  assert (Serve : forall i r, nth_error (p_reqs (n_pool n)) i = Some r -> rq_block r = None ->
             p_height (n_pool n) + Z.of_nat i <= T -> exists o, penv n o /\ eff n o = true).
  { intros i r Hn Hb Hi. destruct (Z.eq_dec (rq_peer r) 0) as [E0|E0]; [|exact (Answer i r Hn Hb E0)].
    destruct (Z_lt_le_dec (bp_pending x) bc0_max_pending_requests_per_peer) as [Hpd|Hpd].
    - exists (OPick (p_height (n_pool n) + Z.of_nat i) (bp_id x)). split; [exact I|].
      unfold eff. rewrite req_at_idx, Hn, E0, Eps. cbn [find_peer]. rewrite !Z.eqb_refl. cbn [andb].
      unfold eligible. lia.
    - rewrite X4 in Hpd. unfold bc0_max_pending_requests_per_peer in Hpd.
      destruct (sumw_pos_ex (cntw (bp_id x)) (p_reqs (n_pool n)) (cntw_nonneg (bp_id x)) ltac:(lia))
        as [r' [Hr' Hc']].
      apply In_nth_error in Hr' as [j Hj]. unfold cntw in Hc'.
      destruct (Z.eqb_spec (rq_peer r') (bp_id x)) as [Ep|Ep]; [|lia].
      assert (Hb' : rq_block r' = None) by (unfold noblk in Hc'; destruct (rq_block r'); [lia | reflexivity]).
      apply (Answer j r' Hj Hb'). rewrite Ep.
      destruct Hok as [_ [_ C]]. unfold ids_ok in C. rewrite Forall_forall in C. exact (proj1 (C _ Hxin)). }
  destruct (p_reqs (n_pool n)) as [|r1 rest1] eqn:Er.
  - exists OMakeRequester. split; [exact I|]. unfold eff. rewrite Hnp, Er. cbn [length sumw fold_right].
    unfold bc0_max_total_requesters. lia.
  - destruct (rq_block r1) as [f|] eqn:Eb1; [|apply (Serve 0%nat r1); [reflexivity | exact Eb1 | lia]].
    assert (Hn1 : noblk r1 = 0) by (unfold noblk; rewrite Eb1; reflexivity).
    destruct rest1 as [|r2 rest].
    + exists OMakeRequester. split; [exact I|]. unfold eff. rewrite Hnp, Er. cbn [length]. rewrite sumw_cons, Hn1.
      cbn [sumw fold_right]. unfold bc0_max_total_requesters. lia.
    + destruct (rq_block r2) as [s|] eqn:Eb2; [|apply (Serve 1%nat r2); [reflexivity | exact Eb2 | lia]].
      exists OProcess. split; [exact I|]. unfold eff, peek_two, block_at.
      replace (p_height (n_pool n)) with (p_height (n_pool n) + Z.of_nat 0) at 1 by lia.
      replace (p_height (n_pool n) + 1) with (p_height (n_pool n) + Z.of_nat 1) by lia.
      rewrite !req_at_idx, Er. cbn [nth_error]. rewrite Eb1, Eb2. reflexivity.
Qed.

Lemma mu_nonneg : forall n : node sig, prog_inv n -> 0 <= mu (n_pool n).
Proof.
  intros n [[_ [_ [_ [_ [_ [Hlen [Hle _]]]]]]] _]. unfold mu.
  pose proof (sumw_nonneg rc (p_reqs (n_pool n)) rc_nonneg). lia.
Qed.

(* ---- runs of the progress phase *)
Fixpoint penv_run (n : node sig) (ops : list (op sig)) : Prop :=
  match ops with [] => True | o :: r => penv n o /\ penv_run (step' n o) r end.

(* the number of operations of the list that change the pool *)
Fixpoint eff_count (n : node sig) (ops : list (op sig)) : Z :=
  match ops with [] => 0 | o :: r => dec (eff n o) + eff_count (step' n o) r end.

(* FAIRNESS of an operation list, as a property of the list (and the node it is run from): the
   list does not end while an operation of the progress phase is still enabled that would change
   the pool — i.e. no creation of a requester, no pick, no answer of a connected peer to an open
   request and no processing turn that is possible is postponed forever. *)
Definition fair (n : node sig) (ops : list (op sig)) : Prop :=
  forall o, penv (run' ops n) o -> eff (run' ops n) o = false.

Theorem progress_measure : forall ops (n : node sig),
  prog_inv n -> penv_run n ops ->
  prog_inv (run' ops n) /\ mu (n_pool (run' ops n)) = mu (n_pool n) - eff_count n ops /\
  0 <= eff_count n ops <= mu (n_pool n).
Proof.
  induction ops as [|o ops IH]; intros n H He.
  - pose proof (mu_nonneg n H). cbn. split; [exact H|]. lia.
  - destruct He as [He1 He2]. destruct (prog_step n o H He1) as [A B].
    destruct (IH _ A He2) as [C [D E]]. cbn [run fold_left eff_count]. fold (run' ops (step' n o)).
    split; [exact C|]. assert (0 <= dec (eff n o)) by (unfold dec; destruct (eff n o); lia). lia.
Qed.

Theorem fair_run_reaches_tip : forall ops (n : node sig),
  prog_inv n -> penv_run n ops -> fair n ops -> T <= p_height (n_pool (run' ops n)).
Proof.
  intros ops n H He Hf. destruct (progress_measure ops n H He) as [A _].
  destruct (Z_lt_le_dec (p_height (n_pool (run' ops n))) T) as [Hlt|Hge]; [|exact Hge].
  exfalso. destruct (no_deadlock _ A Hlt) as [o [Ho1 Ho2]]. rewrite (Hf o Ho1) in Ho2. discriminate.
Qed.

(* fair lists exist, and are short: from every state of the progress phase some list of at most
   mu operations reaches the tip *)
Theorem fair_run_exists : forall n : node sig,
  prog_inv n ->
  exists ops, penv_run n ops /\ T <= p_height (n_pool (run' ops n)) /\
              Z.of_nat (length ops) <= mu (n_pool n).
Proof.
  assert (G : forall k (n : node sig), prog_inv n -> mu (n_pool n) <= Z.of_nat k ->
            exists ops, penv_run n ops /\ T <= p_height (n_pool (run' ops n)) /\
                        Z.of_nat (length ops) <= mu (n_pool n)).
  { induction k as [|k IH]; intros n H Hk.
    - pose proof (mu_nonneg n H) as H0.
      destruct (Z_lt_le_dec (p_height (n_pool n)) T) as [Hlt|Hge]; [|exists []; cbn; auto with zarith].
      exfalso. destruct (no_deadlock n H Hlt) as [o [Ho1 Ho2]]. destruct (prog_step n o H Ho1) as [A B].
      pose proof (mu_nonneg _ A). rewrite Ho2 in B. cbn in B. lia.
    - destruct (Z_lt_le_dec (p_height (n_pool n)) T) as [Hlt|Hge].
      + destruct (no_deadlock n H Hlt) as [o [Ho1 Ho2]]. destruct (prog_step n o H Ho1) as [A B].
        rewrite Ho2 in B. cbn [dec] in B.
        destruct (IH _ A ltac:(lia)) as [ops [P1 [P2 P3]]].
        exists (o :: ops). split; [split; assumption|]. split; [exact P2|]. cbn [length]. lia.
      + pose proof (mu_nonneg n H). exists []. cbn. auto with zarith. }
  intros n H. pose proof (mu_nonneg n H).
  apply (G (Z.to_nat (mu (n_pool n))) n H). lia.
Qed.

(* in the progress phase the pair PeekTwoBlocks returns is the canonical pair and is accepted *)
Lemma prog_pair : forall (n : node sig) f s,
  prog_inv n -> peek_two (n_pool n) = (Some f, Some s) ->
  f = canon (p_height (n_pool n)) /\ s = canon (p_height (n_pool n) + 1) /\
  verify_first' (n_state n) f s = SV_accept.
Proof.
  intros n f s [[Hok [Hst [Hh _]]] Hp] Hpeek.
  destruct (peek_two_some sig hsent n f s Hok Hpeek)
    as [r1 [r2 [E1 [E2 [B1 [B2 [Hf [Hs [N1 [N2 [S1 [S2 [I1 [I2 [T1 T2]]]]]]]]]]]]]]].
  assert (Ef : f = canon (p_height (n_pool n))) by (rewrite <- Hf; apply T1, Hh, I1).
  assert (Es : s = canon (p_height (n_pool n) + 1)) by (rewrite <- Hs; apply T2, Hh, I2).
  split; [exact Ef|]. split; [exact Es|]. rewrite Hst, Ef, Es. apply canon_accept.
Qed.

Definition entry_canon (e : sentry sig) : Prop := se_id e = b_id (canon (se_height e)).

Lemma prog_step_store : forall (n : node sig) o,
  prog_inv n -> penv n o ->
  n_store (step' n o) = n_store n \/
  exists e, n_store (step' n o) = e :: n_store n /\ entry_canon e.
Proof.
  intros n o H He. destruct (op_eq_process sig o) as [->|Ho];
    [|left; exact (proj1 (proj2 (step_log_other sig validate_block apply_block vc n o Ho)))].
  destruct (peek_two (n_pool n)) as [[f|] [s|]] eqn:Hpeek;
    try (left; unfold step, process_step; destruct (n_panicked n); [reflexivity | rewrite Hpeek; reflexivity]).
  destruct (prog_pair n f s H Hpeek) as [Ef [_ Hv]].
  destruct (process_accept_shape sig validate_block apply_block vc n f s (proj2 H) Hpeek Hv) as [_ [A _]].
  right. eexists. split; [exact A|]. unfold entry_canon. cbn [se_id se_height]. rewrite Ef at 2.
  rewrite canon_height. rewrite Ef at 1. reflexivity.
Qed.

Lemma penv_run_sent : forall ops (n : node sig), penv_run n ops -> Forall (op_sent sig hsent) ops.
Proof.
  induction ops as [|o ops IH]; intros n H; [constructor|]. destruct H as [H1 H2].
  constructor; [|exact (IH _ H2)]. destruct o; try exact I. cbn [op_sent]. intros _. exact (proj1 (proj2 H1)).
Qed.

(* C13_honest_peers_reach_tip: from a state of the progress phase, any FAIR list of operations of
   the progress phase ends with pool.height >= T, having stored exactly the canonical blocks of
   the heights from the pool.height it started with up to pool.height-1 >= T-1, without gap. *)
Theorem honest_peers_reach_tip : forall ops (n : node sig),
  prog_inv n -> penv_run n ops -> fair n ops ->
  let n' := run' ops n in
  T <= p_height (n_pool n') /\ prog_inv n' /\
  exists new,
    n_store n' = new ++ n_store n /\
    p_height (n_pool n') = p_height (n_pool n) + Z.of_nat (length new) /\
    map (@se_height sig) new = desc (p_height (n_pool n')) (length new) /\
    Forall entry_canon new.
Proof.
  intros ops n H He Hf. cbv zeta.
  split; [exact (fair_run_reaches_tip ops n H He Hf)|].
  split; [exact (proj1 (progress_measure ops n H He))|].
  destruct (run_heights sig validate_block apply_block hsent vc ops n (penv_run_sent ops n He) (proj1 (proj1 H)))
    as [new [A [B C]]].
  exists new. split; [exact A|]. split; [exact B|]. split; [exact C|].
  (* every new entry is canonical *)
  assert (G : forall ops0 (n0 : node sig), prog_inv n0 -> penv_run n0 ops0 ->
            exists new, n_store (run' ops0 n0) = new ++ n_store n0 /\ Forall entry_canon new).
  { clear A B C Hf He H new ops n. induction ops0 as [|o ops IH]; intros n H He; [exists []; split; [reflexivity | constructor]|].
    destruct He as [He1 He2]. destruct (prog_step n o H He1) as [A _].
    destruct (IH _ A He2) as [new2 [B1 B2]]. cbn [run fold_left]. fold (run' ops (step' n o)).
    destruct (prog_step_store n o H He1) as [E|[e [E Hc]]].
    - exists new2. rewrite B1, E. auto.
    - exists (new2 ++ [e]). rewrite B1, E, <- app_assoc. split; [reflexivity|].
      apply Forall_app. split; [exact B2 | constructor; [exact Hc | constructor]]. }
  destruct (G ops n H He) as [new' [A' C']]. rewrite A in A'. apply app_inv_tail in A'. rewrite A'. exact C'.
Qed.

End Canon.

(* ---- where [canon_only] comes from: a sound commit check (C07: both VerifyCommit and
   VerifyCommitLight), well-formed validator sets along the chain, no block id other than the
   canonical one ever collecting +2/3 of valid signatures of a height's validators (the BFT
   assumption: more than 1/3 never sign anything else), and the block id binding the block
   (hash + part-set header of the whole content, no collision). *)
Lemma canon_only_of_quorum :
  forall (sig : Type) (sv : key -> signmsg -> sig -> bool)
         (validate_block : sstate -> block sig -> bool) (vc : vcheck sig)
         (canon : Z -> block sig) (cst : Z -> sstate),
    vc_sound sig sv vc ->
    (forall h, wf_valset (st_vals (cst h))) ->
    (forall h (c : commit sig) bid,
        3 * good_tally sig sv (st_chain (cst h)) h (c_round c) bid (st_vals (cst h)) (c_sigs c)
          > 2 * sum_power (st_vals (cst h)) -> bid = b_id (canon h)) ->
    (forall h f, b_height f = h -> b_id f = b_id (canon h) -> f = canon h) ->
    forall h f s, b_height f = h -> verify_first validate_block vc (cst h) f s = SV_accept -> f = canon h.
Proof.
  intros sig sv vb vc canon cst Hvc Hwf Hq Hid h f s Hf Hv.
  apply verify_first_accept in Hv as [Hv _].
  destruct (Hvc _ _ _ _ _ (Hwf h) Hv) as [_ [_ [_ Ht]]]. rewrite Hf in Ht.
  apply Hid; [exact Hf|]. exact (Hq h _ _ Ht).
Qed.

(* the hypotheses about the canonical chain, bundled (used by the statements in Props.v) *)
Definition canonical_chain {sig : Type}
           (validate_block : sstate -> block sig -> bool)
           (apply_block : sstate -> block sig -> option (list validator * Z))
           (vc : vcheck sig) (canon : Z -> block sig) (cst : Z -> sstate) : Prop :=
  (forall h, b_height (canon h) = h) /\
  (forall h, verify_first validate_block vc (cst h) (canon h) (canon (h + 1)) = SV_accept) /\
  (forall h, exists nv, apply_block (cst h) (canon h) = Some nv /\
                        next_state (cst h) (canon h) nv = cst (h + 1)) /\
  (forall h f s, b_height f = h -> verify_first validate_block vc (cst h) f s = SV_accept -> f = canon h).
