(* C13 — executable side of the correspondence check: the case types written by the Go harness
   (harness/overlay/blockchain/v0/verif_c13_*_test.go), the property monitors evaluated on the
   implementation's own answers, and the comparison of the model with the implementation.
   Depends on Model.v (and on C07's Model/Exec for commits and symbolic signatures) only.
   Heights in the terms are real block heights (a chain with InitialHeight ih starts at ih);
   block ids 1..L number the canonical blocks by position.

   Numbering shared with the harness: key k = validator key number k; the address of key k is
   k+1 (0 = empty address, >= 1000 = an address owned by nobody); peers are 1, 2, ...; block
   ids are small integers (0 = zero BlockID). *)
From Coq Require Import List ZArith NArith Bool.
From TM Require Import Common.Hex Generated.Consts C07.Model C13.Model.
From TM Require Export C07.Exec.   (* sdesc (SB/SN/SO/SG), slott, rest: used by the cases files *)
Import ListNotations.
Open Scope Z_scope.

Definition pk_addr_i (k : key) : addr := k + 1.

Definition blk := block isig.
Definition nd := node isig.

(* ------------------------------------------------------------------ case types *)

(* pool-level operations driven on the real BlockPool (no goroutines) *)
Inductive pop :=
| PStatus (p base height : Z)
| PMake
| PPick (h p : Z)                  (* the real pickIncrAvailablePeer(h) returned p (0 = nil) *)
| PBlock (p h bid : Z)             (* AddBlock(p, block of height h and id bid) *)
| PRemove (p : Z)
| PRedo (h : Z)                    (* RedoRequest(h) *)
| PPop.                            (* PopRequest *)

(* pool snapshot: height, maxPeerHeight, numPending, requesters (peer, id of block or -1) from
   pool.height upwards, peers sorted by id (id, base, height, numPending), reported peers in
   order, IsCaughtUp *)
Definition psnap := (Z * Z * Z * list (Z * Z) * list (Z * Z * Z * Z) * list Z * bool)%type.

Inductive case :=
(* one pair (first, second) handed to the real poolRoutine of a node whose state is at st_h *)
| CStep (vals : list (Z * Z * Z)) (chain st_h : Z)
        (first : Z * Z * bool)     (* first.Height, id recomputed from first, ValidateBlock(state, first) = nil *)
        (canon : Z)                (* id of the canonical block at first.Height *)
        (cm : Z * Z * Z) (base : Z * Z * Z * Z) (sigs : list slott)   (* second.LastCommit *)
        (p1 p2 : Z)                (* peers that supplied first and second *)
        (comp : rest * rest * N)   (* called directly: VerifyCommitLight, VerifyCommit, CommitToVoteSet
                                      (0 = returns with +2/3, 1 = returns without, 2 = panics) *)
        (obs : bool * Z * list Z * (Z * bool) * (Z * bool) * N)
        (* block stored at first.Height with first's id; pool.height after; peers stopped (sorted);
           requester of first.Height and of first.Height+1 afterwards (peer, has block; (-1,false) =
           no requester); consensus.NewState on the resulting state and store: 0 ok, 1 panic, 2 not run *)
        (sw : Z * N * Z * N)
        (* the real hand-over: the chain's InitialHeight; Reactor.SwitchToConsensus(state after the
           step, true) on the consensus State/Reactor built over the node's stores at node start:
           0 returned, 1 panicked, 2 not run, 3 consensus.NewState at node start panicked;
           RoundState.Height afterwards; RoundState.LastCommit afterwards: 0 nil, 1 MakeCommit() equals
           the stored seen commit of the state's last block (height, round, block id, every
           signature slot), 2 anything else, 3 not observed *)
        (bids : Z * Z * Z)
        (* the whole BlockID (hash + part-set header, numbered as block ids) stored for
           first.Height: in the block meta, in the seen commit, and State.LastBlockID after
           executing the block; -1 = nothing stored, 999 = a BlockID nobody made *)
(* one whole sync of a live reactor against scripted peers *)
| CScen (canon : list Z)           (* canonical ids, heights 1.. *)
        (start : Z)                (* blocks the node had at the start *)
        (stored : list Z)          (* ids in the node's store afterwards, heights 1.. *)
        (tip : Z)                  (* height of the honest peers *)
        (peers : list (Z * N * bool * bool))
        (* peer, script (0 honest, otherwise a liar), stopped?, a bad answer of it was used in a pair the node processed? *)
        (nbad : Z)                 (* number of bad answers that entered a requester *)
        (switched : bool)          (* the node called SwitchToConsensus before the deadline *)
        (handover : N)             (* consensus.NewState on what was stored: 0 ok, 1 panic, 2 not run *)
        (seen_class : N)           (* the seen commit of the last stored block: 0 all slots genuine,
                                      1 a non-absent slot carries a foreign address but every signature is valid, 2 other *)
        (snap : Z * list Z * bool * Z)
        (* the real pool when the sync ended (after the switch, or at the deadline with every liar
           gone or silent for longer than the peer timeout): pool.height, the heights the peers
           still in the pool report, IsCaughtUp(), pool.maxPeerHeight *)
(* the hand-over of one whole sync: consensus.NewState on the state and store the node had at
   start, block sync against scripted peers, then the blockchain reactor's own call of the real
   consensus Reactor.SwitchToConsensus *)
| CHand (vals0 vals1 : list (Z * Z * Z) * list (Z * Z * Z))
        (* (LastValidators, Validators) of the state at node start and of the state the node saved
           last: the set that signed the last block and the set of the next height *)
        (chain ih : Z)
        (h0 h1 : Z)                (* State.LastBlockHeight at node start / of the state the node saved
                                      last (the top of its block store) *)
        (seen0 seen1 : option ((Z * Z * Z) * (Z * Z * Z * Z) * list slott))
        (* the seen commits stored for h0 and h1 (cm, base, slots as in CStep); None when the height
           is 0 or the harness does not know how the stored commit was made *)
        (verified : bool)
        (* checked by the harness without the repository's VerifyCommit: every block the node
           stored during the sync is the canonical one and its stored seen commit has one slot per
           validator, every non-absent slot signed by the positional validator's key over the vote
           the slot stands for, and more than 2/3 for the block *)
        (obs : N * N * Z * Z * N * bool * N)
        (* NewState at node start (0 ok, 1 panic); SwitchToConsensus (0 returned, 1 panicked, 2 never
           called); LastBlockHeight of the state the blockchain reactor passed to it (-1 = no call);
           RoundState.Height; LastCommit class (as in CStep, against the seen commit of the top
           block of the store); consensus state running and WaitSync() = false afterwards;
           consensus.NewState on the result (0 ok, 1 panic, 2 not run) *)
| CPool (start : Z) (ops : list pop) (snap : psnap)
(* block sync after a state sync (Bootstrap + SaveSeenCommit + SwitchToFastSync) or from genesis,
   on a chain one block of which carries evidence; real evidence pool in the node's
   BlockExecutor; honest peers only (monitors only) *)
| CSS (ih : Z)
      (snap : Z)                   (* height of the restored snapshot; 0 = block sync from genesis *)
      (tip : Z)                    (* height every peer announces *)
      (ev_in ev_of : Z)            (* canonical block ev_in carries evidence of height ev_of *)
      (obs : Z * Z * bool * Z * bool * bool * N)
      (* base of the node's block store; State.LastBlockHeight it saved last; everything stored
         is canonical (whole BlockID, seen commit verified by the harness); honest peers stopped;
         an honest peer is still connected; the reactor called SwitchToConsensus; the node's own
         ValidateBlock on the canonical block after its last one: 0 accepts, 1 the evidence pool
         lacks the header / validators of the evidence height, 2 any other error, 3 not asked *)
      (sw : N * Z * Z * N * bool)
      (* SwitchToConsensus: 0 returned, 1 panicked, 2 not called, 3 NewState at start panicked;
         height of the state handed over; RoundState.Height; LastCommit class (as in CStep);
         consensus running *)
(* blockchain/v2: the real scheduler and processor (real store, executor, commit verification)
   wired synchronously as the reactor's demux routine wires them; a liar whose first answer is a
   block of its own making and an honest peer that has the whole chain (monitors only) *)
| CV2 (tip : Z)                    (* height of both peers *)
      (obs : bool * Z * bool * bool * bool * bool * N).
      (* scheduler or processor panicked / returned an error; height of the node's store at the
         end; every stored block is the canonical one; the honest peer was removed although no
         block it supplied was part of a pair that failed verification; the honest peer is still
         ready at the end; the processor finished (pcFinished); CommitToVoteSet on the stored
         seen commit of the last block with the final state's LastValidators: 0 +2/3, 1 panic or
         no +2/3, 2 nothing stored *)

(* ------------------------------------------------------------------ helpers *)

Definition mism (b : bool) (code : N) : verdict := if b then V_ok else V_mismatch code.
Definition viol (b : bool) (clause : N) : verdict := if b then V_ok else V_violation clause.

Fixpoint zlist_eqb (a b : list Z) : bool :=
  match a, b with
  | [], [] => true
  | x :: a', y :: b' => (x =? y) && zlist_eqb a' b'
  | _, _ => false
  end.

Fixpoint insert_z (x : Z) (l : list Z) : list Z :=
  match l with
  | [] => [x]
  | y :: r => if x <=? y then x :: l else y :: insert_z x r
  end.
Definition sort_z (l : list Z) : list Z := fold_right insert_z [] l.

Definition zb_eqb (a b : Z * bool) : bool := (fst a =? fst b) && Bool.eqb (snd a) (snd b).

Definition mem_z (x : Z) (l : list Z) : bool := existsb (Z.eqb x) l.

(* a non-absent slot carries an address that is not the one of the validator at its position *)
Fixpoint foreign_addr (vs : list validator) (sigs : list (commitsig isig)) : bool :=
  match vs, sigs with
  | v :: vs', cs :: sigs' =>
    (negb (cs_flag cs =? block_id_flag_absent) && negb (cs_addr cs =? v_addr v)) || foreign_addr vs' sigs'
  | _, _ => false
  end.

Definition rq_view (pl : pool isig) (h : Z) : Z * bool :=
  match req_at pl h with
  | None => (-1, false)
  | Some r => (rq_peer r, match rq_block r with Some _ => true | None => false end)
  end.

(* ------------------------------------------------------------------ CStep *)

Definition check_step vals chain st_h (first : Z * Z * bool) canon (cm : Z * Z * Z) base sigs p1 p2
           (comp : rest * rest * N)
           (obs : bool * Z * list Z * (Z * bool) * (Z * bool) * N)
           (sw : Z * N * Z * N) (bids : Z * Z * Z) : list verdict :=
  let '(ih, sres, sh, lcc) := sw in
  let '(mid, sid, lid) := bids in
  let '(fh, fid, vok) := first in
  let '(ch, cr, cb) := cm in
  let '(rl, rf, ctv) := comp in
  let '(saved, ph, stopped, rq1, rq2, ho) := obs in
  let vs := map mk_val vals in
  let css := map (mk_cs base) sigs in
  let c := {| c_height := ch; c_round := cr; c_bid := cb; c_sigs := css |} in
  let total := sum_power vs in
  let same_len := Nat.eqb (List.length vs) (List.length css) in
  let enough := 3 * pos_tally chain fh cr fid vs css >? 2 * total in
  let all_valid := all_sigs_valid chain ch cr cb vs css in
  (* the model's node *)
  let b1 : blk := {| b_height := fh; b_id := fid; b_last_commit := c; b_tag := 1 |} in
  let b2 : blk := {| b_height := fh + 1; b_id := 0; b_last_commit := c; b_tag := 2 |} in
  let st := {| st_chain := chain; st_height := st_h; st_vals := vs; st_last_vals := []; st_tag := 0 |} in
  let mkp p := {| bp_id := p; bp_base := 1; bp_height := fh + 1; bp_pending := 0 |} in
  let pl : pool isig :=
    {| p_height := fh;
       p_reqs := [ {| rq_peer := p1; rq_block := Some b1 |}; {| rq_peer := p2; rq_block := Some b2 |} ];
       p_peers := if p1 =? p2 then [mkp p1] else [mkp p1; mkp p2];
       p_max_peer_height := fh + 1; p_num_pending := 0; p_errors := [] |} in
  let n0 : nd := {| n_state := st; n_store := []; n_pool := pl; n_stopped := []; n_log := [];
                    n_panicked := false |} in
  let n1 := process_step (fun _ _ => vok) (fun _ _ => Some (vs, 0))
                         (verify_commit ideal_verify) n0 in
  let m_saved := match n_store n1 with e :: _ => (se_height e =? fh) && (se_id e =? fid) | [] => false end in
  let m_ho : N := if m_saved
                  then (if handover ideal_verify pk_addr_i n1 then 0%N else 1%N) else 2%N in
  (* the consensus state NewState built at node start for [st] (its LastCommit is overwritten by
     the switch whenever the handed-over state has a block) *)
  let cs0 := {| cs_height := next_height ih st; cs_commit_round := -1; cs_votes := Some empty_voteset;
                cs_last_commit := None; cs_state := Some st |} in
  let m_sw := switch_to_consensus ideal_verify pk_addr_i ih (n_store n1) cs0 (n_state n1) in
  let m_sres : N := if m_saved then (match m_sw with Some _ => 0%N | None => 1%N end) else 2%N in
  let m_sh : Z := match m_sw with Some cs' => cs_height cs' | None => -1 end in
  let m_ctv : N := match commit_to_voteset ideal_verify pk_addr_i chain c vs with
                   | None => 2%N
                   | Some v => match vs_maj23 v with Some _ => 0%N | None => 1%N end
                   end in
  [ (* clause 1: stored => a commit with valid signatures of > 2/3 of the state's validator set
       for exactly first's id, one slot per validator, and ValidateBlock passed *)
    viol (negb saved || (same_len && enough && vok)) 1;
    (* ... and what is stored for that height carries exactly the block's own id (hash AND
       part-set header): block meta, seen commit, LastBlockID of the saved state *)
    viol (negb saved || ((mid =? fid) && (sid =? fid) && (lid =? fid))) 1;
    (* clause 2: stored => it is the canonical block of that height *)
    viol (negb saved || (fid =? canon)) 2;
    (* clause 3: not stored => both suppliers stopped, both requests re-opened, height unchanged *)
    viol (saved || (mem_z p1 stopped && mem_z p2 stopped
                    && negb (snd rq1) && negb (snd rq2)
                    && negb (fst rq1 =? p1) && negb (fst rq1 =? p2)
                    && negb (fst rq2 =? p1) && negb (fst rq2 =? p2)
                    && (ph =? fh))) 3;
    (* clause 4: the canonical block with a commit all of whose signatures are genuine and that
       carries > 2/3 is stored *)
    viol (negb ((fid =? canon) && vok && same_len && (ch =? fh) && (cb =? fid) && all_valid
                && negb (foreign_addr vs css)
                && (3 * pos_tally chain fh cr fid vs css >? 2 * total))
          || saved) 4;
    (* clause 5: what was stored lets consensus start *)
    (if (saved && (negb (ho =? 0)%N || (sres =? 1)%N)) || (sres =? 3)%N
     then (if same_len && all_valid && foreign_addr vs css then V_known 31 else V_violation 5)
     else V_ok);
    (* clause 41: after the switch consensus is at the height after the stored block *)
    viol (negb (saved && (sres =? 0)%N) || (sh =? fh + 1)) 41;
    (* clause 42: ... and its LastCommit is the stored seen commit *)
    viol (negb (saved && (sres =? 0)%N) || (lcc =? 1)%N) 42;
    (* model vs implementation *)
    mism (rest_eqb (res_code (verify_commit_light ideal_verify vs chain fid fh c)) rl) 11;
    mism (rest_eqb (res_code (verify_commit ideal_verify vs chain fid fh c)) rf) 12;
    mism (m_ctv =? ctv)%N 13;
    mism (Bool.eqb m_saved saved) 14;
    mism (p_height (n_pool n1) =? ph) 15;
    mism (zlist_eqb (sort_z (n_stopped n1)) stopped) 16;
    mism (zb_eqb (rq_view (n_pool n1) fh) rq1 && zb_eqb (rq_view (n_pool n1) (fh + 1)) rq2) 17;
    mism (m_ho =? ho)%N 18;
    mism ((sres =? 3)%N || (m_sres =? sres)%N) 19;
    mism (negb (saved && (sres =? 0)%N) || (m_sh =? sh)) 20 ].

(* ------------------------------------------------------------------ CScen (monitors only) *)

Fixpoint is_prefix (a b : list Z) : bool :=
  match a, b with
  | [], _ => true
  | x :: a', y :: b' => (x =? y) && is_prefix a' b'
  | _, _ => false
  end.

Definition check_scen (canon : list Z) (start : Z) (stored : list Z) (tip : Z)
           (peers : list (Z * N * bool * bool)) (nbad : Z) (switched : bool) (ho seen_class : N)
           (snap : Z * list Z * bool * Z) : list verdict :=
  let '(ph, pheights, caught, maxh) := snap in
  let honest_left := existsb (fun x => let '(_, k, st, _) := x in (k =? 0)%N && negb st) peers in
  let honest_stopped := Z.of_nat (List.length (filter (fun x => let '(_, k, st, _) := x in (k =? 0)%N && st) peers)) in
  [ (* clause 2: everything stored is the canonical chain *)
    viol (is_prefix stored canon) 2;
    (* clause 6: a peer whose bad answer was part of a processed pair is stopped *)
    viol (forallb (fun x => let '(_, k, st, used) := x in negb used || st) peers) 6;
    (* clause 7: when every peer is honest nobody is stopped *)
    viol (existsb (fun x => let '(_, k, _, _) := x in negb (k =? 0)%N) peers
          || forallb (fun x => let '(_, _, st, _) := x in negb st) peers) 7;
    (* clause 43: the hand-over is offered as soon as nobody the node is connected to claims more
       than it can still get: at least one peer in the pool, every one of them reports a height
       <= pool.height + 1 (block H is applied only with block H+1 in hand), pool.height > 0 —
       then IsCaughtUp() holds.  What peers claimed earlier, or peers that are gone, must not
       keep the node in block sync.  Decided on the pool's own fields and answer. *)
    viol (negb (match pheights with [] => false | _ => true end
                && forallb (fun h => h <=? ph + 1) pheights && (ph >? 0))
          || caught) 43;
    (* clause 8: while an honest peer is still connected the node stores every block below the
       tip and switches to consensus *)
    viol (negb honest_left || (switched && (Z.of_nat (List.length stored) >=? tip - 1))) 8;
    (* clause 10: every rejected pair costs at most one honest peer (the supplier of the other
       block of the pair): no more honest peers are stopped than bad answers were taken *)
    viol (honest_stopped <=? nbad) 10;
    (* clause 5: what was stored lets consensus start *)
    (if negb (ho =? 1)%N then V_ok
     else if (seen_class =? 1)%N then V_known 31 else V_violation 5) ].

(* ------------------------------------------------------------------ CHand *)

Definition cdescr := ((Z * Z * Z) * (Z * Z * Z * Z) * list slott)%type.

Definition mk_commit (d : cdescr) : commit isig :=
  let '((ch, cr, cb), base, sigs) := d in
  {| c_height := ch; c_round := cr; c_bid := cb; c_sigs := map (mk_cs base) sigs |}.

Definition check_hand (vals0 vals1 : list (Z * Z * Z) * list (Z * Z * Z)) (chain ih h0 h1 : Z)
           (seen0 seen1 : option cdescr)
           (verified : bool) (obs : N * N * Z * Z * N * bool * N) : list verdict :=
  let '(start, sres, hs, sh, lcc, running, ho) := obs in
  let vs := map mk_val (fst vals1) in          (* the set that signed the last stored block *)
  let failed := (start =? 1)%N || (sres =? 1)%N || (ho =? 1)%N in
  let known :=
    match seen1 with
    | Some d =>
      let c := mk_commit d in
      Nat.eqb (List.length vs) (List.length (c_sigs c))
      && all_sigs_valid chain (c_height c) (c_round c) (c_bid c) vs (c_sigs c)
      && foreign_addr vs (c_sigs c)
    | None => false
    end in
  let expected := if h1 =? 0 then ih else h1 + 1 in
  (* the model's hand-over, when the harness knows how both seen commits were made *)
  let have := (start =? 0)%N && ((sres =? 0)%N || (sres =? 1)%N)
              && ((h0 =? 0) || match seen0 with Some _ => true | None => false end)
              && ((h1 =? 0) || match seen1 with Some _ => true | None => false end) in
  let entry h (o : option cdescr) : list (sentry isig) :=
    match o with
    | Some d => [ {| se_height := h; se_id := c_bid (mk_commit d); se_seen := mk_commit d |} ]
    | None => []
    end in
  let store0 := entry h0 seen0 in
  let store1 := if h1 =? h0 then store0 else entry h1 seen1 ++ store0 in
  let st h (v : list (Z * Z * Z) * list (Z * Z * Z)) :=
    {| st_chain := chain; st_height := h; st_vals := map mk_val (snd v);
       st_last_vals := map mk_val (fst v); st_tag := 0 |} in
  let m := match new_state ideal_verify pk_addr_i ih store0 (st h0 vals0) with
           | None => None
           | Some cs0 => Some (switch_to_consensus ideal_verify pk_addr_i ih store1 cs0 (st h1 vals1))
           end in
  let m_sres : N := match m with Some (Some _) => 0%N | Some None => 1%N | None => 3%N end in
  let m_sh : Z := match m with Some (Some cs') => cs_height cs' | _ => -1 end in
  let m_lc : bool := match m with
                     | Some (Some cs') => match cs_last_commit cs' with Some _ => true | None => false end
                     | _ => false end in
  [ (* clause 1: what the node stored is committed *)
    viol verified 1;
    (* clause 5: the hand-over failed although every stored block and commit verified *)
    (if failed then (if known then V_known 31 else V_violation 5) else V_ok);
    (* clause 41: the state handed over is the last saved one, and consensus runs at the height
       after the last stored block (InitialHeight when nothing was ever stored) *)
    viol (negb (sres =? 0)%N || ((hs =? h1) && (sh =? expected) && running)) 41;
    (* clause 42: its LastCommit is the stored seen commit of that block (nil before the first) *)
    viol (negb (sres =? 0)%N || (if h1 =? 0 then (lcc =? 0)%N else (lcc =? 1)%N)) 42;
    mism (negb have || (m_sres =? sres)%N) 19;
    mism (negb (have && (sres =? 0)%N) || (m_sh =? sh)) 20;
    mism (negb (have && (sres =? 0)%N) || Bool.eqb m_lc (negb (lcc =? 0)%N)) 29 ].

(* ------------------------------------------------------------------ CPool *)

Definition pblock (h bid : Z) : blk :=
  {| b_height := h; b_id := bid;
     b_last_commit := {| c_height := 0; c_round := 0; c_bid := 0; c_sigs := [] |}; b_tag := 0 |}.

Definition pool_op (pl : pool isig) (o : pop) : pool isig :=
  match o with
  | PStatus p base height => set_peer_range pl p base height
  | PMake => make_next_requester pl
  | PPick h p => if p =? 0 then pl else assign pl h p
  | PBlock p h bid => add_block pl p (pblock h bid)
  | PRemove p => remove_peer pl p
  | PRedo h => match redo_request pl h with Some (pl', _) => pl' | None => pl end
  | PPop => match pop_request pl with Some pl' => pl' | None => pl end
  end.

(* a pick answered by the real pool must be an eligible peer of the pool; a nil answer means
   there was none *)
Definition pick_ok (pl : pool isig) (o : pop) : bool :=
  match o with
  | PPick h p =>
    if p =? 0 then negb (existsb (eligible h) (p_peers pl))
    else match find_peer (p_peers pl) p with Some x => eligible h x | None => false end
  | _ => true
  end.

Fixpoint pool_run (pl : pool isig) (ops : list pop) (ok : bool) : pool isig * bool :=
  match ops with
  | [] => (pl, ok)
  | o :: r => pool_run (pool_op pl o) r (ok && pick_ok pl o)
  end.

Fixpoint insert_peer (x : Z * Z * Z * Z) (l : list (Z * Z * Z * Z)) : list (Z * Z * Z * Z) :=
  match l with
  | [] => [x]
  | y :: r => if fst (fst (fst x)) <=? fst (fst (fst y)) then x :: l else y :: insert_peer x r
  end.

Definition peer_eqb (a b : Z * Z * Z * Z) : bool :=
  let '(a1, a2, a3, a4) := a in let '(b1, b2, b3, b4) := b in
  (a1 =? b1) && (a2 =? b2) && (a3 =? b3) && (a4 =? b4).

Fixpoint list_eqb {A : Type} (e : A -> A -> bool) (a b : list A) : bool :=
  match a, b with
  | [], [] => true
  | x :: a', y :: b' => e x y && list_eqb e a' b'
  | _, _ => false
  end.

Definition zz_eqb (a b : Z * Z) : bool := (fst a =? fst b) && (snd a =? snd b).

Definition check_pool (start : Z) (ops : list pop) (snap : psnap) : list verdict :=
  let '(h, maxh, np, reqs, peers, errs, caught) := snap in
  let '(pl, picks_ok) := pool_run (new_pool isig start) ops true in
  let m_reqs := map (fun r => (rq_peer r, match rq_block r with Some b => b_id b | None => -1 end))
                    (p_reqs pl) in
  let m_peers := fold_right insert_peer []
                   (map (fun x => (bp_id x, bp_base x, bp_height x, bp_pending x)) (p_peers pl)) in
  [ (* clause 9: a block is only ever held by the requester of its own height and comes from
       the peer the request was assigned to — evaluated on the implementation's snapshot:
       every requester that holds a block has a peer *)
    viol (forallb (fun r => (snd r =? -1) || negb (fst r =? 0)) reqs) 9;
    mism picks_ok 21;
    mism (p_height pl =? h) 22;
    mism (p_max_peer_height pl =? maxh) 23;
    mism (p_num_pending pl =? np) 24;
    mism (list_eqb zz_eqb m_reqs reqs) 25;
    mism (list_eqb peer_eqb m_peers peers) 26;
    mism (zlist_eqb (rev (p_errors pl)) errs) 27;
    mism (Bool.eqb (is_caught_up pl true) caught) 28 ].

(* ------------------------------------------------------------------ CSS (monitors only) *)

Definition check_ss (ih snap tip ev_in ev_of : Z) (obs : Z * Z * bool * Z * bool * bool * N)
           (sw : N * Z * Z * N * bool) : list verdict :=
  let '(base, top, canon, hstopped, honest_left, switched, next) := obs in
  let '(sres, hs, sh, lcc, running) := sw in
  let reached := switched && (top >=? tip - 1) in
  (* known finding F89, decided on the implementation's own answers: a state-synced node (its
     stores begin above the chain's InitialHeight: snapshot height >= InitialHeight) stopped at
     the block before the canonical block that carries evidence of a height at or below its
     snapshot, and its own ValidateBlock refuses that block because the evidence pool lacks the
     header / validators of the evidence height *)
  let known := (snap >? 0) && (ih <=? snap) && (0 <? ev_in) && (top + 1 =? ev_in) && (ev_of <=? snap)
               && (next =? 1)%N in
  [ (* clause 2: what is stored is the canonical chain *)
    viol canon 2;
    (* clause 7: every peer is honest: nobody is stopped *)
    (if 0 <? hstopped then (if known then V_known 89 else V_violation 7) else V_ok);
    (* clause 8: with an honest peer the node stores every block below the tip and hands over
       (all peers were honest: none of them may be lost either) *)
    (if reached then V_ok else (if known then V_known 89 else V_violation 8));
    (* clauses 5, 41, 42: the hand-over *)
    viol (negb ((sres =? 1)%N || (sres =? 3)%N)) 5;
    viol (negb (sres =? 0)%N || ((hs =? top) && (sh =? (if top =? 0 then ih else top + 1)) && running)) 41;
    viol (negb (sres =? 0)%N || (if top =? 0 then (lcc =? 0)%N else (lcc =? 1)%N)) 42 ].

(* ------------------------------------------------------------------ CV2 (monitors only) *)

Definition check_v2 (tip : Z) (obs : bool * Z * bool * bool * bool * bool * N) : list verdict :=
  let '(crashed, stored, canon, dropped, honest_left, finished, ho) := obs in
  [ (* clause 44: the sync machinery does not crash on what peers send *)
    viol (negb crashed) 44;
    (* clause 2: what is stored is the canonical chain *)
    viol canon 2;
    (* clause 10: an honest peer is removed only as a supplier of a rejected pair *)
    viol (negb dropped) 10;
    (* clause 8: with the honest peer connected the node stores every block below the tip and
       finishes *)
    viol (negb honest_left || (finished && (stored >=? tip - 1))) 8;
    (* clause 5: what was stored lets consensus rebuild its last commit *)
    viol (negb (ho =? 1)%N) 5 ].

Definition check (c : case) : verdict :=
  match c with
  | CStep vals chain st_h first canon cm base sigs p1 p2 comp obs sw bids =>
    first_of (check_step vals chain st_h first canon cm base sigs p1 p2 comp obs sw bids)
  | CHand vals0 vals1 chain ih h0 h1 seen0 seen1 verified obs =>
    first_of (check_hand vals0 vals1 chain ih h0 h1 seen0 seen1 verified obs)
  | CScen canon start stored tip peers nbad switched ho sc snap =>
    first_of (check_scen canon start stored tip peers nbad switched ho sc snap)
  | CPool start ops snap => first_of (check_pool start ops snap)
  | CV2 tip obs => first_of (check_v2 tip obs)
  | CSS ih snap tip ev_in ev_of obs sw => first_of (check_ss ih snap tip ev_in ev_of obs sw)
  end.
