(* C13 — the two pending counters of the pool are exact in every reachable state: an invariant of
   EVERY operation (messages, picks, disconnects, processing turns incl. rejections), used as a
   premise by the progress theorems of ProofsSync.v. *)
From Coq Require Import List ZArith NArith Bool Lia ZifyBool.
From TM Require Import Generated.Consts C07.Model C07.Proofs C13.Model C13.Proofs C13.ProofsPool C13.ProofsSync.
Import ListNotations.
Open Scope Z_scope.

Section Count.

Variable sig : Type.
Variable validate_block : sstate -> block sig -> bool.
Variable apply_block : sstate -> block sig -> option (list validator * Z).
Variable sent : peer -> block sig -> Prop.

Notation step' := (step validate_block apply_block).
Notation run' := (run validate_block apply_block).
Notation sumw := (sumw sig).
Notation noblk := (noblk sig).
Notation cntw := (cntw sig).
Notation pool_ok' := (pool_ok sig sent).
Notation node_ok' := (node_ok sig sent).

(* pool.numPending = number of requesters without a block; peer.numPending = number of requesters
   assigned to the peer that have no block yet *)
Definition cnt_peers (rs : list (requester sig)) (ps : list bpeer) : Prop :=
  Forall (fun x => bp_pending x = sumw (cntw (bp_id x)) rs) ps.
Definition cnt_inv (pl : pool sig) : Prop :=
  p_num_pending pl = sumw noblk (p_reqs pl) /\ cnt_peers (p_reqs pl) (p_peers pl).

Lemma peers_nonzero : forall S (pl : pool sig) x, pool_ok' S pl -> In x (p_peers pl) -> bp_id x <> 0.
Proof.
  intros S pl x [_ [_ C]] Hx. unfold ids_ok in C. rewrite Forall_forall in C.
  exact (proj1 (C _ (in_map bp_id _ _ Hx))).
Qed.

Lemma cnt_after_set : forall (rs : list (requester sig)) ps i (old new : requester sig) p d,
  nth_error rs i = Some old ->
  (forall q, q <> 0 -> cntw q new - cntw q old = if q =? p then d else 0) ->
  (forall x, In x ps -> bp_id x <> 0) ->
  cnt_peers rs ps -> cnt_peers (set_nth rs i new) (map_peer (incr_pending d) p ps).
Proof.
  intros rs ps i old new p d Hn Hd Hid H. unfold cnt_peers in *. rewrite Forall_forall in *.
  intros y Hy. unfold map_peer in Hy. apply in_map_iff in Hy as [x [<- Hx]].
  specialize (Hd (bp_id x) (Hid x Hx)). pose proof (H x Hx) as D.
  destruct (Z.eqb_spec (bp_id x) p) as [E|E]; cbn [incr_pending bp_id bp_pending];
    rewrite (sumw_set_nth sig _ _ _ _ _ Hn), D; lia.
Qed.

Lemma cnt_make : forall S pl, pool_ok' S pl -> cnt_inv pl -> cnt_inv (make_next_requester pl).
Proof.
  intros S pl Hok [A B]. destruct (make_cases sig pl) as [[_ E]|[_ E]]; rewrite E; [split; assumption|].
  unfold cnt_inv, cnt_peers. cbn [p_num_pending p_reqs p_peers]. split.
  - rewrite sumw_app, A. cbn. lia.
  - unfold cnt_peers in B. rewrite Forall_forall in *. intros x Hx. rewrite sumw_app, (B x Hx).
    cbn [ProofsSync.sumw fold_right]. rewrite (cntw_fresh sig); [lia|]. exact (peers_nonzero S pl x Hok Hx).
Qed.

Lemma cnt_assign : forall S pl h p, pool_ok' S pl -> cnt_inv pl -> cnt_inv (assign pl h p).
Proof.
  intros S pl h p Hok [A B].
  destruct (assign_cases sig pl h p) as [[_ E]|[_ [r [x [Er [Er0 [Ef [Ee E]]]]]]]]; rewrite E; [split; assumption|].
  destruct (req_at_some sig _ _ _ Er) as [_ Hn].
  assert (Hrb : rq_block r = None).
  { destruct Hok as [_ [Bq _]]. rewrite Forall_forall in Bq. destruct (Bq r (nth_error_In _ _ Hn)) as [R1 _].
    destruct (rq_block r); [exfalso; apply R1; [discriminate | exact Er0] | reflexivity]. }
  rewrite Hrb. unfold cnt_inv. cbn [p_num_pending p_reqs p_peers]. split.
  - rewrite (sumw_set_nth sig _ _ _ _ _ Hn), A. unfold ProofsSync.noblk. cbn [rq_block]. rewrite Hrb. lia.
  - apply (cnt_after_set _ _ _ r _ p 1 Hn); [| |exact B].
    + intros q Hq. unfold ProofsSync.cntw, ProofsSync.noblk. cbn [rq_peer rq_block]. rewrite Er0, Hrb.
      destruct (Z.eqb_spec 0 q); [congruence|]. rewrite (Z.eqb_sym p q). destruct (q =? p); lia.
    + intros y Hy. exact (peers_nonzero S pl y Hok Hy).
Qed.

Lemma cnt_report : forall (pl : pool sig) p, cnt_inv pl -> cnt_inv (report pl p).
Proof. intros pl p H. exact H. Qed.

Lemma cnt_add_block : forall S pl p b, pool_ok' S pl -> cnt_inv pl -> cnt_inv (add_block pl p b).
Proof.
  intros S pl p b Hok [A B]. unfold add_block.
  destruct (req_at pl (b_height b)) as [r|] eqn:Er; [|destruct (_ >? _); split; assumption].
  destruct (rq_block r) as [b0|] eqn:Erb; [split; assumption|]. cbn [orb].
  destruct (Z.eqb_spec (rq_peer r) p) as [Erp|Erp]; cbn [negb]; [|split; assumption].
  destruct (req_at_some sig _ _ _ Er) as [_ Hn].
  unfold cnt_inv. cbn [p_num_pending p_reqs p_peers]. split.
  - rewrite (sumw_set_nth sig _ _ _ _ _ Hn), A. unfold ProofsSync.noblk. cbn [rq_block]. rewrite Erb. lia.
  - apply (cnt_after_set _ _ _ r _ p (-1) Hn); [| |exact B].
    + intros q Hq. unfold ProofsSync.cntw, ProofsSync.noblk. cbn [rq_peer rq_block]. rewrite Erp, Erb.
      rewrite (Z.eqb_sym p q). destruct (q =? p); lia.
    + intros y Hy. exact (peers_nonzero S pl y Hok Hy).
Qed.

Lemma sumw_zero : forall w (l : list (requester sig)), (forall r, In r l -> w r = 0) -> sumw w l = 0.
Proof.
  intros w l. induction l as [|r l IH]; intro H; [reflexivity|]. rewrite sumw_cons.
  rewrite (H r (or_introl eq_refl)), IH; [lia|]. intros r' Hr'. apply H. right. exact Hr'.
Qed.

Lemma cnt_set_peer_range : forall S pl p base height,
  pool_ok' S pl -> p <> 0 -> cnt_inv pl -> cnt_inv (set_peer_range pl p base height).
Proof.
  intros S pl p base height Hok Hp [A B]. unfold set_peer_range, cnt_inv. cbn [p_num_pending p_reqs p_peers].
  split; [exact A|]. unfold cnt_peers in *.
  destruct (find_peer (p_peers pl) p) as [x|] eqn:Ef.
  - rewrite Forall_forall in *. intros y Hy. unfold map_peer in Hy. apply in_map_iff in Hy as [x0 [<- Hx0]].
    destruct (bp_id x0 =? p); cbn [bp_id bp_pending]; exact (B x0 Hx0).
  - apply Forall_app. split; [exact B|]. constructor; [|constructor]. cbn [bp_id bp_pending].
    symmetry. apply sumw_zero. intros r Hr. unfold ProofsSync.cntw.
    destruct (Z.eqb_spec (rq_peer r) p) as [E|E]; [|reflexivity]. exfalso.
    destruct Hok as [_ [Bq _]]. rewrite Forall_forall in Bq. destruct (Bq r Hr) as [_ [R2 _]].
    apply (find_peer_none _ _ Ef). rewrite <- E. apply R2. congruence.
Qed.

Lemma fold_left_sum : forall (g : requester sig -> Z) l a0,
  fold_left (fun a r => a + g r) l a0 = a0 + sumw g l.
Proof.
  intros g l. induction l as [|r l IH]; intro a0; [cbn; lia|].
  cbn [fold_left]. rewrite IH, sumw_cons. lia.
Qed.

Lemma noblk_redo : forall q (r : requester sig), noblk (redo_req q r) = noblk r + redo_pending q r.
Proof.
  intros q r. unfold redo_req, redo_pending, ProofsSync.noblk.
  destruct (rq_peer r =? q); cbn [rq_block]; destruct (rq_block r); reflexivity.
Qed.

Lemma cntw_redo : forall q i (r : requester sig), i <> q -> i <> 0 -> cntw i (redo_req q r) = cntw i r.
Proof.
  intros q i r Hq H0. unfold redo_req, ProofsSync.cntw.
  destruct (Z.eqb_spec (rq_peer r) q) as [E|E]; [|reflexivity]. cbn [rq_peer].
  destruct (Z.eqb_spec 0 i); [congruence|]. destruct (Z.eqb_spec (rq_peer r) i); [congruence | reflexivity].
Qed.

Lemma sumw_map_ext : forall w w' f (l : list (requester sig)),
  (forall r, w (f r) = w' r) -> sumw w (map f l) = sumw w' l.
Proof.
  intros w w' f l H. induction l as [|r l IH]; [reflexivity|]. cbn [map]. rewrite !sumw_cons, H, IH. reflexivity.
Qed.

Lemma sumw_plus : forall w1 w2 (l : list (requester sig)),
  sumw (fun r => w1 r + w2 r) l = sumw w1 l + sumw w2 l.
Proof. intros w1 w2 l. induction l as [|r l IH]; [reflexivity|]. rewrite !sumw_cons, IH. lia. Qed.

Lemma cnt_remove_peer : forall S pl q, pool_ok' S pl -> cnt_inv pl -> cnt_inv (remove_peer pl q).
Proof.
  intros S pl q Hok [A B].
  assert (Hnp : fold_left (fun a r => a + redo_pending q r) (p_reqs pl) (p_num_pending pl)
                = sumw noblk (map (redo_req q) (p_reqs pl))).
  { rewrite fold_left_sum, A, (sumw_map_ext noblk (fun r => noblk r + redo_pending q r));
      [rewrite sumw_plus; reflexivity | apply noblk_redo]. }
  assert (Hpe : forall x, In x (p_peers pl) -> bp_id x <> q ->
                bp_pending x = sumw (cntw (bp_id x)) (map (redo_req q) (p_reqs pl))).
  { intros x Hx Hq. unfold cnt_peers in B. rewrite Forall_forall in B. rewrite (B x Hx).
    symmetry. apply sumw_map_ext. intro r. apply cntw_redo; [exact Hq | exact (peers_nonzero S pl x Hok Hx)]. }
  unfold remove_peer. destruct (find_peer (p_peers pl) q) as [x|] eqn:Ef;
    unfold cnt_inv, cnt_peers; cbn [p_num_pending p_reqs p_peers]; (split; [exact Hnp|]);
    apply Forall_forall; intros y Hy.
  - apply filter_In in Hy as [Hy Hq]. apply Hpe; [exact Hy|].
    apply negb_true_iff, Z.eqb_neq in Hq. exact Hq.
  - apply Hpe; [exact Hy|]. intro E. apply (find_peer_none _ _ Ef). rewrite <- E. apply in_map. exact Hy.
Qed.

Lemma cnt_pop : forall (pl : pool sig) r rs,
  p_reqs pl = r :: rs -> rq_block r <> None -> cnt_inv pl -> cnt_inv (popped sig pl).
Proof.
  intros pl r rs Er Hb [A B]. unfold cnt_inv, cnt_peers, popped. cbn [p_num_pending p_reqs p_peers].
  rewrite Er in *. cbn [tl]. rewrite sumw_cons in A.
  assert (Hn : noblk r = 0) by (unfold ProofsSync.noblk; destruct (rq_block r); [reflexivity | congruence]).
  split; [lia|]. unfold cnt_peers in B. rewrite Forall_forall in *. intros x Hx. rewrite (B x Hx), sumw_cons.
  unfold ProofsSync.cntw at 1. destruct (_ =? _); lia.
Qed.

(* ---- the node *)

Definition nc (n : node sig) : Prop := node_ok' n /\ cnt_inv (n_pool n).

Lemma nc_stop_peer : forall (n : node sig) p, nc n -> nc (stop_peer n p).
Proof.
  intros n p [H1 H2]. split; [apply stop_peer_ok; exact H1|].
  unfold stop_peer. destruct ((p =? 0) || is_stopped n p); [exact H2|]. cbn [n_pool].
  exact (cnt_remove_peer _ _ p H1 H2).
Qed.

Lemma nc_redo_request : forall (n : node sig) h pl1 p1,
  nc n -> redo_request (n_pool n) h = Some (pl1, p1) -> nc (with_pool n pl1).
Proof.
  intros n h pl1 p1 [H1 H2] E. split; [exact (redo_request_ok sig sent _ _ _ _ _ E H1)|].
  cbn [with_pool n_pool]. unfold redo_request in E. destruct (req_at (n_pool n) h) as [r|]; [|discriminate].
  destruct (rq_peer r =? 0); injection E as <- <-; [exact H2 | exact (cnt_remove_peer _ _ _ H1 H2)].
Qed.

Lemma nc_reject : forall (n : node sig) v f s, nc n -> nc (reject_step n v f s).
Proof.
  intros n v f s H. unfold reject_step.
  destruct (redo_request (n_pool n) (b_height f)) as [[pl1 p1]|] eqn:E1; [|exact H].
  pose proof (nc_stop_peer _ p1 (nc_redo_request n _ _ _ H E1)) as H1.
  set (n1 := stop_peer (with_pool n pl1) p1) in *.
  destruct (redo_request (n_pool n1) (b_height s)) as [[pl2 p2]|] eqn:E2; [|exact H1].
  pose proof (nc_redo_request n1 _ _ _ H1 E2) as H2.
  assert (H3 : nc (if p2 =? p1 then with_pool n1 pl2 else stop_peer (with_pool n1 pl2) p2)).
  { destruct (p2 =? p1); [exact H2 | apply nc_stop_peer; exact H2]. }
  exact H3.
Qed.

Theorem nc_step : forall vc (n : node sig) o, op_sent sig sent o -> nc n -> nc (step' vc n o).
Proof.
  intros vc n o Hs H. split; [apply step_ok; [exact Hs | exact (proj1 H)]|].
  destruct H as [H1 H2]. destruct (n_panicked n) eqn:Hp; [unfold step; rewrite Hp; exact H2|].
  destruct o as [p base height| |h p|p b|p|].
  - unfold step. rewrite Hp. destruct (Z.eqb_spec p 0) as [E0|E0]; [exact H2|]. cbn [orb].
    destruct (is_stopped n p); [exact H2|]. cbn [with_pool n_pool].
    exact (cnt_set_peer_range _ _ p base height H1 E0 H2).
  - unfold step. rewrite Hp. cbn [with_pool n_pool]. exact (cnt_make _ _ H1 H2).
  - unfold step. rewrite Hp. cbn [with_pool n_pool]. exact (cnt_assign _ _ h p H1 H2).
  - destruct ((p =? 0) || is_stopped n p) eqn:Hc; [unfold step; rewrite Hp, Hc; exact H2|].
    assert (E0 : p <> 0) by (apply orb_false_iff in Hc as [Hc _]; apply Z.eqb_neq; exact Hc).
    assert (Hn1 : nc (with_pool n (add_block (n_pool n) p b))).
    { split; [apply add_block_ok; assumption | exact (cnt_add_block _ _ p b H1 H2)]. }
    destruct (step_block_cases sig validate_block apply_block vc n p b Hp Hc) as [[_ E]|[_ E]]; rewrite E;
      [exact (proj2 Hn1) | exact (proj2 (nc_stop_peer _ p Hn1))].
  - rewrite (step_remove_is_stop sig validate_block apply_block vc n p Hp).
    exact (proj2 (nc_stop_peer n p (conj H1 H2))).
  - unfold step. rewrite Hp. unfold process_step.
    destruct (peek_two (n_pool n)) as [[f|] [s|]] eqn:Hpeek; try exact H2.
    destruct (verify_first validate_block vc (n_state n) f s);
      try exact (proj2 (nc_reject n _ f s (conj H1 H2))).
    destruct (peek_two_some sig sent n f s H1 Hpeek) as [r1 [r2 [E1 [_ [B1 _]]]]].
    destruct (req_at_some sig _ _ _ E1) as [_ Hn1]. rewrite Z.sub_diag in Hn1.
    unfold pop_request. destruct (p_reqs (n_pool n)) as [|q1 rs] eqn:Er; [exact H2|].
    cbn in Hn1. injection Hn1 as ->.
    assert (Hpop : cnt_inv (popped sig (n_pool n))).
    { apply (cnt_pop _ r1 rs Er); [congruence | exact H2]. }
    unfold popped in Hpop. rewrite Er in Hpop. cbn [tl] in Hpop.
    destruct (apply_block (n_state n) f); exact Hpop.
Qed.

Theorem nc_run : forall vc ops (n : node sig), Forall (op_sent sig sent) ops -> nc n -> nc (run' vc ops n).
Proof.
  intros vc ops. induction ops as [|o ops IH]; intros n Hs H; [exact H|].
  inversion Hs; subst. cbn [run fold_left]. apply IH; [assumption|]. apply nc_step; assumption.
Qed.

End Count.
