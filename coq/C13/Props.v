(* C13 — Block sync applies only the canonical chain, whatever peers send.
   Only the property statements; each is closed by [exact] of a lemma of Proofs.v and followed by
   Print Assumptions.

   Reading guide.  The node ([node]: state, block store, pool, stopped peers, event log) is driven
   by an arbitrary list of operations [ops] — status and block responses of any peer in any
   order, requester creation, peer picks, disconnects, and turns of the poolRoutine processing
   step — through [run vc validate_block apply_block ops n]; [vc] is the commit-verification
   entry point the reactor calls ([verify_commit sv] after repair F7; [verify_commit_light sv]
   before).  [sv] is an arbitrary signature check, [validate_block] / [apply_block] arbitrary
   oracles for ValidateBlock / ApplyBlock (C06), [pk_addr] an arbitrary PubKey.Address.
   Every poolRoutine turn that stores a block logs [E_saved st first second] (the state it had,
   the block stored, the block whose LastCommit was stored as seen commit). *)
From Coq Require Import List ZArith NArith Bool Lia.
From TM Require Import Generated.Consts C07.Model C07.Proofs C13.Model C13.Proofs C13.ProofsPool C13.ProofsSync C13.ProofsCount C13.ProofsStatus.
Import ListNotations.
Open Scope Z_scope.

(* ---- clause 1: a block is saved and executed only if committed and valid ---------------------- *)

(* Whatever the peers send, in whatever order (all [ops]), from any starting node: the store grows
   by exactly the entries of the logged E_saved events, and for each of them ValidateBlock
   accepted the block under the node's state at that moment and — when that state's validator set
   is well-formed — the accompanying commit has one slot per validator of that set, is for exactly
   the block's recomputed id (hash + part-set header) and height, and the for-the-block slots
   whose signatures verify under the positional validator's key for exactly (chain, height,
   round, that id) carry more than 2/3 of that set's power.  Holds for both commit checks. *)
Theorem C13_saved_only_if_committed :
  forall (sig : Type) (sv : key -> signmsg -> sig -> bool)
         (validate_block : sstate -> block sig -> bool)
         (apply_block : sstate -> block sig -> option (list validator * Z))
         (vc : vcheck sig),
    (vc = verify_commit sv \/ vc = verify_commit_light sv) ->
    forall (ops : list (op sig)) (n : node sig),
    exists evs,
      n_log (run validate_block apply_block vc ops n) = evs ++ n_log n /\
      n_store (run validate_block apply_block vc ops n) = log_store sig evs ++ n_store n /\
      Forall (saved_ok sig sv validate_block) evs.
Proof.
  intros sig sv vb ab vc [-> | ->] ops n.
  - exact (run_frame sig sv vb ab _ (verify_commit_vc_sound sig sv) ops n).
  - exact (run_frame sig sv vb ab _ (verify_commit_light_vc_sound sig sv) ops n).
Qed.
Print Assumptions C13_saved_only_if_committed.

(* The state (what ApplyBlock produced) changes only in a step that logs a saved block, and then
   it is ApplyBlock's result on exactly that block. *)
Theorem C13_executed_only_if_saved :
  forall (sig : Type)
         (validate_block : sstate -> block sig -> bool)
         (apply_block : sstate -> block sig -> option (list validator * Z))
         (vc : vcheck sig) (n : node sig) (o : op sig),
    n_state (step validate_block apply_block vc n o) = n_state n \/
    exists first second nv,
      In (E_saved (n_state n) first second) (n_log (step validate_block apply_block vc n o)) /\
      apply_block (n_state n) first = Some nv /\
      n_state (step validate_block apply_block vc n o) = next_state (n_state n) first nv.
Proof. intros sig vb ab vc n o. exact (step_state sig vb ab vc n o). Qed.
Print Assumptions C13_executed_only_if_saved.

(* ---- clause 4: what was stored lets consensus start ------------------------------------------- *)

(* After repair F7 (the reactor calls VerifyCommit): if the node could hand over at the start
   ([handover] = SwitchToConsensus/NewState do not panic in reconstructLastCommit), it can hand
   over after ANY run — provided every saved commit is outside the known-finding class F31, i.e.
   its non-absent slots carry the address of the validator at their position ([addrs_ok]), the
   validator sets are well-formed and validators carry their key's address ([keys_ok], what
   NewValidator produces).  ValidateBlock is only assumed to accept nothing but the next height. *)
Theorem C13_handover_ok_except_known :
  forall (sig : Type) (sv : key -> signmsg -> sig -> bool) (pk_addr : key -> addr)
         (validate_block : sstate -> block sig -> bool)
         (apply_block : sstate -> block sig -> option (list validator * Z)),
    (forall st b, validate_block st b = true -> b_height b = st_height st + 1) ->
    forall (ops : list (op sig)) (n : node sig),
      Forall (ev_good sig pk_addr) (n_log (run validate_block apply_block (verify_commit sv) ops n)) ->
      0 <= st_height (n_state n) ->
      handover sv pk_addr n = true ->
      handover sv pk_addr (run validate_block apply_block (verify_commit sv) ops n) = true.
Proof.
  intros sig sv pk vb ab Hvh ops n Hg H0 Hh.
  exact (proj2 (run_handover_plus1 sig sv pk vb ab Hvh ops n Hg (conj H0 Hh))).
Qed.
Print Assumptions C13_handover_ok_except_known.

(* ---- last clause, the hand-over itself: Reactor.SwitchToConsensus ------------------------------ *)

(* The node built its consensus State at start ([new_state]: consensus.NewState on the state and
   block store it had then; [ih] = the chain's InitialHeight >= 1) and block-synced through ANY
   run [ops].  Then Reactor.SwitchToConsensus, called with the state after the last ApplyBlock
   on the store the run left behind ([switch_to_consensus]: the guard "LastBlockHeight > 0" that
   decides whether reconstructLastCommit runs, then updateToState), does not panic; the consensus
   state it leaves is at height LastBlockHeight+1 (InitialHeight when no block was ever stored),
   CommitRound -1, and its LastCommit is nil before the first block and otherwise exactly the
   vote set CommitToVoteSet makes from the seen commit stored for the last block, with a +2/3
   majority.  Holds whether nothing, exactly one block (LastBlockHeight = InitialHeight) or
   more were synced, and whether the node started with an empty or a non-empty store.
   Premises: as for C13_handover_ok_except_known — every saved commit outside the known-finding
   class F31 and validator sets well-formed with validators carrying their key's address
   ([ev_good]); ValidateBlock accepts only the block of the next height (InitialHeight when the
   state has no block yet); the starting state is at 0 or at/above InitialHeight. *)
Theorem C13_switch_to_consensus_ok_except_known :
  forall (sig : Type) (sv : key -> signmsg -> sig -> bool) (pk_addr : key -> addr)
         (validate_block : sstate -> block sig -> bool)
         (apply_block : sstate -> block sig -> option (list validator * Z))
         (ih : Z),
    1 <= ih ->
    (forall st b, validate_block st b = true -> b_height b = next_height ih st) ->
    forall (ops : list (op sig)) (n : node sig) (cs0 : cstate),
      let n' := run validate_block apply_block (verify_commit sv) ops n in
      Forall (ev_good sig pk_addr) (n_log n') ->
      0 <= st_height (n_state n) ->
      (st_height (n_state n) = 0 \/ ih <= st_height (n_state n)) ->
      new_state sv pk_addr ih (n_store n) (n_state n) = Some cs0 ->
      exists cs',
        switch_to_consensus sv pk_addr ih (n_store n') cs0 (n_state n') = Some cs' /\
        cs_height cs' = next_height ih (n_state n') /\
        cs_commit_round cs' = -1 /\
        (st_height (n_state n') = 0 -> cs_last_commit cs' = None) /\
        (0 < st_height (n_state n') ->
         exists c vs,
           load_seen (n_store n') (st_height (n_state n')) = Some c /\
           commit_to_voteset sv pk_addr (st_chain (n_state n')) c (st_last_vals (n_state n')) = Some vs /\
           vs_maj23 vs <> None /\ cs_last_commit cs' = Some vs).
Proof.
  intros sig sv pk vb ab ih Hih Hvn ops n cs0 n' Hg H0 Hst Hns.
  exact (run_switch sig sv pk vb ab ih Hih Hvn ops n cs0 Hg H0 Hst Hns).
Qed.
Print Assumptions C13_switch_to_consensus_ok_except_known.

(* What the rebuilt LastCommit stands for.  A commit that block sync accepted for block id [bid]
   at height [h] (VerifyCommit against a well-formed set whose validators carry their key's
   address), outside class F31, is turned by CommitToVoteSet — whenever that returns — into a
   vote set whose +2/3 majority is for exactly [bid]: together with
   C13_saved_only_if_committed, the LastCommit consensus starts with is a +2/3 commit for the
   very block that was stored at that height. *)
Theorem C13_reconstructed_majority_is_for_stored_block :
  forall (sig : Type) (sv : key -> signmsg -> sig -> bool) (pk_addr : key -> addr)
         (chain : Z) (c : commit sig) (vals : list validator) (bid : blockid) (h : Z) (vs : voteset),
    wf_valset vals -> keys_ok pk_addr vals -> 0 < h ->
    verify_commit sv vals chain bid h c = R_ok ->
    addrs_ok sig vals (c_sigs c) ->
    commit_to_voteset sv pk_addr chain c vals = Some vs ->
    vs_maj23 vs = Some bid.
Proof.
  intros sig sv pk chain c vals bid h vs Hwf Hk Hh Hv Ha Hc.
  exact (reconstruct_maj_bid sig sv pk chain c vals bid h vs Hwf Hk Hh Hv Ha Hc).
Qed.
Print Assumptions C13_reconstructed_majority_is_for_stored_block.

(* Non-vacuity: a chain with InitialHeight 5, three validators of power 10; a fresh node (empty
   store, state at 0) receives blocks 5 and 6 from peer 1 and syncs exactly ONE block
   (LastBlockHeight = InitialHeight), and executing that block changes the validator set
   (membership and order): at the hand-over LastValidators (the set that signed block 5, against
   which the seen commit is replayed) differs from Validators (the set of height 6).  The
   premises hold and the switch yields height 6 with a LastCommit. *)
Definition ex_pk (k : key) : addr := k + 1.
Definition ex_vals : list validator :=
  [ {| v_addr := 1; v_key := 0; v_power := 10 |}; {| v_addr := 2; v_key := 1; v_power := 10 |};
    {| v_addr := 3; v_key := 2; v_power := 10 |} ].
Definition ex_commit (h bid : Z) : commit isig :=
  {| c_height := h; c_round := 0; c_bid := bid;
     c_sigs := map (fun k => {| cs_flag := block_id_flag_commit; cs_addr := k + 1; cs_ts := 7;
                                cs_sig := Signed k (sign_msg 1 h 0 bid 7) |}) [0; 1; 2] |}.
Definition ex_b5 : block isig :=
  {| b_height := 5; b_id := 55; b_last_commit := {| c_height := 0; c_round := 0; c_bid := 0; c_sigs := [] |};
     b_tag := 0 |}.
Definition ex_b6 : block isig :=
  {| b_height := 6; b_id := 66; b_last_commit := ex_commit 5 55; b_tag := 0 |}.
Definition ex_n0 : node isig :=
  {| n_state := {| st_chain := 1; st_height := 0; st_vals := ex_vals; st_last_vals := []; st_tag := 0 |};
     n_store := []; n_pool := new_pool isig 5; n_stopped := []; n_log := []; n_panicked := false |}.
Definition ex_ops : list (op isig) :=
  [ OStatus 1 5 6; OMakeRequester; OMakeRequester; OPick 5 1; OPick 6 1; OBlock 1 ex_b5; OBlock 1 ex_b6;
    OProcess ].
Definition ex_vb (st : sstate) (b : block isig) : bool := b_height b =? next_height 5 st.
(* executing block 5 changes the validator set: a new strongest validator comes first, one leaves *)
Definition ex_vals2 : list validator :=
  [ {| v_addr := 4; v_key := 3; v_power := 25 |}; {| v_addr := 1; v_key := 0; v_power := 10 |};
    {| v_addr := 3; v_key := 2; v_power := 10 |} ].
Definition ex_ab (st : sstate) (b : block isig) : option (list validator * Z) := Some (ex_vals2, 0).

Example C13_switch_to_consensus_nonvacuous :
  let n' := run ex_vb ex_ab (verify_commit ideal_verify) ex_ops ex_n0 in
  (forall st b, ex_vb st b = true -> b_height b = next_height 5 st) /\
  st_height (n_state n') = 5 /\ List.length (n_store n') = 1%nat /\
  st_last_vals (n_state n') = ex_vals /\ st_vals (n_state n') = ex_vals2 /\ ex_vals <> ex_vals2 /\
  Forall (ev_good isig ex_pk) (n_log n') /\
  exists cs0 cs',
    new_state ideal_verify ex_pk 5 (n_store ex_n0) (n_state ex_n0) = Some cs0 /\
    switch_to_consensus ideal_verify ex_pk 5 (n_store n') cs0 (n_state n') = Some cs' /\
    cs_height cs' = 6 /\ cs_last_commit cs' <> None.
Proof.
  cbv zeta. split; [intros st b H; apply Z.eqb_eq; exact H|].
  split; [vm_compute; reflexivity|]. split; [vm_compute; reflexivity|].
  split; [vm_compute; reflexivity|]. split; [vm_compute; reflexivity|]. split; [discriminate|].
  split.
  - assert (E : n_log (run ex_vb ex_ab (verify_commit ideal_verify) ex_ops ex_n0) =
                [E_saved (n_state ex_n0) ex_b5 ex_b6]) by (vm_compute; reflexivity).
    rewrite E. constructor; [|constructor].
    cbn [ev_good n_state ex_n0 st_vals b_last_commit ex_b6 c_sigs ex_commit map].
    split; [|split].
    + split; [repeat constructor; discriminate | vm_compute; discriminate].
    + repeat constructor; discriminate.
    + unfold addrs_ok. cbn [combine ex_vals]. repeat (constructor; [right; reflexivity|]). constructor.
  - eexists. eexists. split; [vm_compute; reflexivity|]. split; [vm_compute; reflexivity|].
    split; [reflexivity | discriminate].
Qed.


(* =================================================================================================
   Clauses 3, 6, 9, 10 and 8: the peer machinery (ProofsPool.v, ProofsSync.v).

   [node_ok sig sent n] is the well-formedness of the pool inside the node: every block a
   requester holds is a block of the requester's height; a requester holds a block only if it is
   assigned to a peer (clause 9); it is assigned only to peers the pool knows; the pool knows no
   stopped peer and not the empty id; and [sent p b] holds of every held block b and the peer p
   its requester is assigned to, where [sent] is ANY relation that holds of all the block
   responses fed to the node ([op_sent]) — e.g. [fun _ _ => True], or "p is honest -> b is the
   canonical block".  bpRequester.redo is immediate in the model (the real code posts it to the
   requester's goroutine: clause 10, proposed repair F32); the model has no operation that
   re-admits a stopped peer (in the real node: a new connection, Reactor.AddPeer).
   ================================================================================================= *)

(* The pool invariant holds after ANY operation list from any well-formed node (the fresh node
   is one: Example below), so the turn theorems below apply in every reachable state. *)
Theorem C13_pool_wellformed_always :
  forall (sig : Type)
         (validate_block : sstate -> block sig -> bool)
         (apply_block : sstate -> block sig -> option (list validator * Z))
         (sent : peer -> block sig -> Prop) (vc : vcheck sig)
         (ops : list (op sig)) (n : node sig),
    Forall (op_sent sig sent) ops -> node_ok sig sent n ->
    node_ok sig sent (run validate_block apply_block vc ops n).
Proof. intros sig vb ab sent vc ops n Hs H. exact (run_ok sig vb ab sent vc ops n Hs H). Qed.
Print Assumptions C13_pool_wellformed_always.

(* ---- clauses 3 and 6, one processing turn.  In EVERY well-formed node, a processing turn whose
   pair (first, second) fails the acceptance rule (the commit check of first with
   second.LastCommit, or ValidateBlock): the pair is the pair of heights pool.height,
   pool.height+1, supplied by peers p1, p2 that are known and not stopped; the turn stores
   nothing, executes nothing, keeps pool.height and every requester slot, does not panic; stops
   exactly p1 and p2 (one peer when it supplied both); afterwards neither is known to the pool
   nor owns any requester; the requesters of both heights exist again, unassigned and empty
   (= requested again as soon as a peer is picked; the pick can only return a peer that is not
   stopped: C13_stopped_peer_is_ignored); requesters of other peers are untouched; the
   rejection is logged; the node stays well-formed. *)
Theorem C13_bad_response_drops_peer_and_retries :
  forall (sig : Type)
         (validate_block : sstate -> block sig -> bool)
         (apply_block : sstate -> block sig -> option (list validator * Z))
         (sent : peer -> block sig -> Prop) (vc : vcheck sig)
         (n : node sig) (first second : block sig),
    node_ok sig sent n -> n_panicked n = false ->
    peek_two (n_pool n) = (Some first, Some second) ->
    verify_first validate_block vc (n_state n) first second <> SV_accept ->
    let h := p_height (n_pool n) in
    let p1 := supplier sig n h in
    let p2 := supplier sig n (h + 1) in
    let n' := step validate_block apply_block vc n OProcess in
    (b_height first = h /\ b_height second = h + 1 /\
     p1 <> 0 /\ p2 <> 0 /\ ~ In p1 (n_stopped n) /\ ~ In p2 (n_stopped n)) /\
    (n_store n' = n_store n /\ n_state n' = n_state n /\ n_panicked n' = false /\
     p_height (n_pool n') = h /\ length (p_reqs (n_pool n')) = length (p_reqs (n_pool n))) /\
    (n_stopped n' = (if p2 =? p1 then [p1] else [p2; p1]) ++ n_stopped n /\
     forall q, In q (n_stopped n') <-> q = p1 \/ q = p2 \/ In q (n_stopped n)) /\
    (~ In p1 (ids sig (n_pool n')) /\ ~ In p2 (ids sig (n_pool n')) /\
     forall r, In r (p_reqs (n_pool n')) -> rq_peer r <> p1 /\ rq_peer r <> p2) /\
    (req_at (n_pool n') h = Some (fresh_req sig) /\ req_at (n_pool n') (h + 1) = Some (fresh_req sig)) /\
    (forall k r, req_at (n_pool n) k = Some r -> rq_peer r <> p1 -> rq_peer r <> p2 ->
                 req_at (n_pool n') k = Some r) /\
    (exists v q2, n_log n' = E_rejected v first second p1 q2 :: n_log n /\ v <> SV_accept /\
                  (q2 = p2 \/ (q2 = 0 /\ p2 = p1))) /\
    node_ok sig sent n'.
Proof.
  intros sig vb ab sent vc n first second H1 H2 H3 H4.
  exact (bad_response_turn sig vb ab sent vc n first second H1 H2 H3 H4).
Qed.
Print Assumptions C13_bad_response_drops_peer_and_retries.

(* ---- clause 6 for block responses this peer was not asked for (pushers, duplicates, far heights):
   when the requester of the block's height already holds a block or is assigned to another peer,
   or there is no requester and the height is more than
   maxDiffBetweenCurrentAndReceivedBlockHeight from pool.height, the block is not taken, the
   sender is stopped in the same step, nothing is stored or executed, and only the sender's own
   requesters are reset. *)
Theorem C13_unsolicited_block_stops_sender :
  forall (sig : Type)
         (validate_block : sstate -> block sig -> bool)
         (apply_block : sstate -> block sig -> option (list validator * Z))
         (vc : vcheck sig) (n : node sig) (p : peer) (b : block sig),
    n_panicked n = false -> p <> 0 -> ~ In p (n_stopped n) ->
    (exists r, req_at (n_pool n) (b_height b) = Some r /\ (rq_block r <> None \/ rq_peer r <> p)) \/
    (req_at (n_pool n) (b_height b) = None /\
     Z.abs (p_height (n_pool n) - b_height b) > bc0_max_diff_current_received_height) ->
    let n' := step validate_block apply_block vc n (OBlock p b) in
    n' = stop_peer (with_pool n (report (n_pool n) p)) p /\
    n_stopped n' = p :: n_stopped n /\
    n_store n' = n_store n /\ n_state n' = n_state n /\
    p_height (n_pool n') = p_height (n_pool n) /\
    p_reqs (n_pool n') = map (redo_req p) (p_reqs (n_pool n)) /\
    (forall k r', req_at (n_pool n) k = Some r' -> rq_peer r' <> p -> req_at (n_pool n') k = Some r').
Proof.
  intros sig vb ab vc n p b H1 H2 H3 H4.
  exact (unsolicited_block_stops_sender sig vb ab vc n p b H1 H2 H3 H4).
Qed.
Print Assumptions C13_unsolicited_block_stops_sender.

(* ---- lifted over ALL operation lists: a stopped peer is out for good.  Once q is stopped, after
   any further operations it is still stopped, whatever it sends (blocks, status) is ignored —
   the node does not change at all — and a pick never gives it a request. *)
Theorem C13_stopped_peer_is_ignored :
  forall (sig : Type)
         (validate_block : sstate -> block sig -> bool)
         (apply_block : sstate -> block sig -> option (list validator * Z))
         (sent : peer -> block sig -> Prop) (vc : vcheck sig)
         (ops : list (op sig)) (n : node sig) (q : peer),
    Forall (op_sent sig sent) ops -> node_ok sig sent n -> q <> 0 -> In q (n_stopped n) ->
    let m := run validate_block apply_block vc ops n in
    In q (n_stopped m) /\
    (forall b, step validate_block apply_block vc m (OBlock q b) = m) /\
    (forall base height, step validate_block apply_block vc m (OStatus q base height) = m) /\
    (forall h, n_pool (step validate_block apply_block vc m (OPick h q)) = n_pool m).
Proof.
  intros sig vb ab sent vc ops n q Hs Hok H0 Hq m.
  pose proof (run_stopped_mono sig vb ab vc ops n q Hq) as Hm.
  exact (conj Hm (stopped_ignored sig vb ab sent vc m q (run_ok sig vb ab sent vc ops n Hs Hok) H0 Hm)).
Qed.
Print Assumptions C13_stopped_peer_is_ignored.

(* ... and supplies nothing that is stored.  Along ANY operation list from a well-formed node,
   every block the run stores (every logged E_saved that was not there before) was stored by one
   processing turn of the list; in the node [m] just before that turn it is the block of
   pool.height held by a requester assigned to a peer p1 that is not the empty id and NOT
   STOPPED, with [sent p1 first]; likewise the second block (whose LastCommit becomes the seen
   commit) and p2; neither is a peer that was stopped at the start.  (A peer stopped at any
   point of a run: split the list there and apply this to the rest.) *)
Theorem C13_stopped_peer_supplies_nothing :
  forall (sig : Type)
         (validate_block : sstate -> block sig -> bool)
         (apply_block : sstate -> block sig -> option (list validator * Z))
         (sent : peer -> block sig -> Prop) (vc : vcheck sig)
         (ops : list (op sig)) (n : node sig),
    Forall (op_sent sig sent) ops -> node_ok sig sent n ->
    forall st f s, In (E_saved st f s) (n_log (run validate_block apply_block vc ops n)) ->
    In (E_saved st f s) (n_log n) \/
    exists a c, ops = a ++ OProcess :: c /\
      let m := run validate_block apply_block vc a n in
      let h := p_height (n_pool m) in
      let p1 := supplier sig m h in
      let p2 := supplier sig m (h + 1) in
      st = n_state m /\ verify_first validate_block vc st f s = SV_accept /\
      b_height f = h /\ b_height s = h + 1 /\
      p1 <> 0 /\ p2 <> 0 /\ ~ In p1 (n_stopped m) /\ ~ In p2 (n_stopped m) /\
      sent p1 f /\ sent p2 s /\
      (forall q, In q (n_stopped n) -> p1 <> q /\ p2 <> q).
Proof.
  intros sig vb ab sent vc ops n Hs Hok st f s H.
  exact (run_saved_suppliers sig vb ab sent vc ops n Hs Hok st f s H).
Qed.
Print Assumptions C13_stopped_peer_supplies_nothing.

(* ---- the height never skips.  Along ANY operation list from a well-formed node the store grows
   by entries of heights pool.height, pool.height+1, ... — no gap, no repetition (newest first:
   [desc top k] = top-1, top-2, ..., top-k) — and pool.height advances by exactly the number of
   blocks stored. *)
Theorem C13_height_never_skips :
  forall (sig : Type)
         (validate_block : sstate -> block sig -> bool)
         (apply_block : sstate -> block sig -> option (list validator * Z))
         (sent : peer -> block sig -> Prop) (vc : vcheck sig)
         (ops : list (op sig)) (n : node sig),
    Forall (op_sent sig sent) ops -> node_ok sig sent n ->
    let n' := run validate_block apply_block vc ops n in
    exists new,
      n_store n' = new ++ n_store n /\
      p_height (n_pool n') = p_height (n_pool n) + Z.of_nat (length new) /\
      map (@se_height sig) new = desc (p_height (n_pool n')) (length new).
Proof. intros sig vb ab sent vc ops n Hs Hok. exact (run_heights sig vb ab sent vc ops n Hs Hok). Qed.
Print Assumptions C13_height_never_skips.

(* ---- clause 10: who is blamed.  [canonical_chain vb ab vc canon cst]: canon h is the block of
   height h, the LastCommit of canon (h+1) together with canon h passes the acceptance rule in
   the state cst h, executing canon h in cst h gives cst (h+1), and nothing but canon h passes
   the acceptance rule in cst h (C13_canonical_block_is_unique derives the last from the sound
   commit check of C07 and the BFT assumption).  [honest p]: p serves only canonical blocks
   ([hsent]).  The node is in the canonical state of its pool.height ([canon_inv]).
   Then a rejected pair is not the canonical pair, at least one of its two suppliers is not
   honest, and of the one or two peers the turn stops at most one is honest and at least one
   is a liar. *)
Theorem C13_rejection_blames_a_liar :
  forall (sig : Type)
         (validate_block : sstate -> block sig -> bool)
         (apply_block : sstate -> block sig -> option (list validator * Z))
         (vc : vcheck sig) (canon : Z -> block sig) (cst : Z -> sstate) (honest : peer -> bool),
    canonical_chain validate_block apply_block vc canon cst ->
    forall (n : node sig) (first second : block sig),
      node_ok sig (hsent sig canon honest) n -> canon_inv sig cst n -> n_panicked n = false ->
      peek_two (n_pool n) = (Some first, Some second) ->
      verify_first validate_block vc (n_state n) first second <> SV_accept ->
      let h := p_height (n_pool n) in
      let p1 := supplier sig n h in
      let p2 := supplier sig n (h + 1) in
      let n' := step validate_block apply_block vc n OProcess in
      ~ (first = canon h /\ second = canon (h + 1)) /\
      (honest p1 = false \/ honest p2 = false) /\
      (exists new, n_stopped n' = new ++ n_stopped n /\ (forall q, In q new -> q = p1 \/ q = p2) /\
                   (honests honest new <= 1)%nat /\ (1 <= liars honest new)%nat) /\
      canon_inv sig cst n' /\ node_ok sig (hsent sig canon honest) n'.
Proof.
  intros sig vb ab vc canon cst honest [_ [Ha _]] n first second H1 H2 H3 H4 H5.
  exact (rejection_blames_a_liar_turn sig vb ab vc canon cst honest Ha n first second H1 H2 H3 H4 H5).
Qed.
Print Assumptions C13_rejection_blames_a_liar.

(* Over ALL runs in which the honest peers behave ([behaved]: an honest peer answers only an open
   request assigned to it, with the canonical block, and does not disconnect; everybody else —
   blocks, pushes, duplicates, status, disconnects, order — is arbitrary): of the peers stopped
   during the run at least as many are liars as honest (each lie costs at most one honest peer
   and the liar itself), nobody is stopped twice, the node stays in the canonical state of its
   height and does not panic. *)
Theorem C13_stopped_honest_at_most_stopped_liars :
  forall (sig : Type)
         (validate_block : sstate -> block sig -> bool)
         (apply_block : sstate -> block sig -> option (list validator * Z))
         (vc : vcheck sig) (canon : Z -> block sig) (cst : Z -> sstate) (honest : peer -> bool),
    canonical_chain validate_block apply_block vc canon cst ->
    forall (ops : list (op sig)) (n : node sig),
      node_ok sig (hsent sig canon honest) n -> canon_inv sig cst n -> n_panicked n = false ->
      NoDup (n_stopped n) ->
      behaved sig validate_block apply_block vc canon honest n ops ->
      let n' := run validate_block apply_block vc ops n in
      exists new,
        n_stopped n' = new ++ n_stopped n /\ (honests honest new <= liars honest new)%nat /\
        NoDup (new ++ n_stopped n) /\
        node_ok sig (hsent sig canon honest) n' /\ canon_inv sig cst n' /\ n_panicked n' = false.
Proof.
  intros sig vb ab vc canon cst honest [_ [Ha [Hb Hc]]] ops n H1 H2 H3 H4 H5.
  exact (run_balance sig vb ab vc canon cst honest Ha Hb Hc ops n H1 H2 H3 H4 H5).
Qed.
Print Assumptions C13_stopped_honest_at_most_stopped_liars.

(* ... hence with more honest peers than liars the honest set never becomes empty: [Hs] distinct
   honest peers not stopped at the start, [Ls] a list containing every peer that is not honest,
   |Ls| < |Hs|; after ANY behaved run some peer of Hs is still not stopped. *)
Theorem C13_honest_set_survives :
  forall (sig : Type)
         (validate_block : sstate -> block sig -> bool)
         (apply_block : sstate -> block sig -> option (list validator * Z))
         (vc : vcheck sig) (canon : Z -> block sig) (cst : Z -> sstate) (honest : peer -> bool),
    canonical_chain validate_block apply_block vc canon cst ->
    forall (ops : list (op sig)) (n : node sig) (Hs Ls : list peer),
      node_ok sig (hsent sig canon honest) n -> canon_inv sig cst n -> n_panicked n = false ->
      NoDup (n_stopped n) ->
      behaved sig validate_block apply_block vc canon honest n ops ->
      NoDup Hs -> (forall p, In p Hs -> honest p = true /\ ~ In p (n_stopped n)) ->
      (forall p, honest p = false -> In p Ls) ->
      (length Ls < length Hs)%nat ->
      exists p, In p Hs /\ ~ In p (n_stopped (run validate_block apply_block vc ops n)).
Proof.
  intros sig vb ab vc canon cst honest [_ [Ha [Hb Hc]]] ops n Hs Ls H1 H2 H3 H4 H5 H6 H7 H8 H9.
  exact (honest_set_survives sig vb ab vc canon cst honest Ha Hb Hc ops n Hs Ls H1 H2 H3 H4 H5 H6 H7 H8 H9).
Qed.
Print Assumptions C13_honest_set_survives.

(* clause 2 in the same setting: every block a behaved run stores is the canonical block of its
   height, stored in the canonical state of that height *)
Theorem C13_behaved_runs_store_canonical_blocks :
  forall (sig : Type)
         (validate_block : sstate -> block sig -> bool)
         (apply_block : sstate -> block sig -> option (list validator * Z))
         (vc : vcheck sig) (canon : Z -> block sig) (cst : Z -> sstate) (honest : peer -> bool),
    canonical_chain validate_block apply_block vc canon cst ->
    forall (ops : list (op sig)) (n : node sig),
      node_ok sig (hsent sig canon honest) n -> canon_inv sig cst n -> n_panicked n = false ->
      NoDup (n_stopped n) ->
      behaved sig validate_block apply_block vc canon honest n ops ->
      forall st f s, In (E_saved st f s) (n_log (run validate_block apply_block vc ops n)) ->
      In (E_saved st f s) (n_log n) \/ (f = canon (b_height f) /\ st = cst (b_height f)).
Proof.
  intros sig vb ab vc canon cst honest [_ [Ha [Hb Hc]]] ops n H1 H2 H3 H4 H5 st f s H.
  exact (run_saved_canonical sig vb ab vc canon cst honest Ha Hb Hc ops n H1 H2 H3 H4 H5 st f s H).
Qed.
Print Assumptions C13_behaved_runs_store_canonical_blocks.

(* where the uniqueness premise of [canonical_chain] comes from: a sound commit check (both
   VerifyCommit and VerifyCommitLight are: C07), well-formed validator sets along the chain, no
   block id other than the canonical one ever collecting +2/3 of valid signatures of a height's
   validators, and the block id binding the block *)
Theorem C13_canonical_block_is_unique :
  forall (sig : Type) (sv : key -> signmsg -> sig -> bool)
         (validate_block : sstate -> block sig -> bool) (vc : vcheck sig)
         (canon : Z -> block sig) (cst : Z -> sstate),
    (vc = verify_commit sv \/ vc = verify_commit_light sv) ->
    (forall h, wf_valset (st_vals (cst h))) ->
    (forall h (c : commit sig) bid,
        3 * good_tally sig sv (st_chain (cst h)) h (c_round c) bid (st_vals (cst h)) (c_sigs c)
          > 2 * sum_power (st_vals (cst h)) -> bid = b_id (canon h)) ->
    (forall h f, b_height f = h -> b_id f = b_id (canon h) -> f = canon h) ->
    forall h f s, b_height f = h -> verify_first validate_block vc (cst h) f s = SV_accept -> f = canon h.
Proof.
  intros sig sv vb vc canon cst [-> | ->] H1 H2 H3.
  - exact (canon_only_of_quorum sig sv vb _ canon cst (verify_commit_vc_sound sig sv) H1 H2 H3).
  - exact (canon_only_of_quorum sig sv vb _ canon cst (verify_commit_light_vc_sound sig sv) H1 H2 H3).
Qed.
Print Assumptions C13_canonical_block_is_unique.

(* ---- clause 8: progress.  The progress phase ([prog_inv ... T n]): a well-formed node in the
   canonical state of its pool.height, not panicked; every peer the pool knows is honest,
   reports a height >= T (and not above the recorded maximum M = maxPeerHeight) and a base <=
   pool.height; at least one peer; no requester above M; numPending and every peer's
   numPending are exactly the numbers of open requests they count.  Operations of the phase
   ([penv]): requester creation, picks (any), processing turns, and answers of connected peers
   to their open requests with the canonical block.  Measure [mu] = what is missing to have
   fetched every block up to M and stored every block below M: 3 per requester still to be
   made, 2 per unassigned requester, 1 per assigned requester without block, 1 per block still
   to be stored.
   Every operation of the phase keeps the phase invariant and changes the measure by exactly
   -1 when it changes the pool ([eff]) and by 0 otherwise; and while pool.height < T some
   operation of the phase is enabled that changes the pool (no deadlock: not even when all
   peers are saturated with maxPendingRequestsPerPeer open requests). *)
Theorem C13_progress_measure_decreases :
  forall (sig : Type)
         (validate_block : sstate -> block sig -> bool)
         (apply_block : sstate -> block sig -> option (list validator * Z))
         (vc : vcheck sig) (canon : Z -> block sig) (cst : Z -> sstate) (honest : peer -> bool),
    canonical_chain validate_block apply_block vc canon cst ->
    forall (T : Z) (n : node sig),
      prog_inv sig canon cst honest T n ->
      (forall o, penv sig canon n o ->
         prog_inv sig canon cst honest T (step validate_block apply_block vc n o) /\
         mu sig (n_pool (step validate_block apply_block vc n o)) = mu sig (n_pool n) - dec (eff sig n o)) /\
      0 <= mu sig (n_pool n) /\
      (p_height (n_pool n) < T -> exists o, penv sig canon n o /\ eff sig n o = true).
Proof.
  intros sig vb ab vc canon cst honest [Hh [Ha [Hb Hc]]] T n H.
  split; [intros o Ho; exact (prog_step sig vb ab vc canon cst honest Ha Hb Hc T n o H Ho)|].
  split; [exact (mu_nonneg sig canon cst honest T n H)|].
  exact (no_deadlock sig canon cst honest Hh T n H).
Qed.
Print Assumptions C13_progress_measure_decreases.

(* FAIRNESS is a property of the operation list ([fair n ops], no timers): the list does not end
   while an operation of the phase that would change the pool is still enabled.  Any fair list
   of operations of the phase ends with pool.height >= T: the node has stored exactly the
   canonical blocks of all heights from its starting pool.height up to pool.height-1 >= T-1,
   without gap (the v0 reactor needs block h+1 to verify block h, so the block at the highest
   reported height itself is fetched but not stored).  The list can contain at most mu
   pool-changing operations ([eff_count]), and a fair list of at most mu operations exists. *)
Theorem C13_honest_peers_reach_tip :
  forall (sig : Type)
         (validate_block : sstate -> block sig -> bool)
         (apply_block : sstate -> block sig -> option (list validator * Z))
         (vc : vcheck sig) (canon : Z -> block sig) (cst : Z -> sstate) (honest : peer -> bool),
    canonical_chain validate_block apply_block vc canon cst ->
    forall (T : Z) (ops : list (op sig)) (n : node sig),
      prog_inv sig canon cst honest T n ->
      penv_run sig validate_block apply_block vc canon n ops ->
      fair sig validate_block apply_block vc canon n ops ->
      let n' := run validate_block apply_block vc ops n in
      T <= p_height (n_pool n') /\ prog_inv sig canon cst honest T n' /\
      exists new,
        n_store n' = new ++ n_store n /\
        p_height (n_pool n') = p_height (n_pool n) + Z.of_nat (length new) /\
        map (@se_height sig) new = desc (p_height (n_pool n')) (length new) /\
        Forall (entry_canon sig canon) new.
Proof.
  intros sig vb ab vc canon cst honest [Hh [Ha [Hb Hc]]] T ops n H1 H2 H3.
  exact (honest_peers_reach_tip sig vb ab vc canon cst honest Hh Ha Hb Hc T ops n H1 H2 H3).
Qed.
Print Assumptions C13_honest_peers_reach_tip.

Theorem C13_fair_runs_are_short_and_exist :
  forall (sig : Type)
         (validate_block : sstate -> block sig -> bool)
         (apply_block : sstate -> block sig -> option (list validator * Z))
         (vc : vcheck sig) (canon : Z -> block sig) (cst : Z -> sstate) (honest : peer -> bool),
    canonical_chain validate_block apply_block vc canon cst ->
    forall (T : Z) (n : node sig),
      prog_inv sig canon cst honest T n ->
      (forall ops, penv_run sig validate_block apply_block vc canon n ops ->
         mu sig (n_pool (run validate_block apply_block vc ops n))
           = mu sig (n_pool n) - eff_count sig validate_block apply_block vc n ops /\
         0 <= eff_count sig validate_block apply_block vc n ops <= mu sig (n_pool n)) /\
      (exists ops, penv_run sig validate_block apply_block vc canon n ops /\
                   T <= p_height (n_pool (run validate_block apply_block vc ops n)) /\
                   Z.of_nat (length ops) <= mu sig (n_pool n)).
Proof.
  intros sig vb ab vc canon cst honest [Hh [Ha [Hb Hc]]] T n H. split.
  - intros ops Ho. exact (proj2 (progress_measure sig vb ab vc canon cst honest Ha Hb Hc T ops n H Ho)).
  - exact (fair_run_exists sig vb ab vc canon cst honest Hh Ha Hb Hc T n H).
Qed.
Print Assumptions C13_fair_runs_are_short_and_exist.

(* The two counter premises of the progress phase are facts of every reachable state: pool.numPending
   = number of requesters without a block, and each peer's numPending = number of requesters
   assigned to it that have no block yet ([cnt_inv]), are kept — together with the pool invariant —
   by EVERY operation list (messages, picks, disconnects, processing turns including
   rejections), and hold in the fresh node. *)
Theorem C13_pending_counters_exact :
  forall (sig : Type)
         (validate_block : sstate -> block sig -> bool)
         (apply_block : sstate -> block sig -> option (list validator * Z))
         (sent : peer -> block sig -> Prop) (vc : vcheck sig)
         (ops : list (op sig)) (n : node sig),
    Forall (op_sent sig sent) ops ->
    node_ok sig sent n -> cnt_inv sig (n_pool n) ->
    node_ok sig sent (run validate_block apply_block vc ops n) /\
    cnt_inv sig (n_pool (run validate_block apply_block vc ops n)).
Proof.
  intros sig vb ab sent vc ops n Hs H1 H2.
  exact (nc_run sig vb ab sent vc ops n Hs (conj H1 H2)).
Qed.
Print Assumptions C13_pending_counters_exact.

(* ---- non-vacuity ------------------------------------------------------------------------------ *)

(* the fresh node is well-formed, for any [sent] *)
Example C13_fresh_node_wellformed : forall sent, node_ok isig sent ex_n0.
Proof. intro sent. unfold node_ok, pool_ok, ids_ok. cbn. repeat split; constructor. Qed.
Example C13_fresh_node_counters_exact : cnt_inv isig (n_pool ex_n0).
Proof. split; [reflexivity | constructor]. Qed.

(* A rejected pair on the chain of the example above (real VerifyCommit over the ideal signature
   check): peers 1, 2, 3 connect; block 5 comes from peer 1, a block 6 with an empty LastCommit
   from peer 2.  The premises of C13_bad_response_drops_peer_and_retries hold in the node reached,
   and the turn stops exactly 2 and 1, stores nothing, re-opens both requests, keeps peer 3. *)
Definition ex_b6bad : block isig :=
  {| b_height := 6; b_id := 67;
     b_last_commit := {| c_height := 5; c_round := 0; c_bid := 55; c_sigs := [] |}; b_tag := 1 |}.
Definition ex_ops_bad : list (op isig) :=
  [ OStatus 1 5 6; OStatus 2 5 6; OStatus 3 5 6; OMakeRequester; OMakeRequester; OPick 5 1; OPick 6 2;
    OBlock 1 ex_b5; OBlock 2 ex_b6bad ].

Example C13_bad_response_nonvacuous :
  let m := run ex_vb ex_ab (verify_commit ideal_verify) ex_ops_bad ex_n0 in
  let m' := step ex_vb ex_ab (verify_commit ideal_verify) m OProcess in
  node_ok isig (fun _ _ => True) m /\ n_panicked m = false /\
  peek_two (n_pool m) = (Some ex_b5, Some ex_b6bad) /\
  verify_first ex_vb (verify_commit ideal_verify) (n_state m) ex_b5 ex_b6bad <> SV_accept /\
  supplier isig m 5 = 1 /\ supplier isig m 6 = 2 /\
  n_stopped m' = [2; 1] /\ n_store m' = [] /\ p_height (n_pool m') = 5 /\
  p_reqs (n_pool m') = [fresh_req isig; fresh_req isig] /\ map bp_id (p_peers (n_pool m')) = [3].
Proof.
  cbv zeta. split.
  - apply run_ok; [|apply C13_fresh_node_wellformed].
    apply Forall_forall. intros o _. destruct o; exact I.
  - split; [vm_compute; reflexivity|]. split; [vm_compute; reflexivity|].
    split; [vm_compute; discriminate|]. repeat split; vm_compute; reflexivity.
Qed.

(* A toy canonical chain for the premises of the liar / progress theorems: block h has id h and a
   LastCommit naming block h-1; the commit check compares the commit's block id and height with
   the block, ValidateBlock checks every field; no validators (the commit check proper is C07's
   business and is exercised in the example above). *)
Definition tc_commit (h : Z) : commit isig := {| c_height := h; c_round := 0; c_bid := h; c_sigs := [] |}.
Definition tc_canon (h : Z) : block isig :=
  {| b_height := h; b_id := h; b_last_commit := tc_commit (h - 1); b_tag := 0 |}.
Definition tc_st (h : Z) : sstate :=
  {| st_chain := 1; st_height := h - 1; st_vals := []; st_last_vals := []; st_tag := 0 |}.
Definition tc_vc : vcheck isig :=
  fun _ _ bid h c => if (c_bid c =? bid) && (c_height c =? h) then R_ok else R_err_blockid.
Definition tc_vb (st : sstate) (b : block isig) : bool :=
  (b_height b =? st_height st + 1) && (b_id b =? b_height b) && (b_tag b =? 0)
  && (c_height (b_last_commit b) =? b_height b - 1) && (c_round (b_last_commit b) =? 0)
  && (c_bid (b_last_commit b) =? b_height b - 1)
  && match c_sigs (b_last_commit b) with [] => true | _ => false end.
Definition tc_ab (st : sstate) (b : block isig) : option (list validator * Z) := Some ([], 0).

Example C13_toy_chain_is_canonical : canonical_chain tc_vb tc_ab tc_vc tc_canon tc_st.
Proof.
  split; [reflexivity|]. split; [|split].
  - intro h. unfold verify_first, tc_vc, tc_vb, tc_canon, tc_st, tc_commit.
    cbn [b_id b_height b_last_commit b_tag c_bid c_height c_round c_sigs st_vals st_chain st_height].
    replace (h + 1 - 1) with h by lia. replace (h - 1 + 1) with h by lia.
    rewrite !Z.eqb_refl. reflexivity.
  - intro h. exists ([], 0). split; [reflexivity|].
    unfold next_state, tc_st, tc_canon. cbn. f_equal. lia.
  - intros h f s Hf Hv. apply verify_first_accept in Hv as [_ Hv].
    destruct f as [fh fid [ch cr cb cs] ft]. unfold tc_vb, tc_st in Hv.
    cbn [b_id b_height b_last_commit b_tag c_bid c_height c_round c_sigs st_height] in *.
    repeat (apply andb_true_iff in Hv as [Hv ?]).
    destruct cs; [|discriminate].
    assert (fid = h) by lia. assert (ft = 0) by lia. assert (ch = h - 1) by lia.
    assert (cr = 0) by lia. assert (cb = h - 1) by lia. subst. reflexivity.
Qed.

(* a node of the progress phase: pool at height 5 in the canonical state, two honest peers
   reporting height 8, an earlier liar (9) stopped; target T = 8 *)
Definition tc_n1 : node isig :=
  {| n_state := tc_st 5; n_store := [];
     n_pool := {| p_height := 5; p_reqs := [];
                  p_peers := [ {| bp_id := 1; bp_base := 1; bp_height := 8; bp_pending := 0 |};
                               {| bp_id := 2; bp_base := 1; bp_height := 8; bp_pending := 0 |} ];
                  p_max_peer_height := 8; p_num_pending := 0; p_errors := [] |};
     n_stopped := [9]; n_log := []; n_panicked := false |}.
Definition tc_ops : list (op isig) :=
  [ OMakeRequester; OMakeRequester; OMakeRequester; OMakeRequester;
    OPick 5 1; OPick 6 2; OPick 7 1; OPick 8 2;
    OBlock 1 (tc_canon 5); OBlock 2 (tc_canon 6); OBlock 1 (tc_canon 7); OBlock 2 (tc_canon 8);
    OProcess; OProcess; OProcess ].

Example C13_progress_nonvacuous :
  prog_inv isig tc_canon tc_st (fun _ => true) 8 tc_n1 /\
  mu isig (n_pool tc_n1) = 15 /\
  let n' := run tc_vb tc_ab tc_vc tc_ops tc_n1 in
  p_height (n_pool n') = 8 /\ map (@se_height isig) (n_store n') = [7; 6; 5] /\
  map (@se_id isig) (n_store n') = [7; 6; 5] /\ mu isig (n_pool n') = 0 /\ n_panicked n' = false.
Proof.
  split.
  - unfold prog_inv. split; [|reflexivity]. unfold pinv.
    assert (Hni : forall i : Z, i <> 9 -> ~ In i [9]) by (intros i Hi [E|[]]; congruence).
    split; [|split; [reflexivity|split; [intros; reflexivity|split; [discriminate|split]]]].
    + unfold pool_ok, ids_ok, ids. cbn [tc_n1 n_pool p_height p_reqs p_peers map bp_id aligned].
      split; [exact I|]. split; [constructor|].
      repeat constructor; try discriminate; apply Hni; discriminate.
    + cbn [tc_n1 n_pool p_peers]. repeat constructor; unfold peer_inv; cbn; lia.
    + cbn. lia.
  - split; [vm_compute; reflexivity|]. cbv zeta. repeat split; vm_compute; reflexivity.
Qed.

(* a behaved run with a liar: peers 1 and 3 honest, 2 serves a non-canonical block 6.  The
   premises of C13_honest_set_survives hold (Hs = [1; 3], Ls = [2]); the rejection stops 2 and 1,
   3 survives. *)
Definition tc_honest (p : peer) : bool := negb (p =? 2).
Definition tc_n0 : node isig :=
  {| n_state := tc_st 5; n_store := []; n_pool := new_pool isig 5; n_stopped := []; n_log := [];
     n_panicked := false |}.
Definition tc_bad6 : block isig := {| b_height := 6; b_id := 66; b_last_commit := tc_commit 4; b_tag := 0 |}.
Definition tc_ops_liar : list (op isig) :=
  [ OStatus 1 1 8; OStatus 2 1 8; OStatus 3 1 8; OMakeRequester; OMakeRequester; OPick 5 1; OPick 6 2;
    OBlock 1 (tc_canon 5); OBlock 2 tc_bad6; OProcess ].

Example C13_liar_nonvacuous :
  node_ok isig (hsent isig tc_canon tc_honest) tc_n0 /\ canon_inv isig tc_st tc_n0 /\
  behaved isig tc_vb tc_ab tc_vc tc_canon tc_honest tc_n0 tc_ops_liar /\
  (forall p, In p [1; 3] -> tc_honest p = true /\ ~ In p (n_stopped tc_n0)) /\
  (forall p, tc_honest p = false -> In p [2]) /\
  n_stopped (run tc_vb tc_ab tc_vc tc_ops_liar tc_n0) = [2; 1] /\
  n_store (run tc_vb tc_ab tc_vc tc_ops_liar tc_n0) = [].
Proof.
  split; [unfold node_ok, pool_ok, ids_ok; cbn; repeat split; constructor|].
  split; [reflexivity|]. split.
  - unfold tc_ops_liar. cbn [behaved op_behaved]. repeat split; try exact I.
    + eexists. split; [vm_compute; reflexivity|]. split; reflexivity.
    + discriminate H.
    + discriminate H.
  - split; [intros p [E|[E|[]]]; subst p; (split; [reflexivity | intros []])|].
    split; [|split; vm_compute; reflexivity].
    intros p H. unfold tc_honest in H. destruct (Z.eq_dec p 2) as [E|E]; [left; symmetry; exact E|].
    apply Z.eqb_neq in E. rewrite E in H. discriminate.
Qed.

(* a pusher: height 5 is requested from peer 1; peer 3 pushes the (genuine) block 5: the premises
   of C13_unsolicited_block_stops_sender hold, 3 is stopped, the request stays with peer 1 *)
Example C13_unsolicited_nonvacuous :
  let m := run ex_vb ex_ab (verify_commit ideal_verify)
               [OStatus 1 5 6; OStatus 3 5 6; OMakeRequester; OPick 5 1] ex_n0 in
  let m' := step ex_vb ex_ab (verify_commit ideal_verify) m (OBlock 3 ex_b5) in
  n_panicked m = false /\ ~ In 3 (n_stopped m) /\
  (exists r, req_at (n_pool m) (b_height ex_b5) = Some r /\ (rq_block r <> None \/ rq_peer r <> 3)) /\
  n_stopped m' = [3] /\ supplier isig m' 5 = 1 /\ block_at (n_pool m') 5 = None.
Proof.
  cbv zeta. split; [vm_compute; reflexivity|]. split; [vm_compute; intros []|].
  split; [eexists; split; [vm_compute; reflexivity | right; vm_compute; discriminate]|].
  repeat split; vm_compute; reflexivity.
Qed.

(* =================================================================================================
   pool.maxPeerHeight and the hand-over (finding F79).  [pool_run spr ops pl] folds the BlockPool
   operations that touch pool.peers / pool.maxPeerHeight (status, requester creation, picks,
   blocks, RemovePeer, RedoRequest, PopRequest) with the SetPeerRange rule [spr] as a parameter.
   ================================================================================================= *)

(* The code as it is ([set_peer_range]) — REFUTED: "once nobody the node is connected to reports
   more than pool.height + 1, the pool is caught up".  Peer 9 announces height 60, then height 3,
   then disconnects; honest peer 1 announces the real top 6.  Afterwards the honest peer is the
   only one in the pool, yet whatever happens next — any operations whose status messages stay
   below 60, e.g. the whole honest sync — maxPeerHeight stays 60 and IsCaughtUp stays false as
   long as pool.height < 59: the node never hands over to consensus.  (SetPeerRange only ever
   raises maxPeerHeight; removePeer recomputes it only when the removed peer's height IS the
   maximum, and the liar's recorded height is 3 by then.) *)
Theorem C13_caught_up_after_status_lie_refuted :
  forall (sig : Type),
    let pl0 := pool_run set_peer_range
                 [PL_status 9 1 60; PL_status 9 1 3; PL_remove 9; PL_status 1 1 6] (new_pool sig 1) in
    map bp_id (p_peers pl0) = [1] /\ map bp_height (p_peers pl0) = [6] /\
    forall ops : list (plop sig), Forall (status_below sig 60) ops ->
      let pl := pool_run set_peer_range ops pl0 in
      p_max_peer_height pl = 60 /\
      (p_height pl < 59 -> forall waited, is_caught_up pl waited = false).
Proof. intro sig. exact (status_lie_refuted sig). Qed.
Print Assumptions C13_caught_up_after_status_lie_refuted.

(* The repaired rule ([set_peer_range_fixed]: SetPeerRange ends with updateMaxPeerHeight(),
   fixes/F79-blockpool-max-peer-height-follows-peers.diff): after EVERY operation list from a new
   pool, maxPeerHeight is the maximum of the heights the peers in the pool report (0 without
   peers), hence the pool is caught up — the blockchain reactor hands over to consensus at its
   next tick — as soon as at least one peer is connected, no connected peer reports more than
   pool.height + 1, and a block was received or 5 s have passed. *)
Theorem C13_max_peer_height_follows_peers :
  forall (sig : Type) (start : Z) (ops : list (plop sig)),
    let pl := pool_run set_peer_range_fixed ops (new_pool sig start) in
    p_max_peer_height pl = max_height (p_peers pl) /\
    forall waited,
      p_peers pl <> [] ->
      Forall (fun x => bp_height x <= p_height pl + 1) (p_peers pl) ->
      (0 < p_height pl \/ waited = true) ->
      is_caught_up pl waited = true.
Proof. intros sig start ops. exact (fixed_rule_hands_over sig start ops). Qed.
Print Assumptions C13_max_peer_height_follows_peers.

(* the witness of the refutation under the repaired rule: maxPeerHeight is the honest top *)
Example C13_max_peer_height_follows_peers_nonvacuous :
  p_max_peer_height (pool_run set_peer_range_fixed
                       [PL_status 9 1 60; PL_status 9 1 3; PL_remove 9; PL_status 1 1 6] (new_pool isig 1)) = 6.
Proof. vm_compute. reflexivity. Qed.

(* =================================================================================================
   Known finding F89 (no repair): block sync after a state sync refuses the canonical block that
   carries evidence of a height at or below the snapshot, because the real evidence pool has no
   header / validator set of that height on such a node.  ValidateBlock is an oracle in this
   model, so the model cannot derive the refusal; what it shows is the consequence, as the
   regression witness: with an oracle that refuses a CANONICAL block (correct commit by the whole
   validator set), one processing turn stores nothing and stops BOTH honest suppliers; no peer
   is left, so the pool can never be caught up — "with one honest peer the node reaches the tip"
   and "only peers that send something else are dropped" fail.  With the accepting oracle the
   same operations store the block.  The class itself (state-synced node, evidence height below
   the snapshot, the evidence pool's missing-header error) is decided in Exec.v on the
   implementation's own answers only (V_known 89).
   ================================================================================================= *)
Definition ex_ops2 : list (op isig) :=
  [ OStatus 1 5 6; OStatus 2 5 6; OMakeRequester; OMakeRequester; OPick 5 1; OPick 6 2;
    OBlock 1 ex_b5; OBlock 2 ex_b6; OProcess ].

Example C13_state_synced_node_refuses_old_evidence_refuted :
  (* the pair is canonical: block 6's LastCommit is a full commit of the set for block 5 *)
  verify_commit ideal_verify ex_vals 1 (b_id ex_b5) (b_height ex_b5) (b_last_commit ex_b6) = R_ok /\
  (* a node whose ValidateBlock refuses block 5 (state-synced, old evidence) *)
  (let n := run (fun _ _ => false) ex_ab (verify_commit ideal_verify) ex_ops2 ex_n0 in
   n_store n = [] /\ st_height (n_state n) = 0 /\ n_stopped n = [2; 1] /\ p_peers (n_pool n) = [] /\
   p_height (n_pool n) = 5 /\ (forall waited, is_caught_up (n_pool n) waited = false)) /\
  (* the control: a node that has the history accepts and stores it, nobody is stopped *)
  (let n := run ex_vb ex_ab (verify_commit ideal_verify) ex_ops2 ex_n0 in
   List.length (n_store n) = 1%nat /\ st_height (n_state n) = 5 /\ n_stopped n = []).
Proof.
  split; [vm_compute; reflexivity|]. split.
  - cbv zeta. repeat split; try (vm_compute; reflexivity); intro waited; vm_compute; reflexivity.
  - cbv zeta. repeat split; vm_compute; reflexivity.
Qed.
