(* C13 — Block sync applies only the canonical chain, whatever peers send.
   Only the property statements; each is closed by [exact] of a lemma of Proofs.v and followed by
   Print Assumptions.

   Reading guide.  The node ([node]: state, block store, pool, stopped peers, event log) is driven
   by an arbitrary list of operations [ops] — status and block responses of any peer in any
   order, requester creation, peer picks, disconnects, and turns of the poolRoutine processing
   step — through [run vc validate_block apply_block ops n]; [vc] is the commit-verification
   entry point the reactor calls ([verify_commit sv] after repair F7; [verify_commit_light sv]
   before).  [sv] is an arbitrary signature check, [validate_block] / [apply_block] arbitrary
   oracles for ValidateBlock / ApplyBlock (C06), [pk_addr] an arbitrary PubKey.Address.
   Every poolRoutine turn that stores a block logs [E_saved st first second] (the state it had,
   the block stored, the block whose LastCommit was stored as seen commit). *)
From Coq Require Import List ZArith NArith Bool.
From TM Require Import Generated.Consts C07.Model C07.Proofs C13.Model C13.Proofs.
Import ListNotations.
Open Scope Z_scope.

(* ---- clause 1: a block is saved and executed only if committed and valid ---------------------- *)

(* Whatever the peers send, in whatever order (all [ops]), from any starting node: the store grows
   by exactly the entries of the logged E_saved events, and for each of them ValidateBlock
   accepted the block under the node's state at that moment and — when that state's validator set
   is well-formed — the accompanying commit has one slot per validator of that set, is for exactly
   the block's recomputed id (hash + part-set header) and height, and the for-the-block slots
   whose signatures verify under the positional validator's key for exactly (chain, height,
   round, that id) carry more than 2/3 of that set's power.  Holds for both commit checks. *)
Theorem C13_saved_only_if_committed :
  forall (sig : Type) (sv : key -> signmsg -> sig -> bool)
         (validate_block : sstate -> block sig -> bool)
         (apply_block : sstate -> block sig -> option (list validator * Z))
         (vc : vcheck sig),
    (vc = verify_commit sv \/ vc = verify_commit_light sv) ->
    forall (ops : list (op sig)) (n : node sig),
    exists evs,
      n_log (run validate_block apply_block vc ops n) = evs ++ n_log n /\
      n_store (run validate_block apply_block vc ops n) = log_store sig evs ++ n_store n /\
      Forall (saved_ok sig sv validate_block) evs.
Proof.
  intros sig sv vb ab vc [-> | ->] ops n.
  - exact (run_frame sig sv vb ab _ (verify_commit_vc_sound sig sv) ops n).
  - exact (run_frame sig sv vb ab _ (verify_commit_light_vc_sound sig sv) ops n).
Qed.
Print Assumptions C13_saved_only_if_committed.

(* The state (what ApplyBlock produced) changes only in a step that logs a saved block, and then
   it is ApplyBlock's result on exactly that block. *)
Theorem C13_executed_only_if_saved :
  forall (sig : Type)
         (validate_block : sstate -> block sig -> bool)
         (apply_block : sstate -> block sig -> option (list validator * Z))
         (vc : vcheck sig) (n : node sig) (o : op sig),
    n_state (step validate_block apply_block vc n o) = n_state n \/
    exists first second nv,
      In (E_saved (n_state n) first second) (n_log (step validate_block apply_block vc n o)) /\
      apply_block (n_state n) first = Some nv /\
      n_state (step validate_block apply_block vc n o) = next_state (n_state n) first nv.
Proof. intros sig vb ab vc n o. exact (step_state sig vb ab vc n o). Qed.
Print Assumptions C13_executed_only_if_saved.

(* ---- clause 4: what was stored lets consensus start ------------------------------------------- *)

(* After repair F7 (the reactor calls VerifyCommit): if the node could hand over at the start
   ([handover] = SwitchToConsensus/NewState do not panic in reconstructLastCommit), it can hand
   over after ANY run — provided every saved commit is outside the known-finding class F31, i.e.
   its non-absent slots carry the address of the validator at their position ([addrs_ok]), the
   validator sets are well-formed and validators carry their key's address ([keys_ok], what
   NewValidator produces).  ValidateBlock is only assumed to accept nothing but the next height. *)
Theorem C13_handover_ok_except_known :
  forall (sig : Type) (sv : key -> signmsg -> sig -> bool) (pk_addr : key -> addr)
         (validate_block : sstate -> block sig -> bool)
         (apply_block : sstate -> block sig -> option (list validator * Z)),
    (forall st b, validate_block st b = true -> b_height b = st_height st + 1) ->
    forall (ops : list (op sig)) (n : node sig),
      Forall (ev_good sig pk_addr) (n_log (run validate_block apply_block (verify_commit sv) ops n)) ->
      0 <= st_height (n_state n) ->
      handover sv pk_addr n = true ->
      handover sv pk_addr (run validate_block apply_block (verify_commit sv) ops n) = true.
Proof.
  intros sig sv pk vb ab Hvh ops n Hg H0 Hh.
  exact (proj2 (run_handover_plus1 sig sv pk vb ab Hvh ops n Hg (conj H0 Hh))).
Qed.
Print Assumptions C13_handover_ok_except_known.

(* ---- last clause, the hand-over itself: Reactor.SwitchToConsensus ------------------------------ *)

(* The node built its consensus State at start ([new_state]: consensus.NewState on the state and
   block store it had then; [ih] = the chain's InitialHeight >= 1) and block-synced through ANY
   run [ops].  Then Reactor.SwitchToConsensus, called with the state after the last ApplyBlock
   on the store the run left behind ([switch_to_consensus]: the guard "LastBlockHeight > 0" that
   decides whether reconstructLastCommit runs, then updateToState), does not panic; the consensus
   state it leaves is at height LastBlockHeight+1 (InitialHeight when no block was ever stored),
   CommitRound -1, and its LastCommit is nil before the first block and otherwise exactly the
   vote set CommitToVoteSet makes from the seen commit stored for the last block, with a +2/3
   majority.  Holds whether nothing, exactly one block (LastBlockHeight = InitialHeight) or
   more were synced, and whether the node started with an empty or a non-empty store.
   Premises: as for C13_handover_ok_except_known — every saved commit outside the known-finding
   class F31 and validator sets well-formed with validators carrying their key's address
   ([ev_good]); ValidateBlock accepts only the block of the next height (InitialHeight when the
   state has no block yet); the starting state is at 0 or at/above InitialHeight. *)
Theorem C13_switch_to_consensus_ok_except_known :
  forall (sig : Type) (sv : key -> signmsg -> sig -> bool) (pk_addr : key -> addr)
         (validate_block : sstate -> block sig -> bool)
         (apply_block : sstate -> block sig -> option (list validator * Z))
         (ih : Z),
    1 <= ih ->
    (forall st b, validate_block st b = true -> b_height b = next_height ih st) ->
    forall (ops : list (op sig)) (n : node sig) (cs0 : cstate),
      let n' := run validate_block apply_block (verify_commit sv) ops n in
      Forall (ev_good sig pk_addr) (n_log n') ->
      0 <= st_height (n_state n) ->
      (st_height (n_state n) = 0 \/ ih <= st_height (n_state n)) ->
      new_state sv pk_addr ih (n_store n) (n_state n) = Some cs0 ->
      exists cs',
        switch_to_consensus sv pk_addr ih (n_store n') cs0 (n_state n') = Some cs' /\
        cs_height cs' = next_height ih (n_state n') /\
        cs_commit_round cs' = -1 /\
        (st_height (n_state n') = 0 -> cs_last_commit cs' = None) /\
        (0 < st_height (n_state n') ->
         exists c vs,
           load_seen (n_store n') (st_height (n_state n')) = Some c /\
           commit_to_voteset sv pk_addr (st_chain (n_state n')) c (st_last_vals (n_state n')) = Some vs /\
           vs_maj23 vs <> None /\ cs_last_commit cs' = Some vs).
Proof.
  intros sig sv pk vb ab ih Hih Hvn ops n cs0 n' Hg H0 Hst Hns.
  exact (run_switch sig sv pk vb ab ih Hih Hvn ops n cs0 Hg H0 Hst Hns).
Qed.
Print Assumptions C13_switch_to_consensus_ok_except_known.

(* What the rebuilt LastCommit stands for.  A commit that block sync accepted for block id [bid]
   at height [h] (VerifyCommit against a well-formed set whose validators carry their key's
   address), outside class F31, is turned by CommitToVoteSet — whenever that returns — into a
   vote set whose +2/3 majority is for exactly [bid]: together with
   C13_saved_only_if_committed, the LastCommit consensus starts with is a +2/3 commit for the
   very block that was stored at that height. *)
Theorem C13_reconstructed_majority_is_for_stored_block :
  forall (sig : Type) (sv : key -> signmsg -> sig -> bool) (pk_addr : key -> addr)
         (chain : Z) (c : commit sig) (vals : list validator) (bid : blockid) (h : Z) (vs : voteset),
    wf_valset vals -> keys_ok pk_addr vals -> 0 < h ->
    verify_commit sv vals chain bid h c = R_ok ->
    addrs_ok sig vals (c_sigs c) ->
    commit_to_voteset sv pk_addr chain c vals = Some vs ->
    vs_maj23 vs = Some bid.
Proof.
  intros sig sv pk chain c vals bid h vs Hwf Hk Hh Hv Ha Hc.
  exact (reconstruct_maj_bid sig sv pk chain c vals bid h vs Hwf Hk Hh Hv Ha Hc).
Qed.
Print Assumptions C13_reconstructed_majority_is_for_stored_block.

(* Non-vacuity: a chain with InitialHeight 5, three validators of power 10; a fresh node (empty
   store, state at 0) receives blocks 5 and 6 from peer 1 and syncs exactly ONE block
   (LastBlockHeight = InitialHeight), and executing that block changes the validator set
   (membership and order): at the hand-over LastValidators (the set that signed block 5, against
   which the seen commit is replayed) differs from Validators (the set of height 6).  The
   premises hold and the switch yields height 6 with a LastCommit. *)
Definition ex_pk (k : key) : addr := k + 1.
Definition ex_vals : list validator :=
  [ {| v_addr := 1; v_key := 0; v_power := 10 |}; {| v_addr := 2; v_key := 1; v_power := 10 |};
    {| v_addr := 3; v_key := 2; v_power := 10 |} ].
Definition ex_commit (h bid : Z) : commit isig :=
  {| c_height := h; c_round := 0; c_bid := bid;
     c_sigs := map (fun k => {| cs_flag := block_id_flag_commit; cs_addr := k + 1; cs_ts := 7;
                                cs_sig := Signed k (sign_msg 1 h 0 bid 7) |}) [0; 1; 2] |}.
Definition ex_b5 : block isig :=
  {| b_height := 5; b_id := 55; b_last_commit := {| c_height := 0; c_round := 0; c_bid := 0; c_sigs := [] |};
     b_tag := 0 |}.
Definition ex_b6 : block isig :=
  {| b_height := 6; b_id := 66; b_last_commit := ex_commit 5 55; b_tag := 0 |}.
Definition ex_n0 : node isig :=
  {| n_state := {| st_chain := 1; st_height := 0; st_vals := ex_vals; st_last_vals := []; st_tag := 0 |};
     n_store := []; n_pool := new_pool isig 5; n_stopped := []; n_log := []; n_panicked := false |}.
Definition ex_ops : list (op isig) :=
  [ OStatus 1 5 6; OMakeRequester; OMakeRequester; OPick 5 1; OPick 6 1; OBlock 1 ex_b5; OBlock 1 ex_b6;
    OProcess ].
Definition ex_vb (st : sstate) (b : block isig) : bool := b_height b =? next_height 5 st.
(* executing block 5 changes the validator set: a new strongest validator comes first, one leaves *)
Definition ex_vals2 : list validator :=
  [ {| v_addr := 4; v_key := 3; v_power := 25 |}; {| v_addr := 1; v_key := 0; v_power := 10 |};
    {| v_addr := 3; v_key := 2; v_power := 10 |} ].
Definition ex_ab (st : sstate) (b : block isig) : option (list validator * Z) := Some (ex_vals2, 0).

Example C13_switch_to_consensus_nonvacuous :
  let n' := run ex_vb ex_ab (verify_commit ideal_verify) ex_ops ex_n0 in
  (forall st b, ex_vb st b = true -> b_height b = next_height 5 st) /\
  st_height (n_state n') = 5 /\ List.length (n_store n') = 1%nat /\
  st_last_vals (n_state n') = ex_vals /\ st_vals (n_state n') = ex_vals2 /\ ex_vals <> ex_vals2 /\
  Forall (ev_good isig ex_pk) (n_log n') /\
  exists cs0 cs',
    new_state ideal_verify ex_pk 5 (n_store ex_n0) (n_state ex_n0) = Some cs0 /\
    switch_to_consensus ideal_verify ex_pk 5 (n_store n') cs0 (n_state n') = Some cs' /\
    cs_height cs' = 6 /\ cs_last_commit cs' <> None.
Proof.
  cbv zeta. split; [intros st b H; apply Z.eqb_eq; exact H|].
  split; [vm_compute; reflexivity|]. split; [vm_compute; reflexivity|].
  split; [vm_compute; reflexivity|]. split; [vm_compute; reflexivity|]. split; [discriminate|].
  split.
  - assert (E : n_log (run ex_vb ex_ab (verify_commit ideal_verify) ex_ops ex_n0) =
                [E_saved (n_state ex_n0) ex_b5 ex_b6]) by (vm_compute; reflexivity).
    rewrite E. constructor; [|constructor].
    cbn [ev_good n_state ex_n0 st_vals b_last_commit ex_b6 c_sigs ex_commit map].
    split; [|split].
    + split; [repeat constructor; discriminate | vm_compute; discriminate].
    + repeat constructor; discriminate.
    + unfold addrs_ok. cbn [combine ex_vals]. repeat (constructor; [right; reflexivity|]). constructor.
  - eexists. eexists. split; [vm_compute; reflexivity|]. split; [vm_compute; reflexivity|].
    split; [reflexivity | discriminate].
Qed.
