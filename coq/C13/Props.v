(* C13 — Block sync applies only the canonical chain, whatever peers send.
   Only the property statements; each is closed by [exact] of a lemma of Proofs.v and followed by
   Print Assumptions.

   Reading guide.  The node ([node]: state, block store, pool, stopped peers, event log) is driven
   by an arbitrary list of operations [ops] — status and block responses of any peer in any
   order, requester creation, peer picks, disconnects, and turns of the poolRoutine processing
   step — through [run vc validate_block apply_block ops n]; [vc] is the commit-verification
   entry point the reactor calls ([verify_commit sv] after repair F7; [verify_commit_light sv]
   before).  [sv] is an arbitrary signature check, [validate_block] / [apply_block] arbitrary
   oracles for ValidateBlock / ApplyBlock (C06), [pk_addr] an arbitrary PubKey.Address.
   Every poolRoutine turn that stores a block logs [E_saved st first second] (the state it had,
   the block stored, the block whose LastCommit was stored as seen commit). *)
From Coq Require Import List ZArith NArith Bool.
From TM Require Import Generated.Consts C07.Model C07.Proofs C13.Model C13.Proofs.
Import ListNotations.
Open Scope Z_scope.

(* ---- clause 1: a block is saved and executed only if committed and valid ---------------------- *)

(* Whatever the peers send, in whatever order (all [ops]), from any starting node: the store grows
   by exactly the entries of the logged E_saved events, and for each of them ValidateBlock
   accepted the block under the node's state at that moment and — when that state's validator set
   is well-formed — the accompanying commit has one slot per validator of that set, is for exactly
   the block's recomputed id (hash + part-set header) and height, and the for-the-block slots
   whose signatures verify under the positional validator's key for exactly (chain, height,
   round, that id) carry more than 2/3 of that set's power.  Holds for both commit checks. *)
Theorem C13_saved_only_if_committed :
  forall (sig : Type) (sv : key -> signmsg -> sig -> bool)
         (validate_block : sstate -> block sig -> bool)
         (apply_block : sstate -> block sig -> option (list validator * Z))
         (vc : vcheck sig),
    (vc = verify_commit sv \/ vc = verify_commit_light sv) ->
    forall (ops : list (op sig)) (n : node sig),
    exists evs,
      n_log (run validate_block apply_block vc ops n) = evs ++ n_log n /\
      n_store (run validate_block apply_block vc ops n) = log_store sig evs ++ n_store n /\
      Forall (saved_ok sig sv validate_block) evs.
Proof.
  intros sig sv vb ab vc [-> | ->] ops n.
  - exact (run_frame sig sv vb ab _ (verify_commit_vc_sound sig sv) ops n).
  - exact (run_frame sig sv vb ab _ (verify_commit_light_vc_sound sig sv) ops n).
Qed.
Print Assumptions C13_saved_only_if_committed.

(* The state (what ApplyBlock produced) changes only in a step that logs a saved block, and then
   it is ApplyBlock's result on exactly that block. *)
Theorem C13_executed_only_if_saved :
  forall (sig : Type)
         (validate_block : sstate -> block sig -> bool)
         (apply_block : sstate -> block sig -> option (list validator * Z))
         (vc : vcheck sig) (n : node sig) (o : op sig),
    n_state (step validate_block apply_block vc n o) = n_state n \/
    exists first second nv,
      In (E_saved (n_state n) first second) (n_log (step validate_block apply_block vc n o)) /\
      apply_block (n_state n) first = Some nv /\
      n_state (step validate_block apply_block vc n o) = next_state (n_state n) first nv.
Proof. intros sig vb ab vc n o. exact (step_state sig vb ab vc n o). Qed.
Print Assumptions C13_executed_only_if_saved.

(* ---- clause 4: what was stored lets consensus start ------------------------------------------- *)

(* After repair F7 (the reactor calls VerifyCommit): if the node could hand over at the start
   ([handover] = SwitchToConsensus/NewState do not panic in reconstructLastCommit), it can hand
   over after ANY run — provided every saved commit is outside the known-finding class F31, i.e.
   its non-absent slots carry the address of the validator at their position ([addrs_ok]), the
   validator sets are well-formed and validators carry their key's address ([keys_ok], what
   NewValidator produces).  ValidateBlock is only assumed to accept nothing but the next height. *)
Theorem C13_handover_ok_except_known :
  forall (sig : Type) (sv : key -> signmsg -> sig -> bool) (pk_addr : key -> addr)
         (validate_block : sstate -> block sig -> bool)
         (apply_block : sstate -> block sig -> option (list validator * Z)),
    (forall st b, validate_block st b = true -> b_height b = st_height st + 1) ->
    forall (ops : list (op sig)) (n : node sig),
      Forall (ev_good sig pk_addr) (n_log (run validate_block apply_block (verify_commit sv) ops n)) ->
      0 <= st_height (n_state n) ->
      handover sv pk_addr n = true ->
      handover sv pk_addr (run validate_block apply_block (verify_commit sv) ops n) = true.
Proof.
  intros sig sv pk vb ab Hvh ops n Hg H0 Hh.
  exact (proj2 (run_handover sig sv pk vb ab Hvh ops n Hg (conj H0 Hh))).
Qed.
Print Assumptions C13_handover_ok_except_known.
