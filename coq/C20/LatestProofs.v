(* C20 — proofs about Client.ConsensusParams with and without a height (LatestModel.v, repair F86). *)
From Coq Require Import List ZArith NArith Bool Lia.
From TM Require Import Common.Hex Generated.Consts C10.Model C20.Model C20.Proofs C20.LatestModel.
Import ListNotations.
Open Scope Z_scope.

Section P.
Variable H : bytes -> bytes.

(* what a relayed answer is tied to: for an explicit height the verified light block of the answer's
   own height; without a height the light client's latest block (the one Update returned or, F80,
   the latest trusted one - C20_latest_sound), whose height the answer carries *)
Definition Consistent_params_req (o : oracle) (req : option Z) (r : rparams) : Prop :=
  0 < p_height r /\
  exists l, params_hash H (p_max_bytes r) (p_max_gas r) = h_consensus_hash (lb_header l) /\
    match req with
    | Some _ => o_verify o (p_height r) = Some l
    | None => snd (upd o None) = Some l /\ p_height r = h_height (lb_header l)
    end.

Lemma params_req_sound o srv req r :
  snd (relay_params_req H o srv req) = Some r -> Consistent_params_req o req r.
Proof.
  unfold relay_params_req, Consistent_params_req. destruct req as [h|].
  - destruct (srv (Some h)) as [r0|]; cbn [snd]; [| discriminate].
    destruct (relay_params H o r0) as [cs ok] eqn:Er. cbn [snd]. destruct ok; [| discriminate].
    intro E; injection E as <-.
    destruct (relay_params_sound H o r0) as (l & El & Eh & Ep); [rewrite Er; reflexivity |].
    split; [exact Eh |]. exists l; auto.
  - destruct (upd o None) as [cs [l|]] eqn:Eu; cbn [snd]; [| discriminate].
    destruct (srv (Some (h_height (lb_header l)))) as [r0|]; cbn [snd]; [| discriminate].
    destruct (p_valid r0); cbn [negb]; [| discriminate].
    destruct (p_height r0 <=? 0) eqn:E0; [discriminate |]. apply Z.leb_gt in E0.
    destruct (p_height r0 =? h_height (lb_header l)) eqn:E1; cbn [negb]; [| discriminate]. apply Z.eqb_eq in E1.
    destruct (bytes_eqb _ _) eqn:E2; [| discriminate]. apply bytes_eqb_eq in E2.
    intro E; injection E as <-. split; [exact E0 |]. exists l. repeat split; auto.
Qed.

(* the answer rpc/core gives for height h *)
Definition honest_answer (params : Z -> Z * Z) (h : Z) : rparams :=
  {| p_valid := true; p_height := h; p_max_bytes := fst (params h); p_max_gas := snd (params h) |}.

Lemma honest_server_at tip params h :
  0 < h <= tip + 1 -> honest_params_server tip params (Some h) = Some (honest_answer params h).
Proof.
  intro B. unfold honest_params_server, honest_answer.
  assert ((h <=? 0) || (h >? tip + 1) = false) as ->; [| reflexivity].
  apply orb_false_iff; split; [apply Z.leb_gt; lia | rewrite Z.gtb_ltb; apply Z.ltb_ge; lia].
Qed.

(* completeness without a height: against the real server's labelling ("latest" = store height + 1)
   the client that has a latest verified block l, of a height the server still serves and whose
   ConsensusHash is the hash of the parameters in force there, returns those parameters *)
Lemma params_req_complete_latest o tip params l :
  snd (upd o None) = Some l ->
  0 < h_height (lb_header l) <= tip + 1 ->
  params_hash H (fst (params (h_height (lb_header l)))) (snd (params (h_height (lb_header l))))
    = h_consensus_hash (lb_header l) ->
  snd (relay_params_req H o (honest_params_server tip params) None)
    = Some (honest_answer params (h_height (lb_header l))).
Proof.
  intros Eu B Eh. unfold relay_params_req. destruct (upd o None) as [cs ol]; cbn [snd] in Eu; subst ol.
  rewrite (honest_server_at _ _ _ B). cbn [snd honest_answer p_valid p_height p_max_bytes p_max_gas negb].
  assert (h_height (lb_header l) <=? 0 = false) as -> by (apply Z.leb_gt; lia).
  rewrite Z.eqb_refl. cbn [negb]. rewrite Eh, bytes_eqb_refl. reflexivity.
Qed.

(* ... and with an explicit height, as before *)
Lemma params_req_complete_at o tip params h l :
  o_verify o h = Some l -> 0 < h <= tip + 1 ->
  params_hash H (fst (params h)) (snd (params h)) = h_consensus_hash (lb_header l) ->
  snd (relay_params_req H o (honest_params_server tip params) (Some h)) = Some (honest_answer params h).
Proof.
  intros Ev B Eh. unfold relay_params_req. rewrite (honest_server_at _ _ _ B).
  assert (R : snd (relay_params H o (honest_answer params h)) = true).
  { apply relay_params_complete; [reflexivity |]. exists l. cbn. repeat split; auto; lia. }
  destruct (relay_params H o (honest_answer params h)) as [cs ok]; cbn [snd] in *. subst ok. reflexivity.
Qed.

(* F86: the unrepaired method refuses the honest "latest" answer whenever the light client cannot
   produce a header for store height + 1 - the height of a block that does not exist yet *)
Lemma unrepaired_refuses_latest o tip params :
  0 <= tip -> o_verify o (tip + 1) = None ->
  snd (relay_params_unrepaired H o (honest_params_server tip params) None) = None.
Proof.
  intros B Ev. unfold relay_params_unrepaired, honest_params_server.
  assert ((tip + 1 <=? 0) || (tip + 1 >? tip + 1) = false) as ->.
  { apply orb_false_iff; split; [apply Z.leb_gt; lia | rewrite Z.gtb_ltb; apply Z.ltb_irrefl]. }
  unfold relay_params. cbn [p_valid p_height negb].
  assert (tip + 1 <=? 0 = false) as -> by (apply Z.leb_gt; lia).
  rewrite Ev. reflexivity.
Qed.

End P.
