(* C20 — model of light/rpc/client.go (the verifying RPC client), of the pieces of the server
   side it relies on (types/tx.go Txs.Hash / Txs.Proof / TxProof.Validate, types/results.go,
   state/store.go ABCIResponsesResultsHash, types/params.go HashConsensusParams) and of the
   paging helpers.  Transcribed by hand, branch by branch, in the order of the checks in the
   source.  Merkle trees and proofs are the C10 model.  No proofs in this file.

   What is abstract:
   - [H]  : SHA-256 (tmhash.Sum, Merkle hashing);
   - [hh] : types.Header.Hash, a function of the whole header;
   - the light client is an ORACLE [oracle] (VerifyLightBlockAtHeight, TrustedLightBlock,
     Update): what it returns is "a header the light client has verified" (C09's subject);
   - proof operators (crypto/merkle/proof_op.go ProofRuntime.VerifyValue / VerifyAbsence) and the
     configured KeyPathFunc are the relations [verify_value], [verify_absence], [key_path].

   Nine repairs (F80, in updateLightClientIfNeededTo, is described at [upd]) are modelled as present (see /verif/fixes; F58, in crypto/merkle KeyPath.String,
   and F62, in crypto/merkle ValueOp.Run, are described at the key-path and ValueOp functions below):
   - F11: BlockResults compares NewResults(TxsResults).Hash() with the next header's
     LastResultsHash (the unrepaired code hashed begin/end-block events into it and refused
     every honest answer);
   - F18: Tx ties res.Tx / res.Hash / res.Index to the proven data;
   - F36: BlockResults refuses an answer labelled with a height other than the one asked for;
   - F37: BlockchainInfo verifies every returned header through VerifyLightBlockAtHeight (the
     unrepaired code asked TrustedLightBlock and refused honest answers spanning heights the
     light client had not stored);
   - F42: TxSearch with prove = true verifies every returned transaction the way Tx does (the
     unrepaired code handed the whole answer through);
   - F44: Block / BlockByHash / BlockchainInfo compare the whole BlockID (hash AND part-set
     header) with the BlockID of the commit in the verified light block (the unrepaired code
     compared the hash only and relayed any part-set header).
   Known, not repaired (F41): Tx / TxSearch bind ResultTx.Index only relative to the proof's
   Total, which nothing the light client verified commits to. *)
From Coq Require Import List ZArith NArith Bool.
From TM Require Import Common.Hex Generated.Consts C10.Model.
Import ListNotations.
Open Scope Z_scope.

(* ------------------------------------------------------------------ data *)

(* types.Header: the fields this property talks about, and the rest as one opaque value *)
Record header := {
  h_height : Z;
  h_last_commit_hash : bytes;
  h_data_hash : bytes;
  h_evidence_hash : bytes;
  h_consensus_hash : bytes;
  h_app_hash : bytes;
  h_last_results_hash : bytes;
  h_other : bytes            (* version, chain id, time, last block id, validator hashes, proposer *)
}.

(* types.PartSetHeader *)
Record psh := { ps_total : Z; ps_hash : bytes }.
Definition psh_eqb (a b : psh) : bool := (ps_total a =? ps_total b) && bytes_eqb (ps_hash a) (ps_hash b).

(* types.LightBlock as the client uses it: header, commit (opaque; [lb_id_hash] / [lb_id_parts] =
   Commit.BlockID, what the validators signed), validators (opaque items) *)
Record lblock := { lb_header : header; lb_commit : bytes; lb_id_hash : bytes; lb_id_parts : psh;
                   lb_vals : list bytes }.

(* light.Client.Update has THREE outcomes: an error; a new light block; and (nil, nil) - no error
   and no block - when the primary's latest block is not newer than the last trusted one (or the
   store is empty) *)
Inductive upd_result := UpdErr | UpdNone | UpdBlock (l : lblock).

(* light/rpc LightClient; [o_trusted 0] = TrustedLightBlock(0), the latest trusted light block *)
Record oracle := {
  o_verify : Z -> option lblock;      (* VerifyLightBlockAtHeight; None = error *)
  o_trusted : Z -> option lblock;     (* TrustedLightBlock *)
  o_update : upd_result               (* Update *)
}.

Inductive call := CallVerify (h : Z) | CallTrusted (h : Z) | CallUpdate.

(* types.Block as received: the parts the header commits to.  [b_hdr_ok] = Header.ValidateBasic,
   [b_lc_ok] = LastCommit non-nil and LastCommit.ValidateBasic, [b_lc_hash] = LastCommit.Hash(),
   [b_ev_ok] = every evidence item ValidateBasic, [b_ev_hash] = Evidence.Hash() *)
Record block := {
  b_header : header; b_hdr_ok : bool;
  b_lc_ok : bool; b_lc_hash : bytes;
  b_txs : list bytes;
  b_ev_ok : bool; b_ev_hash : bytes
}.
(* ctypes.ResultBlock: [rb_id_ok] = BlockID.ValidateBasic *)
Record rblock := { rb_id_ok : bool; rb_id_hash : bytes; rb_id_parts : psh; rb_block : option block }.

(* types.BlockMeta *)
Record meta := { m_id_ok : bool; m_id_hash : bytes; m_id_parts : psh; m_header : header }.

(* types.TxProof and ctypes.ResultTx *)
Record txproof := { tp_root : bytes; tp_data : bytes; tp_proof : proof }.
Record rtx := { t_hash : bytes; t_height : Z; t_index : Z; t_tx : bytes; t_proof : txproof }.

(* abci.ResponseQuery *)
Record rquery := {
  q_code : Z; q_key : bytes; q_nops : Z; q_ops : bytes; q_height : Z; q_value : option bytes
}.

(* ctypes.ResultConsensusParams: [p_valid] = types.ValidateConsensusParams *)
Record rparams := { p_valid : bool; p_height : Z; p_max_bytes : Z; p_max_gas : Z }.

(* abci.ResponseDeliverTx, deterministic fields (types/results.go) *)
Record dtx := { d_code : Z; d_data : bytes; d_gas_wanted : Z; d_gas_used : Z }.

(* ------------------------------------------------------------------ protobuf encoding *)

Fixpoint uvarint_f (fuel : nat) (n : Z) : bytes :=
  match fuel with
  | O => []
  | S f => if n <? 128 then [Z.to_N n] else Z.to_N (n mod 128 + 128) :: uvarint_f f (n / 128)
  end.
Definition uvarint (n : Z) : bytes := uvarint_f 10 n.
(* int64 / uint32 values on the wire: two's complement in 64 bits *)
Definition varint64 (n : Z) : bytes := uvarint (if n <? 0 then n + 18446744073709551616 else n).
(* proto3: zero / empty fields are omitted *)
Definition pb_varint_field (num v : Z) : bytes :=
  if v =? 0 then [] else uvarint (num * 8) ++ varint64 v.
Definition pb_bytes_field (num : Z) (b : bytes) : bytes :=
  match b with [] => [] | _ => uvarint (num * 8 + 2) ++ uvarint (Z.of_nat (length b)) ++ b end.

(* tmproto.HashedParams{BlockMaxBytes = 1, BlockMaxGas = 2} *)
Definition hashed_params_enc (max_bytes max_gas : Z) : bytes :=
  pb_varint_field 1 max_bytes ++ pb_varint_field 2 max_gas.
(* abci.ResponseDeliverTx{Code = 1, Data = 2, GasWanted = 5, GasUsed = 6}; Log, Info, Events,
   Codespace are stripped by deterministicResponseDeliverTx *)
Definition dtx_enc (d : dtx) : bytes :=
  pb_varint_field 1 (d_code d) ++ pb_bytes_field 2 (d_data d)
  ++ pb_varint_field 5 (d_gas_wanted d) ++ pb_varint_field 6 (d_gas_used d).

(* ------------------------------------------------------------------ paging (client.go bottom) *)

Definition validate_per_page (pp : option Z) : Z :=
  match pp with
  | None => lightrpc_default_per_page
  | Some p => if p <? 1 then lightrpc_default_per_page
              else if p >? lightrpc_max_per_page then lightrpc_max_per_page else p
  end.

(* Go's integer division truncates: Z.quot *)
Definition validate_page (pg : option Z) (per_page total : Z) : option Z :=
  match pg with
  | None => Some 1
  | Some p =>
    let pages := Z.quot (total - 1) per_page + 1 in
    let pages := if pages =? 0 then 1 else pages in
    if (p <=? 0) || (p >? pages) then None else Some p
  end.

Definition validate_skip_count (page per_page : Z) : Z :=
  let s := (page - 1) * per_page in if s <? 0 then 0 else s.

(* ------------------------------------------------------------------ key paths
   crypto/merkle/proof_key_path.go: KeyPath.String and KeyPathToKeys as functions on byte strings,
   with the pieces of net/url (PathEscape / PathUnescape: escape, unescape, shouldEscape in mode
   encodePathSegment) and encoding/hex (DecodeString, %X) they use.  Client.ABCIQueryWithOptions
   builds a KeyPath from the store name and resp.Key, prints it with String, and
   ProofOperators.Verify (proof_op.go) parses it back with KeyPathToKeys to compare every key with
   the key of the matching proof operator: the proof binds the answer's key only if parsing
   inverts printing.
   Repair F58 is modelled as present: String writes a URL-encoded key that starts with "x:" as
   "x%3A..." (the unrepaired code printed it verbatim and KeyPathToKeys then read it as a
   hex-encoded key). *)
Inductive kenc := EncURL | EncHex.
Definition key := (bytes * kenc)%type.           (* merkle.Key{name, enc} *)

Definition hexdig (d : N) : N := if (d <? 10)%N then (48 + d)%N else (55 + d)%N.   (* "0123456789ABCDEF" *)
(* net/url ishex+unhex, encoding/hex fromHexChar: both cases accepted *)
Definition unhexdig (c : N) : option N :=
  if ((48 <=? c) && (c <=? 57))%N then Some (c - 48)%N
  else if ((97 <=? c) && (c <=? 102))%N then Some (c - 87)%N
  else if ((65 <=? c) && (c <=? 70))%N then Some (c - 55)%N
  else None.

(* fmt.Sprintf("%X", name) *)
Fixpoint hex_encode (b : bytes) : bytes :=
  match b with
  | [] => []
  | c :: r => hexdig (c / 16) :: hexdig (c mod 16) :: hex_encode r
  end.
(* hex.DecodeString: odd length or a character that is no hex digit is an error *)
Fixpoint hex_decode (s : bytes) : option bytes :=
  match s with
  | [] => Some []
  | a :: t => match t with
              | [] => None
              | b :: r => match unhexdig a, unhexdig b, hex_decode r with
                          | Some x, Some y, Some d => Some ((16 * x + y)%N :: d)
                          | _, _, _ => None
                          end
              end
  end.

Definition memN (c : N) (l : list N) : bool := existsb (N.eqb c) l.
(* url.shouldEscape(c, encodePathSegment): letters, digits, "-_.~" and "$&+:=@" stay *)
Definition should_escape (c : N) : bool :=
  negb (((97 <=? c) && (c <=? 122))%N || ((65 <=? c) && (c <=? 90))%N || ((48 <=? c) && (c <=? 57))%N
        || memN c [45; 95; 46; 126]%N || memN c [36; 38; 43; 58; 61; 64]%N).
(* url.PathEscape *)
Fixpoint path_escape (b : bytes) : bytes :=
  match b with
  | [] => []
  | c :: r => if should_escape c then 37%N :: hexdig (c / 16) :: hexdig (c mod 16) :: path_escape r
              else c :: path_escape r
  end.
(* url.PathUnescape: "%" must be followed by two hex digits; "+" stays "+" *)
Fixpoint path_unescape (s : bytes) : option bytes :=
  match s with
  | [] => Some []
  | c :: r =>
    if (c =? 37)%N then
      match r with
      | a :: b :: t => match unhexdig a, unhexdig b with
                       | Some x, Some y => option_map (cons (16 * x + y)%N) (path_unescape t)
                       | _, _ => None
                       end
      | _ => None
      end
    else option_map (cons c) (path_unescape r)
  end.

(* strings.HasPrefix(s, "x:") *)
Definition has_x_prefix (s : bytes) : bool :=
  match s with a :: b :: _ => ((a =? 120) && (b =? 58))%N | _ => false end.

(* one key of KeyPath.String, without the leading "/" *)
Definition encode_key (k : key) : bytes :=
  match snd k with
  | EncHex => 120%N :: 58%N :: hex_encode (fst k)
  | EncURL => let e := path_escape (fst k) in
              if has_x_prefix e then 120%N :: 37%N :: 51%N :: 65%N :: skipn 2 e      (* fix F58 *)
              else e
  end.
(* KeyPath.String *)
Fixpoint kp_string (kp : list key) : bytes :=
  match kp with
  | [] => []
  | k :: r => 47%N :: encode_key k ++ kp_string r
  end.

(* strings.Split(s, "/"): never empty *)
Fixpoint split_slash (s : bytes) : list bytes :=
  match s with
  | [] => [[]]
  | c :: r => let ps := split_slash r in
              if (c =? 47)%N then [] :: ps
              else match ps with p :: t => (c :: p) :: t | [] => [[c]] end
  end.

Definition decode_part (p : bytes) : option bytes :=
  if has_x_prefix p then hex_decode (skipn 2 p) else path_unescape p.

Fixpoint map_opt {A B} (f : A -> option B) (l : list A) : option (list B) :=
  match l with
  | [] => Some []
  | x :: r => match f x, map_opt f r with Some y, Some t => Some (y :: t) | _, _ => None end
  end.

(* merkle.KeyPathToKeys; None = error *)
Definition key_path_to_keys (path : bytes) : option (list bytes) :=
  match path with
  | c :: r => if (c =? 47)%N then map_opt decode_part (split_slash r) else None
  | [] => None
  end.

Section Client.
Variable H : bytes -> bytes.
Variable hh : header -> bytes.
Variable verify_value : bytes -> bytes -> bytes -> bytes -> bool.  (* ops, root, key path, value *)
Variable verify_absence : bytes -> bytes -> bytes -> bool.         (* ops, root, key path *)
Variable key_path : bytes -> bytes -> option bytes.                 (* KeyPathFunc path key *)

(* types/tx.go Txs.Hash: Merkle root of the transaction hashes *)
Definition txs_root (txs : list bytes) : bytes := root H (map H txs).

(* types/tx.go Txs.Proof *)
Definition txs_proof (txs : list bytes) (i : nat) : txproof :=
  {| tp_root := txs_root txs; tp_data := nth i txs []; tp_proof := proof_of H (map H txs) i |}.

(* types/tx.go TxProof.Validate *)
Definition txproof_validate (data_hash : bytes) (tp : txproof) : bool :=
  if negb (bytes_eqb data_hash (tp_root tp)) then false
  else if pf_index (tp_proof tp) <? 0 then false
  else if pf_total (tp_proof tp) <=? 0 then false
  else verify H (tp_root tp) (H (tp_data tp)) (tp_proof tp).

(* types/results.go ABCIResults.Hash of NewResults(...) = state.ABCIResponsesResultsHash *)
Definition results_hash (rs : list dtx) : bytes := root H (map dtx_enc rs).

(* types/params.go HashConsensusParams *)
Definition params_hash (max_bytes max_gas : Z) : bytes := H (hashed_params_enc max_bytes max_gas).

(* client.go updateLightClientIfNeededTo *)
Definition upd (o : oracle) (height : option Z) : list call * option lblock :=
  match height with
  | None => match o_update o with
            | UpdErr => ([CallUpdate], None)
            | UpdBlock l => ([CallUpdate], Some l)
            (* fix F80: no newer block - the latest trusted light block is the latest; the unrepaired
               code handed the nil block on and Commit / Validators dereferenced it (panic) *)
            | UpdNone => ([CallUpdate; CallTrusted 0], o_trusted o 0)
            end
  | Some h => ([CallVerify h], o_verify o h)
  end.

(* types/block.go Block.ValidateBasic *)
Definition block_validate_basic (b : block) : bool :=
  if negb (b_hdr_ok b) then false
  else if negb (b_lc_ok b) then false
  else if negb (bytes_eqb (h_last_commit_hash (b_header b)) (b_lc_hash b)) then false
  else if negb (bytes_eqb (h_data_hash (b_header b)) (txs_root (b_txs b))) then false
  else if negb (b_ev_ok b) then false
  else bytes_eqb (h_evidence_hash (b_header b)) (b_ev_hash b).

(* types.BlockID.Equals against the BlockID of the verified commit *)
Definition id_matches (l : lblock) (id_hash : bytes) (id_parts : psh) : bool :=
  bytes_eqb id_hash (lb_id_hash l) && psh_eqb id_parts (lb_id_parts l).

(* Client.Block and Client.BlockByHash (same body).  Result: the light-client calls made, and
   whether the response was relayed (nil error).  The BlockID comparison is repair F44. *)
Definition relay_block (o : oracle) (r : rblock) : list call * bool :=
  if negb (rb_id_ok r) then ([], false)
  else match rb_block r with
  | None => ([], false)                                        (* "nil block" *)
  | Some b =>
    if negb (block_validate_basic b) then ([], false)
    else if negb (bytes_eqb (rb_id_hash r) (hh (b_header b))) then ([], false)
    else
      let ht := h_height (b_header b) in
      match o_verify o ht with
      | None => ([CallVerify ht], false)
      | Some l =>
        ([CallVerify ht],
         if negb (bytes_eqb (hh (b_header b)) (hh (lb_header l))) then false
         else id_matches l (rb_id_hash r) (rb_id_parts r))                          (* fix F44 *)
      end
  end.

(* types/block_meta.go BlockMeta.ValidateBasic *)
Definition meta_validate_basic (m : meta) : bool :=
  if negb (m_id_ok m) then false else bytes_eqb (m_id_hash m) (hh (m_header m)).

(* the loop "Verify each of the BlockMetas"; (fix F37) every height is verified through
   VerifyLightBlockAtHeight (which answers from the trusted store when it can) instead of being
   looked up with TrustedLightBlock, which fails for a height the light client has not stored *)
Fixpoint check_metas (o : oracle) (ms : list meta) : list call * bool :=
  match ms with
  | [] => ([], true)
  | m :: r =>
    let ht := h_height (m_header m) in
    match o_verify o ht with
    | None => ([CallVerify ht], false)
    | Some l =>
      if bytes_eqb (hh (m_header m)) (hh (lb_header l))
         && id_matches l (m_id_hash m) (m_id_parts m)                                (* fix F44 *)
      then let '(cs, ok) := check_metas o r in (CallVerify ht :: cs, ok)
      else ([CallVerify ht], false)
    end
  end.

Definition some_metas (metas : list (option meta)) : list meta :=
  flat_map (fun om => match om with Some m => [m] | None => [] end) metas.

(* Client.BlockchainInfo; a nil entry of BlockMetas is [None] *)
Definition relay_info (o : oracle) (metas : list (option meta)) : list call * bool :=
  if negb (forallb (fun om => match om with Some m => meta_validate_basic m | None => false end) metas)
  then ([], false)
  else
    let ms := some_metas metas in
    match rev ms with
    | [] => ([], true)
    | ml :: _ =>
      let ht := h_height (m_header ml) in
      match o_verify o ht with
      | None => ([CallVerify ht], false)
      | Some _ => let '(cs, ok) := check_metas o ms in (CallVerify ht :: cs, ok)
      end
    end.

(* Client.Commit: nothing is asked of the server *)
Definition relay_commit (o : oracle) (height : option Z) : list call * option (header * bytes) :=
  let '(cs, ol) := upd o height in
  (cs, match ol with Some l => Some (lb_header l, lb_commit l) | None => None end).

(* Client.Validators: (BlockHeight, Validators, Total); Count = length Validators *)
Definition relay_validators (o : oracle) (height pg pp : option Z)
  : list call * option (Z * list bytes * Z) :=
  let '(cs, ol) := upd o height in
  (cs, match ol with
        | None => None
        | Some l =>
          let total := Z.of_nat (length (lb_vals l)) in
          let per_page := validate_per_page pp in
          match validate_page pg per_page total with
          | None => None
          | Some page =>
            let skip := validate_skip_count page per_page in
            let n := Z.min per_page (total - skip) in
            Some (h_height (lb_header l),
                  firstn (Z.to_nat n) (skipn (Z.to_nat skip) (lb_vals l)), total)
          end
        end).

(* Client.Tx with prove = true (prove = false is handed through unverified).  The three
   comparisons marked (fix F18) are the repair. *)
Definition relay_tx (o : oracle) (r : rtx) : list call * bool :=
  if t_height r <=? 0 then ([], false)
  else match o_verify o (t_height r) with
  | None => ([CallVerify (t_height r)], false)
  | Some l =>
    ([CallVerify (t_height r)],
     if negb (txproof_validate (h_data_hash (lb_header l)) (t_proof r)) then false
     else if negb (bytes_eqb (t_tx r) (tp_data (t_proof r))) then false           (* fix F18 *)
     else if negb (bytes_eqb (t_hash r) (H (t_tx r))) then false                   (* fix F18 *)
     else t_index r =? pf_index (tp_proof (t_proof r)))                            (* fix F18 *)
     (* Go: int64(res.Index) != res.Proof.Proof.Index - the uint32 is WIDENED, the proof's int64 index is
        never narrowed; here both are unbounded integers *)
  end.

(* Client.TxSearch (fix F42): with prove = true every returned transaction goes through the
   checks of Tx, in order, stopping at the first that fails; a nil entry is refused.  prove =
   false is handed through unverified. *)
Fixpoint check_txs (o : oracle) (rs : list (option rtx)) : list call * bool :=
  match rs with
  | [] => ([], true)
  | None :: _ => ([], false)
  | Some r :: rest =>
    let '(cs, ok) := relay_tx o r in
    if ok then let '(cs', ok') := check_txs o rest in (cs ++ cs', ok') else (cs, false)
  end.

Definition relay_search (o : oracle) (prove : bool) (rs : list (option rtx)) : list call * bool :=
  if prove then check_txs o rs else ([], true).

(* Client.ABCIQueryWithOptions; [has_kpfn] = a KeyPathFn option was configured *)
Definition relay_query (o : oracle) (has_kpfn : bool) (path : bytes) (r : rquery) : list call * bool :=
  if negb (q_code r =? abci_code_type_ok) then ([], false)
  else match q_key r with
  | [] => ([], false)
  | _ =>
    if q_nops r =? 0 then ([], false)
    else if q_height r <=? 0 then ([], false)
    else
      let nh := q_height r + 1 in                    (* AppHash for height H is in header H+1 *)
      match o_verify o nh with
      | None => ([CallVerify nh], false)
      | Some l =>
        ([CallVerify nh],
         match q_value r with
         | Some v =>
           if negb has_kpfn then false
           else match key_path path (q_key r) with
                | None => false
                | Some kp => verify_value (q_ops r) (h_app_hash (lb_header l)) kp v
                end
         | None => verify_absence (q_ops r) (h_app_hash (lb_header l)) (q_key r)
         end)
      end
  end.

(* ------------------------------------------------------------------ simple-Merkle value proofs
   crypto/merkle/proof_value.go ValueOp.Run and proof_op.go ProofOperators.Verify, for a proof
   made of ValueOps only (what ProofRuntime.VerifyValue runs for the "simple:v" operators of
   merkle.DefaultProofRuntime).
   Repair F62 is modelled as present: ValueOp.Run fails when no root hash can be computed from
   the operator's (index, total, aunts) - the unrepaired code handed Go's nil on, and the final
   bytes.Equal(root, nil) accepted ANY value against an empty root (an empty AppHash). *)
Record vop := { vo_key : bytes; vo_proof : proof }.

(* crypto/merkle encodeByteSlice *)
Definition enc_bytes (b : bytes) : bytes := uvarint (Z.of_nat (length b)) ++ b.
(* the leaf a ValueOp proves: <key, hash of the value> *)
Definition kv_leaf (k value : bytes) : bytes := enc_bytes k ++ enc_bytes (H value).

(* ValueOp.Run; None = error *)
Definition vop_run (op : vop) (value : bytes) : option bytes :=
  let p := vo_proof op in
  if negb (bytes_eqb (leaf_hash H (kv_leaf (vo_key op) value)) (pf_leaf_hash p)) then None
  else from_aunts H (pf_index p) (pf_total p) (pf_leaf_hash p) (rev (pf_aunts p)).   (* fix F62: None is an error *)

(* the loop of ProofOperators.Verify: [rkeys] = the keys of the key path, last first; an operator
   with a non-empty key must name the last remaining key *)
Fixpoint vops_run (ops : list vop) (rkeys : list bytes) (arg : bytes) : option (list bytes * bytes) :=
  match ops with
  | [] => Some (rkeys, arg)
  | op :: r =>
    let step (rk : list bytes) :=
      match vop_run op arg with Some a => vops_run r rk a | None => None end in
    match vo_key op with
    | [] => step rkeys
    | _ => match rkeys with
           | [] => None
           | lk :: rk => if bytes_eqb lk (vo_key op) then step rk else None
           end
    end
  end.

(* ProofOperators.VerifyValue(root, keypath, value) *)
Definition vops_verify (ops : list vop) (root : bytes) (keypath : bytes) (value : bytes) : bool :=
  match key_path_to_keys keypath with
  | None => false
  | Some keys => match vops_run ops (rev keys) value with
                 | Some ([], a) => bytes_eqb root a
                 | _ => false
                 end
  end.

(* Client.ConsensusParams *)
Definition relay_params (o : oracle) (r : rparams) : list call * bool :=
  if negb (p_valid r) then ([], false)
  else if p_height r <=? 0 then ([], false)
  else match o_verify o (p_height r) with
  | None => ([CallVerify (p_height r)], false)
  | Some l =>
    ([CallVerify (p_height r)],
     bytes_eqb (params_hash (p_max_bytes r) (p_max_gas r)) (h_consensus_hash (lb_header l)))
  end.

(* Client.BlockResults: [req] the requested height (None: latest - 1 from Status), the
   response's Height and TxsResults.  Events, logs, validator and parameter updates do not
   enter. *)
Definition relay_results (o : oracle) (req : option Z) (status_latest : Z)
                         (r_height : Z) (rs : list dtx) : list call * bool :=
  let h := match req with Some h => h | None => status_latest - 1 end in
  if r_height <=? 0 then ([], false)
  else if negb (r_height =? h) then ([], false)                                    (* fix F36 *)
  else
    let nh := h + 1 in
    match o_verify o nh with
    | None => ([CallVerify nh], false)
    | Some l => ([CallVerify nh], bytes_eqb (results_hash rs) (h_last_results_hash (lb_header l)))  (* fix F11 *)
    end.

End Client.
