(* C20 — executable side of the correspondence check: the case type written by the Go harness
   (harness/overlay/light/rpc, harness/overlay/rpc/core), the comparison of the model with what
   the real light/rpc.Client did, and the property monitors evaluated on the implementation's
   own answers against the generated chain (the ground truth the stub light client serves).
   Depends on Model.v only.

   types.Header.Hash is not recomputed here: the harness ships the value the implementation
   computed for every header (slot [h_other]) and [hh_x] reads it back.  The proof-operator
   runtime is likewise consulted on the Go side, once per candidate root, and shipped as a
   table.  Merkle roots of transactions / results, transaction hashes, the HashedParams and
   ResponseDeliverTx encodings ARE recomputed here with the C10 model and SHA-256. *)
From Coq Require Import List ZArith NArith Bool String.
From TM Require Import Common.Hex Common.Sha256 Generated.Consts C10.Model C20.Model C20.LatestModel.
Import ListNotations.
Open Scope Z_scope.

Definition Hs := sha256.

(* height, Header.Hash() by the implementation, last-commit hash, data hash, evidence hash,
   consensus hash, app hash, last-results hash *)
Definition hdrt := (Z * string * string * string * string * string * string * string)%type.
Definition mk_header (t : hdrt) : header :=
  let '(ht, hash, lc, dh, ev, ch, ah, lr) := t in
  {| h_height := ht; h_last_commit_hash := unhex lc; h_data_hash := unhex dh;
     h_evidence_hash := unhex ev; h_consensus_hash := unhex ch; h_app_hash := unhex ah;
     h_last_results_hash := unhex lr; h_other := unhex hash |}.
Definition hh_x (h : header) : bytes := h_other h.

(* types.PartSetHeader: total, hash *)
Definition psht := (Z * string)%type.
Definition mk_psh (t : psht) : psh := {| ps_total := fst t; ps_hash := unhex (snd t) |}.

(* light block: header, Commit.Hash(), Commit.BlockID (hash, part-set header), validator addresses *)
Definition lbt := (hdrt * string * (string * psht) * list string)%type.
Definition mk_lblock (t : lbt) : lblock :=
  let '(h, c, (ih, ip), vs) := t in
  {| lb_header := mk_header h; lb_commit := unhex c; lb_id_hash := unhex ih; lb_id_parts := mk_psh ip;
     lb_vals := map unhex vs |}.

(* the stub light client: table served by VerifyLightBlockAtHeight, heights TrustedLightBlock
   knows (TrustedLightBlock(0) = the highest of them), height Update returns (0: Update fails;
   -1: Update returns neither an error nor a block - nothing newer than the latest trusted one) *)
Definition orct := (list lbt * list Z * Z)%type.
Fixpoint find_lb (tab : list lblock) (h : Z) : option lblock :=
  match tab with
  | [] => None
  | l :: r => if h_height (lb_header l) =? h then Some l else find_lb r h
  end.
Definition mk_oracle (t : orct) : oracle :=
  let '(tab, tr, latest) := t in
  let tb := map mk_lblock tab in
  {| o_verify := find_lb tb;
     o_trusted := fun h => let h' := if h =? 0 then fold_left Z.max tr 0 else h in
                           if existsb (Z.eqb h') tr then find_lb tb h' else None;
     o_update := if latest =? 0 then UpdErr
                 else if latest <? 0 then UpdNone
                 else match find_lb tb latest with Some l => UpdBlock l | None => UpdErr end |}.
(* the latest light block the client can answer with, read off the oracle (not through Model.upd) *)
Definition want_latest (orc : oracle) : option lblock :=
  match o_update orc with UpdErr => None | UpdBlock l => Some l | UpdNone => o_trusted orc 0 end.
(* the harness records a panic of the client as a call with code 9 *)
Definition no_panic (calls_i : list (N * Z)) : bool := negb (existsb (fun c : N * Z => (fst c =? 9)%N) calls_i).
Definition truth (t : orct) (h : Z) : option lblock := let '(tab, _, _) := t in find_lb (map mk_lblock tab) h.

(* block: header, Header.ValidateBasic ok, LastCommit ok, LastCommit.Hash(), txs, evidence ok,
   Evidence.Hash() *)
Definition blockt := (hdrt * bool * bool * string * list string * bool * string)%type.
Definition mk_block (t : blockt) : block :=
  let '(h, hok, lok, lch, txs, eok, evh) := t in
  {| b_header := mk_header h; b_hdr_ok := hok; b_lc_ok := lok; b_lc_hash := unhex lch;
     b_txs := map unhex txs; b_ev_ok := eok; b_ev_hash := unhex evh |}.

Definition metat := (bool * string * psht * hdrt)%type.
Definition mk_meta (t : metat) : meta :=
  let '(ok, ih, ip, h) := t in
  {| m_id_ok := ok; m_id_hash := unhex ih; m_id_parts := mk_psh ip; m_header := mk_header h |}.

Definition pft := (Z * Z * string * list string)%type.
Definition mk_proof (t : pft) : proof :=
  let '(tot, idx, lh, au) := t in
  {| pf_total := tot; pf_index := idx; pf_leaf_hash := unhex lh; pf_aunts := map unhex au |}.
(* ResultTx: hash, height, index, tx, proof (root hash, data, merkle proof) *)
Definition txt := (string * Z * Z * string * (string * string * pft))%type.
Definition mk_rtx (t : txt) : rtx :=
  let '(hs, ht, ix, tx, (rt, dt, pf)) := t in
  {| t_hash := unhex hs; t_height := ht; t_index := ix; t_tx := unhex tx;
     t_proof := {| tp_root := unhex rt; tp_data := unhex dt; tp_proof := mk_proof pf |} |}.

Definition dtxt := (Z * string * Z * Z)%type.
Definition mk_dtx (t : dtxt) : dtx :=
  let '(c, d, gw, gu) := t in {| d_code := c; d_data := unhex d; d_gas_wanted := gw; d_gas_used := gu |}.

Definition callt := (N * Z)%type.   (* 0 VerifyLightBlockAtHeight h, 1 TrustedLightBlock h, 2 Update, 9 panic *)
Definition call_code (c : call) : callt :=
  match c with CallVerify h => (0%N, h) | CallTrusted h => (1%N, h) | CallUpdate => (2%N, 0) end.

Inductive case :=
(* Block / BlockByHash: oracle; BlockID ok, BlockID.Hash, BlockID.PartSetHeader, block; impl:
   relayed, LC calls; honest = unmodified answer of the honest node that the light client can
   verify *)
| CBlock (o : orct) (id_ok : bool) (id_hash : string) (id_parts : psht) (blk : option blockt)
         (relayed_i : bool) (calls_i : list callt) (honest : bool)
| CInfo (o : orct) (metas : list (option metat)) (relayed_i : bool) (calls_i : list callt) (honest : bool)
(* Commit: requested height; impl: ok, (header hash, commit hash) returned, canonical flag *)
| CCommit (o : orct) (height : option Z) (ok_i : bool) (out_i : string * string) (canon_i : bool)
          (calls_i : list callt)
(* Validators: height, page, perPage; impl: ok, (BlockHeight, validators, Count, Total) *)
| CVals (o : orct) (height pg pp : option Z) (ok_i : bool) (out_i : Z * list string * Z * Z)
        (calls_i : list callt)
(* Tx: prove flag, response, the transactions of the chain's block at the response's height *)
| CTx (o : orct) (prove : bool) (r : txt) (block_txs : list string)
      (relayed_i : bool) (calls_i : list callt) (honest : bool)
(* TxSearch: prove flag, the returned transactions (None: a nil entry), the transactions of the
   chain's blocks by height *)
| CSearch (o : orct) (prove : bool) (rs : list (option txt)) (blocks : list (Z * list string))
          (relayed_i : bool) (calls_i : list callt) (honest : bool)
(* ABCIQuery: KeyPathFn configured, response code, key, number of ops, height, value;
   kp_ok = the key path function succeeded; vtab / atab = outcome of ProofRuntime.VerifyValue /
   VerifyAbsence (called directly) per candidate root; state_val = what the generated
   application state at the answer's height holds in the store the path names for the answer's
   key (Some None: the key is absent; None: no such state or store) - ground truth that does not
   pass through any proof or key-path code *)
| CQuery (o : orct) (has_kpfn : bool) (code : Z) (qkey : string) (nops : Z) (height : Z)
         (value : option string) (kp_ok : bool) (vtab atab : list (string * bool))
         (state_val : option (option string))
         (* when the key path could be built and every proof operator is a ValueOp: the operators
            (key, inner Merkle proof) and the printed key path handed to VerifyValue *)
         (vops : option (list (string * pft) * string))
         (relayed_i : bool) (calls_i : list callt) (honest : bool)
(* server side, real state transition: the DeliverTx results of block h as stored by
   BlockExecutor.ApplyBlock, State.LastResultsHash after it, LastResultsHash of header h+1 as
   State.MakeBlock fills it in *)
| CChainResults (h : Z) (rs : list dtxt) (state_lrh : string) (next_lrh : string)
(* a key path (name, hex-encoded?) printed and parsed back by the implementation:
   KeyPath.String(), KeyPathToKeys of that (None: error) *)
| CKeyPath (keys : list (string * bool)) (str_i : string) (dec_i : option (list string))
(* KeyPathToKeys on an arbitrary string *)
| CKeyDecode (path : string) (dec_i : option (list string))
(* ConsensusParams: ValidateConsensusParams ok, height, block.max_bytes, block.max_gas *)
| CParams (o : orct) (valid : bool) (height max_bytes max_gas : Z)
          (relayed_i : bool) (calls_i : list callt) (honest : bool)
(* ConsensusParams as a conversation: the height the caller asks for (None: the latest); what the
   server answers to each request it can get (request -> valid, label, block.max_bytes,
   block.max_gas; None: an error) - for an honest server the answers of rpc/core, "no height"
   being answered for store height + 1; impl: the requests the server received, relayed?, the
   answer handed to the caller (label, max_bytes, max_gas), LC calls *)
| CParamsReq (o : orct) (req : option Z) (answers : list (option Z * option (bool * Z * Z * Z)))
             (asked_i : list (option Z)) (relayed_i : bool) (out_i : Z * Z * Z)
             (calls_i : list callt) (honest : bool)
(* BlockResults: requested height, latest height by Status, response height and tx results *)
| CResults (o : orct) (req : option Z) (latest : Z) (r_height : Z) (rs : list dtxt)
           (relayed_i : bool) (calls_i : list callt) (honest : bool)
(* server side: transactions of a block, index; impl: the proof built (types.Txs.Proof, as
   rpc/core Tx does), the block's DataHash, TxProof.Validate(DataHash) = nil *)
| CServed (txs : list string) (i : Z) (p : string * string * pft) (data_hash : string) (valid_i : bool).

Definition mism (b : bool) (code : N) : verdict := if b then V_ok else V_mismatch code.
Definition viol (b : bool) (clause : N) : verdict := if b then V_ok else V_violation clause.
Definition imp (a b : bool) : bool := negb a || b.

Definition list_eqb {A} (eqb : A -> A -> bool) (a b : list A) : bool :=
  Nat.eqb (List.length a) (List.length b) && forallb (fun '(x, y) => eqb x y) (combine a b).
Definition callt_eqb (a b : callt) : bool := (fst a =? fst b)%N && (snd a =? snd b).
Definition calls_eqb (m : list call) (i : list callt) : bool := list_eqb callt_eqb (map call_code m) i.

Definition lookup_tab (tab : list (string * bool)) (root : bytes) : bool :=
  match find (fun e => bytes_eqb (unhex (fst e)) root) tab with Some e => snd e | None => false end.

Fixpoint infix_at {A} (eqb : A -> A -> bool) (sub l : list A) : bool :=
  list_eqb eqb sub (firstn (List.length sub) l) ||
  match l with [] => false | _ :: r => infix_at eqb sub r end.

(* index by a Z that may be far out of range (never convert an untrusted Z to nat) *)
Definition nth_error_z {A} (l : list A) (i : Z) : option A :=
  if (i <? 0) || (i >=? Z.of_nat (List.length l)) then None else nth_error l (Z.to_nat i).

Definition proof_eqb (a b : proof) : bool :=
  (pf_total a =? pf_total b) && (pf_index a =? pf_index b)
  && bytes_eqb (pf_leaf_hash a) (pf_leaf_hash b) && list_eqb bytes_eqb (pf_aunts a) (pf_aunts b).

(* What a relayed, proven ResultTx must satisfy (clauses 3 and 12), against the stub's table and
   the chain's block at the answer's height.  0: fine.  1: violated.  2: everything the proof can
   establish holds — it is valid under the verified DataHash for the relayed body, Hash and Index
   are the proof's — but the proof misstates the number of leaves and the block's transaction at
   the relayed Index is NOT the relayed body: the class of known finding F41. *)
Definition tx_verdict (o : orct) (r : rtx) (txs : list bytes) : N :=
  let p := tp_proof (t_proof r) in
  match truth o (t_height r) with
  | None => 1%N
  | Some l =>
    let at_index := match nth_error_z txs (t_index r) with
                    | Some x => bytes_eqb x (t_tx r) | None => false end in
    if bytes_eqb (tp_root (t_proof r)) (h_data_hash (lb_header l))
       && bytes_eqb (t_tx r) (tp_data (t_proof r))
       && bytes_eqb (t_hash r) (Hs (t_tx r))
       && (t_index r =? pf_index p)
       && verify Hs (h_data_hash (lb_header l)) (Hs (t_tx r)) p
       (* against the chain: the body is a transaction of that block, and when the proof states
          the true number of leaves, it sits at the stated index *)
       && existsb (bytes_eqb (t_tx r)) txs
       && imp (pf_total p =? Z.of_nat (List.length txs)) at_index
    then (if at_index then 0%N else 2%N)       (* ... and it must sit at the stated index anyway *)
    else 1%N
  end.

Definition tx_verdict_v (clause : N) (n : N) : verdict :=
  match n with 0%N => V_ok | 2%N => V_known 41 | _ => V_violation clause end.

Fixpoint find_txs (blocks : list (Z * list string)) (h : Z) : list bytes :=
  match blocks with
  | [] => []
  | (h', txs) :: r => if h' =? h then map unhex txs else find_txs r h
  end.

Definition keys_opt_eqb (m : option (list bytes)) (i : option (list string)) : bool :=
  match m, i with
  | Some a, Some b => list_eqb bytes_eqb a (map unhex b)
  | None, None => true
  | _, _ => false
  end.

Definition check (c : case) : verdict :=
  match c with
  | CBlock o id_ok id_hash id_parts blk relayed_i calls_i honest =>
    let orc := mk_oracle o in
    let r := {| rb_id_ok := id_ok; rb_id_hash := unhex id_hash; rb_id_parts := mk_psh id_parts;
                rb_block := option_map mk_block blk |} in
    let '(calls_m, relayed_m) := relay_block Hs hh_x orc r in
    first_of [
      (* relayed => the block hashes to the verified header of its height, the id names it and is
         (hash and part-set header) the BlockID the verified commit is for, and its transactions
         are the ones that header commits to *)
      viol (imp relayed_i
              match rb_block r with
              | None => false
              | Some b =>
                match truth o (h_height (b_header b)) with
                | None => false
                | Some l =>
                  bytes_eqb (hh_x (b_header b)) (hh_x (lb_header l))
                  && bytes_eqb (rb_id_hash r) (hh_x (lb_header l))
                  && bytes_eqb (txs_root Hs (b_txs b)) (h_data_hash (lb_header l))
                  && bytes_eqb (rb_id_hash r) (lb_id_hash l)
                  && (ps_total (rb_id_parts r) =? ps_total (lb_id_parts l))
                  && bytes_eqb (ps_hash (rb_id_parts r)) (ps_hash (lb_id_parts l))
                end
              end) 1;
      viol (imp honest relayed_i) 9;
      mism (Bool.eqb relayed_m relayed_i) 21;
      mism (calls_eqb calls_m calls_i) 22 ]
  | CInfo o metas relayed_i calls_i honest =>
    let orc := mk_oracle o in
    let ms := map (option_map mk_meta) metas in
    let '(calls_m, relayed_m) := relay_info hh_x orc ms in
    first_of [
      viol (imp relayed_i
              (forallb (fun om => match om with
                                  | None => false
                                  | Some m => match truth o (h_height (m_header m)) with
                                              | None => false
                                              | Some l => bytes_eqb (hh_x (m_header m)) (hh_x (lb_header l))
                                                          && bytes_eqb (m_id_hash m) (hh_x (lb_header l))
                                                          && bytes_eqb (m_id_hash m) (lb_id_hash l)
                                                          && (ps_total (m_id_parts m) =? ps_total (lb_id_parts l))
                                                          && bytes_eqb (ps_hash (m_id_parts m)) (ps_hash (lb_id_parts l))
                                              end
                                  end) ms)) 2;
      viol (imp honest relayed_i) 9;
      mism (Bool.eqb relayed_m relayed_i) 23;
      mism (calls_eqb calls_m calls_i) 24 ]
  | CCommit o height ok_i out_i canon_i calls_i =>
    let orc := mk_oracle o in
    let '(calls_m, out_m) := relay_commit orc height in
    let want := match height with Some h => truth o h | None => want_latest orc end in
    first_of [
      viol (no_panic calls_i) 17;
      viol (imp ok_i match want with
                     | None => false
                     | Some l => bytes_eqb (unhex (fst out_i)) (hh_x (lb_header l))
                                 && bytes_eqb (unhex (snd out_i)) (lb_commit l) && canon_i
                     end) 7;
      viol (imp (match want with Some _ => true | None => false end) ok_i) 9;
      mism (match out_m with
            | None => negb ok_i
            | Some (h, cm) => ok_i && bytes_eqb (hh_x h) (unhex (fst out_i)) && bytes_eqb cm (unhex (snd out_i))
            end) 25;
      mism (calls_eqb calls_m calls_i) 26 ]
  | CVals o height pg pp ok_i out_i calls_i =>
    let orc := mk_oracle o in
    let '(calls_m, out_m) := relay_validators orc height pg pp in
    let want := match height with Some h => truth o h | None => want_latest orc end in
    let '(bh_i, vals_i, count_i, total_i) := out_i in
    let vs := map unhex vals_i in
    first_of [
      viol (no_panic calls_i) 17;
      (* the honest case: a light block is available and the requested page exists *)
      viol (imp (match want, height, pg with Some _, None, None => true | _, _, _ => false end) ok_i) 9;
      (* what is returned is a run of consecutive validators of the verified set of that height,
         at most maxPerPage of them, with the right totals *)
      viol (imp ok_i match want with
                     | None => false
                     | Some l => (bh_i =? h_height (lb_header l))
                                 && (total_i =? Z.of_nat (List.length (lb_vals l)))
                                 && (count_i =? Z.of_nat (List.length vs))
                                 && (count_i <=? lightrpc_max_per_page)
                                 && infix_at bytes_eqb vs (lb_vals l)
                     end) 8;
      mism (match out_m with
            | None => negb ok_i
            | Some (bh, v, tot) => ok_i && (bh =? bh_i) && list_eqb bytes_eqb v vs && (tot =? total_i)
                                   && (count_i =? Z.of_nat (List.length v))
            end) 27;
      mism (calls_eqb calls_m calls_i) 28 ]
  | CTx o prove rt block_txs relayed_i calls_i honest =>
    let orc := mk_oracle o in
    let r := mk_rtx rt in
    let txs := map unhex block_txs in
    let '(calls_m, relayed_m) := if prove then relay_tx Hs orc r else ([], true) in
    first_of [
      (* relayed with proof => the proof is for the relayed body, under the DataHash of the
         verified header at the response's height; hash and index describe that body, which is
         the transaction at that index of the chain's block (known finding 41 when only the last
         part fails, behind a proof that misstates the number of leaves) *)
      (if relayed_i && prove then tx_verdict_v 3 (tx_verdict o r txs) else V_ok);
      viol (imp honest relayed_i) 9;
      mism (Bool.eqb relayed_m relayed_i) 29;
      mism (calls_eqb calls_m calls_i) 30 ]
  | CSearch o prove rs blocks relayed_i calls_i honest =>
    let orc := mk_oracle o in
    let rs' := map (option_map mk_rtx) rs in
    let '(calls_m, relayed_m) := relay_search Hs orc prove rs' in
    let vs := map (fun x => match x with
                            | None => 0%N      (* a nil entry carries no data (the repaired client refuses it: observable 39) *)
                            | Some r => tx_verdict o r (find_txs blocks (t_height r))
                            end) rs' in
    first_of [
      (* relayed with proof => every returned transaction satisfies what a Tx answer must *)
      (if relayed_i && prove
       then (if existsb (N.eqb 1) vs then V_violation 12
             else if existsb (N.eqb 2) vs then V_known 41 else V_ok)
       else V_ok);
      viol (imp honest relayed_i) 9;
      mism (Bool.eqb relayed_m relayed_i) 39;
      mism (calls_eqb calls_m calls_i) 40 ]
  | CChainResults h rs state_lrh next_lrh =>
    let want := root Hs (map (fun x => dtx_enc (mk_dtx x)) rs) in
    (* the hash the next header commits to is the hash of THIS block's DeliverTx results *)
    viol (bytes_eqb want (unhex state_lrh) && bytes_eqb want (unhex next_lrh)) 16
  | CQuery o has_kpfn code qkey nops height value kp_ok vtab atab state_val vops relayed_i calls_i honest =>
    let orc := mk_oracle o in
    let r := {| q_code := code; q_key := unhex qkey; q_nops := nops; q_ops := []; q_height := height;
                q_value := option_map unhex value |} in
    let vv := fun (_ root _ _ : bytes) => lookup_tab vtab root in
    let va := fun (_ root _ : bytes) => lookup_tab atab root in
    let kp := fun (_ _ : bytes) => if kp_ok then Some [] else None in
    let '(calls_m, relayed_m) := relay_query vv va kp orc has_kpfn [] r in
    first_of [
      (* relayed => the value (or absence) is proven under the AppHash of the verified header at
         height+1 *)
      viol (imp relayed_i
              match truth o (height + 1) with
              | None => false
              | Some l => match value with
                          | Some _ => lookup_tab vtab (h_app_hash (lb_header l))
                          | None => lookup_tab atab (h_app_hash (lb_header l))
                          end
              end) 4;
      (* relayed => the application state the verified AppHash commits to holds exactly that
         value for that key (resp. does not hold the key) *)
      viol (imp relayed_i
              match state_val with
              | None => true
              | Some sv => match value, sv with
                           | Some v, Some w => bytes_eqb (unhex v) (unhex w)
                           | None, None => true
                           | _, _ => false
                           end
              end) 14;
      (* relayed on the strength of ValueOps => a root hash can be computed from every one of them *)
      viol (imp relayed_i
              match value, vops with
              | Some _, Some (ops, _) =>
                forallb (fun x : string * pft =>
                           let p := mk_proof (snd x) in
                           match from_aunts Hs (pf_index p) (pf_total p) (pf_leaf_hash p) (rev (pf_aunts p)) with
                           | Some _ => true | None => false end) ops
              | _, _ => true
              end) 15;
      viol (imp honest relayed_i) 9;
      (* the model of VerifyValue over ValueOps against what the runtime answered per root *)
      mism (match value, vops with
            | Some v, Some (ops, kps) =>
              let final := match key_path_to_keys (unhex kps) with
                           | None => None
                           | Some keys =>
                             match vops_run Hs (map (fun x : string * pft => {| vo_key := unhex (fst x); vo_proof := mk_proof (snd x) |}) ops)
                                            (rev keys) (unhex v) with
                             | Some ([], a) => Some a
                             | _ => None
                             end
                           end in
              forallb (fun e : string * bool =>
                         Bool.eqb (snd e) match final with Some a => bytes_eqb (unhex (fst e)) a | None => false end) vtab
            | _, _ => true
            end) 43;
      mism (Bool.eqb relayed_m relayed_i) 31;
      mism (calls_eqb calls_m calls_i) 32 ]
  | CParams o valid height max_bytes max_gas relayed_i calls_i honest =>
    let orc := mk_oracle o in
    let r := {| p_valid := valid; p_height := height; p_max_bytes := max_bytes; p_max_gas := max_gas |} in
    let '(calls_m, relayed_m) := relay_params Hs orc r in
    first_of [
      viol (imp relayed_i
              match truth o height with
              | None => false
              | Some l => bytes_eqb (Hs (hashed_params_enc max_bytes max_gas)) (h_consensus_hash (lb_header l))
              end) 5;
      viol (imp honest relayed_i) 9;
      mism (Bool.eqb relayed_m relayed_i) 33;
      mism (calls_eqb calls_m calls_i) 34 ]
  | CParamsReq o req answers asked_i relayed_i out_i calls_i honest =>
    let orc := mk_oracle o in
    let optz_eqb (a b : option Z) := match a, b with Some x, Some y => x =? y | None, None => true | _, _ => false end in
    let srv : params_server := fun q =>
      match find (fun e : option Z * option (bool * Z * Z * Z) => optz_eqb (fst e) q) answers with
      | Some (_, Some (v, ht, mb, mg)) => Some {| p_valid := v; p_height := ht; p_max_bytes := mb; p_max_gas := mg |}
      | _ => None
      end in
    let '(calls_m, asked_m, out_m) := relay_params_req Hs orc srv req in
    let '(ht_i, mb_i, mg_i) := out_i in
    first_of [
      viol (no_panic calls_i) 17;
      (* relayed => the parameters hash to the ConsensusHash of the verified header of the height they
         are labelled with *)
      viol (imp relayed_i
              match truth o ht_i with
              | None => false
              | Some l => bytes_eqb (Hs (hashed_params_enc mb_i mg_i)) (h_consensus_hash (lb_header l))
              end) 5;
      (* an honest full node answered (the way rpc/core answers) and the light client has the block
         to check it against => the parameters are returned; without a height that is clause 18 *)
      viol (imp honest relayed_i) (match req with None => 18 | Some _ => 9 end);
      mism (match out_m with
            | None => negb relayed_i
            | Some r => relayed_i && (p_height r =? ht_i) && (p_max_bytes r =? mb_i) && (p_max_gas r =? mg_i)
            end) 44;
      mism (list_eqb optz_eqb (match asked_m with Some q => [q] | None => [] end) asked_i) 45;
      mism (calls_eqb calls_m calls_i) 46 ]
  | CResults o req latest r_height rs relayed_i calls_i honest =>
    let orc := mk_oracle o in
    let ds := map mk_dtx rs in
    let h := match req with Some h => h | None => latest - 1 end in
    let '(calls_m, relayed_m) := relay_results Hs orc req latest r_height ds in
    first_of [
      (* relayed => the deterministic part of the results hashes to LastResultsHash of the
         verified header at h+1 *)
      viol (imp relayed_i
              match truth o (h + 1) with
              | None => false
              | Some l => bytes_eqb (root Hs (map dtx_enc ds)) (h_last_results_hash (lb_header l))
              end) 6;
      (* ... and carries the height that was asked for *)
      viol (imp relayed_i (r_height =? h)) 10;
      viol (imp honest relayed_i) 9;
      mism (Bool.eqb relayed_m relayed_i) 35;
      mism (calls_eqb calls_m calls_i) 36 ]
  | CKeyPath keys str_i dec_i =>
    let kp := map (fun x : string * bool => (unhex (fst x), if snd x then EncHex else EncURL)) keys in
    let names := map fst kp in
    first_of [
      (* what the implementation parses out of what it printed is the key path's keys *)
      viol (match keys with [] => true | _ =>
              match dec_i with
              | Some d => list_eqb bytes_eqb (map unhex d) names
              | None => false
              end end) 13;
      mism (bytes_eqb (kp_string kp) (unhex str_i)) 41;
      mism (keys_opt_eqb (key_path_to_keys (unhex str_i)) dec_i) 42 ]
  | CKeyDecode path dec_i =>
    mism (keys_opt_eqb (key_path_to_keys (unhex path)) dec_i) 42
  | CServed txs i p data_hash valid_i =>
    let ts := map unhex txs in
    let '(rt, dt, pf) := p in
    let tp := {| tp_root := unhex rt; tp_data := unhex dt; tp_proof := mk_proof pf |} in
    let tm := txs_proof Hs ts (Z.to_nat i) in
    first_of [
      (* the served proof validates against the block's data hash, and is for transaction i *)
      viol (valid_i && txproof_validate Hs (unhex data_hash) tp
            && match nth_error_z ts i with Some x => bytes_eqb x (tp_data tp) | None => false end
            && (pf_index (tp_proof tp) =? i)) 11;
      mism (bytes_eqb (txs_root Hs ts) (unhex data_hash)) 37;
      mism (bytes_eqb (tp_root tm) (tp_root tp) && bytes_eqb (tp_data tm) (tp_data tp)
            && proof_eqb (tp_proof tm) (tp_proof tp)) 38 ]
  end.
