(* C20 — The verifying RPC client relays an answer iff it matches light-verified headers.
   Only the property statements; each is closed by [exact] of a lemma of Proofs.v and followed
   by Print Assumptions.

   Reading guide.  [relay_X ... o resp] is the model of light/rpc Client.X (Model.v): it returns
   the light-client calls made and whether the server's answer [resp] is handed to the caller.
   [o] is the light client as an oracle: whatever [o_verify o h] / [o_trusted o h] / [o_update o]
   return IS "a header the light client has verified" (how it gets verified is C09).  [H] is
   SHA-256 and [hh] is Header.Hash, both arbitrary functions: where injectivity is needed the
   conclusion carries [Collision H] / [HCollision hh], built from the theorem's inputs.
   Proof operators (ProofRuntime.VerifyValue / VerifyAbsence) and the KeyPathFunc are arbitrary
   relations.

   Fields of the answers that nothing the light client verified commits to and that therefore
   stay unconstrained in every [Consistent_X] below: BlockMeta.BlockSize / NumTxs and
   ResultBlockchainInfo.LastHeight (and which metas are present); ResultTx.TxResult;
   ResultTxSearch.TotalCount and which transactions a search returns; Log / Info / Events /
   Codespace of every
   DeliverTx result, BeginBlock / EndBlock events, validator and parameter updates of
   ResultBlockResults; all consensus parameters except block.max_bytes and block.max_gas.
   BlockID.PartSetHeader IS committed to — by the commit inside the verified light block, whose
   signatures are over the whole BlockID — and is bound by repair F44.
   KNOWN FINDING F41 (not repaired): in ResultTx (Tx and TxSearch), Index is bound only relative
   to the proof's Total, and no verified data commits to the number of transactions of a block:
   C20_F41_index_not_bound exhibits the transaction at index 1 of a 2-transaction block relayed
   as Index = 2 (proof relabelled 2 of 3).  C20_tx_binds therefore assumes the true leaf count.
   Whether the answer is for the height / hash / key / query that was ASKED for is checked only
   by BlockResults: every other answer names its own height / hash / key, and it is that
   self-description which is verified.  BlockSearch, Tx / TxSearch without proof, Subscribe and
   the remaining methods are handed through unverified and are outside these theorems. *)
From Coq Require Import List ZArith NArith Bool.
From TM Require Import Common.Hex Common.Sha256 Generated.Consts C10.Model C10.Proofs C20.Model C20.Proofs.
Import ListNotations.
Open Scope Z_scope.

(* ---------------------------------------------------------------- Block / BlockByHash *)

(* relayed => the block's header hashes to the verified header of the block's height, the
   BlockID names it and is — hash and part-set header — the BlockID of the verified commit
   (repair F44), and the header's data / last-commit / evidence hashes are those of the block's
   own contents *)
Theorem C20_block_sound :
  forall (H : bytes -> bytes) (hh : header -> bytes) (o : oracle) (r : rblock),
    snd (relay_block H hh o r) = true -> Consistent_block H hh o r.
Proof. exact relay_block_sound. Qed.
Print Assumptions C20_block_sound.

(* ... hence the relayed block carries the verified header itself and exactly the transaction
   list its DataHash commits to *)
Theorem C20_block_binds :
  forall (H : bytes -> bytes) (hh : header -> bytes) (hlen : nat), (forall x, length (H x) = hlen) ->
  forall (o : oracle) (r : rblock),
    snd (relay_block H hh o r) = true ->
    exists b l, rb_block r = Some b /\ o_verify o (h_height (b_header b)) = Some l /\
      ((b_header b = lb_header l /\
        forall txs, txs_root H txs = h_data_hash (lb_header l) -> b_txs b = txs \/ Collision H)
       \/ HCollision hh).
Proof. exact relay_block_binds. Qed.
Print Assumptions C20_block_binds.

Theorem C20_block_complete :
  forall (H : bytes -> bytes) (hh : header -> bytes) (o : oracle) (l : lblock) (r : rblock),
    Honest_block H hh l r -> o_verify o (h_height (lb_header l)) = Some l ->
    snd (relay_block H hh o r) = true.
Proof. exact relay_block_complete. Qed.
Print Assumptions C20_block_complete.

(* ---------------------------------------------------------------- BlockchainInfo *)

Theorem C20_blockchain_sound :
  forall (hh : header -> bytes) (o : oracle) (metas : list (option meta)),
    snd (relay_info hh o metas) = true -> Forall (Consistent_meta hh o) metas.
Proof. exact relay_info_sound. Qed.
Print Assumptions C20_blockchain_sound.

(* honest metas — each the verified header of its height, with the BlockID naming it — are
   relayed (repair F37: before it, every height had to be in the light client's store already) *)
Theorem C20_blockchain_complete :
  forall (hh : header -> bytes) (o : oracle) (ms : list meta),
    Forall (Honest_meta hh o) ms -> snd (relay_info hh o (map Some ms)) = true.
Proof. exact relay_info_complete. Qed.
Print Assumptions C20_blockchain_complete.

(* ---------------------------------------------------------------- Commit / Validators *)

(* the server is not consulted: what is returned is the verified light block's own signed
   header, and it is returned whenever the light client delivers one *)
Theorem C20_commit_sound_complete :
  forall (o : oracle) (height : option Z),
    (forall hd cm, snd (relay_commit o height) = Some (hd, cm) ->
       exists l, snd (upd o height) = Some l /\ hd = lb_header l /\ cm = lb_commit l) /\
    (forall l, snd (upd o height) = Some l ->
       snd (relay_commit o height) = Some (lb_header l, lb_commit l)).
Proof. intros; split; [apply relay_commit_sound | apply relay_commit_complete]. Qed.
Print Assumptions C20_commit_sound_complete.

(* which light block that is: the verified block of the requested height; for "latest" the block
   Update returned or - repair F80 - the latest trusted block when Update has nothing newer (it
   then returns neither an error nor a block) *)
Theorem C20_latest_sound :
  forall (o : oracle) (height : option Z) (l : lblock),
    snd (upd o height) = Some l ->
    (exists h, height = Some h /\ o_verify o h = Some l) \/
    (height = None /\ (o_update o = UpdBlock l \/ (o_update o = UpdNone /\ o_trusted o 0 = Some l))).
Proof. exact upd_sound. Qed.
Print Assumptions C20_latest_sound.

(* ... and in that case the latest commit and validator set ARE answered (the unrepaired client
   dereferenced the missing block: C20_update_no_newer_block_refuted) *)
Theorem C20_latest_complete_without_newer_block :
  forall (o : oracle) (l : lblock),
    o_update o = UpdNone -> o_trusted o 0 = Some l ->
    snd (relay_commit o None) = Some (lb_header l, lb_commit l) /\
    forall pp, exists vs,
      snd (relay_validators o None None pp) = Some (h_height (lb_header l), vs, Z.of_nat (length (lb_vals l))).
Proof. exact latest_without_newer_block. Qed.
Print Assumptions C20_latest_complete_without_newer_block.

(* a page of validators is a run of consecutive members of the verified set of that height, at
   most maxPerPage long, labelled with the verified height and the true total *)
Theorem C20_validators_sound :
  forall (o : oracle) (height pg pp : option Z) (bh : Z) (vs : list bytes) (tot : Z),
    snd (relay_validators o height pg pp) = Some (bh, vs, tot) ->
    exists l, snd (upd o height) = Some l /\ bh = h_height (lb_header l) /\
      tot = Z.of_nat (length (lb_vals l)) /\
      (exists skip n : nat, vs = firstn n (skipn skip (lb_vals l))) /\
      Z.of_nat (length vs) <= lightrpc_max_per_page.
Proof. exact relay_validators_sound. Qed.
Print Assumptions C20_validators_sound.

(* ---------------------------------------------------------------- Tx (with proof) *)

(* relayed => the proof is valid for the relayed body under the DataHash of the verified header
   at the answer's height, and Hash / Index describe that body (repair F18) *)
Theorem C20_tx_sound :
  forall (H : bytes -> bytes) (o : oracle) (r : rtx),
    snd (relay_tx H o r) = true -> Consistent_tx H o r.
Proof. exact relay_tx_sound. Qed.
Print Assumptions C20_tx_sound.

(* ... hence, against any transaction list that DataHash commits to, when the proof states the
   true number of leaves the relayed body is the transaction at the relayed index *)
Theorem C20_tx_binds :
  forall (H : bytes -> bytes) (hlen : nat), (forall x, length (H x) = hlen) ->
  forall (o : oracle) (r : rtx),
    snd (relay_tx H o r) = true ->
    exists l, o_verify o (t_height r) = Some l /\
      forall txs, txs_root H txs = h_data_hash (lb_header l) ->
        pf_total (tp_proof (t_proof r)) = Z.of_nat (length txs) ->
        (0 <= t_index r < Z.of_nat (length txs) /\ nth_error txs (Z.to_nat (t_index r)) = Some (t_tx r))
        \/ Collision H.
Proof. exact relay_tx_binds. Qed.
Print Assumptions C20_tx_binds.

(* the answer rpc/core Tx builds for transaction i of a block is relayed *)
Theorem C20_tx_complete :
  forall (H : bytes -> bytes) (o : oracle) (l : lblock) (txs : list bytes) (ht : Z) (i : nat),
    0 < ht -> (i < length txs)%nat -> o_verify o ht = Some l ->
    h_data_hash (lb_header l) = txs_root H txs ->
    snd (relay_tx H o (honest_tx H txs ht i)) = true.
Proof. exact relay_tx_complete. Qed.
Print Assumptions C20_tx_complete.

(* ---------------------------------------------------------------- TxSearch (with proof) *)

(* repair F42: relayed with prove = true => every returned transaction is consistent the way a
   Tx answer is (the unrepaired client handed the answer through unverified) *)
Theorem C20_search_sound :
  forall (H : bytes -> bytes) (o : oracle) (rs : list (option rtx)),
    snd (relay_search H o true rs) = true -> Consistent_search H o rs.
Proof. exact relay_search_sound. Qed.
Print Assumptions C20_search_sound.

(* any list of answers built the way rpc/core builds them for transactions of verified blocks
   is relayed *)
Theorem C20_search_complete :
  forall (H : bytes -> bytes) (o : oracle) (prove : bool) (rs : list (option rtx)),
    Forall (Honest_result H o) rs -> snd (relay_search H o prove rs) = true.
Proof. exact relay_search_complete. Qed.
Print Assumptions C20_search_complete.

(* server side: the proof rpc/core Tx serves for (block, i) — types.Txs.Proof(i) — validates
   against the block's data hash (types.Txs.Hash), for every block and index *)
Theorem C20_served_proofs_verify :
  forall (H : bytes -> bytes) (txs : list bytes) (i : nat),
    (i < length txs)%nat -> txproof_validate H (txs_root H txs) (txs_proof H txs i) = true.
Proof. exact served_proof_validates. Qed.
Print Assumptions C20_served_proofs_verify.

(* ---------------------------------------------------------------- ABCIQuery *)

(* relayed => the value (resp. the absence of the key) is accepted by the proof operators under
   the AppHash of the verified header at height+1, for the key path built from the answer's key;
   and every such answer with code 0 and a non-empty proof is relayed *)
Theorem C20_query_sound :
  forall (vv : bytes -> bytes -> bytes -> bytes -> bool) (va : bytes -> bytes -> bytes -> bool)
         (kpf : bytes -> bytes -> option bytes) (o : oracle) (has_kpfn : bool) (path : bytes) (r : rquery),
    snd (relay_query vv va kpf o has_kpfn path r) = true -> Consistent_query vv va kpf o has_kpfn path r.
Proof. exact relay_query_sound. Qed.
Print Assumptions C20_query_sound.

Theorem C20_query_complete :
  forall (vv : bytes -> bytes -> bytes -> bytes -> bool) (va : bytes -> bytes -> bytes -> bool)
         (kpf : bytes -> bytes -> option bytes) (o : oracle) (has_kpfn : bool) (path : bytes) (r : rquery),
    q_code r = abci_code_type_ok -> q_nops r <> 0 ->
    Consistent_query vv va kpf o has_kpfn path r ->
    snd (relay_query vv va kpf o has_kpfn path r) = true.
Proof. exact relay_query_complete. Qed.
Print Assumptions C20_query_complete.

(* the key path the client prints from the store name and the answer's key (KeyPath.String) is
   parsed back by ProofOperators.Verify (KeyPathToKeys) into exactly those keys: for every
   non-empty key path, every byte string as a key, URL and hex encoding alike (repair F58: the
   unrepaired String printed a URL-encoded key starting with "x:" verbatim, which parses as a
   hex-encoded key - C20_F58_witness).  This is what makes "the proof operators accept the key
   path" in C20_query_sound a statement about the answer's own key. *)
Theorem C20_keypath_roundtrip :
  forall kp : list key,
    kp <> [] -> Forall (fun k => Forall (fun c => (c < 256)%N) (fst k)) kp ->
    key_path_to_keys (kp_string kp) = Some (map fst kp).
Proof. exact keypath_roundtrip. Qed.
Print Assumptions C20_keypath_roundtrip.

(* ... so two key paths that print alike name the same keys *)
Theorem C20_keypath_binds :
  forall kp kp' : list key,
    kp <> [] -> Forall (fun k => Forall (fun c => (c < 256)%N) (fst k)) kp ->
    Forall (fun k => Forall (fun c => (c < 256)%N) (fst k)) kp' ->
    kp_string kp = kp_string kp' -> map fst kp = map fst kp'.
Proof. exact kp_string_binds. Qed.
Print Assumptions C20_keypath_binds.

(* ProofOperators.VerifyValue over ValueOps (the operators of merkle.DefaultProofRuntime) accepts a
   value under a root only if the key path parses and every operator's Merkle proof VERIFIES in
   the sense of C10 - the root recomputed from index, total, leaf hash and aunts - for the leaf
   <operator key, hash of the previous result>, from the value up to the root (so the C10 binding
   theorems apply operator by operator) *)
Theorem C20_valueops_sound :
  forall (H : bytes -> bytes) (ops : list vop) (root kp value : bytes),
    vops_verify H ops root kp value = true ->
    exists keys, key_path_to_keys kp = Some keys /\ proved H ops value root.
Proof. exact vops_verify_sound. Qed.
Print Assumptions C20_valueops_sound.

(* repair F62: in particular the accepted root is a hash that was computed - an operator from
   which no root can be computed never "proves" anything, whatever the root (an empty AppHash
   included; the unrepaired ValueOp.Run returned nil, which bytes.Equal takes for the empty root) *)
Theorem C20_valueops_root_recomputed :
  forall (H : bytes -> bytes) (ops : list vop) (root kp value : bytes),
    ops <> [] -> vops_verify H ops root kp value = true ->
    exists op x, In op ops /\
      from_aunts H (pf_index (vo_proof op)) (pf_total (vo_proof op))
                 (leaf_hash H (kv_leaf H (vo_key op) x)) (rev (pf_aunts (vo_proof op))) = Some root.
Proof. exact vops_verify_root_recomputed. Qed.
Print Assumptions C20_valueops_root_recomputed.

(* ---------------------------------------------------------------- ConsensusParams *)

Theorem C20_params_sound_complete :
  forall (H : bytes -> bytes) (o : oracle) (r : rparams),
    (snd (relay_params H o r) = true -> Consistent_params H o r) /\
    (p_valid r = true -> Consistent_params H o r -> snd (relay_params H o r) = true).
Proof. intros; split; [apply relay_params_sound | apply relay_params_complete]. Qed.
Print Assumptions C20_params_sound_complete.

(* ---------------------------------------------------------------- BlockResults *)

(* relayed <=> the answer is labelled with the height asked for and the deterministic part of
   its DeliverTx results hashes to LastResultsHash of the verified header at that height + 1
   (repairs F11, F36); since state.ABCIResponsesResultsHash is that very hash, the honest
   answer is relayed *)
Theorem C20_results_sound_complete :
  forall (H : bytes -> bytes) (o : oracle) (req : option Z) (latest r_height : Z) (rs : list dtx),
    snd (relay_results H o req latest r_height rs) = true <-> Consistent_results H o req latest r_height rs.
Proof. intros; split; [apply relay_results_sound | apply relay_results_complete]. Qed.
Print Assumptions C20_results_sound_complete.

Theorem C20_results_determined :
  forall (H : bytes -> bytes) (hlen : nat), (forall x, length (H x) = hlen) ->
  forall rs rs' : list dtx,
    results_hash H rs = results_hash H rs' -> map dtx_enc rs = map dtx_enc rs' \/ Collision H.
Proof. exact results_determined. Qed.
Print Assumptions C20_results_determined.

(* ---- non-vacuity and documented limits, on concrete data with the real SHA-256 ---- *)

Definition ex_hh (h : header) : bytes :=
  sha256 (h_other h ++ h_data_hash h ++ h_consensus_hash h ++ h_app_hash h ++ h_last_results_hash h
          ++ h_last_commit_hash h ++ h_evidence_hash h ++ [Z.to_N (h_height h)]).
Definition ex_txs : list bytes := [[1%N]; [2%N; 3%N]; [4%N]].
Definition ex_rs : list dtx :=
  [ {| d_code := 0; d_data := [7%N]; d_gas_wanted := 5; d_gas_used := -1 |};
    {| d_code := 3; d_data := []; d_gas_wanted := 0; d_gas_used := 300 |} ].
Definition ex_hdr (ht : Z) (txs : list bytes) (lr : bytes) : header :=
  {| h_height := ht; h_last_commit_hash := [9%N]; h_data_hash := txs_root sha256 txs; h_evidence_hash := [8%N];
     h_consensus_hash := params_hash sha256 22020096 (-1); h_app_hash := [5%N];
     h_last_results_hash := lr; h_other := [1%N] |}.
Definition ex_parts : psh := {| ps_total := 1; ps_hash := [6%N; 6%N] |}.
Definition ex_lb (hd : header) (cm : bytes) (vals : list bytes) : lblock :=
  {| lb_header := hd; lb_commit := cm; lb_id_hash := ex_hh hd; lb_id_parts := ex_parts; lb_vals := vals |}.
Definition ex_l2 : lblock := ex_lb (ex_hdr 2 ex_txs []) [2%N] [[1%N]; [2%N]; [3%N]].
Definition ex_l3 : lblock := ex_lb (ex_hdr 3 [] (results_hash sha256 ex_rs)) [3%N] [[1%N]].
Definition ex_o : oracle :=
  {| o_verify := fun h => if h =? 2 then Some ex_l2 else if h =? 3 then Some ex_l3 else None;
     o_trusted := fun h => if h =? 2 then Some ex_l2 else None;
     o_update := UpdBlock ex_l3 |}.
Definition ex_block_p (txs : list bytes) (parts : psh) : rblock :=
  let b := {| b_header := ex_hdr 2 txs []; b_hdr_ok := true; b_lc_ok := true; b_lc_hash := [9%N];
              b_txs := txs; b_ev_ok := true; b_ev_hash := [8%N] |} in
  {| rb_id_ok := true; rb_id_hash := ex_hh (b_header b); rb_id_parts := parts; rb_block := Some b |}.
Definition ex_block (txs : list bytes) : rblock := ex_block_p txs ex_parts.

(* the honest block is relayed; the same block with one transaction replaced (data hash and
   block id recomputed by the liar) is not.  F44: the honest block under a BlockID with another
   part-set header (all the unrepaired client compared was the hash) is refused. *)
Example C20_block_nonvacuous_and_F44_witness :
  snd (relay_block sha256 ex_hh ex_o (ex_block ex_txs)) = true /\
  snd (relay_block sha256 ex_hh ex_o (ex_block [[1%N]; [2%N; 4%N]; [4%N]])) = false /\
  snd (relay_block sha256 ex_hh ex_o (ex_block_p ex_txs {| ps_total := 77; ps_hash := [6%N; 6%N] |})) = false /\
  snd (relay_block sha256 ex_hh ex_o (ex_block_p ex_txs {| ps_total := 1; ps_hash := [6%N; 7%N] |})) = false /\
  Honest_block sha256 ex_hh ex_l2 (ex_block ex_txs).
Proof.
  split; [vm_compute; reflexivity |]. split; [vm_compute; reflexivity |].
  split; [vm_compute; reflexivity |]. split; [vm_compute; reflexivity |].
  eexists; split; [reflexivity |].
  (* never [split] an equation between hashes: that is [eq_refl] by lazy conversion of SHA-256 *)
  repeat match goal with |- _ /\ _ => split end; vm_compute; reflexivity.
Qed.

(* the honest answer for transaction 1 is relayed.  F18: the answer carrying the body "forged"
   next to the genuine proof passes the proof validation — all the unrepaired client checked —
   and is refused by the repaired one *)
Example C20_tx_nonvacuous_and_F18_witness :
  let r := honest_tx sha256 ex_txs 2 1 in
  let forged := {| t_hash := t_hash r; t_height := 2; t_index := 1; t_tx := [102%N; 111%N]; t_proof := t_proof r |} in
  snd (relay_tx sha256 ex_o r) = true /\
  txproof_validate sha256 (h_data_hash (lb_header ex_l2)) (t_proof forged) = true /\
  snd (relay_tx sha256 ex_o forged) = false.
Proof. vm_compute. repeat split; reflexivity. Qed.

(* F42: a search answer holding the honest result for transaction 0 and the forged one of the
   example above is refused with prove = true (the unrepaired client relayed it, as the model
   still does for prove = false); the honest results of the block are relayed *)
Example C20_search_nonvacuous_and_F42_witness :
  let r0 := honest_tx sha256 ex_txs 2 0 in
  let r1 := honest_tx sha256 ex_txs 2 1 in
  let forged := {| t_hash := t_hash r1; t_height := 2; t_index := 1; t_tx := [102%N; 111%N]; t_proof := t_proof r1 |} in
  snd (relay_search sha256 ex_o true [Some r1; Some r0]) = true /\
  snd (relay_search sha256 ex_o true [Some r0; Some forged]) = false /\
  snd (relay_search sha256 ex_o true [Some r0; None]) = false /\
  snd (relay_search sha256 ex_o false [Some r0; Some forged]) = true.
Proof. vm_compute. repeat split; reflexivity. Qed.

(* KNOWN FINDING F41.  Nothing the light client verified commits to the number of transactions
   of a block, so the position is bound only together with the proof's Total.  The genuine proof
   of the transaction at index 1 of a 2-transaction block also validates relabelled as "index 2
   of 3" (same path shape: one aunt, to the left), and the answer carrying Index = 2 with that
   proof IS RELAYED by the (F18-repaired) client although the block has no transaction 2. *)
Example C20_F41_index_not_bound :
  let txs := [[1%N]; [2%N; 3%N]] in
  let l := ex_lb (ex_hdr 2 txs []) [2%N] [] in
  let o := {| o_verify := fun h => if h =? 2 then Some l else None; o_trusted := fun _ => None; o_update := UpdErr |} in
  let r := honest_tx sha256 txs 2 1 in
  let p := tp_proof (t_proof r) in
  let lie := {| t_hash := t_hash r; t_height := 2; t_index := 2; t_tx := t_tx r;
                t_proof := {| tp_root := tp_root (t_proof r); tp_data := tp_data (t_proof r);
                              tp_proof := {| pf_total := 3; pf_index := 2; pf_leaf_hash := pf_leaf_hash p;
                                             pf_aunts := pf_aunts p |} |} |} in
  snd (relay_tx sha256 o r) = true /\ snd (relay_tx sha256 o lie) = true /\ nth_error txs 2 = None.
Proof. vm_compute. repeat split; reflexivity. Qed.

(* relabellings far outside the tree: the split point of 2^32 + 1 leaves is 2^32, so the genuine
   proof of the last of three transactions (the right half of the tree) also validates as index
   2^32 of 2^32 + 1.  Its low 32 bits are 0: an answer "Index = 0" behind that proof is refused,
   because the comparison is made on the proof's full 64-bit index (a client that narrowed it to
   uint32 first would relay transaction 2 as transaction 0). *)
Example C20_index_compared_without_truncation :
  let r := honest_tx sha256 ex_txs 2 2 in
  let p := tp_proof (t_proof r) in
  let wide := {| tp_root := tp_root (t_proof r); tp_data := tp_data (t_proof r);
                 tp_proof := {| pf_total := 2 ^ 32 + 1; pf_index := 2 ^ 32; pf_leaf_hash := pf_leaf_hash p;
                                pf_aunts := pf_aunts p |} |} in
  let lie := {| t_hash := t_hash r; t_height := 2; t_index := 0; t_tx := t_tx r; t_proof := wide |} in
  txproof_validate sha256 (txs_root sha256 ex_txs) wide = true /\
  snd (relay_tx sha256 ex_o lie) = false /\ (2 ^ 32) mod 2 ^ 32 = t_index lie.
Proof. vm_compute. repeat split; reflexivity. Qed.

(* the same in the other direction: the genuine proof of the LAST of three transactions
   (index 2 of 3) also validates as "index 1 of 2".  This is why C20_tx_binds assumes the true
   leaf count. *)
Example C20_index_needs_total :
  let p := txs_proof sha256 ex_txs 2 in
  let q := {| tp_root := tp_root p; tp_data := tp_data p;
              tp_proof := {| pf_total := 2; pf_index := 1; pf_leaf_hash := pf_leaf_hash (tp_proof p);
                             pf_aunts := pf_aunts (tp_proof p) |} |} in
  txproof_validate sha256 (txs_root sha256 ex_txs) p = true /\
  txproof_validate sha256 (txs_root sha256 ex_txs) q = true.
Proof. vm_compute. split; reflexivity. Qed.

(* key paths on concrete data: "/acc/a+b/x:00FF2F" round-trips ('+' stays '+', '/' and ' ' are
   %-escaped, raw bytes in hex); the sibling keys "a+b" / "a b" and "a%2Fb" / "a/b" print
   differently.  F58: the URL-encoded key "x:6162" is printed "x%3A6162" and parses back; printed
   verbatim, as the unrepaired String did, it parses as the hex-encoded key "ab". *)
Example C20_keypath_nonvacuous_and_F58_witness :
  let acc := [97; 99; 99]%N in
  key_path_to_keys (kp_string [(acc, EncURL); ([97; 43; 98]%N, EncURL); ([0; 255; 47]%N, EncHex)])
    = Some [acc; [97; 43; 98]%N; [0; 255; 47]%N] /\
  kp_string [([97; 43; 98]%N, EncURL)] = [47; 97; 43; 98]%N /\
  kp_string [([97; 32; 98]%N, EncURL)] = [47; 97; 37; 50; 48; 98]%N /\
  kp_string [([97; 47; 98]%N, EncURL)] = [47; 97; 37; 50; 70; 98]%N /\
  kp_string [([97; 37; 50; 70; 98]%N, EncURL)] = [47; 97; 37; 50; 53; 50; 70; 98]%N /\
  kp_string [([120; 58; 54; 49; 54; 50]%N, EncURL)] = [47; 120; 37; 51; 65; 54; 49; 54; 50]%N /\
  key_path_to_keys [47; 120; 37; 51; 65; 54; 49; 54; 50]%N = Some [[120; 58; 54; 49; 54; 50]%N] /\
  key_path_to_keys [47; 120; 58; 54; 49; 54; 50]%N = Some [[97; 98]%N] /\
  key_path_to_keys [] = None /\ key_path_to_keys [47; 37; 52]%N = None /\ key_path_to_keys [47; 120; 58; 52]%N = None.
Proof. vm_compute. repeat split; reflexivity. Qed.

(* ValueOps on concrete data: the value [7] under key "k" in a one-leaf store "s" of a one-store
   application verifies against the computed application root and not against another value.
   F62: the same two operators with un-computable inner proofs (total 0; index 5 of 1) have NO
   root - C10 compute_root gives [] for them, Go's nil - and are refused against the EMPTY root,
   which the unrepaired code accepted for any value. *)
Example C20_valueops_nonvacuous_and_F62_witness :
  let k := [107%N] in let st := [115%N] in
  let leaf0 v := leaf_hash sha256 (kv_leaf sha256 k v) in
  let sroot v := leaf0 v in
  let leaf1 v := leaf_hash sha256 (kv_leaf sha256 st (sroot v)) in
  let op0 v tot idx := {| vo_key := k; vo_proof := {| pf_total := tot; pf_index := idx; pf_leaf_hash := leaf0 v; pf_aunts := [] |} |} in
  let op1 v tot idx := {| vo_key := st; vo_proof := {| pf_total := tot; pf_index := idx; pf_leaf_hash := leaf1 v; pf_aunts := [] |} |} in
  let kp := kp_string [(st, EncURL); (k, EncURL)] in
  let lie := [op0 [9%N] 0 0; {| vo_key := st; vo_proof := {| pf_total := 1; pf_index := 5;
                pf_leaf_hash := leaf_hash sha256 (kv_leaf sha256 st []); pf_aunts := [] |} |}] in
  vops_verify sha256 [op0 [7%N] 1 0; op1 [7%N] 1 0] (leaf1 [7%N]) kp [7%N] = true /\
  vops_verify sha256 [op0 [7%N] 1 0; op1 [7%N] 1 0] (leaf1 [7%N]) kp [9%N] = false /\
  vops_verify sha256 [op0 [7%N] 1 0; op1 [7%N] 1 0] [] kp [7%N] = false /\
  vops_verify sha256 lie [] kp [9%N] = false /\
  map (fun o => compute_root sha256 (vo_proof o)) lie = [[]; []].
Proof. vm_compute. repeat split; reflexivity. Qed.

(* F80.  The unrepaired updateLightClientIfNeededTo(nil) returned whatever Update returned, and
   Commit / Validators dereference it: transcribed with the third outcome of Update, "the honest
   answer is returned" is refuted by an oracle that merely has no newer block - the outcome is a
   panic - while the repaired transcription (Model.upd) answers with the latest trusted block. *)
Inductive outcome {A} := Refused | Panicked | Answered (a : A).
Definition commit_unrepaired (o : oracle) (height : option Z) : @outcome (header * bytes) :=
  match height with
  | Some h => match o_verify o h with Some l => Answered (lb_header l, lb_commit l) | None => Refused end
  | None => match o_update o with
            | UpdErr => Refused
            | UpdBlock l => Answered (lb_header l, lb_commit l)
            | UpdNone => Panicked                 (* *l.SignedHeader with l = nil *)
            end
  end.
Example C20_update_no_newer_block_refuted :
  let o := {| o_verify := o_verify ex_o; o_trusted := fun h => if (h =? 0) || (h =? 3) then Some ex_l3 else None;
              o_update := UpdNone |} in
  commit_unrepaired o None = Panicked /\
  relay_commit o None = ([CallUpdate; CallTrusted 0], Some (lb_header ex_l3, lb_commit ex_l3)) /\
  snd (relay_validators o None None None) = Some (3, [[1%N]], 1) /\
  (* no trusted block at all: refused, not a panic *)
  snd (relay_commit {| o_verify := o_verify ex_o; o_trusted := fun _ => None; o_update := UpdNone |} None) = None.
Proof. vm_compute. repeat split; reflexivity. Qed.

(* the honest results of block 2 are relayed against header 3; a changed gas figure or a wrong
   height label is refused.  F11: the hash the unrepaired client computed — the Merkle root of
   [BeginBlock events; results hash; EndBlock events] — differs from what the header commits to,
   even with no events at all, so the honest answer was refused. *)
Example C20_results_nonvacuous_and_F11_witness :
  snd (relay_results sha256 ex_o (Some 2) 3 2 ex_rs) = true /\
  snd (relay_results sha256 ex_o None 3 2 ex_rs) = true /\
  snd (relay_results sha256 ex_o (Some 2) 3 2 (tl ex_rs)) = false /\
  snd (relay_results sha256 ex_o (Some 2) 3 7 ex_rs) = false /\
  root sha256 [[]; results_hash sha256 ex_rs; []] <> h_last_results_hash (lb_header ex_l3).
Proof.
  split; [vm_compute; reflexivity |]. split; [vm_compute; reflexivity |].
  split; [vm_compute; reflexivity |]. split; [vm_compute; reflexivity |].
  vm_compute. discriminate.
Qed.

Example C20_params_info_validators_nonvacuous :
  snd (relay_params sha256 ex_o {| p_valid := true; p_height := 2; p_max_bytes := 22020096; p_max_gas := -1 |}) = true /\
  snd (relay_params sha256 ex_o {| p_valid := true; p_height := 2; p_max_bytes := 22020097; p_max_gas := -1 |}) = false /\
  (let m := {| m_id_ok := true; m_id_hash := ex_hh (lb_header ex_l2); m_id_parts := ex_parts; m_header := lb_header ex_l2 |} in
   snd (relay_info ex_hh ex_o [Some m]) = true /\
   snd (relay_info ex_hh ex_o [Some {| m_id_ok := true; m_id_hash := ex_hh (lb_header ex_l2); m_id_parts := ex_parts; m_header := lb_header ex_l3 |}]) = false /\
   (* F44 *)
   snd (relay_info ex_hh ex_o [Some {| m_id_ok := true; m_id_hash := ex_hh (lb_header ex_l2);
                                       m_id_parts := {| ps_total := 2; ps_hash := [6%N; 6%N] |}; m_header := lb_header ex_l2 |}]) = false) /\
  snd (relay_validators ex_o (Some 2) (Some 2) (Some 2)) = Some (2, [[3%N]], 3) /\
  snd (relay_validators ex_o (Some 2) (Some 3) (Some 2)) = None.
Proof. vm_compute. repeat split; reflexivity. Qed.

(* ---------------------------------------------------------------- ConsensusParams, with and without a height (repair F86) *)
From TM Require Import C20.LatestModel C20.LatestProofs.

(* The conversation is modelled (LatestModel.v): the server is a function from the request to its
   answer, and the honest server labels like rpc/core does - a request without a height is
   answered for store height + 1, the height of a block that does not exist yet.
   Soundness: what is returned carries parameters that hash to the ConsensusHash of a light block
   the oracle returned - with an explicit height the verified block of the answer's height (as
   C20_params_sound_complete), without one the light client's LATEST block (C20_latest_sound says
   where that comes from), whose height the answer is labelled with. *)
Theorem C20_params_latest_sound :
  forall (H : bytes -> bytes) (o : oracle) (srv : params_server) (req : option Z) (r : rparams),
    snd (relay_params_req H o srv req) = Some r -> Consistent_params_req H o req r.
Proof. exact params_req_sound. Qed.
Print Assumptions C20_params_latest_sound.

(* Completeness without a height, against the REAL server's labelling: if the light client has a
   latest block l of a height the node still serves (at most store height + 1) and l's
   ConsensusHash is the hash of the parameters in force at that height, the parameters of that
   height are returned (the unrepaired client refused every such answer: C20_params_latest_refuted) *)
Theorem C20_params_latest_complete :
  forall (H : bytes -> bytes) (o : oracle) (tip : Z) (params : Z -> Z * Z) (l : lblock),
    snd (upd o None) = Some l ->
    0 < h_height (lb_header l) <= tip + 1 ->
    params_hash H (fst (params (h_height (lb_header l)))) (snd (params (h_height (lb_header l))))
      = h_consensus_hash (lb_header l) ->
    snd (relay_params_req H o (honest_params_server tip params) None)
      = Some (honest_answer params (h_height (lb_header l))).
Proof. exact params_req_complete_latest. Qed.
Print Assumptions C20_params_latest_complete.

(* ... and with an explicit height, unchanged *)
Theorem C20_params_at_complete :
  forall (H : bytes -> bytes) (o : oracle) (tip : Z) (params : Z -> Z * Z) (h : Z) (l : lblock),
    o_verify o h = Some l -> 0 < h <= tip + 1 ->
    params_hash H (fst (params h)) (snd (params h)) = h_consensus_hash (lb_header l) ->
    snd (relay_params_req H o (honest_params_server tip params) (Some h)) = Some (honest_answer params h).
Proof. exact params_req_complete_at. Qed.
Print Assumptions C20_params_at_complete.

(* non-vacuity: store height 3, the light client's latest block is ex_l3; "latest" is returned as
   the parameters of height 3 after one request for height 3; a server that answers that request
   with other parameters, or with the genuine parameters labelled 2, is refused; an explicit
   height works as before *)
Example C20_params_latest_nonvacuous :
  let params := fun _ : Z => (22020096, -1) in
  let srv := honest_params_server 3 params in
  relay_params_req sha256 ex_o srv None = ([CallUpdate], Some (Some 3), Some (honest_answer params 3)) /\
  snd (relay_params_req sha256 ex_o (fun _ => Some {| p_valid := true; p_height := 3; p_max_bytes := 1; p_max_gas := -1 |}) None) = None /\
  snd (relay_params_req sha256 ex_o (fun _ => Some (honest_answer params 2)) None) = None /\
  snd (relay_params_req sha256 ex_o srv (Some 2)) = Some (honest_answer params 2) /\
  srv None = Some (honest_answer params 4).
Proof. vm_compute. repeat split; reflexivity. Qed.

(* F86, the regression witness: the unrepaired method passes "no height" on, the honest node
   answers for store height + 1 = 4, and the light client has no header 4 to offer - refused,
   whatever the chain, while the control with an explicit height is relayed *)
Example C20_params_latest_refuted :
  let params := fun _ : Z => (22020096, -1) in
  let srv := honest_params_server 3 params in
  relay_params_unrepaired sha256 ex_o srv None = ([CallVerify 4], Some None, None) /\
  snd (relay_params_unrepaired sha256 ex_o srv (Some 3)) = Some (honest_answer params 3) /\
  (forall o tip p, 0 <= tip -> o_verify o (tip + 1) = None ->
     snd (relay_params_unrepaired sha256 o (honest_params_server tip p) None) = None).
Proof.
  split; [vm_compute; reflexivity |]. split; [vm_compute; reflexivity |].
  intros; apply unrepaired_refuses_latest; assumption.
Qed.
