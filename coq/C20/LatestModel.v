(* C20 — Client.ConsensusParams with and without a height (light/rpc/client.go), as it is AFTER
   repair F86, and the full node's side of the conversation (rpc/core/consensus.go ConsensusParams,
   rpc/core/env.go getHeight / latestUncommittedHeight).  No proofs in this file.

   The exchange is a conversation: which height the client puts in its request decides what the
   server answers, so the server is a FUNCTION from requests to answers here (Model.relay_params
   takes one fixed answer: that abstraction hid F86).

   F86.  A request without a height is answered by rpc/core for latestUncommittedHeight() = store
   height + 1: the parameters the NEXT block will be made under, labelled with the height of a
   block that does not exist yet.  The unrepaired client asked the light client for the header of
   that label and failed on every honest answer.  Repaired: for a request without a height the
   client first brings the light client to its latest block (updateLightClientIfNeededTo(nil),
   with the F80 fallback), asks the server for THAT height, requires the answer to be labelled
   with it, and compares the hash with that block's ConsensusHash. *)
From Coq Require Import List ZArith NArith Bool.
From TM Require Import Common.Hex Generated.Consts C10.Model C20.Model.
Import ListNotations.
Open Scope Z_scope.

(* the full node: request (None = no height) -> answer (None = error) *)
Definition params_server := option Z -> option rparams.

Section L.
Variable H : bytes -> bytes.

(* Client.ConsensusParams(ctx, height) after F86.  Result: light-client calls, the request sent to
   the server (None: none was sent), the answer relayed (None: an error is returned). *)
Definition relay_params_req (o : oracle) (srv : params_server) (req : option Z)
  : list call * option (option Z) * option rparams :=
  match req with
  | Some h =>
    match srv (Some h) with
    | None => ([], Some (Some h), None)
    | Some r => let '(cs, ok) := relay_params H o r in (cs, Some (Some h), if ok then Some r else None)
    end
  | None =>
    let '(cs, ol) := upd o None in
    match ol with
    | None => (cs, None, None)
    | Some l =>
      let ht := h_height (lb_header l) in
      match srv (Some ht) with
      | None => (cs, Some (Some ht), None)
      | Some r =>
        (cs, Some (Some ht),
         if negb (p_valid r) then None
         else if p_height r <=? 0 then None
         else if negb (p_height r =? ht) then None                     (* the answer is for the height asked *)
         else if bytes_eqb (params_hash H (p_max_bytes r) (p_max_gas r)) (h_consensus_hash (lb_header l))
              then Some r else None)
      end
    end
  end.

(* the unrepaired method: the caller's height (or none) goes to the server as it is, and the light
   client is asked for the header of the ANSWER's label *)
Definition relay_params_unrepaired (o : oracle) (srv : params_server) (req : option Z)
  : list call * option (option Z) * option rparams :=
  match srv req with
  | None => ([], Some req, None)
  | Some r => let '(cs, ok) := relay_params H o r in (cs, Some req, if ok then Some r else None)
  end.

End L.

(* rpc/core ConsensusParams over a chain whose block store is at height [tip] (node not syncing):
   getHeight(latestUncommittedHeight(), heightPtr) - no height means tip + 1, an explicit height
   must be in 1 .. tip + 1 - and the answer is labelled with the height it is for.  [params h] =
   (block.max_bytes, block.max_gas) in force for block h (state store LoadConsensusParams). *)
Definition honest_params_server (tip : Z) (params : Z -> Z * Z) : params_server :=
  fun req =>
    let h := match req with Some h => h | None => tip + 1 end in
    if (h <=? 0) || (h >? tip + 1) then None
    else Some {| p_valid := true; p_height := h; p_max_bytes := fst (params h); p_max_gas := snd (params h) |}.
