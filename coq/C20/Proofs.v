(* C20 — proofs about the model of the verifying RPC client (Model.v).  Soundness: whatever a
   relay function lets through is tied, hash by hash, to a light block the oracle (the light
   client) returned.  Completeness: the answer an honest node gives for a well-formed chain is
   let through.  Merkle facts come from C10. *)
From Coq Require Import List ZArith NArith Bool Lia.
From TM Require Import Common.Hex Generated.Consts C10.Model C10.Proofs C20.Model.
Import ListNotations.
Open Scope Z_scope.

Definition HCollision (hh : header -> bytes) : Prop := exists a b, a <> b /\ hh a = hh b.

Lemma bytes_eq_dec : forall a b : bytes, {a = b} + {a <> b}.
Proof. apply list_eq_dec. apply N.eq_dec. Qed.

Lemma header_eq_dec : forall a b : header, {a = b} + {a <> b}.
Proof. decide equality; try apply bytes_eq_dec; apply Z.eq_dec. Qed.

Lemma hh_inj_or (hh : header -> bytes) a b : hh a = hh b -> a = b \/ HCollision hh.
Proof.
  intro E. destruct (header_eq_dec a b) as [e | n]; [left; exact e | right; exists a, b; auto].
Qed.

Lemma beq_true a b : bytes_eqb a b = true -> a = b.
Proof. apply bytes_eqb_eq. Qed.

Lemma negb_beq_false a b : negb (bytes_eqb a b) = false -> a = b.
Proof. intro E. apply negb_false_iff in E. apply beq_true; exact E. Qed.

Lemma psh_eqb_eq a b : psh_eqb a b = true <-> a = b.
Proof.
  unfold psh_eqb. destruct a as [ta ha], b as [tb hb]; cbn. split.
  - intro E. apply andb_true_iff in E as [E1 E2]. apply Z.eqb_eq in E1. apply beq_true in E2. congruence.
  - intro E. injection E as -> ->. rewrite Z.eqb_refl, bytes_eqb_refl. reflexivity.
Qed.

(* BlockID.Equals with the verified commit's BlockID *)
Lemma id_matches_eq l ih ip : id_matches l ih ip = true <-> ih = lb_id_hash l /\ ip = lb_id_parts l.
Proof.
  unfold id_matches. rewrite andb_true_iff, psh_eqb_eq. split; intros [A B]; split; auto.
  - apply beq_true; exact A.
  - rewrite A. apply bytes_eqb_refl.
Qed.

Ltac brk :=
  repeat match goal with
  | H : context [if ?c then _ else _] |- _ => destruct c eqn:?; try discriminate H
  | H : context [match ?c with Some _ => _ | None => _ end] |- _ => destruct c eqn:?; try discriminate H
  end.

Section KeyPaths.
Local Open Scope N_scope.

(* ------------------------------------------------------------------ key paths *)

Definition byte_ok (c : N) : Prop := c < 256.
Definition key_ok (k : key) : Prop := Forall byte_ok (fst k).

Lemma unhex_hexdig d : d < 16 -> unhexdig (hexdig d) = Some d.
Proof.
  intro Hd. unfold hexdig, unhexdig.
  destruct (N.ltb_spec d 10).
  - assert ((48 <=? 48 + d) && (48 + d <=? 57) = true) as ->.
    { apply andb_true_iff; split; apply N.leb_le; lia. }
    f_equal; lia.
  - assert ((48 <=? 55 + d) && (55 + d <=? 57) = false) as ->.
    { apply andb_false_iff; right; apply N.leb_gt; lia. }
    assert ((97 <=? 55 + d) && (55 + d <=? 102) = false) as ->.
    { apply andb_false_iff; left; apply N.leb_gt; lia. }
    assert ((65 <=? 55 + d) && (55 + d <=? 70) = true) as ->.
    { apply andb_true_iff; split; apply N.leb_le; lia. }
    f_equal; lia.
Qed.

Lemma hexdig_not_slash d : hexdig d <> 47.
Proof. unfold hexdig. destruct (d <? 10); lia. Qed.

Lemma byte_split c : byte_ok c -> c / 16 < 16 /\ c mod 16 < 16 /\ 16 * (c / 16) + c mod 16 = c.
Proof.
  unfold byte_ok; intro Hc. repeat split.
  - apply N.div_lt_upper_bound; lia.
  - apply N.mod_lt; lia.
  - symmetry; apply N.div_mod; lia.
Qed.

Lemma hex_roundtrip (b : bytes) : Forall byte_ok b -> hex_decode (hex_encode b) = Some b.
Proof.
  induction 1 as [| c r Hc _ IH]; [reflexivity |].
  destruct (byte_split c Hc) as (A & B & E).
  cbn [hex_encode hex_decode]. rewrite (unhex_hexdig _ A), (unhex_hexdig _ B), IH, E. reflexivity.
Qed.

Lemma no_escape_plain c : should_escape c = false -> c <> 37 /\ c <> 47.
Proof.
  intro E. split; intro; subst c; vm_compute in E; discriminate.
Qed.

Lemma url_roundtrip (b : bytes) : Forall byte_ok b -> path_unescape (path_escape b) = Some b.
Proof.
  induction 1 as [| c r Hc _ IH]; [reflexivity |].
  cbn [path_escape]. destruct (should_escape c) eqn:Es.
  - destruct (byte_split c Hc) as (A & B & E).
    cbn [path_unescape]. rewrite N.eqb_refl, (unhex_hexdig _ A), (unhex_hexdig _ B), IH, E. reflexivity.
  - destruct (no_escape_plain c Es) as [N1 _].
    cbn [path_unescape]. apply N.eqb_neq in N1. rewrite N1, IH. reflexivity.
Qed.

Definition no_slash (s : bytes) : Prop := Forall (fun c => c <> 47) s.

Lemma path_escape_no_slash (b : bytes) : no_slash (path_escape b).
Proof.
  induction b as [| c r IH]; [constructor |].
  cbn [path_escape]. destruct (should_escape c) eqn:Es.
  - repeat constructor; auto using hexdig_not_slash. lia.
  - constructor; [apply (no_escape_plain c Es) | exact IH].
Qed.

Lemma hex_encode_no_slash (b : bytes) : no_slash (hex_encode b).
Proof. induction b; cbn [hex_encode]; repeat constructor; auto using hexdig_not_slash. Qed.

Lemma no_slash_skipn n s : no_slash s -> no_slash (skipn n s).
Proof.
  revert s; induction n as [| n IH]; intros s Hs; [exact Hs |].
  destruct s; [constructor |]. inversion Hs; subst. cbn. apply IH; assumption.
Qed.

Lemma encode_key_no_slash k : no_slash (encode_key k).
Proof.
  unfold encode_key. destruct (snd k).
  - cbv zeta. destruct (has_x_prefix _).
    + repeat constructor; try lia. apply no_slash_skipn, path_escape_no_slash.
    + apply path_escape_no_slash.
  - repeat constructor; try lia. apply hex_encode_no_slash.
Qed.

Lemma split_no_slash p : no_slash p -> split_slash p = [p].
Proof.
  induction 1 as [| c r Hc _ IH]; [reflexivity |].
  cbn [split_slash]. rewrite IH. apply N.eqb_neq in Hc. rewrite Hc. reflexivity.
Qed.

Lemma split_app p rest : no_slash p -> split_slash (p ++ 47 :: rest) = p :: split_slash rest.
Proof.
  induction 1 as [| c r Hc _ IH].
  - cbn [app split_slash]. rewrite N.eqb_refl. reflexivity.
  - cbn [app split_slash]. rewrite IH. apply N.eqb_neq in Hc. rewrite Hc. reflexivity.
Qed.

(* the parts KeyPathToKeys cuts the printed path into are the printed keys *)
Lemma split_kp_string k (kp : list key) :
  split_slash (encode_key k ++ kp_string kp) = map encode_key (k :: kp).
Proof.
  revert k; induction kp as [| k' r IH]; intro k.
  - cbn [kp_string map]. rewrite app_nil_r. apply split_no_slash, encode_key_no_slash.
  - cbn [kp_string]. rewrite split_app by apply encode_key_no_slash. rewrite IH. reflexivity.
Qed.

Lemma has_x_prefix_spec s : has_x_prefix s = true -> exists r, s = 120 :: 58 :: r.
Proof.
  destruct s as [| a [| b r]]; cbn; try discriminate.
  intro E. apply andb_true_iff in E as [A B]. apply N.eqb_eq in A, B. subst. eauto.
Qed.

Lemma decode_encode k : key_ok k -> decode_part (encode_key k) = Some (fst k).
Proof.
  unfold key_ok, encode_key, decode_part. destruct k as [name [|]]; cbn [fst snd]; intro Hk.
  - cbv zeta. pose proof (url_roundtrip name Hk) as R.
    destruct (has_x_prefix (path_escape name)) eqn:Ex.
    + destruct (has_x_prefix_spec _ Ex) as [r Er]. rewrite Er in R |- *.
      cbn [skipn]. cbn [has_x_prefix]. replace ((120 =? 120) && (37 =? 58)) with false by reflexivity.
      cbn [path_unescape] in R |- *.
      replace (120 =? 37) with false in * by reflexivity.
      replace (58 =? 37) with false in R by reflexivity.
      replace (37 =? 37) with true by reflexivity.
      replace (unhexdig 51) with (Some 3) by reflexivity.
      replace (unhexdig 65) with (Some 10) by reflexivity.
      replace (16 * 3 + 10) with 58 by reflexivity. exact R.
    + rewrite Ex. exact R.
  - cbn [has_x_prefix]. replace ((120 =? 120) && (58 =? 58)) with true by reflexivity.
    cbn [skipn]. apply hex_roundtrip; exact Hk.
Qed.

Lemma map_opt_decode (kp : list key) :
  Forall key_ok kp -> map_opt decode_part (map encode_key kp) = Some (map fst kp).
Proof.
  induction 1 as [| k r Hk _ IH]; [reflexivity |].
  cbn [map map_opt]. rewrite (decode_encode k Hk), IH. reflexivity.
Qed.

(* KeyPathToKeys (KeyPath.String kp) = the keys of kp: every non-empty key path, every byte
   string as a key, both encodings *)
Lemma keypath_roundtrip (kp : list key) :
  kp <> [] -> Forall key_ok kp -> key_path_to_keys (kp_string kp) = Some (map fst kp).
Proof.
  destruct kp as [| k r]; [congruence |]. intros _ Hk.
  cbn [kp_string key_path_to_keys]. rewrite N.eqb_refl, split_kp_string. apply map_opt_decode; exact Hk.
Qed.

(* hence printing is injective on the keys: two key paths printed alike name the same keys,
   whatever encodings they use *)
Lemma kp_string_binds (kp kp' : list key) :
  kp <> [] -> Forall key_ok kp -> Forall key_ok kp' ->
  kp_string kp = kp_string kp' -> map fst kp = map fst kp'.
Proof.
  intros Hn Hk Hk' E.
  assert (Hn' : kp' <> []). { intro; subst kp'. destruct kp; [congruence | discriminate]. }
  pose proof (keypath_roundtrip kp Hn Hk) as R. rewrite E, (keypath_roundtrip kp' Hn' Hk') in R.
  congruence.
Qed.

End KeyPaths.

Section P.
Variable H : bytes -> bytes.
Variable hh : header -> bytes.
Variable verify_value : bytes -> bytes -> bytes -> bytes -> bool.
Variable verify_absence : bytes -> bytes -> bytes -> bool.
Variable key_path : bytes -> bytes -> option bytes.

(* ------------------------------------------------------------------ Merkle helpers *)

Lemma map_H_inj (a b : list bytes) : map H a = map H b -> a = b \/ Collision H.
Proof.
  revert b; induction a as [|x a IH]; destruct b as [|y b]; cbn; intro E; try discriminate.
  - left; reflexivity.
  - injection E as E1 E2. destruct (IH _ E2) as [-> | C]; [| right; exact C].
    destruct (bytes_eq_dec x y) as [-> | n]; [left; reflexivity | right; exists x, y; auto].
Qed.

Lemma txs_root_inj (hlen : nat) (Hl : forall x, length (H x) = hlen) (a b : list bytes) :
  txs_root H a = txs_root H b -> a = b \/ Collision H.
Proof.
  unfold txs_root; intro E.
  destruct (root_injective H hlen Hl _ _ E) as [E' | C]; [apply map_H_inj; exact E' | right; exact C].
Qed.

(* Txs.Proof(i).Validate(Txs.Hash()) = nil: what rpc/core Tx serves validates *)
Lemma served_proof_validates (txs : list bytes) (i : nat) :
  (i < length txs)%nat -> txproof_validate H (txs_root H txs) (txs_proof H txs i) = true.
Proof.
  intro Hi. unfold txproof_validate, txs_proof; cbn [tp_root tp_data tp_proof].
  rewrite bytes_eqb_refl; cbn [negb].
  unfold proof_of; cbn [pf_index pf_total].
  assert (Z.of_nat i <? 0 = false) as -> by (apply Z.ltb_ge; lia).
  rewrite map_length.
  assert (Z.of_nat (length txs) <=? 0 = false) as -> by (apply Z.leb_gt; lia).
  assert (E : H (nth i txs []) = nth i (map H txs) []).
  { rewrite (nth_indep (map H txs) [] (H [])) by (rewrite map_length; exact Hi).
    symmetry; apply map_nth. }
  rewrite E. unfold txs_root.
  pose proof (proof_complete H (map H txs) i) as PC. rewrite map_length in PC.
  unfold proof_of in PC. rewrite map_length in PC. apply PC; exact Hi.
Qed.

(* ------------------------------------------------------------------ Block / BlockByHash *)

Definition Consistent_block (o : oracle) (r : rblock) : Prop :=
  exists b l,
    rb_block r = Some b /\ o_verify o (h_height (b_header b)) = Some l /\
    hh (b_header b) = hh (lb_header l) /\ rb_id_hash r = hh (lb_header l) /\
    h_data_hash (b_header b) = txs_root H (b_txs b) /\
    h_last_commit_hash (b_header b) = b_lc_hash b /\
    h_evidence_hash (b_header b) = b_ev_hash b /\
    (* repair F44: the whole BlockID is the one the verified commit is for *)
    rb_id_hash r = lb_id_hash l /\ rb_id_parts r = lb_id_parts l.

Lemma relay_block_sound o r : snd (relay_block H hh o r) = true -> Consistent_block o r.
Proof.
  unfold relay_block. intro R.
  destruct (rb_id_ok r); cbn [negb] in R; [| discriminate].
  destruct (rb_block r) as [b|] eqn:Eb; [| discriminate].
  destruct (block_validate_basic H b) eqn:Ev; cbn [negb] in R; [| discriminate].
  destruct (bytes_eqb (rb_id_hash r) (hh (b_header b))) eqn:Ei; cbn [negb] in R; [| discriminate].
  destruct (o_verify o (h_height (b_header b))) as [l|] eqn:El; [| discriminate]. cbn [snd] in R.
  destruct (bytes_eqb (hh (b_header b)) (hh (lb_header l))) eqn:Eh; cbn [negb] in R; [| discriminate].
  apply id_matches_eq in R as [R1 R2]. apply beq_true in Ei, Eh.
  unfold block_validate_basic in Ev. brk.
  exists b, l. repeat split; auto using negb_beq_false, beq_true.
  rewrite Ei; exact Eh.
Qed.

(* the relayed block carries the verified header itself and exactly the transactions that
   header commits to — or a collision is exhibited *)
Lemma relay_block_binds (hlen : nat) (Hl : forall x, length (H x) = hlen) o r :
  snd (relay_block H hh o r) = true ->
  exists b l, rb_block r = Some b /\ o_verify o (h_height (b_header b)) = Some l /\
    ((b_header b = lb_header l /\
      forall txs, txs_root H txs = h_data_hash (lb_header l) -> b_txs b = txs \/ Collision H)
     \/ HCollision hh).
Proof.
  intro R. destruct (relay_block_sound _ _ R) as (b & l & Eb & El & Eh & _ & Ed & _).
  exists b, l. split; [exact Eb | split; [exact El |]].
  destruct (hh_inj_or hh _ _ Eh) as [E | C]; [left | right; exact C].
  split; [exact E |]. intros txs Et. rewrite <- E in Et. rewrite Ed in Et.
  apply (txs_root_inj hlen Hl). symmetry; exact Et.
Qed.

Definition Honest_block (l : lblock) (r : rblock) : Prop :=
  exists b, rb_block r = Some b /\ b_header b = lb_header l /\
    rb_id_ok r = true /\ rb_id_hash r = hh (lb_header l) /\
    rb_id_hash r = lb_id_hash l /\ rb_id_parts r = lb_id_parts l /\
    b_hdr_ok b = true /\ b_lc_ok b = true /\ b_ev_ok b = true /\
    h_last_commit_hash (b_header b) = b_lc_hash b /\
    h_data_hash (b_header b) = txs_root H (b_txs b) /\
    h_evidence_hash (b_header b) = b_ev_hash b.

Lemma relay_block_complete o l r :
  Honest_block l r -> o_verify o (h_height (lb_header l)) = Some l ->
  snd (relay_block H hh o r) = true.
Proof.
  intros (b & Eb & Eh & Eok & Eid & Eih & Eip & E1 & E2 & E3 & E4 & E5 & E6) Ho.
  unfold relay_block. rewrite Eok, Eb; cbn [negb].
  unfold block_validate_basic. rewrite E1, E2, E3, E4, E5, E6. rewrite !bytes_eqb_refl. cbn [negb].
  rewrite Eid, Eh, bytes_eqb_refl. cbn [negb]. rewrite Ho. cbn [snd]. rewrite bytes_eqb_refl. cbn [negb].
  apply id_matches_eq. split; [rewrite <- Eid; exact Eih | exact Eip].
Qed.

(* ------------------------------------------------------------------ BlockchainInfo *)

Definition Consistent_meta (o : oracle) (om : option meta) : Prop :=
  exists m l, om = Some m /\ o_verify o (h_height (m_header m)) = Some l /\
    hh (m_header m) = hh (lb_header l) /\ m_id_hash m = hh (lb_header l) /\
    (* repair F44 *)
    m_id_hash m = lb_id_hash l /\ m_id_parts m = lb_id_parts l.

Definition meta_verified (o : oracle) (m : meta) : Prop :=
  exists l, o_verify o (h_height (m_header m)) = Some l /\
            hh (m_header m) = hh (lb_header l) /\
            m_id_hash m = lb_id_hash l /\ m_id_parts m = lb_id_parts l.

Lemma check_metas_sound o ms :
  snd (check_metas hh o ms) = true -> Forall (meta_verified o) ms.
Proof.
  induction ms as [|m ms IH]; cbn [check_metas]; intro R; [constructor |].
  destruct (o_verify o (h_height (m_header m))) as [l|] eqn:El; [| discriminate].
  destruct (bytes_eqb (hh (m_header m)) (hh (lb_header l))) eqn:Eh; cbn [andb] in R; [| discriminate].
  destruct (id_matches l (m_id_hash m) (m_id_parts m)) eqn:Ei; [| discriminate].
  destruct (check_metas hh o ms) as [cs ok]; cbn [snd] in *.
  apply id_matches_eq in Ei as [Ei1 Ei2].
  constructor; [exists l; repeat split; auto; apply beq_true; exact Eh | apply IH; exact R].
Qed.

Lemma metas_lift o metas :
  forallb (fun om => match om with Some m => meta_validate_basic hh m | None => false end) metas = true ->
  Forall (meta_verified o) (some_metas metas) ->
  Forall (Consistent_meta o) metas.
Proof.
  induction metas as [|om metas IH]; cbn; intros V F; [constructor |].
  apply andb_true_iff in V as [V1 V2]. destruct om as [m|]; [| discriminate].
  cbn in F. inversion F as [| ? ? (l & El & Eh & Ei1 & Ei2) F']; subst.
  constructor; [| apply IH; assumption].
  exists m, l. repeat split; auto.
  unfold meta_validate_basic in V1. destruct (m_id_ok m); cbn in V1; [| discriminate].
  apply beq_true in V1. rewrite V1; exact Eh.
Qed.

Lemma relay_info_sound o metas :
  snd (relay_info hh o metas) = true -> Forall (Consistent_meta o) metas.
Proof.
  unfold relay_info. intro R.
  destruct (forallb _ metas) eqn:V; cbn [negb] in R; [| discriminate].
  apply metas_lift; [exact V |].
  destruct (rev (some_metas metas)) as [|ml rest] eqn:Er.
  - assert (some_metas metas = []) as ->; [| constructor].
    rewrite <- (rev_involutive (some_metas metas)), Er; reflexivity.
  - destruct (o_verify o (h_height (m_header ml))); [| discriminate].
    apply check_metas_sound. destruct (check_metas hh o (some_metas metas)); exact R.
Qed.

Definition Honest_meta (o : oracle) (m : meta) : Prop :=
  m_id_ok m = true /\ m_id_hash m = hh (m_header m) /\
  exists l, o_verify o (h_height (m_header m)) = Some l /\ m_header m = lb_header l /\
            m_id_hash m = lb_id_hash l /\ m_id_parts m = lb_id_parts l.

Lemma check_metas_complete o ms : Forall (Honest_meta o) ms -> snd (check_metas hh o ms) = true.
Proof.
  induction 1 as [| m ms (_ & _ & l & El & Eh & Ei1 & Ei2) _ IH]; cbn [check_metas]; [reflexivity |].
  rewrite El, Eh, bytes_eqb_refl.
  assert (id_matches l (m_id_hash m) (m_id_parts m) = true) as -> by (apply id_matches_eq; auto).
  cbn [andb]. destruct (check_metas hh o ms); exact IH.
Qed.

(* honest metas — each the verified header of its height — are relayed *)
Lemma relay_info_complete o ms :
  Forall (Honest_meta o) ms -> snd (relay_info hh o (map Some ms)) = true.
Proof.
  intros Hm. unfold relay_info.
  assert (V : forallb (fun om => match om with Some m => meta_validate_basic hh m | None => false end)
                (map Some ms) = true).
  { induction Hm as [| m ms (A & B & _) _ IH]; cbn; [reflexivity |].
    rewrite IH, andb_true_r. unfold meta_validate_basic. rewrite A, B; cbn. apply bytes_eqb_refl. }
  rewrite V; cbn [negb].
  assert (S : some_metas (map Some ms) = ms).
  { clear. induction ms as [|m ms IH]; cbn; [reflexivity | f_equal; exact IH]. }
  rewrite S.
  destruct (rev ms) as [|ml rest] eqn:Er; [reflexivity |].
  pose proof (check_metas_complete o ms Hm) as C.
  assert (Hin : In ml ms) by (apply in_rev; rewrite Er; left; reflexivity).
  rewrite Forall_forall in Hm. destruct (Hm ml Hin) as (_ & _ & l & El & _).
  rewrite El. destruct (check_metas hh o ms); exact C.
Qed.

(* ------------------------------------------------------------------ Commit / Validators *)

Lemma relay_commit_sound o height hd cm :
  snd (relay_commit o height) = Some (hd, cm) ->
  exists l, snd (upd o height) = Some l /\ hd = lb_header l /\ cm = lb_commit l.
Proof.
  unfold relay_commit. destruct (upd o height) as [c [l|]]; cbn; intro E; [| discriminate].
  injection E as <- <-. exists l; auto.
Qed.

Lemma relay_commit_complete o height l :
  snd (upd o height) = Some l -> snd (relay_commit o height) = Some (lb_header l, lb_commit l).
Proof. unfold relay_commit. destruct (upd o height) as [c ol]; cbn; intros ->; reflexivity. Qed.

(* the light block Commit / Validators answer with is one the oracle returned: the verified block
   of the requested height, or - for "latest" - the block Update returned, or (repair F80) the
   latest trusted block when Update has nothing newer *)
Lemma upd_sound o height l :
  snd (upd o height) = Some l ->
  (exists h, height = Some h /\ o_verify o h = Some l) \/
  (height = None /\ (o_update o = UpdBlock l \/ (o_update o = UpdNone /\ o_trusted o 0 = Some l))).
Proof.
  unfold upd. destruct height as [h|]; cbn [snd]; intro E; [left; eauto |].
  right; split; [reflexivity |].
  destruct (o_update o) as [| | l']; cbn [snd] in E; [discriminate | right; auto | left; congruence].
Qed.

(* repair F80, completeness: when the light client has no newer block (Update gives neither an
   error nor a block) the latest commit and the first page of the latest validator set are
   answered from the latest trusted light block *)
Lemma latest_without_newer_block o l :
  o_update o = UpdNone -> o_trusted o 0 = Some l ->
  snd (relay_commit o None) = Some (lb_header l, lb_commit l) /\
  forall pp, exists vs,
    snd (relay_validators o None None pp) = Some (h_height (lb_header l), vs, Z.of_nat (length (lb_vals l))).
Proof.
  intros Eu Et. unfold relay_commit, relay_validators, upd. rewrite Eu, Et. cbn [snd validate_page].
  split; [reflexivity |]. intro pp. eexists; reflexivity.
Qed.

Lemma per_page_bounds pp : 1 <= validate_per_page pp <= lightrpc_max_per_page.
Proof.
  unfold validate_per_page, lightrpc_default_per_page, lightrpc_max_per_page.
  destruct pp as [p|]; [| lia].
  destruct (p <? 1) eqn:A; [lia |]. destruct (p >? 100) eqn:B; [lia |].
  apply Z.ltb_ge in A. rewrite Z.gtb_ltb in B. apply Z.ltb_ge in B. lia.
Qed.

Lemma relay_validators_sound o height pg pp bh vs tot :
  snd (relay_validators o height pg pp) = Some (bh, vs, tot) ->
  exists l, snd (upd o height) = Some l /\ bh = h_height (lb_header l) /\
    tot = Z.of_nat (length (lb_vals l)) /\
    (exists skip n : nat, vs = firstn n (skipn skip (lb_vals l))) /\
    Z.of_nat (length vs) <= lightrpc_max_per_page.
Proof.
  unfold relay_validators. destruct (upd o height) as [c [l|]]; cbn; intro E; [| discriminate].
  destruct (validate_page pg (validate_per_page pp) (Z.of_nat (length (lb_vals l)))) as [page|]; [| discriminate].
  injection E as <- <- <-. exists l. repeat split; auto.
  - eexists _, _; reflexivity.
  - pose proof (per_page_bounds pp) as B.
    set (n := Z.min _ _). pose proof (firstn_le_length (Z.to_nat n) (skipn (Z.to_nat (validate_skip_count page (validate_per_page pp))) (lb_vals l))) as L.
    assert (n <= validate_per_page pp) by (unfold n; lia). lia.
Qed.

(* ------------------------------------------------------------------ Tx *)

Definition Consistent_tx (o : oracle) (r : rtx) : Prop :=
  exists l, o_verify o (t_height r) = Some l /\ 0 < t_height r /\
    tp_root (t_proof r) = h_data_hash (lb_header l) /\
    t_tx r = tp_data (t_proof r) /\ t_hash r = H (t_tx r) /\
    t_index r = pf_index (tp_proof (t_proof r)) /\
    0 <= pf_index (tp_proof (t_proof r)) /\ 0 < pf_total (tp_proof (t_proof r)) /\
    verify H (h_data_hash (lb_header l)) (H (t_tx r)) (tp_proof (t_proof r)) = true.

Lemma relay_tx_sound o r : snd (relay_tx H o r) = true -> Consistent_tx o r.
Proof.
  unfold relay_tx. intro R.
  destruct (t_height r <=? 0) eqn:Eh; [discriminate |]. apply Z.leb_gt in Eh.
  destruct (o_verify o (t_height r)) as [l|] eqn:El; [| discriminate]. cbn [snd] in R.
  destruct (txproof_validate H (h_data_hash (lb_header l)) (t_proof r)) eqn:Ev; cbn [negb] in R; [| discriminate].
  destruct (bytes_eqb (t_tx r) (tp_data (t_proof r))) eqn:E1; cbn [negb] in R; [| discriminate].
  destruct (bytes_eqb (t_hash r) (H (t_tx r))) eqn:E2; cbn [negb] in R; [| discriminate].
  apply Z.eqb_eq in R. apply beq_true in E1, E2.
  unfold txproof_validate in Ev.
  destruct (bytes_eqb (h_data_hash (lb_header l)) (tp_root (t_proof r))) eqn:E3; cbn [negb] in Ev; [| discriminate].
  destruct (pf_index (tp_proof (t_proof r)) <? 0) eqn:E4; [discriminate |].
  destruct (pf_total (tp_proof (t_proof r)) <=? 0) eqn:E5; [discriminate |].
  apply beq_true in E3. apply Z.ltb_ge in E4. apply Z.leb_gt in E5.
  exists l. repeat split; auto; try lia.
  rewrite E3, E1. exact Ev.
Qed.

(* against any transaction list the verified DataHash commits to, with the proof stating the
   true number of leaves: the relayed body is the transaction at the relayed index *)
Lemma relay_tx_binds (hlen : nat) (Hl : forall x, length (H x) = hlen) o r :
  snd (relay_tx H o r) = true ->
  exists l, o_verify o (t_height r) = Some l /\
    forall txs, txs_root H txs = h_data_hash (lb_header l) ->
      pf_total (tp_proof (t_proof r)) = Z.of_nat (length txs) ->
      (0 <= t_index r < Z.of_nat (length txs) /\ nth_error txs (Z.to_nat (t_index r)) = Some (t_tx r))
      \/ Collision H.
Proof.
  intro R. destruct (relay_tx_sound _ _ R) as (l & El & _ & _ & _ & _ & Ei & _ & _ & Ev).
  exists l; split; [exact El |]. intros txs Et Etot.
  rewrite <- Et in Ev. unfold txs_root in Ev.
  assert (Etot' : pf_total (tp_proof (t_proof r)) = Z.of_nat (length (map H txs))) by (rewrite map_length; exact Etot).
  destruct (proof_binds H hlen Hl (map H txs) (H (t_tx r)) (tp_proof (t_proof r)) Etot' Ev) as [[Hr Hn] | C];
    [| right; exact C].
  rewrite <- Ei in Hr, Hn. rewrite Etot in Hr.
  rewrite nth_error_map in Hn.
  destruct (nth_error txs (Z.to_nat (t_index r))) as [x|] eqn:Ex; cbn in Hn; [| discriminate].
  injection Hn as Hn.
  destruct (bytes_eq_dec x (t_tx r)) as [-> | n]; [left; split; [exact Hr | reflexivity] |].
  right. exists x, (t_tx r). split; assumption.
Qed.

Definition honest_tx (txs : list bytes) (ht : Z) (i : nat) : rtx :=
  {| t_hash := H (nth i txs []); t_height := ht; t_index := Z.of_nat i; t_tx := nth i txs [];
     t_proof := txs_proof H txs i |}.

Lemma relay_tx_complete o l txs ht i :
  0 < ht -> (i < length txs)%nat -> o_verify o ht = Some l ->
  h_data_hash (lb_header l) = txs_root H txs ->
  snd (relay_tx H o (honest_tx txs ht i)) = true.
Proof.
  intros Hh Hi Ho Hd. unfold relay_tx, honest_tx; cbn [t_height t_proof t_tx t_hash t_index].
  assert (ht <=? 0 = false) as -> by (apply Z.leb_gt; lia).
  rewrite Ho. cbn [snd]. rewrite Hd, served_proof_validates by exact Hi. cbn [negb].
  cbn [txs_proof tp_data tp_proof]. rewrite !bytes_eqb_refl. cbn [negb].
  unfold proof_of; cbn [pf_index]. apply Z.eqb_refl.
Qed.

(* ------------------------------------------------------------------ TxSearch (repair F42) *)

Definition Consistent_search (o : oracle) (rs : list (option rtx)) : Prop :=
  Forall (fun x => exists r, x = Some r /\ Consistent_tx o r) rs.

Lemma check_txs_sound o rs : snd (check_txs H o rs) = true -> Consistent_search o rs.
Proof.
  induction rs as [|[r|] rs IH]; cbn [check_txs]; intro R; [constructor | | discriminate].
  destruct (relay_tx H o r) as [cs ok] eqn:Er. destruct ok; [| discriminate].
  constructor.
  - exists r; split; [reflexivity |]. apply relay_tx_sound. rewrite Er; reflexivity.
  - apply IH. destruct (check_txs H o rs); exact R.
Qed.

Lemma relay_search_sound o rs : snd (relay_search H o true rs) = true -> Consistent_search o rs.
Proof. apply check_txs_sound. Qed.

(* the transactions of verified blocks, each answered the way rpc/core builds the answer (any
   selection, any order, any number of them), are relayed *)
Definition Honest_result (o : oracle) (x : option rtx) : Prop :=
  exists l txs ht i, 0 < ht /\ (i < length txs)%nat /\ o_verify o ht = Some l /\
    h_data_hash (lb_header l) = txs_root H txs /\ x = Some (honest_tx txs ht i).

Lemma relay_search_complete o prove rs :
  Forall (Honest_result o) rs -> snd (relay_search H o prove rs) = true.
Proof.
  unfold relay_search. destruct prove; [| reflexivity].
  induction 1 as [| x rs (l & txs & ht & i & Hh & Hi & Ho & Hd & ->) _ IH]; cbn [check_txs]; [reflexivity |].
  pose proof (relay_tx_complete o l txs ht i Hh Hi Ho Hd) as C.
  destruct (relay_tx H o (honest_tx txs ht i)) as [cs ok]; cbn [snd] in C; subst ok.
  destruct (check_txs H o rs); exact IH.
Qed.

(* ------------------------------------------------------------------ ABCIQuery *)

Definition Consistent_query (o : oracle) (has_kpfn : bool) (path : bytes) (r : rquery) : Prop :=
  exists l, o_verify o (q_height r + 1) = Some l /\ 0 < q_height r /\ q_key r <> [] /\
    match q_value r with
    | Some v => exists kp, has_kpfn = true /\ key_path path (q_key r) = Some kp /\
                           verify_value (q_ops r) (h_app_hash (lb_header l)) kp v = true
    | None => verify_absence (q_ops r) (h_app_hash (lb_header l)) (q_key r) = true
    end.

Lemma relay_query_sound o has_kpfn path r :
  snd (relay_query verify_value verify_absence key_path o has_kpfn path r) = true ->
  Consistent_query o has_kpfn path r.
Proof.
  unfold relay_query. intro R.
  destruct (negb (q_code r =? abci_code_type_ok)); [discriminate |].
  destruct (q_key r) as [|k ks] eqn:Ek; [discriminate |].
  destruct (q_nops r =? 0); [discriminate |].
  destruct (q_height r <=? 0) eqn:Eh; [discriminate |]. apply Z.leb_gt in Eh.
  destruct (o_verify o (q_height r + 1)) as [l|] eqn:El; [| discriminate]. cbn [snd] in R.
  exists l. split; [exact El | split; [exact Eh | split; [congruence |]]]. rewrite Ek.
  destruct (q_value r) as [v|]; [| exact R].
  destruct has_kpfn; [| discriminate]. cbn [negb] in R.
  destruct (key_path path (k :: ks)) as [kp|]; [| discriminate].
  exists kp; auto.
Qed.

Lemma relay_query_complete o has_kpfn path r :
  q_code r = abci_code_type_ok -> q_nops r <> 0 ->
  Consistent_query o has_kpfn path r ->
  snd (relay_query verify_value verify_absence key_path o has_kpfn path r) = true.
Proof.
  intros Ec En (l & El & Eh & Ek & Ev). unfold relay_query.
  rewrite Ec, Z.eqb_refl; cbn [negb].
  destruct (q_key r) as [|k ks] eqn:Ekk; [contradiction |].
  apply Z.eqb_neq in En; rewrite En.
  assert (q_height r <=? 0 = false) as -> by (apply Z.leb_gt; lia).
  rewrite El; cbn [snd].
  destruct (q_value r) as [v|]; [| exact Ev].
  destruct Ev as (kp & -> & -> & Ev); exact Ev.
Qed.

(* ------------------------------------------------------------------ ValueOp proofs (repair F62) *)

(* what a chain of ValueOps establishes: every operator's Merkle proof verifies (C10 [verify]:
   the root is RECOMPUTED from index, total, leaf hash and aunts) for the leaf <key, hash of the
   previous result>, up to the final root *)
Inductive proved : list vop -> bytes -> bytes -> Prop :=
| proved_nil a : proved [] a a
| proved_cons op r a m f :
    verify H m (kv_leaf H (vo_key op) a) (vo_proof op) = true -> proved r m f -> proved (op :: r) a f.

Lemma from_aunts_some_bounds i t lh ra h : from_aunts H i t lh ra = Some h -> 0 <= i < t.
Proof.
  intro E. destruct ra; cbn [from_aunts] in E;
    (destruct ((i >=? t) || (i <? 0) || (t <=? 0)) eqn:G; [discriminate |]);
    apply orb_false_iff in G as [G G3]; apply orb_false_iff in G as [G1 G2];
    rewrite Z.geb_leb in G1; apply Z.leb_gt in G1; apply Z.ltb_ge in G2; lia.
Qed.

Lemma vop_run_verify op a m :
  vop_run H op a = Some m -> verify H m (kv_leaf H (vo_key op) a) (vo_proof op) = true.
Proof.
  unfold vop_run, verify. intro E.
  destruct (bytes_eqb (leaf_hash H (kv_leaf H (vo_key op) a)) (pf_leaf_hash (vo_proof op))) eqn:L;
    cbn [negb] in E; [| discriminate].
  pose proof (from_aunts_some_bounds _ _ _ _ _ E) as B.
  assert (pf_total (vo_proof op) <? 0 = false) as -> by (apply Z.ltb_ge; lia).
  assert (pf_index (vo_proof op) <? 0 = false) as -> by (apply Z.ltb_ge; lia).
  apply beq_true in L. rewrite <- L, bytes_eqb_refl. cbn [negb]. rewrite L, E. apply bytes_eqb_refl.
Qed.

Lemma vops_run_proved ops : forall rk a rk' f, vops_run H ops rk a = Some (rk', f) -> proved ops a f.
Proof.
  induction ops as [| op r IH]; intros rk a rk' f E.
  - cbn [vops_run] in E. injection E as _ <-. constructor.
  - cbn [vops_run] in E.
    assert (S : forall rk0, match vop_run H op a with Some a0 => vops_run H r rk0 a0 | None => None end = Some (rk', f) ->
                            proved (op :: r) a f).
    { intros rk0 E0. destruct (vop_run H op a) as [m|] eqn:Er; [| discriminate].
      econstructor; [apply vop_run_verify; exact Er | eapply IH; exact E0]. }
    destruct (vo_key op); [eapply S; exact E |].
    destruct rk as [| lk rk0]; [discriminate |].
    destruct (bytes_eqb lk _); [eapply S; exact E | discriminate].
Qed.

Lemma vops_verify_sound ops root kp value :
  vops_verify H ops root kp value = true ->
  exists keys, key_path_to_keys kp = Some keys /\ proved ops value root.
Proof.
  unfold vops_verify. intro E.
  destruct (key_path_to_keys kp) as [keys|]; [| discriminate]. exists keys; split; [reflexivity |].
  destruct (vops_run H ops (rev keys) value) as [[rk f]|] eqn:Er; [| discriminate].
  destruct rk; [| discriminate]. apply beq_true in E. subst f. eapply vops_run_proved; exact Er.
Qed.

(* F62: the root a non-empty chain is accepted against is a hash recomputed from the last
   operator's index, total, leaf and aunts - never "no root at all" *)
Lemma proved_root_recomputed ops a f :
  proved ops a f -> ops <> [] ->
  exists op x, In op ops /\
    from_aunts H (pf_index (vo_proof op)) (pf_total (vo_proof op))
               (leaf_hash H (kv_leaf H (vo_key op) x)) (rev (pf_aunts (vo_proof op))) = Some f.
Proof.
  induction 1 as [| op r a m f V P IH]; intro Hn; [congruence |].
  destruct r as [| op' r'].
  - inversion P; subst. exists op, a. split; [left; reflexivity |].
    apply (verify_recomputes H) in V. apply V.
  - destruct IH as (o & x & Hin & E); [discriminate |]. exists o, x. split; [right; exact Hin | exact E].
Qed.

Lemma vops_verify_root_recomputed ops root kp value :
  ops <> [] -> vops_verify H ops root kp value = true ->
  exists op x, In op ops /\
    from_aunts H (pf_index (vo_proof op)) (pf_total (vo_proof op))
               (leaf_hash H (kv_leaf H (vo_key op) x)) (rev (pf_aunts (vo_proof op))) = Some root.
Proof.
  intros Hn E. destruct (vops_verify_sound _ _ _ _ E) as (keys & _ & P).
  eapply proved_root_recomputed; eassumption.
Qed.

(* ------------------------------------------------------------------ ConsensusParams *)

Definition Consistent_params (o : oracle) (r : rparams) : Prop :=
  exists l, o_verify o (p_height r) = Some l /\ 0 < p_height r /\
    params_hash H (p_max_bytes r) (p_max_gas r) = h_consensus_hash (lb_header l).

Lemma relay_params_sound o r : snd (relay_params H o r) = true -> Consistent_params o r.
Proof.
  unfold relay_params. intro R. brk. cbn in R. exists l.
  apply Z.leb_gt in Heqb0. repeat split; auto. apply beq_true; exact R.
Qed.

Lemma relay_params_complete o r :
  p_valid r = true -> Consistent_params o r -> snd (relay_params H o r) = true.
Proof.
  intros Ev (l & El & Eh & Ep). unfold relay_params. rewrite Ev; cbn [negb].
  assert (p_height r <=? 0 = false) as -> by (apply Z.leb_gt; lia).
  rewrite El; cbn. rewrite Ep. apply bytes_eqb_refl.
Qed.

(* ------------------------------------------------------------------ BlockResults *)

Definition req_height (req : option Z) (latest : Z) : Z :=
  match req with Some h => h | None => latest - 1 end.

Definition Consistent_results (o : oracle) (req : option Z) (latest r_height : Z) (rs : list dtx) : Prop :=
  r_height = req_height req latest /\ 0 < r_height /\
  exists l, o_verify o (req_height req latest + 1) = Some l /\
    results_hash H rs = h_last_results_hash (lb_header l).

Lemma relay_results_sound o req latest r_height rs :
  snd (relay_results H o req latest r_height rs) = true -> Consistent_results o req latest r_height rs.
Proof.
  unfold relay_results, Consistent_results, req_height. intro R.
  destruct (r_height <=? 0) eqn:A; [discriminate |]. apply Z.leb_gt in A.
  destruct (r_height =? match req with Some h => h | None => latest - 1 end) eqn:B; cbn [negb] in R; [| discriminate].
  apply Z.eqb_eq in B.
  destruct (o_verify o _) as [l|] eqn:El; [| discriminate]. cbn in R.
  split; [exact B | split; [exact A |]]. exists l; split; [reflexivity | apply beq_true; exact R].
Qed.

Lemma relay_results_complete o req latest r_height rs :
  Consistent_results o req latest r_height rs ->
  snd (relay_results H o req latest r_height rs) = true.
Proof.
  unfold relay_results, Consistent_results, req_height. intros (B & A & l & El & Er).
  assert (r_height <=? 0 = false) as -> by (apply Z.leb_gt; lia).
  rewrite <- B, Z.eqb_refl; cbn [negb]. rewrite B, El; cbn. rewrite Er. apply bytes_eqb_refl.
Qed.

(* two result lists let through against the same verified header have the same deterministic
   encodings, item by item *)
Lemma results_determined (hlen : nat) (Hl : forall x, length (H x) = hlen) rs rs' :
  results_hash H rs = results_hash H rs' -> map dtx_enc rs = map dtx_enc rs' \/ Collision H.
Proof. unfold results_hash. apply (root_injective H hlen Hl). Qed.

End P.
