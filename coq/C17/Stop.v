(* C17 / finding F93 — a connection stopped by its OWNER from inside onReceive.
   Gallina transcription, NO proofs.

   Model.v stops a receiver only for a bad item (recvRoutine calls stopForError and leaves its
   loop: r_stopped).  A reactor can also stop the peer from inside Receive:
   Switch.StopPeerForError -> peer.Stop -> MConnection.Stop -> stopServices closes
   quitRecvRoutine — while recvRoutine is in the middle of c.onReceive.  The items after that
   one may already be in recvRoutine's bufio.Reader (same flush of the peer).
     unrepaired loop:  ReadMsg succeeds on buffered bytes; quitRecvRoutine is looked at only
                       when ReadMsg FAILS; the buffered packets are dispatched to the reactors
                       with a source peer that was stopped and removed.
     repaired (fixes/F93): after a successful ReadMsg, `select { case <-c.quitRecvRoutine:
                       break FOR_LOOP; default: }` — nothing is dispatched after the stop.
   [verdict c m] = the reactor stops the peer while handling message m of channel c. *)
From Coq Require Import List ZArith NArith Bool.
From TM Require Import Common.Hex C17.Model.
Import ListNotations.
Open Scope Z_scope.

Record rstate := {
  rs_recv : receiver;      (* channels, journal, r_stopped = recvRoutine has left its loop *)
  rs_quit : bool           (* quitRecvRoutine is closed: Stop()/FlushStop() was called *)
}.

Definition new_rstate (descs : list (Z * Z)) : rstate :=
  {| rs_recv := new_receiver descs; rs_quit := false |}.

(* the last journal entry when the step delivered one *)
Definition newly_delivered (before after : receiver) : option (Z * bytes) :=
  if (length (r_delivered before) <? length (r_delivered after))%nat
  then last (map Some (r_delivered after)) None else None.

(* dispatch of one item and the reactor's verdict on what it delivered *)
Definition dispatch (verdict : Z -> bytes -> bool) (s : rstate) (it : witem) : rstate :=
  let r' := recv_item (rs_recv s) it in
  let q := match newly_delivered (rs_recv s) r' with
           | Some (c, m) => verdict c m
           | None => false
           end in
  {| rs_recv := r'; rs_quit := rs_quit s || q || r_stopped r' |}.

(* one iteration of the repaired loop on an item that is available (buffered or not) *)
Definition recv_step (verdict : Z -> bytes -> bool) (s : rstate) (it : witem) : rstate :=
  if r_stopped (rs_recv s) || rs_quit s then s else dispatch verdict s it.

(* the loop as it was: the quit signal is not looked at while items can be read *)
Definition recv_step_f93 (verdict : Z -> bytes -> bool) (s : rstate) (it : witem) : rstate :=
  if r_stopped (rs_recv s) then s else dispatch verdict s it.

Definition recv_run (verdict : Z -> bytes -> bool) (s : rstate) (l : list witem) : rstate :=
  fold_left (recv_step verdict) l s.
Definition recv_run_f93 (verdict : Z -> bytes -> bool) (s : rstate) (l : list witem) : rstate :=
  fold_left (recv_step_f93 verdict) l s.

Definition rs_down (s : rstate) : bool := r_stopped (rs_recv s) || rs_quit s.
