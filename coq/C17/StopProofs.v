(* C17 / F93 — proofs about coq/C17/Stop.v *)
From Coq Require Import List ZArith NArith Bool Lia.
From TM Require Import Common.Hex C17.Model C17.Stop.
Import ListNotations.
Open Scope Z_scope.

Lemma recv_step_down : forall verdict s it, rs_down s = true -> recv_step verdict s it = s.
Proof. intros verdict s it H. unfold recv_step. unfold rs_down in H. now rewrite H. Qed.

Lemma recv_run_down : forall verdict l s, rs_down s = true -> recv_run verdict s l = s.
Proof.
  intros verdict. induction l as [|it l IH]; intros s H; [reflexivity|].
  change (recv_run verdict s (it :: l)) with (recv_run verdict (recv_step verdict s it) l).
  rewrite (recv_step_down _ _ _ H). apply IH, H.
Qed.

Lemma recv_run_app : forall verdict a b s,
  recv_run verdict s (a ++ b) = recv_run verdict (recv_run verdict s a) b.
Proof. intros. unfold recv_run. apply fold_left_app. Qed.

(* no delivery after the stop: once the connection is down — for a bad item or because the
   reactor stopped it while handling a message — nothing that follows changes the journal, the
   buffers or anything else, whatever follows *)
Lemma no_delivery_after_stop : forall verdict s0 pre post,
  let s := recv_run verdict s0 pre in
  rs_down s = true ->
  recv_run verdict s0 (pre ++ post) = s /\
  r_delivered (rs_recv (recv_run verdict s0 (pre ++ post))) = r_delivered (rs_recv s).
Proof.
  intros verdict s0 pre post s H. rewrite recv_run_app. fold s.
  rewrite (recv_run_down _ _ _ H). split; reflexivity.
Qed.

(* the stop happens AT the message the reactor refuses: that message is the last one delivered *)
Lemma dispatch_verdict_down : forall verdict s it c m,
  newly_delivered (rs_recv s) (recv_item (rs_recv s) it) = Some (c, m) -> verdict c m = true ->
  rs_down (dispatch verdict s it) = true.
Proof.
  intros verdict s it c m E V. unfold rs_down, dispatch. cbn [rs_recv rs_quit]. rewrite E, V.
  rewrite orb_true_r. cbn. now rewrite orb_true_r.
Qed.

Lemma stop_at_refused_message : forall verdict s it c m post,
  rs_down s = false ->
  newly_delivered (rs_recv s) (recv_item (rs_recv s) it) = Some (c, m) -> verdict c m = true ->
  r_delivered (rs_recv (recv_run verdict s (it :: post))) = r_delivered (recv_item (rs_recv s) it).
Proof.
  intros verdict s it c m post Hup E V.
  change (recv_run verdict s (it :: post)) with (recv_run verdict (recv_step verdict s it) post).
  assert (Es : recv_step verdict s it = dispatch verdict s it).
  { unfold recv_step. unfold rs_down in Hup. now rewrite Hup. }
  rewrite Es. rewrite recv_run_down by (eapply dispatch_verdict_down; eauto). reflexivity.
Qed.

Lemma no_delivery_after_stop_full :
  (forall verdict s0 pre post,
     let s := recv_run verdict s0 pre in
     rs_down s = true ->
     recv_run verdict s0 (pre ++ post) = s /\
     r_delivered (rs_recv (recv_run verdict s0 (pre ++ post))) = r_delivered (rs_recv s)) /\
  (forall verdict s it c m post,
     rs_down s = false ->
     newly_delivered (rs_recv s) (recv_item (rs_recv s) it) = Some (c, m) -> verdict c m = true ->
     r_delivered (rs_recv (recv_run verdict s (it :: post))) = r_delivered (recv_item (rs_recv s) it)).
Proof. split; [exact no_delivery_after_stop | exact stop_at_refused_message]. Qed.

(* a reactor that never stops the peer: the loop is the one of Model.v (nothing else changed) *)
Lemma recv_run_conservative : forall verdict, (forall c m, verdict c m = false) ->
  forall l s, rs_quit s = r_stopped (rs_recv s) ->
  rs_recv (recv_run verdict s l) = recv_items (rs_recv s) l.
Proof.
  intros verdict Hv. induction l as [|it l IH]; intros s Hq; [reflexivity|].
  change (recv_run verdict s (it :: l)) with (recv_run verdict (recv_step verdict s it) l).
  change (recv_items (rs_recv s) (it :: l)) with (recv_items (recv_item (rs_recv s) it) l).
  unfold recv_step. rewrite Hq, orb_diag.
  destruct (r_stopped (rs_recv s)) eqn:Es.
  - assert (E : recv_item (rs_recv s) it = rs_recv s) by (unfold recv_item; now rewrite Es).
    rewrite E. apply IH. now rewrite Es.
  - rewrite IH.
    + reflexivity.
    + unfold dispatch. cbn [rs_recv rs_quit]. rewrite Hq.
      destruct (newly_delivered (rs_recv s) (recv_item (rs_recv s) it)) as [[c m]|]; [rewrite Hv|]; reflexivity.
Qed.
