(* C17 / finding F85 — validator sets that enter through the wire.  Gallina transcription, NO proofs.

   types/validator_set.go ValidatorSetFromProto (reached from LightBlockFromProto <-
   LightClientAttackEvidenceFromProto <- EvidenceFromProto <- BlockFromProto, i.e. from
   consensus.State.addProposalBlockPart inside receiveRoutine, from the evidence reactor and from
   block sync) and ValidatorSetFromExistingValidators (light/provider/http: the answer of an RPC
   primary).  Both build a ValidatorSet from UNTRUSTED data and refresh its total voting power.
     updateTotalVotingPower:  sum = safeAddClip(sum, power); if sum > MaxTotalVotingPower { panic }
   In the unrepaired code the decoders call it as it is: input whose powers add up to more than
   MaxTotalVotingPower panics (in receiveRoutine: CONSENSUS FAILURE, the node halts, and halts
   again on WAL replay).  Repaired (fixes/F85): the decoders sum with the same clipped addition
   and return an ERROR when the bound is exceeded; TotalVotingPower() keeps its panic for
   internal callers.
   Only what the decoders look at is modelled: per validator the power (an int64), whether its
   public key decodes, the length of its address. *)
From Coq Require Import List ZArith NArith Bool Lia.
From TM Require Import Generated.Consts.
Import ListNotations.
Open Scope Z_scope.

Definition i64_max : Z := 9223372036854775807.
Definition i64_min : Z := -9223372036854775808.

(* safeAdd + safeAddClip on int64 values *)
Definition safe_add_clip64 (a b : Z) : Z :=
  if (0 <? b) && (i64_max - b <? a) then i64_max
  else if (b <? 0) && (a <? i64_min - b) then i64_min
  else a + b.

(* the loop of updateTotalVotingPower; None = the bound is exceeded (there: panic) *)
Fixpoint tvp_sum (sum : Z) (powers : list Z) : option Z :=
  match powers with
  | [] => Some sum
  | p :: r =>
    let s := safe_add_clip64 sum p in
    if max_total_voting_power <? s then None else tvp_sum s r
  end.

(* the guard of the repaired decoders, as a decidable predicate on the powers on the wire *)
Definition vals_total_ok (powers : list Z) : bool :=
  match tvp_sum 0 powers with Some _ => true | None => false end.

Fixpoint sum_powers (powers : list Z) : Z :=
  match powers with [] => 0 | p :: r => p + sum_powers r end.

(* a validator as it comes off the wire *)
Record wval := { wv_power : Z; wv_pubkey_ok : bool; wv_addrlen : Z }.
Record wvalset := { ws_vals : list wval; ws_proposer : option wval }.

(* Validator.ValidateBasic: public key present, power >= 0, 20-byte address *)
Definition wval_validate_basic (v : wval) : bool :=
  wv_pubkey_ok v && (0 <=? wv_power v) && (wv_addrlen v =? address_size).
(* ValidatorSet.ValidateBasic: not empty, every validator and the proposer valid *)
Definition wvalset_validate_basic (ws : wvalset) : bool :=
  match ws_vals ws with [] => false | _ :: _ => true end &&
  forallb wval_validate_basic (ws_vals ws) &&
  match ws_proposer ws with Some p => wval_validate_basic p | None => false end.

Inductive decode_result :=
| DPanic                     (* the decoder panicked *)
| DErr                       (* it returned an error *)
| DOk (total : Z).           (* it returned the set; total = its TotalVotingPower() *)

(* ValidatorSetFromProto: every ValidatorFromProto (public key), the proposer's, then the total,
   then ValidateBasic.  [on_overflow] is what an exceeded bound turns into. *)
Definition valset_from_proto_with (on_overflow : decode_result) (ws : wvalset) : decode_result :=
  if negb (forallb wv_pubkey_ok (ws_vals ws)) then DErr
  else match ws_proposer ws with
       | None => DErr
       | Some p =>
         if negb (wv_pubkey_ok p) then DErr
         else match tvp_sum 0 (map wv_power (ws_vals ws)) with
              | None => on_overflow
              | Some t => if wvalset_validate_basic ws then DOk t else DErr
              end
       end.
Definition valset_from_proto := valset_from_proto_with DErr.          (* repaired *)
Definition valset_from_proto_f85 := valset_from_proto_with DPanic.    (* as it was *)

(* ValidatorSetFromExistingValidators: not empty, every validator's ValidateBasic, then the total *)
Definition valset_from_existing_with (on_overflow : decode_result) (vals : list wval) : decode_result :=
  match vals with
  | [] => DErr
  | _ :: _ =>
    if negb (forallb wval_validate_basic vals) then DErr
    else match tvp_sum 0 (map wv_power vals) with
         | None => on_overflow
         | Some t => DOk t
         end
  end.
Definition valset_from_existing := valset_from_existing_with DErr.
Definition valset_from_existing_f85 := valset_from_existing_with DPanic.

(* types/evidence.go LightClientAttackEvidenceFromProto, as far as the conflicting block goes:
     LightBlockFromProto: the signed header, when present, is decoded first (an invalid header is
       an error before the validator set is looked at), then ValidatorSetFromProto;
     ValidateBasic:  if l.ConflictingBlock.Header == nil { return error } ...
   ConflictingBlock embeds *SignedHeader: with NO signed header on the wire the test
   `l.ConflictingBlock.Header == nil` dereferences a nil pointer (second cause of F85: the
   decoder panics on evidence whose conflicting block has a well-formed validator set and no
   signed header).  Repaired: `SignedHeader == nil ||` in front of it.
   [sh]: 0 no signed header, 1 a signed header without header, 2 a signed header whose header is
   invalid.  (Evidence with a valid signed header is not in the scope of this model.) *)
Definition lcae_from_proto_with (on_overflow on_nil_sh : decode_result) (ws : wvalset) (sh : N) : decode_result :=
  if (sh =? 2)%N then DErr
  else match valset_from_proto_with on_overflow ws with
       | DOk _ => if (sh =? 0)%N then on_nil_sh else DErr
       | r => r
       end.
Definition lcae_from_proto := lcae_from_proto_with DErr DErr.
Definition lcae_from_proto_f85 := lcae_from_proto_with DPanic DPanic.
