(* C17 — Channel messages arrive intact and in order; bad peer input only drops the peer.
   Gallina transcription, NO proofs.

   Layer A (multiplexing), p2p/conn/connection.go:
     Channel.sendBytes / trySendBytes      -> try_send_bytes
     Channel.isSendPending                 -> is_send_pending   (with its dequeue side effect;
                                              REPAIRED form of finding F16, the form of the
                                              unrepaired code is kept as is_send_pending_f16)
     Channel.nextPacketMsg                 -> next_packet_msg   (payload <= maxPacketMsgPayloadSize, EOF)
     MConnection.sendPacketMsg             -> send_packet_msg   (isSendPending on EVERY channel, then
                                              one pending channel is served; which one — least
                                              recentlySent/priority in the code — is an arbitrary
                                              input [choice] here: the theorems quantify over it)
     Channel.recvPacketMsg                 -> recv_packet_msg   (capacity check BEFORE the append,
                                              deliver on EOF, buffer reset; ch.recving is a Go
                                              slice that is nil or not: recvRoutine delivers
                                              only `msgBytes != nil`)
     MConnection.recvRoutine dispatch      -> recv_item         (ping/pong, unknown channel, unknown
                                              packet type, oversize/undecodable -> stopForError)
   The protobuf framing is not modelled: whether a raw packet is over the reader's size limit
   (maxPacketMsgSize) is part of the item ([WOversize]).  With the repair of finding F34 that
   limit is computed for the largest channel id, so every packet nextPacketMsg produces fits it
   for every channel id in a byte (before, full packets on channels >= 0x80 were 1 byte over).
   Layer B (reactor guards), consensus/reactor.go + types/{proposal,vote,part_set,block}.go +
   libs/bits/bit_array.go: the ValidateBasic predicates of the nine consensus messages and the
   sizes/indices the PeerState handlers allocate/index with (see the second half of the file). *)
From Coq Require Import String List ZArith NArith Bool Lia.
From TM Require Import Common.Hex Generated.Consts.
Import ListNotations.
Open Scope Z_scope.

(* ================================================================== layer A: sender *)

(* one PacketMsg on the wire *)
Record packet := { p_ch : Z; p_eof : bool; p_data : bytes }.

(* Channel, sending half.  sc_sending = None is Go's [ch.sending == nil]. *)
Record schan := {
  sc_id : Z;                    (* desc.ID, 0..255 *)
  sc_qcap : nat;                (* cap(ch.sendQueue) = desc.SendQueueCapacity *)
  sc_queue : list bytes;        (* contents of ch.sendQueue, oldest first *)
  sc_sending : option bytes;    (* ch.sending *)
  sc_qsize : Z                  (* ch.sendQueueSize (atomic counter) *)
}.

Definition new_schan (id : Z) (qcap : nat) : schan :=
  {| sc_id := id; sc_qcap := qcap; sc_queue := []; sc_sending := None; sc_qsize := 0 |}.

(* sendBytes / trySendBytes: `select { case ch.sendQueue <- bytes: sendQueueSize++; return true
   default/timeout: return false }`.  (sendBytes differs only in waiting up to
   defaultSendTimeout for room; its effect on the state when it returns true is the same.) *)
Definition try_send_bytes (ch : schan) (m : bytes) : schan * bool :=
  if (length (sc_queue ch) <? sc_qcap ch)%nat
  then ({| sc_id := sc_id ch; sc_qcap := sc_qcap ch; sc_queue := sc_queue ch ++ [m];
           sc_sending := sc_sending ch; sc_qsize := sc_qsize ch + 1 |}, true)
  else (ch, false).

(* isSendPending (repaired, F16):
     if ch.sending == nil { if len(ch.sendQueue) == 0 { return false }
                            ch.sending = <-ch.sendQueue  (nil message normalised to empty) }
     return true *)
Definition is_send_pending (ch : schan) : schan * bool :=
  match sc_sending ch with
  | Some _ => (ch, true)
  | None =>
    match sc_queue ch with
    | [] => (ch, false)
    | m :: q => ({| sc_id := sc_id ch; sc_qcap := sc_qcap ch; sc_queue := q;
                    sc_sending := Some m; sc_qsize := sc_qsize ch |}, true)
    end
  end.

(* isSendPending as in the unrepaired code: `if len(ch.sending) == 0 {…}` — an empty message
   being sent looks like "nothing being sent": it is overwritten by the next queued message, or
   the channel reports "not pending" with the empty message (and its sendQueueSize unit) lost. *)
Definition is_send_pending_f16 (ch : schan) : schan * bool :=
  match sc_sending ch with
  | Some (_ :: _) => (ch, true)
  | _ =>
    match sc_queue ch with
    | [] => (ch, false)
    | m :: q => ({| sc_id := sc_id ch; sc_qcap := sc_qcap ch; sc_queue := q;
                    sc_sending := Some m; sc_qsize := sc_qsize ch |}, true)
    end
  end.

(* nextPacketMsg (call only when pending): Data = sending[:min(maxSize,len)];
   len(sending) <= maxSize -> EOF, sending = nil, sendQueueSize-- ; else sending = sending[maxSize:] *)
Definition next_packet_msg (maxsz : nat) (ch : schan) : schan * packet :=
  let s := match sc_sending ch with Some s => s | None => [] end in
  if (length s <=? maxsz)%nat
  then ({| sc_id := sc_id ch; sc_qcap := sc_qcap ch; sc_queue := sc_queue ch;
           sc_sending := None; sc_qsize := sc_qsize ch - 1 |},
        {| p_ch := sc_id ch; p_eof := true; p_data := firstn maxsz s |})
  else ({| sc_id := sc_id ch; sc_qcap := sc_qcap ch; sc_queue := sc_queue ch;
           sc_sending := Some (skipn maxsz s); sc_qsize := sc_qsize ch |},
        {| p_ch := sc_id ch; p_eof := false; p_data := firstn maxsz s |}).

(* the loop of sendPacketMsg calls isSendPending on every channel (side effects on all) *)
Definition poll_all (pend : schan -> schan * bool) (chs : list schan) : list schan * list bool :=
  (map (fun c => fst (pend c)) chs, map (fun c => snd (pend c)) chs).

Fixpoint update_nth {A} (n : nat) (f : A -> A) (l : list A) : list A :=
  match l, n with
  | [], _ => []
  | x :: r, O => f x :: r
  | x :: r, S k => x :: update_nth k f r
  end.

(* sendPacketMsg with the served channel given from outside (position in c.channels).
   Result: new channels, the packet written (None when nothing is pending or when [choice] is
   not a pending channel — the code never makes such a choice, the theorems allow it as a
   stutter step), and the bool the Go function returns (true = exhausted). *)
Definition send_packet_msg_with (pend : schan -> schan * bool) (maxsz : nat)
           (chs : list schan) (choice : nat) : list schan * option packet * bool :=
  let '(chs1, flags) := poll_all pend chs in
  if negb (existsb (fun b => b) flags) then (chs1, None, true)
  else
    match nth_error chs1 choice, nth_error flags choice with
    | Some ch, Some true =>
      let '(ch', pk) := next_packet_msg maxsz ch in
      (update_nth choice (fun _ => ch') chs1, Some pk, false)
    | _, _ => (chs1, None, false)
    end.
Definition send_packet_msg := send_packet_msg_with is_send_pending.
Definition send_packet_msg_f16 := send_packet_msg_with is_send_pending_f16.

(* MConnection.Send/TrySend on channel id [c]: unknown channel -> false *)
Fixpoint send_to (chs : list schan) (c : Z) (m : bytes) : list schan * bool :=
  match chs with
  | [] => ([], false)
  | ch :: r =>
    if sc_id ch =? c
    then let '(ch', ok) := try_send_bytes ch m in (ch' :: r, ok)
    else let '(r', ok) := send_to r c m in (ch :: r', ok)
  end.

(* ================================================================== layer A: receiver *)

(* A Go byte slice as far as this code can tell two slices apart: nil (None) or not (Some
   contents).  recvRoutine tests `msgBytes != nil`, so the difference between a nil and an empty
   non-nil buffer decides whether a zero-length message reaches onReceive.  cap() is not part of
   the model: no path of recvPacketMsg/recvRoutine reads it (the buffer may be re-allocated by
   append when a message outgrows RecvBufferCapacity; contents and nil-ness are what matters). *)
Definition goslice := option bytes.
Definition sl_bytes (s : goslice) : bytes := match s with Some b => b | None => [] end.
(* append(s, d...): appending nothing to nil gives nil, everything else is non-nil *)
Definition go_append (s : goslice) (d : bytes) : goslice :=
  match s with
  | Some b => Some (b ++ d)
  | None => match d with [] => None | _ :: _ => Some d end
  end.
(* s[:0]: nil[:0] is nil, a non-nil slice stays non-nil *)
Definition go_reslice0 (s : goslice) : goslice :=
  match s with Some _ => Some [] | None => None end.

Record rchan := {
  rc_id : Z;
  rc_cap : Z;                  (* desc.RecvMessageCapacity *)
  rc_buf : goslice             (* ch.recving *)
}.
(* the bytes of ch.recving (len(nil) = 0) *)
Definition rc_recving (ch : rchan) : bytes := sl_bytes (rc_buf ch).

(* what one call of recvPacketMsg means to recvRoutine *)
Inductive recv_result :=
| RErr                         (* (nil, err): "received message exceeds available capacity" *)
| RNone                        (* (nil, nil): recvRoutine's `if msgBytes != nil` skips onReceive —
                                  packet absorbed and message not complete, OR message complete
                                  but the reassembled slice is nil *)
| RMsg (m : bytes).            (* (msgBytes != nil, nil): delivered to onReceive *)

(* recvPacketMsg:
     if RecvMessageCapacity < len(ch.recving)+len(packet.Data) { return nil, err }
     ch.recving = append(ch.recving, packet.Data...)
     if packet.EOF { msgBytes := ch.recving; ch.recving = ch.recving[:0]; return msgBytes, nil }
     return nil, nil *)
Definition recv_packet_msg (ch : rchan) (eof : bool) (data : bytes) : rchan * recv_result :=
  let received := Z.of_nat (length (rc_recving ch)) + Z.of_nat (length data) in
  if rc_cap ch <? received then (ch, RErr)
  else
    let buf := go_append (rc_buf ch) data in
    if eof then ({| rc_id := rc_id ch; rc_cap := rc_cap ch; rc_buf := go_reslice0 buf |},
                 match buf with Some m => RMsg m | None => RNone end)
    else ({| rc_id := rc_id ch; rc_cap := rc_cap ch; rc_buf := buf |}, RNone).

(* what recvRoutine can read from the connection *)
Inductive witem :=
| WMsg (p : packet)            (* a decodable Packet{PacketMsg} *)
| WPing | WPong
| WUnknown                     (* decodable Packet whose Sum is none of the three *)
| WOversize                    (* length prefix above maxPacketMsgSize *)
| WGarbage.                    (* not decodable as a Packet *)

Record receiver := {
  r_chans : list rchan;
  r_stopped : bool;                    (* stopForError was called: recvRoutine has left its loop *)
  r_delivered : list (Z * bytes)       (* journal of onReceive(chID, msgBytes), oldest first *)
}.

Fixpoint find_rchan (chs : list rchan) (c : Z) : option rchan :=
  match chs with
  | [] => None
  | ch :: r => if rc_id ch =? c then Some ch else find_rchan r c
  end.
Fixpoint set_rchan (chs : list rchan) (c : Z) (n : rchan) : list rchan :=
  match chs with
  | [] => []
  | ch :: r => if rc_id ch =? c then n :: r else ch :: set_rchan r c n
  end.

Definition stop (r : receiver) : receiver :=
  {| r_chans := r_chans r; r_stopped := true; r_delivered := r_delivered r |}.

(* one iteration of the recvRoutine loop *)
Definition recv_item (r : receiver) (it : witem) : receiver :=
  if r_stopped r then r
  else
    match it with
    | WPing | WPong => r
    | WUnknown | WOversize | WGarbage => stop r
    | WMsg p =>
      if (p_ch p <? 0) || (255 <? p_ch p) then stop r          (* unknown channel *)
      else
        match find_rchan (r_chans r) (p_ch p) with
        | None => stop r                                        (* unknown channel *)
        | Some ch =>
          match recv_packet_msg ch (p_eof p) (p_data p) with
          | (_, RErr) => stop r
          | (ch', RNone) =>
            {| r_chans := set_rchan (r_chans r) (p_ch p) ch'; r_stopped := false;
               r_delivered := r_delivered r |}
          | (ch', RMsg m) =>
            {| r_chans := set_rchan (r_chans r) (p_ch p) ch'; r_stopped := false;
               r_delivered := r_delivered r ++ [(p_ch p, m)] |}
          end
        end
    end.

Definition recv_items (r : receiver) (l : list witem) : receiver := fold_left recv_item l r.

Definition new_receiver (descs : list (Z * Z)) : receiver :=
  (* newChannel: recving = make([]byte, 0, desc.RecvBufferCapacity) — empty and NOT nil *)
  {| r_chans := map (fun d => {| rc_id := fst d; rc_cap := snd d; rc_buf := Some [] |}) descs;
     r_stopped := false; r_delivered := [] |}.

(* is this item, arriving at receiver r, one that the property calls bad input? *)
Definition item_bad (r : receiver) (it : witem) : bool :=
  match it with
  | WPing | WPong => false
  | WUnknown | WOversize | WGarbage => true
  | WMsg p =>
    (p_ch p <? 0) || (255 <? p_ch p) ||
    match find_rchan (r_chans r) (p_ch p) with
    | None => true
    | Some ch => rc_cap ch <? Z.of_nat (length (rc_recving ch)) + Z.of_nat (length (p_data p))
    end
  end.

(* ================================================================== layer A: the pair *)

(* A sending MConnection, the byte stream in flight (FIFO) and the receiving MConnection of
   the peer; [s_accepted] is the ghost journal of the Send/TrySend calls that returned true. *)
Record sys := {
  s_send : list schan;
  s_wire : list packet;
  s_recv : receiver;
  s_accepted : list (Z * bytes)
}.

Inductive op :=
| OSend (c : Z) (m : bytes)      (* Send / TrySend from any goroutine *)
| OStep (choice : nat)           (* one sendPacketMsg of the sendRoutine *)
| ORecv.                         (* recvRoutine consumes the next packet *)

Definition step_with (pend : schan -> schan * bool) (maxsz : nat) (s : sys) (o : op) : sys :=
  match o with
  | OSend c m =>
    let '(chs, ok) := send_to (s_send s) c m in
    {| s_send := chs; s_wire := s_wire s; s_recv := s_recv s;
       s_accepted := if ok then s_accepted s ++ [(c, m)] else s_accepted s |}
  | OStep k =>
    let '(chs, pk, _) := send_packet_msg_with pend maxsz (s_send s) k in
    {| s_send := chs;
       s_wire := match pk with Some p => s_wire s ++ [p] | None => s_wire s end;
       s_recv := s_recv s; s_accepted := s_accepted s |}
  | ORecv =>
    match s_wire s with
    | [] => s
    | p :: w => {| s_send := s_send s; s_wire := w; s_recv := recv_item (s_recv s) (WMsg p);
                   s_accepted := s_accepted s |}
    end
  end.
Definition step := step_with is_send_pending.
Definition step_f16 := step_with is_send_pending_f16.
Definition run (maxsz : nat) (s : sys) (ops : list op) : sys := fold_left (step maxsz) ops s.
Definition run_f16 (maxsz : nat) (s : sys) (ops : list op) : sys := fold_left (step_f16 maxsz) ops s.

(* channel descriptors shared by both ends: (id, send queue capacity, recv message capacity) *)
Definition init_sys (descs : list (Z * nat * Z)) : sys :=
  {| s_send := map (fun d => new_schan (fst (fst d)) (snd (fst d))) descs;
     s_wire := [];
     s_recv := new_receiver (map (fun d => (fst (fst d), snd d)) descs);
     s_accepted := [] |}.

(* projections of a journal to one channel *)
Definition on_chan (c : Z) (j : list (Z * bytes)) : list bytes :=
  map snd (filter (fun e => fst e =? c) j).

Definition schan_idle (ch : schan) : bool :=
  match sc_queue ch, sc_sending ch with [], None => true | _, _ => false end.
Definition quiescent (s : sys) : bool :=
  forallb schan_idle (s_send s) && match s_wire s with [] => true | _ => false end.

(* a drain schedule: serve the first pending channel, let the receiver consume, repeat *)
Fixpoint first_pending (chs : list schan) : option nat :=
  match chs with
  | [] => None
  | ch :: r => if snd (is_send_pending ch) then Some O
               else match first_pending r with Some k => Some (S k) | None => None end
  end.
Fixpoint drain (fuel : nat) (maxsz : nat) (s : sys) : sys :=
  match fuel with
  | O => s
  | S f =>
    match s_wire s with
    | _ :: _ => drain f maxsz (step maxsz s ORecv)
    | [] => match first_pending (s_send s) with
            | Some k => drain f maxsz (step maxsz s (OStep k))
            | None => s
            end
    end
  end.

(* ================================================================== layer B: consensus guards *)

(* libs/bits.BitArray as it comes out of FromProto: the Bits field and the NUMBER of 64-bit
   words are independent on the wire. ba_present=false is the nil *BitArray. *)
Record bitarr := { ba_present : bool; ba_bits : Z; ba_elems : Z }.
Definition ba_size (b : bitarr) : Z := if ba_present b then ba_bits b else 0.
Definition num_elems (bits : Z) : Z := (bits + 63) / 64.
(* BitArray.ValidateBasic (added by the repair of finding F33): nil is fine, otherwise
   Bits >= 0 and len(Elems) == (Bits+63)/64 *)
Definition ba_validate_basic (b : bitarr) : bool :=
  negb (ba_present b) || ((0 <=? ba_bits b) && (ba_elems b =? num_elems (ba_bits b))).

(* types.PartSetHeader / BlockID, only what ValidateBasic looks at *)
Record psheader := { psh_total : Z (* uint32 *); psh_hashlen : Z }.
Record blockid := { bi_hashlen : Z; bi_psh : psheader }.

(* ValidateHash: len(h) == 0 || len(h) == tmhash.Size *)
Definition validate_hash (len : Z) : bool := (len =? 0) || (len =? tmhash_size).
Definition psh_validate_basic (h : psheader) : bool := validate_hash (psh_hashlen h).
Definition bi_validate_basic (b : blockid) : bool :=
  validate_hash (bi_hashlen b) && psh_validate_basic (bi_psh b).
Definition psh_is_zero (h : psheader) : bool := (psh_total h =? 0) && (psh_hashlen h =? 0).
Definition bi_is_zero (b : blockid) : bool := (bi_hashlen b =? 0) && psh_is_zero (bi_psh b).
(* IsComplete: len(Hash)==Size && Total > 0 && len(psh.Hash)==Size *)
Definition bi_is_complete (b : blockid) : bool :=
  (bi_hashlen b =? tmhash_size) && (0 <? psh_total (bi_psh b)) &&
  (psh_hashlen (bi_psh b) =? tmhash_size).

(* Two limits that tools/genconsts cannot evaluate (a conversion call and a function call in
   the Go constant expression); the harness re-checks both on every run: the ValidateBasic
   comparison sweeps all 256 step values and signature lengths 0, 1, 63..66.
     cstypes.RoundStepType.IsValid: uint8(rs) >= 0x01 && uint8(rs) <= 0x08 (RoundStepCommit)
     types.MaxSignatureSize = max(ed25519.SignatureSize, 64) *)
Definition cs_step_max : Z := 8.
Definition max_signature_size : Z := 64.

Definition vote_type_valid (t : Z) : bool := (t =? msg_type_prevote) || (t =? msg_type_precommit).

Inductive cmsg :=
| MNewRoundStep (height round step secs lcr : Z)
| MNewValidBlock (height round : Z) (psh : psheader) (parts : bitarr) (is_commit : bool)
| MProposal (typ height round polround : Z) (bid : blockid) (siglen : Z)
| MProposalPOL (height polround : Z) (pol : bitarr)
| MBlockPart (height round index byteslen : Z) (proof_ok : bool)
| MVote (typ height round : Z) (bid : blockid) (addrlen index siglen : Z)
| MHasVote (height round typ index : Z)
| MVoteSetMaj23 (height round typ : Z) (bid : blockid)
| MVoteSetBits (height round typ : Z) (bid : blockid) (votes : bitarr).

(* ValidateBasic of each message, checks in the order of the code (consensus/reactor.go,
   types/proposal.go, types/vote.go, types/part_set.go), with the two repairs:
   F21  ProposalMessage.ValidateBasic bounds Proposal.BlockID.PartSetHeader.Total by
        MaxBlockPartsCount (types.Proposal.ValidateBasic itself is unchanged);
   F33  the three messages carrying a BitArray call BitArray.ValidateBasic.
   [step] of MNewRoundStep is the uint32 on the wire: MsgFromProto refuses values above 255
   (SafeConvertUint8) and IsValid wants 1..8, together 1 <= step <= 8. *)
Definition validate_basic (m : cmsg) : bool :=
  match m with
  | MNewRoundStep h r s _ lcr =>
    (0 <=? h) && (0 <=? r) && ((1 <=? s) && (s <=? cs_step_max)) && (-1 <=? lcr)
  | MNewValidBlock h r psh parts _ =>
    (0 <=? h) && (0 <=? r) && psh_validate_basic psh &&
    negb (ba_size parts =? 0) && (ba_size parts =? psh_total psh) &&
    (ba_size parts <=? max_block_parts_count) && ba_validate_basic parts
  | MProposal t h r pol bid siglen =>
    (t =? msg_type_proposal) && (0 <=? h) && (0 <=? r) && (-1 <=? pol) &&
    bi_validate_basic bid && bi_is_complete bid &&
    (psh_total (bi_psh bid) <=? max_block_parts_count) &&
    negb (siglen =? 0) && (siglen <=? max_signature_size)
  | MProposalPOL h r pol =>
    (0 <=? h) && (0 <=? r) && negb (ba_size pol =? 0) && (ba_size pol <=? max_votes_count) &&
    ba_validate_basic pol
  | MBlockPart h r _ blen proof_ok =>
    (0 <=? h) && (0 <=? r) && (blen <=? block_part_size_bytes) && proof_ok
  | MVote t h r bid addrlen idx siglen =>
    vote_type_valid t && (0 <=? h) && (0 <=? r) && bi_validate_basic bid &&
    (bi_is_zero bid || bi_is_complete bid) && (addrlen =? address_size) && (0 <=? idx) &&
    negb (siglen =? 0) && (siglen <=? max_signature_size)
  | MHasVote h r t idx => (0 <=? h) && (0 <=? r) && vote_type_valid t && (0 <=? idx)
  | MVoteSetMaj23 h r t bid => (0 <=? h) && (0 <=? r) && vote_type_valid t && bi_validate_basic bid
  | MVoteSetBits h _ t bid votes =>
    (0 <=? h) && vote_type_valid t && bi_validate_basic bid &&
    (ba_size votes <=? max_votes_count) && ba_validate_basic votes
  end.

(* The unrepaired predicates (for the refutation witnesses in Props.v) *)
Definition validate_basic_unfixed (m : cmsg) : bool :=
  match m with
  | MNewValidBlock h r psh parts _ =>
    (0 <=? h) && (0 <=? r) && psh_validate_basic psh &&
    negb (ba_size parts =? 0) && (ba_size parts =? psh_total psh) &&
    (ba_size parts <=? max_block_parts_count)
  | MProposal t h r pol bid siglen =>
    (t =? msg_type_proposal) && (0 <=? h) && (0 <=? r) && (-1 <=? pol) &&
    bi_validate_basic bid && bi_is_complete bid &&
    negb (siglen =? 0) && (siglen <=? max_signature_size)
  | MProposalPOL h r pol =>
    (0 <=? h) && (0 <=? r) && negb (ba_size pol =? 0) && (ba_size pol <=? max_votes_count)
  | MVoteSetBits h _ t bid votes =>
    (0 <=? h) && vote_type_valid t && bi_validate_basic bid &&
    (ba_size votes <=? max_votes_count)
  | _ => validate_basic m
  end.

(* What the reactor-side handlers do with the numbers of a validated message, before any
   signature is checked (consensus/reactor.go ReceiveEnvelope and the PeerState methods):
     - allocations: bits.NewBitArray(n) allocates (n+63)/64 words; a BitArray taken over from
       the message is stored as it is (its words were already paid for by the message bytes);
     - word accesses Elems[i/64] guarded by i < Bits on a stored BitArray, and the unguarded
       Elems[len-1] of getTrueIndices/IsFull when a gossip routine later walks a peer's array.
   [demand] lists, for one message, every bit array it makes the node allocate (requested bit
   count) and every bit array of the message that is stored in the peer state for later use. *)
Inductive demand :=
| DAlloc (bits : Z)            (* bits.NewBitArray(bits) *)
| DStore (b : bitarr).         (* msg bit array kept in PeerState (ProposalBlockParts, ProposalPOL)
                                  or combined into a stored one (VoteSetBits: Sub/Or/Update) *)

Definition demands (m : cmsg) : list demand :=
  match m with
  | MProposal _ _ _ _ bid _ => [DAlloc (psh_total (bi_psh bid))]     (* SetHasProposal *)
  | MNewValidBlock _ _ _ parts _ => [DStore parts]                   (* ApplyNewValidBlockMessage *)
  | MProposalPOL _ _ pol => [DStore pol]                             (* ApplyProposalPOLMessage *)
  | MVoteSetBits _ _ _ _ votes => [DStore votes]                     (* ApplyVoteSetBitsMessage *)
  | _ => []   (* NewRoundStep/HasVote/VoteSetMaj23/Vote/BlockPart: indices only, every access
                 goes through SetIndex/getVoteBitArray which test i < Bits on node-made arrays *)
  end.

(* the largest bit array a peer may make the node hold per message *)
Definition max_bits : Z := Z.max max_block_parts_count max_votes_count.

(* a stored array is safe to walk: the word count matches the bit count (so Elems[i/64] for
   i < Bits and Elems[len-1] when Bits > 0 are in range) and it is not larger than max_bits *)
Definition ba_wellformed (b : bitarr) : bool :=
  negb (ba_present b) ||
  ((0 <=? ba_bits b) && (ba_elems b =? num_elems (ba_bits b)) && (ba_bits b <=? max_bits)).

Definition demand_ok (d : demand) : bool :=
  match d with
  | DAlloc n => n <=? max_bits
  | DStore b => ba_wellformed b
  end.

(* ================================================================== layer B: state-machine side guards *)

(* A BlockPartMessage, a ProposalMessage and a VoteMessage that pass ValidateBasic are queued for
   the consensus state machine (consensus/state.go receiveRoutine -> handleMsg ->
   addProposalBlockPart / setProposal / tryAddVote).  A panic there is recovered by
   receiveRoutine, which then EXITS ("CONSENSUS FAILURE"): the node stops handling any input
   while its peers stay connected.  ValidateBasic does not bound Part.Index or
   Vote.ValidatorIndex from above; what makes such values harmless are the guards in front of
   the slice accesses, modelled here:
     types/part_set.go PartSet.AddPart:
       if part.Index >= ps.total { return false, ErrPartSetUnexpectedIndex }
       if ps.parts[part.Index] != nil { return false, nil }
       if proof index/total differ or proof.Verify fails { return false, ErrPartSetInvalidProof }
       ps.parts[part.Index] = part; ps.partsBitArray.SetIndex(int(part.Index), true); ps.count++
     types/vote_set.go VoteSet.addVote:
       if valIndex < 0 { return ErrVoteInvalidValidatorIndex }
       lookupAddr, val := valSet.GetByIndex(valIndex)   (nil when valIndex >= Size())
       if val == nil { return ErrVoteInvalidValidatorIndex }
       ... voteSet.votes[valIndex], votesBitArray.SetIndex(valIndex) ...
   An [access] is one indexing operation: the index used and the length of what is indexed. *)
Inductive access := Acc (index len : Z).
Definition acc_ok (a : access) : bool := let 'Acc i n := a in (0 <=? i) && (i <? n).

(* a PartSet: len(ps.parts) = ps.total, pt_have[i] = (ps.parts[i] != nil) *)
Record partset := { pt_total : Z; pt_have : list bool }.
Definition pt_count (ps : partset) : Z := Z.of_nat (length (filter (fun b => b) (pt_have ps))).

(* AddPart with the bound given as a comparison, so that the weakened form can be exhibited;
   [genuine]: the part's proof has this index and total and verifies against the set's hash.
   Result: added?, the accesses made *)
Definition add_part_with (out_of_range : Z -> Z -> bool) (ps : partset) (index : Z) (genuine : bool)
  : bool * list access :=
  let a := Acc index (pt_total ps) in
  if out_of_range index (pt_total ps) then (false, [])
  else if nth (Z.to_nat index) (pt_have ps) false then (false, [a])
  else if negb genuine then (false, [a])
  else (true, [a; a; a]).
Definition add_part := add_part_with (fun index total => total <=? index).       (* Index >= total *)
Definition add_part_weak := add_part_with (fun index total => total <? index).   (* Index >  total *)

(* what the state machine knows when the message arrives *)
Record smstate := {
  sm_height : Z;
  sm_parts : option partset;     (* cs.ProposalBlockParts (None = nil) *)
  sm_nvals : Z                   (* size of the validator set the vote sets are made for *)
}.

(* slice accesses the state machine makes with the numbers of a message.
   addProposalBlockPart: other height or no part set -> ignored, else AddPart.
   tryAddVote/addVote (votes for this height, precommits of the previous one): the index guard.
   Proposal: no index; its part-set total sizes an allocation (see [demands]). *)
Definition sm_accesses_with (addp : partset -> Z -> bool -> bool * list access)
           (st : smstate) (m : cmsg) (genuine : bool) : list access :=
  match m with
  | MBlockPart h _ idx _ _ =>
    if h =? sm_height st
    then match sm_parts st with Some ps => snd (addp ps idx genuine) | None => [] end
    else []
  | MVote _ _ _ _ _ idx _ =>
    if (idx <? 0) || (sm_nvals st <=? idx) then [] else [Acc idx (sm_nvals st); Acc idx (sm_nvals st)]
  | _ => []
  end.
Definition sm_accesses := sm_accesses_with add_part.
Definition sm_accesses_weak := sm_accesses_with add_part_weak.

(* is the part of a BlockPartMessage added to the node's part set? *)
Definition sm_part_added (st : smstate) (m : cmsg) (genuine : bool) : bool :=
  match m with
  | MBlockPart h _ idx _ _ =>
    (h =? sm_height st) &&
    match sm_parts st with Some ps => fst (add_part ps idx genuine) | None => false end
  | _ => false
  end.
