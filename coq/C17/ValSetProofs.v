(* C17 / F85 — proofs about coq/C17/ValSet.v *)
From Coq Require Import List ZArith NArith Bool Lia.
From TM Require Import Generated.Consts C17.ValSet.
Import ListNotations.
Open Scope Z_scope.

Lemma max_total_lt_i64 : max_total_voting_power < i64_max.
Proof. unfold max_total_voting_power, i64_max. lia. Qed.

(* with non-negative powers nothing is clipped below the bound: the loop computes the true sum *)
Lemma tvp_sum_exact : forall powers sum t,
  0 <= sum <= max_total_voting_power -> Forall (fun p => 0 <= p) powers ->
  tvp_sum sum powers = Some t ->
  t = sum + sum_powers powers /\ t <= max_total_voting_power.
Proof.
  induction powers as [|p r IH]; intros sum t Hs Hp E; cbn in E.
  - injection E as <-. cbn. lia.
  - inversion Hp as [|? ? Hp0 Hr]; subst.
    pose proof max_total_lt_i64 as Hm.
    destruct (max_total_voting_power <? safe_add_clip64 sum p) eqn:Eb; [discriminate|].
    apply Z.ltb_ge in Eb.
    assert (Ec : safe_add_clip64 sum p = sum + p).
    { unfold safe_add_clip64 in *.
      destruct ((0 <? p) && (i64_max - p <? sum)) eqn:E1; [lia|].
      destruct ((p <? 0) && (sum <? i64_min - p)) eqn:E2; [|reflexivity].
      apply andb_true_iff in E2 as [E2 _]. apply Z.ltb_lt in E2. lia. }
    rewrite Ec in *. destruct (IH (sum + p) t ltac:(lia) Hr E) as [H1 H2].
    cbn [sum_powers]. lia.
Qed.

Lemma forallb_power_nonneg : forall vals,
  forallb wval_validate_basic vals = true -> Forall (fun p => 0 <= p) (map wv_power vals).
Proof.
  induction vals as [|v r IH]; cbn; intros H; [constructor|].
  apply andb_true_iff in H as [Hv Hr]. constructor; [|auto].
  unfold wval_validate_basic in Hv. apply andb_true_iff in Hv as [Hv _].
  apply andb_true_iff in Hv as [_ Hv]. now apply Z.leb_le.
Qed.

(* the repaired decoder never panics *)
Lemma valset_from_proto_no_panic : forall ws, valset_from_proto ws <> DPanic.
Proof.
  intros ws. unfold valset_from_proto, valset_from_proto_with.
  destruct (negb (forallb wv_pubkey_ok (ws_vals ws))); [discriminate|].
  destruct (ws_proposer ws) as [p|]; [|discriminate].
  destruct (negb (wv_pubkey_ok p)); [discriminate|].
  destruct (tvp_sum 0 (map wv_power (ws_vals ws))); [|discriminate].
  destruct (wvalset_validate_basic ws); discriminate.
Qed.

Lemma valset_from_existing_no_panic : forall vals, valset_from_existing vals <> DPanic.
Proof.
  intros vals. unfold valset_from_existing, valset_from_existing_with.
  destruct vals as [|v r]; [discriminate|].
  destruct (negb (forallb wval_validate_basic (v :: r))); [discriminate|].
  destruct (tvp_sum 0 (map wv_power (v :: r))); discriminate.
Qed.

(* the well-formedness C07/C08 assume of every validator set: no negative power, the
   mathematical sum of the powers at most MaxTotalVotingPower *)
Definition powers_wf (powers : list Z) : Prop :=
  Forall (fun p => 0 <= p) powers /\ sum_powers powers <= max_total_voting_power.

Lemma valset_from_proto_accepts_wf : forall ws t,
  valset_from_proto ws = DOk t ->
  ws_vals ws <> [] /\ vals_total_ok (map wv_power (ws_vals ws)) = true /\
  powers_wf (map wv_power (ws_vals ws)) /\ t = sum_powers (map wv_power (ws_vals ws)).
Proof.
  intros ws t. unfold valset_from_proto, valset_from_proto_with, vals_total_ok.
  destruct (negb (forallb wv_pubkey_ok (ws_vals ws))); [discriminate|].
  destruct (ws_proposer ws) as [p|] eqn:Ep; [|discriminate].
  destruct (negb (wv_pubkey_ok p)); [discriminate|].
  destruct (tvp_sum 0 (map wv_power (ws_vals ws))) as [t'|] eqn:Et; [|discriminate].
  destruct (wvalset_validate_basic ws) eqn:Ev; [|discriminate].
  intros E. injection E as <-.
  unfold wvalset_validate_basic in Ev. apply andb_true_iff in Ev as [Ev _].
  apply andb_true_iff in Ev as [Hne Hall].
  pose proof (forallb_power_nonneg _ Hall) as Hnn.
  assert (H0 : 0 <= 0 <= max_total_voting_power) by (unfold max_total_voting_power; lia).
  destruct (tvp_sum_exact _ _ _ H0 Hnn Et) as [H1 H2].
  split; [destruct (ws_vals ws); [discriminate | discriminate]|].
  split; [reflexivity|]. split; [split; [exact Hnn | lia] | lia].
Qed.

Lemma valset_from_existing_accepts_wf : forall vals t,
  valset_from_existing vals = DOk t ->
  vals <> [] /\ vals_total_ok (map wv_power vals) = true /\
  powers_wf (map wv_power vals) /\ t = sum_powers (map wv_power vals).
Proof.
  intros vals t. unfold valset_from_existing, valset_from_existing_with, vals_total_ok.
  destruct vals as [|v r]; [discriminate|].
  destruct (negb (forallb wval_validate_basic (v :: r))) eqn:Ev; [discriminate|].
  apply negb_false_iff in Ev.
  destruct (tvp_sum 0 (map wv_power (v :: r))) as [t'|] eqn:Et; [|discriminate].
  intros E. injection E as <-.
  pose proof (forallb_power_nonneg _ Ev) as Hnn.
  assert (H0 : 0 <= 0 <= max_total_voting_power) by (unfold max_total_voting_power; lia).
  destruct (tvp_sum_exact _ _ _ H0 Hnn Et) as [H1 H2].
  split; [discriminate|]. split; [reflexivity|]. split; [split; [exact Hnn | lia] | lia].
Qed.

(* the repair changes nothing but the panic: wherever the old decoder did not panic, the two agree *)
Lemma valset_from_proto_conservative : forall ws,
  valset_from_proto_f85 ws <> DPanic -> valset_from_proto ws = valset_from_proto_f85 ws.
Proof.
  intros ws. unfold valset_from_proto, valset_from_proto_f85, valset_from_proto_with.
  destruct (negb (forallb wv_pubkey_ok (ws_vals ws))); [reflexivity|].
  destruct (ws_proposer ws) as [p|]; [|reflexivity].
  destruct (negb (wv_pubkey_ok p)); [reflexivity|].
  destruct (tvp_sum 0 (map wv_power (ws_vals ws))); [reflexivity|]. intros H. now contradiction H.
Qed.

Lemma valset_from_existing_conservative : forall vals,
  valset_from_existing_f85 vals <> DPanic -> valset_from_existing vals = valset_from_existing_f85 vals.
Proof.
  intros vals. unfold valset_from_existing, valset_from_existing_f85, valset_from_existing_with.
  destruct vals as [|v r]; [reflexivity|].
  destruct (negb (forallb wval_validate_basic (v :: r))); [reflexivity|].
  destruct (tvp_sum 0 (map wv_power (v :: r))); [reflexivity|]. intros H. now contradiction H.
Qed.

(* the statement used in Props.v *)
Lemma wire_valsets_in_bounds :
  (forall ws, valset_from_proto ws <> DPanic) /\
  (forall vals, valset_from_existing vals <> DPanic) /\
  (forall ws t, valset_from_proto ws = DOk t ->
     ws_vals ws <> [] /\ vals_total_ok (map wv_power (ws_vals ws)) = true /\
     powers_wf (map wv_power (ws_vals ws)) /\ t = sum_powers (map wv_power (ws_vals ws))) /\
  (forall vals t, valset_from_existing vals = DOk t ->
     vals <> [] /\ vals_total_ok (map wv_power vals) = true /\
     powers_wf (map wv_power vals) /\ t = sum_powers (map wv_power vals)).
Proof.
  split; [exact valset_from_proto_no_panic|]. split; [exact valset_from_existing_no_panic|].
  split; [exact valset_from_proto_accepts_wf | exact valset_from_existing_accepts_wf].
Qed.

Lemma wire_valsets_repair_conservative :
  (forall ws, valset_from_proto_f85 ws <> DPanic -> valset_from_proto ws = valset_from_proto_f85 ws) /\
  (forall vals, valset_from_existing_f85 vals <> DPanic -> valset_from_existing vals = valset_from_existing_f85 vals).
Proof. split; [exact valset_from_proto_conservative | exact valset_from_existing_conservative]. Qed.

(* light-client-attack evidence off the wire: the repaired decoder never panics *)
Lemma lcae_from_proto_no_panic : forall ws sh, lcae_from_proto ws sh <> DPanic.
Proof.
  intros ws sh. unfold lcae_from_proto, lcae_from_proto_with.
  pose proof (valset_from_proto_no_panic ws) as H. unfold valset_from_proto in H.
  destruct (sh =? 2)%N; [discriminate|].
  destruct (valset_from_proto_with DErr ws); [now contradiction H | discriminate |].
  destruct (sh =? 0)%N; discriminate.
Qed.
