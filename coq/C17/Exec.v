(* C17 — executable side of the correspondence check.  The Go harnesses
     harness/overlay/p2p/conn/verif_c17_mux_test.go         (CMux, CConc, CHostile)
     harness/overlay/consensus/verif_c17_cons_test.go        (CValidate, CReactor for consensus)
     harness/overlay/{mempool/v0,evidence,blockchain/v0,statesync,p2p/pex}/verif_c17_reactor_test.go (CReactor)
   drive the real code and write one [case] per history with the implementation's own answers.
   [check] (a) evaluates the property's monitors on those answers (V_violation), (b) compares
   them with the model (V_mismatch).  Depends on Model.v only. *)
From Coq Require Import String List ZArith NArith Bool.
From TM Require Import Common.Hex Generated.Consts.
From TM Require Export C17.Model C17.ValSet C17.Stop.
Import ListNotations.
Open Scope Z_scope.

(* ------------------------------------------------------------------ case type *)

(* A byte string in a case: a hex literal, or the harness's pattern bytes b[i] = seed + 3*i
   (mod 256) of the given length (c17Msg).  The encoding is lossless: the harness prints BP only
   for a slice that IS that pattern (it compares the bytes), whoever produced the slice; long
   messages (above RecvBufferCapacity = 4096 and more) then cost nothing to parse. *)
Inductive blob := BH (s : string) | BP (seed len : N).
Fixpoint pat (cur : N) (n : nat) : bytes :=
  match n with O => [] | S k => cur :: pat ((cur + 3) mod 256)%N k end.
Definition unblob (b : blob) : bytes :=
  match b with BH s => unhex s | BP seed n => pat (seed mod 256)%N (N.to_nat n) end.

(* one operation of a stepped multiplex history with what the implementation answered *)
Inductive mop :=
| MSend (c : Z) (m : blob) (ok_i : bool)                    (* Channel.trySendBytes via channelsIdx *)
| MStep (pkt_i : option (Z * bool * blob)) (exh_i : bool).  (* MConnection.sendPacketMsg: packet written, result *)

(* one item written raw to the connection of a real receiving MConnection *)
Inductive hitem :=
| HMsg (c : Z) (eof : bool) (data : blob)
| HPing | HPong | HUnknown | HOversize | HGarbage.

Inductive case :=
(* sender driven step by step (real Channel/MConnection code, real scheduler), the bytes it wrote
   are then read by a real started MConnection.
   maxsz: MaxPacketMsgPayloadSize; descs: (id, SendQueueCapacity, RecvMessageCapacity);
   bcaps: RecvBufferCapacity of each channel, in descs order (the initial cap of ch.recving: a
   message longer than it makes append replace the buffer; part of the input, the model has no
   use for it because no code path reads cap(ch.recving));
   drained: the history ends with sendPacketMsg steps until it reported "exhausted";
   delivered_i: onReceive journal; err_i: onError was called on the receiver *)
| CMux (maxsz : nat) (descs : list (Z * nat * Z)) (bcaps : list Z) (ops : list mop) (drained : bool)
       (delivered_i : list (Z * blob)) (err_i : bool)
(* two real started MConnections over net.Pipe, one sending goroutine per channel.
   accepted: per goroutine the (channel, message) list for which Send returned true, in order;
   every channel is used by one goroutine only *)
| CConc (maxsz : nat) (descs : list (Z * nat * Z)) (bcaps : list Z) (accepted : list (list (Z * blob)))
        (delivered_i : list (Z * blob)) (err_i : bool)
(* hostile raw stream into a real started MConnection. descs: (id, RecvMessageCapacity);
   bufs_i: after each item (ping/pong barrier) len(ch.recving) of every channel, in descs
   order, until the connection errored; nils_i: at the same moments, ch.recving == nil of every
   channel; ndeliv_at_err_i: journal length when onError fired
   (or final length when it did not); delivered_i: journal after ALL items were written *)
| CHostile (descs : list (Z * Z)) (bcaps : list Z) (items : list hitem) (bufs_i : list (list Z))
           (nils_i : list (list bool))
           (err_i : bool) (ndeliv_at_err_i : Z) (delivered_i : list (Z * blob))
(* one consensus message through the real decoder (proto round trip, MsgFromProto incl.
   ValidateBasic) and, when accepted, through ReceiveEnvelope's PeerState handlers on a peer
   state positioned at the message's height/round.
   ok_i: accepted; arrays_i: (Bits, len(Elems)) of every non-nil bit array in the PeerRoundState
   afterwards; panic_i: a handler or a gossip-side walk (Not().PickRandom(), IsFull, String) of
   those arrays panicked; alloc_i: bytes allocated by the handlers *)
| CValidate (m : cmsg) (ok_i : bool) (arrays_i : list (Z * Z)) (panic_i : bool) (alloc_i : Z)
(* one hostile input to a live reactor (reactor: 1 consensus, 2 mempool/v0, 3 evidence,
   4 blockchain/v0, 5 statesync, 6 pex).  kind: 0 random bytes, 1 mutated encoding of a valid
   message, 2 well-formed hostile message.  inlen: size of the input.
   recv_panic_i: Receive panicked (MConnection._recover turns that into a peer error);
   stopped_i: Switch.StopPeerForError was called for the sender;
   bg_panic_i: a goroutine of the reactor other than the receiving one panicked (kills the node);
   stuck_i: Receive did not return before the deadline;
   alive_i: afterwards the reactor still served an honest peer / made progress;
   alloc_i: bytes allocated while handling *)
| CReactor (reactor kind : N) (inlen : Z) (recv_panic_i stopped_i bg_panic_i stuck_i alive_i : bool)
           (alloc_i : Z)
(* a hostile-but-decodable consensus message at boundary values, delivered through
   Reactor.Receive to a node whose state machine holds live data at its current height
   (verif_c17_sm_test.go).  scen: 1 the node's own complete proposal and its prevote, 2 another
   validator's proposal with an incomplete part set, 3 no proposal yet.
   height, round: of the node; ptotal, phave: Total of its live part set (-1: none) and which
   parts it holds, read before the message; nvals: validators.
   m: the message; genuine: (block part) bytes and proof are those of the live part set's part at
   that index; sent_i: the message was handed to Receive (the sender was still connected).
   recv_panic_i: Receive panicked; stopped_i: the sender was stopped; bg_panic_i: one of the
   sender's gossip routines panicked; stuck_i: Receive did not return; halted_i: the consensus
   receiveRoutine exited (cs.done closed: CONSENSUS FAILURE); probe_ok_i: an honest prevote sent
   afterwards by another peer was recorded by the state machine;
   pcount_before_i / pcount_after_i: parts held by the live part set (-1: none) *)
| CStateM (scen : N) (height round : Z) (ptotal : Z) (phave : list bool) (nvals : Z)
          (m : cmsg) (genuine : bool) (sent_i : bool) (inlen : Z)
          (recv_panic_i stopped_i bg_panic_i stuck_i halted_i probe_ok_i : bool)
          (pcount_before_i pcount_after_i : Z) (alloc_i : Z)
(* A panic inside the routines of a REAL started MConnection, in a child process that serves
   several connections (verif_c17_mux_test.go, TestVerifC17Recover).
   kind 1: the victim connection's onReceive (a reactor's Receive) panics on the marked message;
   kind 2: the victim connection's transport panics in Write, i.e. inside sendRoutine.
   descs: the victim's channels; accepted: what Send accepted on the victim pair, in order;
   marked: position in [accepted] of the marked message (kind 2: -1).
   crashed_i: the child process died while running this case;
   reached_i: onReceive got the marked message / Write was called and panicked;
   nerr_i: calls of the victim's onError; err_has_panic_i: its argument carries the panic value;
   running_i: victim.IsRunning() afterwards; send_after_i: victim.Send afterwards returned true;
   delivered_i: the victim pair's onReceive journal (the marked message is not in it: onReceive
   panicked); ndeliv_at_err_i: its length when onError fired;
   others_ok_i: for every other connection of the process: everything it was sent before AND
   after the panic was delivered in order, it is still running and reported no error *)
| CRecover (kind : N) (maxsz : nat) (descs : list (Z * nat * Z)) (accepted : list (Z * blob)) (marked : Z)
           (crashed_i reached_i : bool) (nerr_i : Z) (err_has_panic_i running_i send_after_i : bool)
           (delivered_i : list (Z * blob)) (ndeliv_at_err_i : Z) (others_ok_i : list bool)
(* F85: a validator set with the given voting powers (valid keys and 20-byte addresses; the
   proposer, when present, is an extra valid entry with that power) handed as BYTES to a decoder
   of untrusted input.  via: 1 types.ValidatorSetFromProto, 2 types.ValidatorSetFromExistingValidators
   (light/provider/http), 3 types.EvidenceFromProto (the set inside LightClientAttackEvidence),
   4 types.BlockFromProto (that evidence inside a block: what addProposalBlockPart and block sync
   decode); sh (via 3, 4): the conflicting block's signed header: 0 absent, 1 present without
   header, 2 present with an invalid header.  ok_i: no error; panic_i: the decoder panicked; total_i: TotalVotingPower() of the
   returned set (via 1, 2) *)
| CValSet (via : N) (powers : list Z) (proposer : option Z) (sh : N) (ok_i panic_i : bool) (total_i : Z)
(* F93, connection level: a real started MConnection is written a packet stream in ONE Write;
   its onReceive stops the connection (how: 1 Stop, 2 FlushStop) when it is
   handed a message whose first byte is 238.  descs: (id, RecvMessageCapacity).
   delivered_i: onReceive journal; nafter_i: calls of onReceive that began after the stop call had
   returned; nstops_i: how often the callback stopped the connection *)
| CStopIn (how : N) (descs : list (Z * Z)) (items : list hitem) (delivered_i : list (Z * blob))
          (nafter_i nstops_i : Z)
(* F93, node level: a victim node (real Switch, real blockchain/v0 reactor and BlockPool) syncing
   from an honest peer; a hostile peer sends an invalid blockchain message (inv: 1
   BlockRequest{Height:-1}, 2 NoBlockResponse{Height:-1}, 3 StatusResponse{Base:5,Height:1},
   4 BlockResponse{nil}) and StatusResponse{Base:far, Height:far}, back to back (together) or the
   status first and the invalid message 300 ms later.  dropped_i: the hostile peer is no longer in
   the victim's Switch.Peers(); ghost_i: the BlockPool still has an entry for it; maxh_i:
   pool.maxPeerHeight afterwards; top: the honest peer's height; caught_up_i: pool.IsCaughtUp() *)
| CGhost (together : bool) (inv : N) (far top : Z) (dropped_i ghost_i : bool) (maxh_i : Z) (caught_up_i : bool).

(* ------------------------------------------------------------------ helpers *)

Definition mism (b : bool) (code : N) : verdict := if b then V_ok else V_mismatch code.
Definition viol (b : bool) (clause : N) : verdict := if b then V_ok else V_violation clause.

Definition list_eqb {A B} (eqb : A -> B -> bool) (a : list A) (b : list B) : bool :=
  Nat.eqb (List.length a) (List.length b) && forallb (fun '(x, y) => eqb x y) (combine a b).

Fixpoint is_prefix (a b : list bytes) : bool :=
  match a, b with
  | [], _ => true
  | x :: a', y :: b' => bytes_eqb x y && is_prefix a' b'
  | _ :: _, [] => false
  end.

Definition jr_eqb (a b : Z * bytes) : bool := (fst a =? fst b) && bytes_eqb (snd a) (snd b).
Definition unhex_j (j : list (Z * blob)) : list (Z * bytes) := map (fun e => (fst e, unblob (snd e))) j.

Definition packet_eqb (a b : packet) : bool :=
  (p_ch a =? p_ch b) && Bool.eqb (p_eof a) (p_eof b) && bytes_eqb (p_data a) (p_data b).
Definition opacket_eqb (a b : option packet) : bool :=
  match a, b with Some x, Some y => packet_eqb x y | None, None => true | _, _ => false end.
Definition mk_packet (t : Z * bool * blob) : packet :=
  let '(c, e, d) := t in {| p_ch := c; p_eof := e; p_data := unblob d |}.

Fixpoint index_of (c : Z) (ids : list Z) : nat :=
  match ids with
  | [] => O
  | x :: r => if x =? c then O else S (index_of c r)
  end.

Definition blen (b : bytes) : Z := Z.of_nat (List.length b).

(* ------------------------------------------------------------------ CMux *)

(* the sender model follows the implementation's own scheduling decisions: the served channel
   is read off the packet the implementation wrote *)
Fixpoint mux_run (maxsz : nat) (ids : list Z) (chs : list schan) (ops : list mop)
  : bool (* send results agree *) * bool (* packets agree *) * bool (* exhausted flags agree *) :=
  match ops with
  | [] => (true, true, true)
  | MSend c m ok_i :: r =>
    let '(chs', ok) := send_to chs c (unblob m) in
    let '(a, b, e) := mux_run maxsz ids chs' r in (Bool.eqb ok ok_i && a, b, e)
  | MStep pkt_i exh_i :: r =>
    let k := match pkt_i with Some (c, _, _) => index_of c ids | None => O end in
    let '(chs', pk, exh) := send_packet_msg maxsz chs k in
    let '(a, b, e) := mux_run maxsz ids chs' r in
    (a, opacket_eqb pk (option_map mk_packet pkt_i) && b, Bool.eqb exh exh_i && e)
  end.

Definition accepted_of (ops : list mop) : list (Z * bytes) :=
  flat_map (fun o => match o with MSend c m true => [(c, unblob m)] | _ => [] end) ops.
Definition packets_of (ops : list mop) : list packet :=
  flat_map (fun o => match o with MStep (Some t) _ => [mk_packet t] | _ => [] end) ops.

(* the property on journals: on every channel the delivered list is a prefix of the accepted
   list; and equal to it when [complete] *)
Definition fifo_prefix (ids : list Z) (acc del : list (Z * bytes)) : bool :=
  forallb (fun c => is_prefix (on_chan c del) (on_chan c acc)) ids &&
  forallb (fun e => existsb (Z.eqb (fst e)) ids) del.
Definition fifo_complete (ids : list Z) (acc del : list (Z * bytes)) : bool :=
  forallb (fun c => list_eqb bytes_eqb (on_chan c del) (on_chan c acc)) ids.

Definition fits (descs : list (Z * nat * Z)) (acc : list (Z * bytes)) : bool :=
  forallb (fun e => existsb (fun d => (fst (fst d) =? fst e) && (blen (snd e) <=? snd d)) descs) acc.

(* ------------------------------------------------------------------ CHostile *)

Definition mk_item (h : hitem) : witem :=
  match h with
  | HMsg c e d => WMsg {| p_ch := c; p_eof := e; p_data := unblob d |}
  | HPing => WPing | HPong => WPong | HUnknown => WUnknown
  | HOversize => WOversize | HGarbage => WGarbage
  end.

(* is item k bad input, judged on the implementation's own buffer lengths before it *)
Definition bad_by_impl (descs : list (Z * Z)) (prev : list Z) (it : witem) : bool :=
  match it with
  | WPing | WPong => false
  | WUnknown | WOversize | WGarbage => true
  | WMsg p =>
    (p_ch p <? 0) || (255 <? p_ch p) ||
    negb (existsb (fun d => fst d =? p_ch p) descs) ||
    existsb (fun '(d, l) => (fst d =? p_ch p) && (snd d <? l + blen (p_data p))) (combine descs prev)
  end.

(* walk the items with the implementation's buffer observations: Some k = index of the first
   bad item (the observation list stops there), None = no bad item *)
Fixpoint first_bad (descs : list (Z * Z)) (prev : list Z) (items : list witem) (bufs : list (list Z))
         (k : Z) : option Z :=
  match items with
  | [] => None
  | it :: r =>
    if bad_by_impl descs prev it then Some k
    else match bufs with
         | b :: bs => first_bad descs b r bs (k + 1)
         | [] => first_bad descs prev r [] (k + 1)
         end
  end.

Definition bufs_bounded (descs : list (Z * Z)) (bufs : list (list Z)) : bool :=
  forallb (fun b => forallb (fun '(d, l) => (0 <=? l) && (l <=? snd d)) (combine descs b)) bufs.

Fixpoint model_bufs (r : receiver) (items : list witem) : list (list Z) :=
  match items with
  | [] => []
  | it :: rest =>
    let r' := recv_item r it in
    if r_stopped r' then [] else map (fun c => blen (rc_recving c)) (r_chans r') :: model_bufs r' rest
  end.

(* ch.recving == nil of every channel after each item, as the model has it *)
Fixpoint model_nils (r : receiver) (items : list witem) : list (list bool) :=
  match items with
  | [] => []
  | it :: rest =>
    let r' := recv_item r it in
    if r_stopped r' then []
    else map (fun c => match rc_buf c with None => true | Some _ => false end) (r_chans r') :: model_nils r' rest
  end.

(* ------------------------------------------------------------------ CValidate / CReactor *)

Definition alloc_limit : Z := 64 * 1024 * 1024.     (* 64 MiB for one small input *)

Definition arrays_ok (a : list (Z * Z)) : bool :=
  forallb (fun '(b, e) => (0 <=? b) && (e =? num_elems b) && (b <=? max_bits)) a.

(* ------------------------------------------------------------------ check *)

Definition check (c : case) : verdict :=
  match c with
  | CMux maxsz descs _ ops drained delivered_i err_i =>
    let ids := map (fun d => fst (fst d)) descs in
    let acc := accepted_of ops in
    let del := unhex_j delivered_i in
    let pkts := packets_of ops in
    let init := map (fun d => new_schan (fst (fst d)) (snd (fst d))) descs in
    let '(a, b, e) := mux_run maxsz ids init ops in
    let rm := recv_items (new_receiver (map (fun d => (fst (fst d), snd d)) descs)) (map WMsg pkts) in
    first_of [
      viol (fifo_prefix ids acc del) 1;
      viol (negb (drained && fits descs acc) || fifo_complete ids acc del) 2;
      viol (negb (fits descs acc) || negb err_i) 3;
      viol (forallb (fun p => blen (p_data p) <=? Z.of_nat maxsz) pkts) 4;
      mism a 11; mism b 12; mism e 13;
      mism (list_eqb jr_eqb (r_delivered rm) del) 14;
      mism (Bool.eqb (r_stopped rm) err_i) 15 ]
  | CConc maxsz descs _ accepted delivered_i err_i =>
    let ids := map (fun d => fst (fst d)) descs in
    let acc := unhex_j (concat accepted) in
    let del := unhex_j delivered_i in
    (* the model on one canonical schedule: every message is sent and drained in turn *)
    let fin := fold_left (fun s e => drain (2 * (List.length (snd e) / maxsz + 2)) maxsz
                                           (step maxsz s (OSend (fst e) (snd e))))
                         acc (init_sys descs) in
    first_of [
      viol (fifo_prefix ids acc del) 1;
      viol (negb (fits descs acc) || fifo_complete ids acc del) 2;
      viol (negb (fits descs acc) || negb err_i) 3;
      mism (forallb (fun c => list_eqb bytes_eqb (on_chan c (r_delivered (s_recv fin))) (on_chan c del)) ids) 16;
      mism (Bool.eqb (r_stopped (s_recv fin)) err_i) 15 ]
  | CHostile descs _ items bufs_i nils_i err_i nd_i delivered_i =>
    let its := map mk_item items in
    let del := unhex_j delivered_i in
    let rm := recv_items (new_receiver descs) its in
    let fb := first_bad descs (map (fun _ => 0) descs) its bufs_i 0 in
    first_of [
      viol (bufs_bounded descs bufs_i) 5;
      (* bad input => the peer is stopped; no bad input => it is not *)
      viol (match fb with Some _ => err_i | None => true end) 6;
      (* nothing is delivered after the error *)
      viol (negb err_i || (nd_i =? Z.of_nat (List.length delivered_i))) 7;
      mism (list_eqb jr_eqb (r_delivered rm) del) 14;
      mism (Bool.eqb (r_stopped rm) err_i) 15;
      mism (list_eqb (list_eqb Z.eqb) (model_bufs (new_receiver descs) its) bufs_i) 18;
      mism (list_eqb (list_eqb Bool.eqb) (model_nils (new_receiver descs) its) nils_i) 17 ]
  | CValidate m ok_i arrays_i panic_i alloc_i =>
    first_of [
      (* validated message => handlers stay in bounds *)
      viol (negb ok_i || arrays_ok arrays_i) 8;
      viol (negb ok_i || negb panic_i) 9;
      viol (negb ok_i || (alloc_i <=? alloc_limit)) 10;
      mism (Bool.eqb (validate_basic m) ok_i) 19 ]
  | CReactor reactor kind inlen recv_panic_i stopped_i bg_panic_i stuck_i alive_i alloc_i =>
    first_of [
      viol (negb bg_panic_i) 20;
      viol (negb stuck_i && alive_i) 21;
      viol (alloc_i <=? alloc_limit) 10 ]
  | CStateM scen height round ptotal phave nvals m genuine sent_i inlen
            recv_panic_i stopped_i bg_panic_i stuck_i halted_i probe_ok_i pcb_i pca_i alloc_i =>
    let st := {| sm_height := height;
                 sm_parts := if ptotal <? 0 then None else Some {| pt_total := ptotal; pt_have := phave |};
                 sm_nvals := nvals |} in
    let is_part := match m with MBlockPart _ _ _ _ _ => true | _ => false end in
    let added := sent_i && validate_basic m && sm_part_added st m genuine in
    first_of [
      viol (negb halted_i) 22;
      viol (negb bg_panic_i) 20;
      viol (negb stuck_i && (halted_i || probe_ok_i)) 21;
      viol (alloc_i <=? alloc_limit) 10;
      (* a message the decoder/ValidateBasic must refuse costs the sender its connection *)
      mism (negb sent_i || validate_basic m || stopped_i) 24;
      (* the live part set gains exactly the part the model says AddPart accepts *)
      mism (negb is_part || (pca_i =? pcb_i + (if added then 1 else 0))) 25 ]
  | CRecover kind maxsz descs accepted marked crashed_i reached_i nerr_i err_has_panic_i running_i
             send_after_i delivered_i nd_i others_ok_i =>
    let ids := map (fun d => fst (fst d)) descs in
    let acc := unhex_j accepted in
    let del := unhex_j delivered_i in
    let mch := match nth_error acc (Z.to_nat marked) with Some e => fst e | None => -1 end in
    first_of [
      viol (negb crashed_i) 23;
      viol (crashed_i || fifo_prefix ids acc del) 1;
      (* the panic costs exactly that connection: reported once, with the panic, and stopped *)
      viol (crashed_i || negb reached_i ||
            ((nerr_i =? 1) && err_has_panic_i && negb running_i && negb send_after_i)) 26;
      viol (crashed_i || forallb (fun b => b) others_ok_i) 27;
      viol (crashed_i || (nerr_i =? 0) || (nd_i =? Z.of_nat (List.length delivered_i))) 7;
      (* an accepted marked message reaches onReceive / the armed transport is written to *)
      mism (crashed_i || reached_i) 29;
      (* on the marked message's channel exactly the messages accepted before it were delivered *)
      mism (crashed_i || negb reached_i || (marked <? 0) ||
            list_eqb bytes_eqb (on_chan mch del) (on_chan mch (firstn (Z.to_nat marked) acc))) 28 ]
  | CValSet via powers proposer sh ok_i panic_i total_i =>
    let mk := fun p => {| wv_power := p; wv_pubkey_ok := true; wv_addrlen := address_size |} in
    let vals := map mk powers in
    let res := match via with
               | 2%N => valset_from_existing vals
               | 1%N => valset_from_proto {| ws_vals := vals; ws_proposer := option_map mk proposer |}
               | _ => lcae_from_proto {| ws_vals := vals; ws_proposer := option_map mk proposer |} sh
               end in
    let exact := match via with 1%N | 2%N => true | _ => false end in
    first_of [
      (* untrusted bytes never make a decoder panic *)
      viol (negb panic_i) 30;
      mism (match res with
            | DOk t => negb exact || (ok_i && (total_i =? t))
            | _ => negb ok_i
            end) 31 ]
  | CStopIn how descs items delivered_i nafter_i nstops_i =>
    let its := map mk_item items in
    let del := unhex_j delivered_i in
    let verdict := fun (_ : Z) (m : bytes) => match m with x :: _ => (x =? 238)%N | [] => false end in
    let fin := recv_run verdict (new_rstate descs) its in
    first_of [
      (* nothing is handed to onReceive after the connection was stopped *)
      viol (nafter_i =? 0) 7;
      viol (nstops_i <=? 1) 7;
      mism (list_eqb jr_eqb (r_delivered (rs_recv fin)) del) 32 ]
  | CGhost together inv far top dropped_i ghost_i maxh_i caught_up_i =>
    first_of [
      (* whatever the peer sent, once it is disconnected nothing of it stays behind ... *)
      viol (negb dropped_i || negb ghost_i) 33;
      (* ... and the node is not wedged in block sync *)
      viol (negb dropped_i || caught_up_i) 21;
      mism dropped_i 34;
      mism (negb dropped_i || (maxh_i <=? top)) 35 ]
  end.
