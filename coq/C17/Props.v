(* C17 — Channel messages arrive intact and in order; bad peer input only drops the peer.
   Only the property statements; each is closed by [exact] of a lemma of Proofs.v and followed by
   Print Assumptions.  Model: coq/C17/Model.v (p2p/conn/connection.go with the repair of F16;
   consensus ValidateBasic predicates with the repairs of F21 and F33).

   A history is any list of [op]s: OSend c m (a Send/TrySend call from any goroutine), OStep k
   (one sendPacketMsg in which the scheduler serves channel number k — ANY k: the
   recentlySent/priority rule of the code is one particular choice), ORecv (recvRoutine handles
   the next packet).  [descs] = the channels (id, SendQueueCapacity, RecvMessageCapacity). *)
From Coq Require Import String List ZArith NArith Bool Lia.
From TM Require Import Common.Hex Generated.Consts C17.Model C17.Proofs C17.ValSet C17.ValSetProofs C17.Stop C17.StopProofs.
Import ListNotations.
Open Scope Z_scope.

(* Clause "exactly once, unmodified, in per-channel order", at every moment of every history:
   what onReceive has seen on a channel is a prefix of what Send accepted on it. *)
Theorem C17_per_channel_fifo_prefix :
  forall (maxsz : nat) (descs : list (Z * nat * Z)) (ops : list op) (c : Z),
    NoDup (ids_of descs) -> Forall (fun c => 0 <= c <= 255) (ids_of descs) -> In c (ids_of descs) ->
    let s := run maxsz (init_sys descs) ops in
    exists rest, on_chan c (s_accepted s) = on_chan c (r_delivered (s_recv s)) ++ rest.
Proof. exact per_channel_fifo_prefix. Qed.
Print Assumptions C17_per_channel_fifo_prefix.

(* Nothing is lost: whenever the queues, the messages in progress and the wire are empty and
   the connection is up, every accepted message has been delivered. *)
Theorem C17_per_channel_fifo_complete :
  forall (maxsz : nat) (descs : list (Z * nat * Z)) (ops : list op) (c : Z),
    NoDup (ids_of descs) -> Forall (fun c => 0 <= c <= 255) (ids_of descs) -> In c (ids_of descs) ->
    let s := run maxsz (init_sys descs) ops in
    r_stopped (s_recv s) = false -> quiescent s = true ->
    on_chan c (r_delivered (s_recv s)) = on_chan c (s_accepted s).
Proof. exact per_channel_fifo_complete. Qed.
Print Assumptions C17_per_channel_fifo_complete.

(* "While the connection stays up": messages within the receive capacity of their channel
   never make the receiver drop the connection, for any sizes, interleaving and scheduler. *)
Theorem C17_no_spurious_stop :
  forall (maxsz : nat) (descs : list (Z * nat * Z)) (ops : list op),
    NoDup (ids_of descs) -> Forall (fun c => 0 <= c <= 255) (ids_of descs) ->
    Forall (fun d => 0 <= snd d) descs ->
    Forall (op_fits (rdescs_of descs)) ops ->
    r_stopped (s_recv (run maxsz (init_sys descs) ops)) = false.
Proof. exact no_spurious_stop. Qed.
Print Assumptions C17_no_spurious_stop.

(* Delivery: after ANY such history, letting the send and receive routines run to rest (which
   takes at most [measure s] steps, payload size > 0) delivers on every channel exactly the
   accepted messages, in order. *)
Theorem C17_per_channel_fifo_delivery :
  forall (maxsz : nat) (descs : list (Z * nat * Z)) (ops : list op) (c : Z),
    (0 < maxsz)%nat ->
    NoDup (ids_of descs) -> Forall (fun c => 0 <= c <= 255) (ids_of descs) ->
    Forall (fun d => 0 <= snd d) descs ->
    Forall (op_fits (rdescs_of descs)) ops -> In c (ids_of descs) ->
    let s := run maxsz (init_sys descs) ops in
    let s' := drain (measure s) maxsz s in
    r_stopped (s_recv s') = false /\ quiescent s' = true /\
    on_chan c (r_delivered (s_recv s')) = on_chan c (s_accepted s).
Proof. exact per_channel_fifo_delivery. Qed.
Print Assumptions C17_per_channel_fifo_delivery.

(* "Never makes it buffer more than the channel's configured capacity": for EVERY stream of
   items a peer can put on the connection (any packets, any garbage), every channel's receive
   buffer stays within its RecvMessageCapacity, which never changes. *)
Theorem C17_recv_buffer_bounded :
  forall (descs : list (Z * Z)) (items : list witem) (ch : rchan),
    Forall (fun d => 0 <= snd d) descs ->
    In ch (r_chans (recv_items (new_receiver descs) items)) ->
    Z.of_nat (length (rc_recving ch)) <= rc_cap ch /\ In (rc_id ch, rc_cap ch) descs.
Proof.
  intros descs items ch Hd Hin. split; [eapply recv_buffer_bounded; eauto|].
  pose proof (recv_items_descs items (new_receiver descs)) as E.
  assert (In (rc_id ch, rc_cap ch) (map (fun x => (rc_id x, rc_cap x)) (r_chans (recv_items (new_receiver descs) items))))
    by (apply in_map_iff; eauto).
  rewrite E in H. unfold new_receiver in H; cbn in H. rewrite map_map in H; cbn in H.
  apply in_map_iff in H as (d & Ed & Hd'). destruct d; cbn in *. now injection Ed as <- <-.
Qed.
Print Assumptions C17_recv_buffer_bounded.

(* "Exactly once ... for any message sizes", receive side, for EVERY item stream: on a connection
   that is up, an EOF packet that is not bad input always hands exactly one message to
   onReceive — the buffered bytes followed by the packet's, also when that is the empty
   message.  (recvRoutine delivers only `msgBytes != nil`: the theorem rests on ch.recving never
   being a nil slice, whatever sizes went through it before; C17_nil_buffer_drops_empty_msg
   below shows what a nil buffer does.) *)
Theorem C17_eof_packet_delivers_one :
  forall (descs : list (Z * Z)) (items : list witem) (p : packet),
    let r := recv_items (new_receiver descs) items in
    r_stopped r = false -> item_bad r (WMsg p) = false -> p_eof p = true ->
    exists rc, find_rchan (r_chans r) (p_ch p) = Some rc /\
      r_stopped (recv_item r (WMsg p)) = false /\
      r_delivered (recv_item r (WMsg p)) = r_delivered r ++ [(p_ch p, rc_recving rc ++ p_data p)].
Proof. exact eof_packet_delivers_from_new. Qed.
Print Assumptions C17_eof_packet_delivers_one.

(* "Oversized, unknown channel, undecodable … at worst that peer is disconnected": in every
   stream, the first bad item (unknown channel id incl. ids outside a byte, unknown packet type,
   oversize or undecodable packet, data beyond the channel's capacity) stops that connection,
   and nothing after it is delivered or buffered: the state is frozen. *)
Theorem C17_bad_packet_stops_peer_only :
  forall (r : receiver) (pre : list witem) (it : witem) (post : list witem),
    let r0 := recv_items r pre in
    r_stopped r0 = false -> item_bad r0 it = true ->
    let r1 := recv_items r (pre ++ it :: post) in
    r_stopped r1 = true /\ r_delivered r1 = r_delivered r0.
Proof. exact bad_packet_stops_peer_only. Qed.
Print Assumptions C17_bad_packet_stops_peer_only.

(* … and only bad items do *)
Theorem C17_good_packet_keeps_peer :
  forall (r : receiver) (it : witem),
    r_stopped r = false -> item_bad r it = false -> r_stopped (recv_item r it) = false.
Proof. exact good_item_keeps. Qed.
Print Assumptions C17_good_packet_keeps_peer.

(* Reactor guards (consensus): every message that passes ValidateBasic makes the handlers
   allocate bit arrays of at most max(MaxBlockPartsCount, MaxVotesCount) bits, and every bit
   array taken over from the message into the peer state has exactly (Bits+63)/64 words, so all
   later word accesses (SetIndex/GetIndex below Bits, the last-word access of PickRandom/IsFull
   in the gossip routines) are in range. *)
Theorem C17_validated_msgs_in_bounds :
  forall m : cmsg, validate_basic m = true -> forallb demand_ok (demands m) = true.
Proof. exact validated_msgs_in_bounds. Qed.
Print Assumptions C17_validated_msgs_in_bounds.

(* State-machine side of "semantically invalid input never crashes or wedges the node": block
   parts, proposals and votes that pass ValidateBasic reach the consensus state machine, where
   a panic halts the node for good (receiveRoutine recovers and exits).  ValidateBasic leaves
   Part.Index (a uint32) and Vote.ValidatorIndex unbounded from above; whatever their values,
   for every node state, every slice access addProposalBlockPart/PartSet.AddPart and
   VoteSet.addVote make with them is inside the slice it indexes. *)
Theorem C17_statemachine_index_in_bounds :
  forall (st : smstate) (m : cmsg) (genuine : bool),
    msg_index_unsigned m -> forallb acc_ok (sm_accesses st m genuine) = true.
Proof. exact statemachine_in_bounds. Qed.
Print Assumptions C17_statemachine_index_in_bounds.

(* ------------------------------------------------------------------ non-vacuity *)

Definition ex_descs : list (Z * nat * Z) := [(1, 2%nat, 64); (2, 2%nat, 64)].
Definition ex_ops : list op :=
  [OSend 1 [170; 187]%N; OStep 0; OSend 1 []; OSend 2 [204; 1; 2; 3; 4]%N; OStep 1; ORecv; OStep 0; OStep 1;
   OStep 1; ORecv; ORecv; ORecv; ORecv; OStep 1; ORecv].

(* a two-channel history with an empty message overtaken by another channel and a message
   split into several packets: hypotheses hold, everything is delivered *)
Example C17_fifo_nonvacuous :
  let s := run 2 (init_sys ex_descs) ex_ops in
  NoDup (ids_of ex_descs) /\ Forall (op_fits (rdescs_of ex_descs)) ex_ops /\
  quiescent s = true /\ r_stopped (s_recv s) = false /\
  r_delivered (s_recv s) = [(1, [170; 187]%N); (1, []); (2, [204; 1; 2; 3; 4]%N)] /\
  s_accepted s = [(1, [170; 187]%N); (1, []); (2, [204; 1; 2; 3; 4]%N)].
Proof.
  cbv zeta. split; [|split].
  - repeat constructor; cbn; intuition discriminate.
  - repeat constructor; cbn; intros cap H; injection H as <-; lia.
  - vm_compute. repeat split.
Qed.

(* F16: the same history on the code as it was (isSendPending testing len(ch.sending) == 0):
   the connection is at rest and up, yet the empty message accepted on channel 1 is lost *)
Example C17_fifo_refuted_empty_msg :
  let s := run_f16 2 (init_sys ex_descs) ex_ops in
  s_wire s = [] /\ snd (send_packet_msg_f16 2 (s_send s) 0) = true (* sendPacketMsg: nothing to send *) /\
  r_stopped (s_recv s) = false /\
  on_chan 1 (s_accepted s) = [[170; 187]%N; []] /\
  on_chan 1 (r_delivered (s_recv s)) = [[170; 187]%N].
Proof. vm_compute. repeat split. Qed.

(* drain really is needed and really terminates on a state with work left *)
Example C17_delivery_nonvacuous :
  let s := run 2 (init_sys ex_descs) [OSend 1 [1; 2; 3; 4; 5]%N; OSend 2 []; OSend 1 [9]%N] in
  quiescent s = false /\ measure s = 18%nat /\
  r_delivered (s_recv (drain (measure s) 2 s)) = [(1, [1; 2; 3; 4; 5]%N); (1, [9]%N); (2, [])].
Proof. vm_compute. repeat split. Qed.

(* hostile streams: never-EOF flood stopped at the capacity, channel id 257 is not channel 1 *)
Example C17_bad_packet_nonvacuous :
  let r := new_receiver [(1, 5)] in
  let pk := fun c e d => WMsg {| p_ch := c; p_eof := e; p_data := d |} in
  let pre := [pk 1 false [1; 2; 3]%N; WPing; pk 1 true [4]%N; pk 1 false [5; 6; 7]%N] in
  r_stopped (recv_items r pre) = false /\
  item_bad (recv_items r pre) (pk 1 false [8; 9; 10]%N) = true /\
  item_bad (recv_items r pre) (pk 257 true []) = true /\
  item_bad (recv_items r pre) WUnknown = true /\
  item_bad (recv_items r pre) (pk 1 true [8; 9]%N) = false /\
  r_delivered (recv_items r (pre ++ pk 1 false [8; 9; 10]%N :: [pk 1 true []])) = [(1, [1; 2; 3; 4]%N)].
Proof. vm_compute. repeat split. Qed.

(* receive side, sizes across the buffer: a message of several packets, then an empty message,
   then a one-byte message on the same channel — three deliveries, the empty one included *)
Example C17_eof_nonvacuous :
  let pk := fun e d => WMsg {| p_ch := 1; p_eof := e; p_data := d |} in
  let r := recv_items (new_receiver [(1, 8)]) [pk false [1; 2; 3]%N; pk false [4; 5; 6]%N; pk true [7; 8]%N] in
  r_stopped r = false /\ item_bad r (pk true []) = false /\
  r_delivered (recv_items r [pk true []; pk true [9]%N]) =
    [(1, [1; 2; 3; 4; 5; 6; 7; 8]%N); (1, []); (1, [9]%N)].
Proof. vm_compute. repeat split. Qed.

(* why the buffer must never become nil: were ch.recving nil when an empty message completes
   (e.g. after a reset to nil instead of [:0]), append(nil, empty...) is nil, recvPacketMsg
   returns (nil, nil) and recvRoutine's `msgBytes != nil` test drops the message: the
   connection stays up and the next message is delivered in its place *)
Example C17_nil_buffer_drops_empty_msg :
  let pk := fun e d => WMsg {| p_ch := 1; p_eof := e; p_data := d |} in
  let r := {| r_chans := [{| rc_id := 1; rc_cap := 8; rc_buf := None |}]; r_stopped := false; r_delivered := [] |} in
  item_bad r (pk true []) = false /\
  r_delivered (recv_item r (pk true [])) = [] /\ r_stopped (recv_item r (pk true [])) = false /\
  r_delivered (recv_items r [pk true []; pk true [9]%N]) = [(1, [9]%N)].
Proof. vm_compute. repeat split. Qed.

(* state machine: a node holding part 0 of 3 — the genuine part 2 is added (three accesses, all
   in range), Index = Total passes ValidateBasic and is refused without any access *)
Example C17_statemachine_nonvacuous :
  let st := {| sm_height := 5; sm_parts := Some {| pt_total := 3; pt_have := [true; false; false] |}; sm_nvals := 4 |} in
  validate_basic (MBlockPart 5 0 2 100 true) = true /\
  sm_part_added st (MBlockPart 5 0 2 100 true) true = true /\
  sm_accesses st (MBlockPart 5 0 2 100 true) true = [Acc 2 3; Acc 2 3; Acc 2 3] /\
  validate_basic (MBlockPart 5 0 3 100 true) = true /\
  sm_accesses st (MBlockPart 5 0 3 100 true) false = [] /\
  sm_accesses st (MVote 1 5 0 {| bi_hashlen := 32; bi_psh := {| psh_total := 1; psh_hashlen := 32 |} |} 20 3 64) true = [Acc 3 4; Acc 3 4] /\
  sm_accesses st (MVote 1 5 0 {| bi_hashlen := 32; bi_psh := {| psh_total := 1; psh_hashlen := 32 |} |} 20 4 64) true = [].
Proof. vm_compute. repeat split. Qed.

(* with AddPart's bound weakened to `part.Index > ps.total`, the validated message with
   Index = Total indexes ps.parts one past its end: the panic that halts the state machine *)
Example C17_statemachine_refuted_weak_bound :
  let st := {| sm_height := 5; sm_parts := Some {| pt_total := 1; pt_have := [true] |}; sm_nvals := 4 |} in
  let m := MBlockPart 5 0 1 16 true in
  validate_basic m = true /\ msg_index_unsigned m /\
  sm_accesses_weak st m false = [Acc 1 1] /\ forallb acc_ok (sm_accesses_weak st m false) = false.
Proof. vm_compute. repeat split. discriminate. Qed.

(* reactor guards: a maximal valid proposal / valid-block message pass and are in bounds … *)
Definition ex_bid (total : Z) : blockid :=
  {| bi_hashlen := 32; bi_psh := {| psh_total := total; psh_hashlen := 32 |} |}.
Example C17_validated_nonvacuous :
  validate_basic (MProposal 32 5 0 (-1) (ex_bid 1601) 64) = true /\
  validate_basic (MNewValidBlock 5 0 {| psh_total := 1601; psh_hashlen := 32 |}
                                 {| ba_present := true; ba_bits := 1601; ba_elems := 26 |} true) = true /\
  validate_basic (MVoteSetBits 5 0 2 (ex_bid 1) {| ba_present := true; ba_bits := 10000; ba_elems := 157 |}) = true.
Proof. vm_compute. repeat split. Qed.

(* F21: without the bound on Total an unauthenticated proposal asks for a 2^32-1 bit array *)
Example C17_validated_refuted_f21 :
  let m := MProposal 32 5 0 (-1) (ex_bid 4294967295) 64 in
  validate_basic_unfixed m = true /\ forallb demand_ok (demands m) = false /\ validate_basic m = false.
Proof. vm_compute. repeat split. Qed.

(* F33: without BitArray.ValidateBasic a 1-bit array with no words passes and is stored in the
   peer state, where gossipDataForCatchup's Not().PickRandom() reads Elems[len-1] = Elems[-1] *)
Example C17_validated_refuted_f33 :
  let m := MNewValidBlock 5 0 {| psh_total := 1; psh_hashlen := 32 |}
                          {| ba_present := true; ba_bits := 1; ba_elems := 0 |} true in
  validate_basic_unfixed m = true /\ forallb demand_ok (demands m) = false /\ validate_basic m = false.
Proof. vm_compute. repeat split. Qed.

(* ------------------------------------------------------------------ F85: validator sets off the wire *)

(* "Undecodable or semantically invalid input never crashes the node", for the validator sets
   carried by light-client-attack evidence (inside proposed blocks, block-sync responses and
   evidence messages) and by the answers of an RPC primary: the decoders
   types.ValidatorSetFromProto and ValidatorSetFromExistingValidators (with the repair of finding
   F85: the total voting power is summed with an explicit check instead of through
   TotalVotingPower()'s panic) never panic, for ANY powers, keys and addresses on the wire; and
   every set they accept is non-empty, has no negative power and a total — the true sum, nothing
   clipped — of at most MaxTotalVotingPower: the well-formedness properties C07 and C08 assume
   of a validator set holds for every set that enters through the wire. *)
Theorem C17_wire_valsets_in_bounds :
  (forall ws, valset_from_proto ws <> DPanic) /\
  (forall vals, valset_from_existing vals <> DPanic) /\
  (forall ws t, valset_from_proto ws = DOk t ->
     ws_vals ws <> [] /\ vals_total_ok (map wv_power (ws_vals ws)) = true /\
     powers_wf (map wv_power (ws_vals ws)) /\ t = sum_powers (map wv_power (ws_vals ws))) /\
  (forall vals t, valset_from_existing vals = DOk t ->
     vals <> [] /\ vals_total_ok (map wv_power vals) = true /\
     powers_wf (map wv_power vals) /\ t = sum_powers (map wv_power vals)).
Proof. exact wire_valsets_in_bounds. Qed.
Print Assumptions C17_wire_valsets_in_bounds.

(* the repair changes nothing else: on every input on which the old decoders did not panic, the
   repaired ones give the same answer (C07/C08 transcribe the same file) *)
Theorem C17_wire_valsets_repair_conservative :
  (forall ws, valset_from_proto_f85 ws <> DPanic -> valset_from_proto ws = valset_from_proto_f85 ws) /\
  (forall vals, valset_from_existing_f85 vals <> DPanic -> valset_from_existing vals = valset_from_existing_f85 vals).
Proof. exact wire_valsets_repair_conservative. Qed.
Print Assumptions C17_wire_valsets_repair_conservative.

Definition ex_wval (p : Z) : wval := {| wv_power := p; wv_pubkey_ok := true; wv_addrlen := 20 |}.

(* a set at the bound is accepted with its exact total; one unit more is an error *)
Example C17_wire_valsets_nonvacuous :
  let at_bound := {| ws_vals := [ex_wval (max_total_voting_power - 1); ex_wval 1]; ws_proposer := Some (ex_wval 1) |} in
  let above := {| ws_vals := [ex_wval max_total_voting_power; ex_wval 1]; ws_proposer := Some (ex_wval 1) |} in
  valset_from_proto at_bound = DOk max_total_voting_power /\
  valset_from_proto above = DErr /\
  valset_from_proto {| ws_vals := [ex_wval 9223372036854775807; ex_wval 9223372036854775807]; ws_proposer := Some (ex_wval 1) |} = DErr /\
  valset_from_proto {| ws_vals := [ex_wval (-5); ex_wval 7]; ws_proposer := Some (ex_wval 7) |} = DErr /\
  valset_from_existing [ex_wval 10; ex_wval 20] = DOk 30 /\
  valset_from_existing [ex_wval max_total_voting_power; ex_wval 1] = DErr.
Proof. vm_compute. repeat split. Qed.

(* F85, the code as it was: a validator set with powers MaxTotalVotingPower and 1 — 226 bytes of
   light-client-attack evidence — panics the decoder (inside addProposalBlockPart: the node
   halts), and so does the constructor used for an RPC primary's answer *)
Example C17_wire_valsets_refuted_f85 :
  let above := {| ws_vals := [ex_wval max_total_voting_power; ex_wval 1]; ws_proposer := Some (ex_wval max_total_voting_power) |} in
  valset_from_proto_f85 above = DPanic /\
  valset_from_existing_f85 [ex_wval max_total_voting_power; ex_wval 1] = DPanic /\
  valset_from_proto_f85 {| ws_vals := [ex_wval 9223372036854775807; ex_wval (-1); ex_wval 3]; ws_proposer := Some (ex_wval 3) |} = DPanic.
Proof. vm_compute. repeat split. Qed.

(* the same for the evidence that carries such a set: with the second half of the repair (a
   conflicting block WITHOUT signed header is an error, not a nil dereference) the decoder of
   light-client-attack evidence never panics, whatever the validator set and header presence *)
Theorem C17_wire_evidence_no_panic :
  forall (ws : wvalset) (sh : N), lcae_from_proto ws sh <> DPanic.
Proof. exact lcae_from_proto_no_panic. Qed.
Print Assumptions C17_wire_evidence_no_panic.

Example C17_wire_evidence_refuted_f85 :
  let good := {| ws_vals := [ex_wval 10; ex_wval 20]; ws_proposer := Some (ex_wval 10) |} in
  let above := {| ws_vals := [ex_wval max_total_voting_power; ex_wval 1]; ws_proposer := Some (ex_wval 1) |} in
  lcae_from_proto_f85 good 0 = DPanic /\ lcae_from_proto good 0 = DErr /\
  lcae_from_proto_f85 above 1 = DPanic /\ lcae_from_proto above 1 = DErr /\
  lcae_from_proto_f85 above 2 = DErr.
Proof. vm_compute. repeat split. Qed.

(* ------------------------------------------------------------------ F93: stopped from inside Receive *)

(* "At worst that peer is disconnected": once a connection is down — recvRoutine left its loop
   for a bad item, OR a reactor stopped the peer while handling one of its messages
   (Switch.StopPeerForError -> MConnection.Stop, [verdict]) — no further message is handed to
   the reactors and nothing else changes, whatever the peer had already put into the
   connection's buffers: for every verdict function, every packet sequence and every stop
   point.  And the message the reactor refuses is the last one delivered.  (With the repair of
   finding F93: recvRoutine looks at quitRecvRoutine before it dispatches a packet it could
   still read.) *)
Theorem C17_no_delivery_after_stop :
  (forall (verdict : Z -> bytes -> bool) (s0 : rstate) (pre post : list witem),
     let s := recv_run verdict s0 pre in
     rs_down s = true ->
     recv_run verdict s0 (pre ++ post) = s /\
     r_delivered (rs_recv (recv_run verdict s0 (pre ++ post))) = r_delivered (rs_recv s)) /\
  (forall (verdict : Z -> bytes -> bool) (s : rstate) (it : witem) (c : Z) (m : bytes) (post : list witem),
     rs_down s = false ->
     newly_delivered (rs_recv s) (recv_item (rs_recv s) it) = Some (c, m) -> verdict c m = true ->
     r_delivered (rs_recv (recv_run verdict s (it :: post))) = r_delivered (recv_item (rs_recv s) it)).
Proof. exact no_delivery_after_stop_full. Qed.
Print Assumptions C17_no_delivery_after_stop.

(* a reactor that never stops the peer: the repaired loop is the loop of the other theorems *)
Theorem C17_stop_check_conservative :
  forall (verdict : Z -> bytes -> bool), (forall c m, verdict c m = false) ->
  forall (l : list witem) (s : rstate), rs_quit s = r_stopped (rs_recv s) ->
  rs_recv (recv_run verdict s l) = recv_items (rs_recv s) l.
Proof. exact recv_run_conservative. Qed.
Print Assumptions C17_stop_check_conservative.

(* three messages in one flush, the reactor refuses the first (first byte 238) *)
Definition ex_verdict (c : Z) (m : bytes) : bool := match m with x :: _ => (x =? 238)%N | [] => false end.
Definition ex_flush : list witem :=
  let pk := fun e d => WMsg {| p_ch := 64; p_eof := e; p_data := d |} in
  [pk false [238; 1]%N; pk true [2]%N; pk true [7; 7]%N; pk true [8]%N].

Example C17_no_delivery_after_stop_nonvacuous :
  let s := recv_run ex_verdict (new_rstate [(64, 100)]) (firstn 2 ex_flush) in
  rs_down s = true /\ r_stopped (rs_recv s) = false /\
  r_delivered (rs_recv s) = [(64, [238; 1; 2]%N)] /\
  r_delivered (rs_recv (recv_run ex_verdict (new_rstate [(64, 100)]) ex_flush)) = [(64, [238; 1; 2]%N)].
Proof. vm_compute. repeat split. Qed.

(* F93, the loop as it was: the two messages behind the refused one, already buffered, are
   still handed to the reactor although the connection was stopped *)
Example C17_no_delivery_after_stop_refuted_f93 :
  let s := recv_run_f93 ex_verdict (new_rstate [(64, 100)]) ex_flush in
  rs_down s = true /\
  r_delivered (rs_recv s) = [(64, [238; 1; 2]%N); (64, [7; 7]%N); (64, [8]%N)].
Proof. vm_compute. repeat split. Qed.
