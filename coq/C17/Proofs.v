(* C17 — proofs about coq/C17/Model.v. *)
From Coq Require Import String List ZArith NArith Bool Lia.
From TM Require Import Common.Hex Generated.Consts C17.Model.
Import ListNotations.
Open Scope Z_scope.

(* ================================================================== receiver: hostile input *)

Definition bounded (ch : rchan) : Prop := Z.of_nat (length (rc_recving ch)) <= rc_cap ch.

(* ch.recving as a Go slice (nil or not): the bytes do not depend on nil-ness *)
Arguments rc_recving : simpl never.

Lemma sl_bytes_append : forall s d, sl_bytes (go_append s d) = sl_bytes s ++ d.
Proof. intros [b|] d; cbn; [reflexivity|]. destruct d; reflexivity. Qed.

Lemma sl_bytes_reslice0 : forall s, sl_bytes (go_reslice0 s) = [].
Proof. intros [b|]; reflexivity. Qed.

Lemma go_append_nonnil : forall s d, s <> None -> go_append s d = Some (sl_bytes s ++ d).
Proof. intros [b|] d H; [reflexivity | contradiction]. Qed.

Lemma find_rchan_In : forall chs c ch, find_rchan chs c = Some ch -> In ch chs /\ rc_id ch = c.
Proof.
  induction chs as [|x r IH]; cbn; intros c ch E; [discriminate|].
  destruct (rc_id x =? c) eqn:Ec.
  - injection E as <-. split; [now left | now apply Z.eqb_eq].
  - destruct (IH _ _ E); split; [now right | assumption].
Qed.

Lemma set_rchan_Forall : forall (P : rchan -> Prop) chs c n,
  Forall P chs -> P n -> Forall P (set_rchan chs c n).
Proof.
  induction chs as [|x r IH]; cbn; intros c n HF Hn; [constructor|].
  inversion HF; subst. destruct (rc_id x =? c); constructor; auto.
Qed.

Lemma recv_packet_msg_bounded : forall ch eof data ch' res,
  0 <= rc_cap ch -> recv_packet_msg ch eof data = (ch', res) -> bounded ch -> bounded ch' /\ rc_cap ch' = rc_cap ch.
Proof.
  unfold recv_packet_msg, bounded. intros ch eof data ch' res Hc E Hb.
  destruct (rc_cap ch <? _) eqn:Ecap.
  - injection E as <- <-. auto.
  - apply Z.ltb_ge in Ecap. unfold rc_recving in *.
    destruct eof; injection E as <- <-; cbn [rc_buf rc_cap]; split; auto.
    + rewrite sl_bytes_reslice0. cbn. lia.
    + rewrite sl_bytes_append, app_length. lia.
Qed.

Definition recv_ok (r : receiver) : Prop := Forall (fun ch => 0 <= rc_cap ch /\ bounded ch) (r_chans r).

Lemma recv_item_ok : forall r it, recv_ok r -> recv_ok (recv_item r it).
Proof.
  unfold recv_ok, recv_item. intros r it H.
  destruct (r_stopped r); [assumption|].
  destruct it; try assumption.
  destruct ((p_ch p <? 0) || (255 <? p_ch p)); [assumption|].
  destruct (find_rchan (r_chans r) (p_ch p)) as [ch|] eqn:Ef; [|assumption].
  destruct (recv_packet_msg ch (p_eof p) (p_data p)) as [ch' res] eqn:Er.
  apply find_rchan_In in Ef as [Hin _].
  assert (Hch : 0 <= rc_cap ch /\ bounded ch) by (rewrite Forall_forall in H; auto).
  destruct Hch as [Hc Hb].
  destruct (recv_packet_msg_bounded _ _ _ _ _ Hc Er Hb) as [Hb' Hc'].
  destruct res; cbn; try assumption; apply set_rchan_Forall; auto; split; auto; lia.
Qed.

Lemma recv_items_ok : forall l r, recv_ok r -> recv_ok (recv_items r l).
Proof.
  induction l as [|it l IH]; intros r H; [assumption|].
  change (recv_items r (it :: l)) with (recv_items (recv_item r it) l). apply IH, recv_item_ok, H.
Qed.

Lemma new_receiver_ok : forall descs, Forall (fun d => 0 <= snd d) descs -> recv_ok (new_receiver descs).
Proof.
  unfold recv_ok, new_receiver; cbn. intros descs H. rewrite Forall_map.
  eapply Forall_impl; [|exact H]. cbn. intros d Hd. unfold bounded, rc_recving; cbn. split; lia.
Qed.

(* recv_buffer_bounded *)
Lemma recv_buffer_bounded : forall descs items ch,
  Forall (fun d => 0 <= snd d) descs ->
  In ch (r_chans (recv_items (new_receiver descs) items)) ->
  Z.of_nat (length (rc_recving ch)) <= rc_cap ch.
Proof.
  intros descs items ch Hd Hin.
  pose proof (recv_items_ok items _ (new_receiver_ok _ Hd)) as H.
  unfold recv_ok in H. rewrite Forall_forall in H. apply H in Hin. apply Hin.
Qed.

(* capacities never change, so the bound is the configured one *)
Lemma set_rchan_ids_caps : forall chs c n ch,
  find_rchan chs c = Some ch -> rc_id n = rc_id ch -> rc_cap n = rc_cap ch ->
  map (fun x => (rc_id x, rc_cap x)) (set_rchan chs c n) = map (fun x => (rc_id x, rc_cap x)) chs.
Proof.
  induction chs as [|x r IH]; cbn; intros c n ch E Hi Hc; [reflexivity|].
  destruct (rc_id x =? c) eqn:Ec.
  - injection E as <-. cbn. now rewrite Hi, Hc.
  - cbn. f_equal. eapply IH; eauto.
Qed.

Lemma recv_item_descs : forall r it,
  map (fun x => (rc_id x, rc_cap x)) (r_chans (recv_item r it)) = map (fun x => (rc_id x, rc_cap x)) (r_chans r).
Proof.
  unfold recv_item. intros r it. destruct (r_stopped r); [reflexivity|].
  destruct it; try reflexivity.
  destruct ((p_ch p <? 0) || (255 <? p_ch p)); [reflexivity|].
  destruct (find_rchan (r_chans r) (p_ch p)) as [ch|] eqn:Ef; [|reflexivity].
  unfold recv_packet_msg.
  destruct (rc_cap ch <? _); [reflexivity|].
  destruct (p_eof p); [destruct (go_append (rc_buf ch) (p_data p))|]; cbn; eapply set_rchan_ids_caps; eauto.
Qed.

Lemma recv_items_descs : forall l r,
  map (fun x => (rc_id x, rc_cap x)) (r_chans (recv_items r l)) = map (fun x => (rc_id x, rc_cap x)) (r_chans r).
Proof.
  induction l as [|it l IH]; intros r; [reflexivity|].
  change (recv_items r (it :: l)) with (recv_items (recv_item r it) l).
  rewrite IH. apply recv_item_descs.
Qed.

(* a stopped receiver stays as it is *)
Lemma recv_items_stopped : forall l r, r_stopped r = true -> recv_items r l = r.
Proof.
  induction l as [|it l IH]; intros r H; [reflexivity|].
  change (recv_items r (it :: l)) with (recv_items (recv_item r it) l).
  assert (E : recv_item r it = r) by (unfold recv_item; now rewrite H).
  rewrite E. apply IH, H.
Qed.

Lemma recv_items_app : forall a b r, recv_items r (a ++ b) = recv_items (recv_items r a) b.
Proof. intros. unfold recv_items. apply fold_left_app. Qed.

Lemma bad_item_stops : forall r it,
  r_stopped r = false -> item_bad r it = true ->
  r_stopped (recv_item r it) = true /\ r_delivered (recv_item r it) = r_delivered r.
Proof.
  unfold recv_item, item_bad. intros r it Hs Hb. rewrite Hs.
  destruct it; try discriminate; try (split; reflexivity).
  destruct ((p_ch p <? 0) || (255 <? p_ch p)); [split; reflexivity|]. cbn in Hb.
  destruct (find_rchan (r_chans r) (p_ch p)) as [ch|]; [|split; reflexivity].
  unfold recv_packet_msg. rewrite Hb. split; reflexivity.
Qed.

Lemma good_item_keeps : forall r it,
  r_stopped r = false -> item_bad r it = false -> r_stopped (recv_item r it) = false.
Proof.
  unfold recv_item, item_bad. intros r it Hs Hb. rewrite Hs.
  destruct it; try discriminate; try assumption.
  destruct ((p_ch p <? 0) || (255 <? p_ch p)); [discriminate|]. cbn in Hb.
  destruct (find_rchan (r_chans r) (p_ch p)) as [ch|]; [|discriminate].
  unfold recv_packet_msg. rewrite Hb.
  destruct (p_eof p); [destruct (go_append (rc_buf ch) (p_data p))|]; reflexivity.
Qed.

(* ---------------------------------------------------------------- the buffer is never nil *)

(* newChannel makes ch.recving with make([]byte, 0, cap): not nil; append and [:0] keep it so.
   recvRoutine hands a completed message to onReceive only when `msgBytes != nil`: this
   invariant is what makes a completed EMPTY message reach onReceive. *)
Definition nonnil (rc : rchan) : Prop := rc_buf rc <> None.
Definition recv_nonnil (r : receiver) : Prop := Forall nonnil (r_chans r).

Lemma recv_packet_msg_nonnil : forall ch eof data ch' res,
  recv_packet_msg ch eof data = (ch', res) -> nonnil ch -> nonnil ch'.
Proof.
  unfold recv_packet_msg, nonnil. intros ch eof data ch' res E H.
  destruct (rc_cap ch <? _); [injection E as <- <-; exact H|].
  rewrite (go_append_nonnil _ _ H) in E.
  destruct eof; injection E as <- <-; cbn; discriminate.
Qed.

Lemma recv_item_nonnil : forall r it, recv_nonnil r -> recv_nonnil (recv_item r it).
Proof.
  unfold recv_nonnil, recv_item. intros r it H.
  destruct (r_stopped r); [assumption|].
  destruct it; try assumption.
  destruct ((p_ch p <? 0) || (255 <? p_ch p)); [assumption|].
  destruct (find_rchan (r_chans r) (p_ch p)) as [ch|] eqn:Ef; [|assumption].
  destruct (recv_packet_msg ch (p_eof p) (p_data p)) as [ch' res] eqn:Er.
  apply find_rchan_In in Ef as [Hin _].
  assert (Hch : nonnil ch) by (rewrite Forall_forall in H; auto).
  pose proof (recv_packet_msg_nonnil _ _ _ _ _ Er Hch) as Hn.
  destruct res; cbn; try assumption; apply set_rchan_Forall; auto.
Qed.

Lemma recv_items_nonnil : forall l r, recv_nonnil r -> recv_nonnil (recv_items r l).
Proof.
  induction l as [|it l IH]; intros r H; [assumption|].
  change (recv_items r (it :: l)) with (recv_items (recv_item r it) l). apply IH, recv_item_nonnil, H.
Qed.

Lemma new_receiver_nonnil : forall descs, recv_nonnil (new_receiver descs).
Proof.
  unfold recv_nonnil, new_receiver; cbn. intros descs. rewrite Forall_map.
  apply Forall_forall. intros d _. unfold nonnil; cbn. discriminate.
Qed.

(* every EOF packet that is not bad input completes exactly one message — the buffered bytes
   followed by the packet's, be they empty — and onReceive gets it *)
Lemma eof_packet_delivers : forall r p,
  recv_nonnil r -> r_stopped r = false -> item_bad r (WMsg p) = false -> p_eof p = true ->
  exists rc, find_rchan (r_chans r) (p_ch p) = Some rc /\
    r_stopped (recv_item r (WMsg p)) = false /\
    r_delivered (recv_item r (WMsg p)) = r_delivered r ++ [(p_ch p, rc_recving rc ++ p_data p)].
Proof.
  unfold recv_item, item_bad. intros r p HN Hs Hb He. rewrite Hs.
  destruct ((p_ch p <? 0) || (255 <? p_ch p)); [discriminate|]. cbn in Hb.
  destruct (find_rchan (r_chans r) (p_ch p)) as [ch|] eqn:Ef; [|discriminate].
  exists ch. split; [reflexivity|].
  apply find_rchan_In in Ef as [Hin _].
  assert (Hch : nonnil ch) by (unfold recv_nonnil in HN; rewrite Forall_forall in HN; auto).
  unfold recv_packet_msg. rewrite Hb, He, (go_append_nonnil _ _ Hch). split; reflexivity.
Qed.

Lemma eof_packet_delivers_from_new : forall descs items p,
  let r := recv_items (new_receiver descs) items in
  r_stopped r = false -> item_bad r (WMsg p) = false -> p_eof p = true ->
  exists rc, find_rchan (r_chans r) (p_ch p) = Some rc /\
    r_stopped (recv_item r (WMsg p)) = false /\
    r_delivered (recv_item r (WMsg p)) = r_delivered r ++ [(p_ch p, rc_recving rc ++ p_data p)].
Proof.
  intros descs items p r. apply eof_packet_delivers. apply recv_items_nonnil, new_receiver_nonnil.
Qed.

(* bad_packet_stops_peer_only *)
Lemma bad_packet_stops_peer_only : forall r pre it post,
  let r0 := recv_items r pre in
  r_stopped r0 = false -> item_bad r0 it = true ->
  let r1 := recv_items r (pre ++ it :: post) in
  r_stopped r1 = true /\ r_delivered r1 = r_delivered r0.
Proof.
  intros r pre it post r0 Hs Hb r1. subst r1.
  rewrite recv_items_app. fold r0. cbn.
  destruct (bad_item_stops _ _ Hs Hb) as [H1 H2].
  change (fold_left recv_item post (recv_item r0 it)) with (recv_items (recv_item r0 it) post).
  rewrite recv_items_stopped by assumption. auto.
Qed.

(* ================================================================== the pair: per-channel FIFO *)

(* what the receiver makes of a packet list starting from buffer [buf]: the completed messages
   and the remaining buffer (no capacity check: content only) *)
Fixpoint reasm (buf : bytes) (w : list packet) : list bytes * bytes :=
  match w with
  | [] => ([], buf)
  | p :: r => if p_eof p then ((buf ++ p_data p) :: fst (reasm [] r), snd (reasm [] r))
              else reasm (buf ++ p_data p) r
  end.

Definition wire_on (c : Z) (w : list packet) : list packet := filter (fun p => p_ch p =? c) w.

Fixpoint find_schan (chs : list schan) (c : Z) : option schan :=
  match chs with
  | [] => None
  | ch :: r => if sc_id ch =? c then Some ch else find_schan r c
  end.

Definition in_progress (sc : schan) (b : bytes) : list bytes :=
  match sc_sending sc with Some s => [b ++ s] | None => [] end.

(* the messages of one channel that are accepted but not yet delivered, oldest first *)
Definition pending_of (rc : rchan) (w : list packet) (sc : schan) : list bytes :=
  fst (reasm (rc_recving rc) w) ++ in_progress sc (snd (reasm (rc_recving rc) w)) ++ sc_queue sc.

Definition chan_inv (s : sys) (c : Z) : Prop :=
  exists sc rc, find_schan (s_send s) c = Some sc /\ find_rchan (r_chans (s_recv s)) c = Some rc /\
    on_chan c (s_accepted s) =
      on_chan c (r_delivered (s_recv s)) ++ pending_of rc (wire_on c (s_wire s)) sc /\
    (sc_sending sc = None -> snd (reasm (rc_recving rc) (wire_on c (s_wire s))) = []).

Definition prefix_inv (s : sys) (c : Z) : Prop :=
  exists rest, on_chan c (s_accepted s) = on_chan c (r_delivered (s_recv s)) ++ rest.

Lemma chan_inv_prefix : forall s c, chan_inv s c -> prefix_inv s c.
Proof. intros s c (sc & rc & _ & _ & H & _). eexists; exact H. Qed.

(* ---------------------------------------------------------------- list plumbing *)

Lemma on_chan_app : forall c a b, on_chan c (a ++ b) = on_chan c a ++ on_chan c b.
Proof. intros. unfold on_chan. now rewrite filter_app, map_app. Qed.

Lemma on_chan_single : forall c c' m, on_chan c [(c', m)] = if c' =? c then [m] else [].
Proof. intros. unfold on_chan; cbn. destruct (c' =? c); reflexivity. Qed.

Lemma wire_on_app : forall c a b, wire_on c (a ++ b) = wire_on c a ++ wire_on c b.
Proof. intros. unfold wire_on. apply filter_app. Qed.

Lemma reasm_app_noeof : forall w buf p, p_eof p = false ->
  reasm buf (w ++ [p]) = (fst (reasm buf w), snd (reasm buf w) ++ p_data p).
Proof.
  induction w as [|q w IH]; intros buf p Hp.
  - cbn. now rewrite Hp.
  - cbn. destruct (p_eof q).
    + rewrite (IH [] p Hp). reflexivity.
    + apply IH, Hp.
Qed.

Lemma reasm_app_eof : forall w buf p, p_eof p = true ->
  reasm buf (w ++ [p]) = (fst (reasm buf w) ++ [snd (reasm buf w) ++ p_data p], []).
Proof.
  induction w as [|q w IH]; intros buf p Hp.
  - cbn. now rewrite Hp.
  - cbn. destruct (p_eof q).
    + rewrite (IH [] p Hp). reflexivity.
    + apply IH, Hp.
Qed.

Lemma reasm_cons_eof : forall buf p w, p_eof p = true ->
  reasm buf (p :: w) = ((buf ++ p_data p) :: fst (reasm [] w), snd (reasm [] w)).
Proof. intros buf p w H. cbn. now rewrite H. Qed.
Lemma reasm_cons_noeof : forall buf p w, p_eof p = false ->
  reasm buf (p :: w) = reasm (buf ++ p_data p) w.
Proof. intros buf p w H. cbn. now rewrite H. Qed.

Section Fifo.
  Variable maxsz : nat.
  Variable ids : list Z.
  Hypothesis ids_nodup : NoDup ids.
  Hypothesis ids_byte : Forall (fun c => 0 <= c <= 255) ids.

  Lemma find_schan_some : forall chs c, In c (map sc_id chs) -> exists sc, find_schan chs c = Some sc.
  Proof.
    induction chs as [|x r IH]; cbn; intros c H; [contradiction|].
    destruct (sc_id x =? c) eqn:E; [eauto|].
    destruct H as [H|H]; [apply Z.eqb_neq in E; contradiction | auto].
  Qed.

  Lemma find_schan_id : forall chs c sc, find_schan chs c = Some sc -> sc_id sc = c.
  Proof.
    induction chs as [|x r IH]; cbn; intros c sc H; [discriminate|].
    destruct (sc_id x =? c) eqn:E; [injection H as <-; now apply Z.eqb_eq | eauto].
  Qed.

  (* a map that keeps ids commutes with lookup *)
  Lemma find_schan_map : forall (f : schan -> schan), (forall x, sc_id (f x) = sc_id x) ->
    forall chs c, find_schan (map f chs) c = option_map f (find_schan chs c).
  Proof.
    intros f Hf. induction chs as [|x r IH]; cbn; intros c; [reflexivity|].
    rewrite Hf. destruct (sc_id x =? c); [reflexivity | apply IH].
  Qed.

  Lemma update_nth_ids : forall chs k ch ch', nth_error chs k = Some ch -> sc_id ch' = sc_id ch ->
    map sc_id (update_nth k (fun _ => ch') chs) = map sc_id chs.
  Proof.
    induction chs as [|x r IH]; intros [|k] ch ch' Hn Hi; cbn in *; try discriminate.
    - injection Hn as ->. now rewrite Hi.
    - f_equal. eapply IH; eauto.
  Qed.

  Lemma find_schan_update_nth : forall chs k ch ch' c,
    NoDup (map sc_id chs) -> nth_error chs k = Some ch -> sc_id ch' = sc_id ch ->
    find_schan (update_nth k (fun _ => ch') chs) c =
      if sc_id ch =? c then Some ch' else find_schan chs c.
  Proof.
    induction chs as [|x r IH]; intros [|k] ch ch' c Hnd Hn Hi; cbn in *; try discriminate.
    - injection Hn as ->. rewrite Hi. destruct (sc_id ch =? c); reflexivity.
    - inversion Hnd as [|? ? Hnotin Hnd']; subst.
      rewrite (IH k ch ch' c Hnd' Hn Hi).
      destruct (sc_id x =? c) eqn:Ex; [|reflexivity].
      destruct (sc_id ch =? c) eqn:Ec; [|reflexivity].
      apply Z.eqb_eq in Ex, Ec. exfalso. apply Hnotin. rewrite Ex, <- Ec.
      apply in_map. eapply nth_error_In; eauto.
  Qed.

  Lemma find_rchan_set : forall chs c n c',
    rc_id n = c -> find_rchan (set_rchan chs c n) c' =
    if c' =? c then (match find_rchan chs c with Some _ => Some n | None => None end) else find_rchan chs c'.
  Proof.
    induction chs as [|x r IH]; intros c n c' Hn; cbn.
    - destruct (c' =? c); reflexivity.
    - destruct (rc_id x =? c) eqn:Ex; cbn.
      + rewrite Hn. destruct (c' =? c) eqn:Ec.
        * apply Z.eqb_eq in Ec. subst c'. now rewrite Z.eqb_refl.
        * apply Z.eqb_eq in Ex. rewrite Ex.
          destruct (c =? c') eqn:Ec'; [apply Z.eqb_eq in Ec'; subst; rewrite Z.eqb_refl in Ec; discriminate | reflexivity].
      + rewrite (IH c n c' Hn). destruct (c' =? c) eqn:Ec.
        * apply Z.eqb_eq in Ec. subst c'. now rewrite Ex.
        * reflexivity.
  Qed.

  Lemma set_rchan_ids : forall chs c n, rc_id n = c -> map rc_id (set_rchan chs c n) = map rc_id chs.
  Proof.
    induction chs as [|x r IH]; intros c n Hn; cbn; [reflexivity|].
    destruct (rc_id x =? c) eqn:Ex; cbn; [apply Z.eqb_eq in Ex; now rewrite Hn, Ex | f_equal; auto].
  Qed.

  Lemma find_rchan_some : forall chs c, In c (map rc_id chs) -> exists rc, find_rchan chs c = Some rc.
  Proof.
    induction chs as [|x r IH]; cbn; intros c H; [contradiction|].
    destruct (rc_id x =? c) eqn:E; [eauto|].
    destruct H as [H|H]; [apply Z.eqb_neq in E; contradiction | auto].
  Qed.

  (* ---------------------------------------------------------------- the invariant *)

  Definition Inv (s : sys) : Prop :=
    map sc_id (s_send s) = ids /\ map rc_id (r_chans (s_recv s)) = ids /\
    Forall (fun p => In (p_ch p) ids) (s_wire s) /\
    (r_stopped (s_recv s) = false -> forall c, In c ids -> chan_inv s c) /\
    (r_stopped (s_recv s) = true -> forall c, In c ids -> prefix_inv s c).

  (* whatever the state of the receiver, delivered is a prefix of accepted on every channel *)
  Lemma Inv_prefix : forall s c, Inv s -> In c ids -> prefix_inv s c.
  Proof.
    intros s c (_ & _ & _ & H1 & H2) Hc. destruct (r_stopped (s_recv s)) eqn:E.
    - apply H2; auto.
    - apply chan_inv_prefix, H1; auto.
  Qed.

  (* ---------------------------------------------------------------- Send *)

  Definition enq (sc : schan) (m : bytes) : schan :=
    {| sc_id := sc_id sc; sc_qcap := sc_qcap sc; sc_queue := sc_queue sc ++ [m];
       sc_sending := sc_sending sc; sc_qsize := sc_qsize sc + 1 |}.

  Lemma send_to_spec : forall chs c m chs' ok, send_to chs c m = (chs', ok) ->
    map sc_id chs' = map sc_id chs /\
    (ok = false -> chs' = chs) /\
    (ok = true -> exists sc, find_schan chs c = Some sc /\ find_schan chs' c = Some (enq sc m) /\
                   forall c', c' <> c -> find_schan chs' c' = find_schan chs c').
  Proof.
    induction chs as [|x r IH]; intros c m chs' ok E; cbn in E.
    - injection E as <- <-. repeat split; try reflexivity. discriminate.
    - destruct (sc_id x =? c) eqn:Ex.
      + unfold try_send_bytes in E. destruct (length (sc_queue x) <? sc_qcap x)%nat.
        * injection E as <- <-. cbn. repeat split; try discriminate.
          intros _. exists x. rewrite Ex. repeat split.
          intros c' Hc'. apply Z.eqb_eq in Ex. subst c.
          destruct (sc_id x =? c') eqn:E'; [apply Z.eqb_eq in E'; congruence | reflexivity].
        * injection E as <- <-. repeat split; try reflexivity. discriminate.
      + destruct (send_to r c m) as [r' ok'] eqn:Er. injection E as <- <-.
        destruct (IH _ _ _ _ Er) as (H1 & H2 & H3). cbn. repeat split.
        * now rewrite H1.
        * intros Hf. now rewrite (H2 Hf).
        * intros Ht. destruct (H3 Ht) as (sc & Ha & Hb & Hc). exists sc. rewrite Ex.
          repeat split; auto. intros c' Hc'. destruct (sc_id x =? c'); auto.
  Qed.

  Lemma pending_enq : forall rc w sc m, pending_of rc w (enq sc m) = pending_of rc w sc ++ [m].
  Proof.
    intros. unfold pending_of, in_progress, enq; cbn. now rewrite !app_assoc.
  Qed.

  Lemma step_send_Inv : forall s c m, Inv s -> Inv (step maxsz s (OSend c m)).
  Proof.
    intros s c m (Hs & Hr & Hw & Hrun & Hstop). unfold step, step_with.
    destruct (send_to (s_send s) c m) as [chs ok] eqn:E.
    destruct (send_to_spec _ _ _ _ _ E) as (H1 & H2 & H3).
    destruct ok.
    - destruct (H3 eq_refl) as (sc & Ha & Hb & Hc). clear H2 H3.
      split; [cbn; congruence|]. split; [exact Hr|]. split; [exact Hw|]. split; cbn [s_accepted s_send s_recv s_wire].
      + intros Hns c' Hc'. destruct (Hrun Hns c' Hc') as (sc' & rc & F1 & F2 & F3 & F4).
        destruct (Z.eq_dec c' c) as [->|Hne].
        * rewrite Ha in F1. injection F1 as <-.
          exists (enq sc m), rc. cbn [s_accepted s_send s_recv s_wire]. repeat split; auto.
          rewrite on_chan_app, on_chan_single, Z.eqb_refl, pending_enq, F3.
          now rewrite app_assoc.
        * exists sc', rc. cbn [s_accepted s_send s_recv s_wire]. repeat split; auto.
          -- now rewrite Hc.
          -- rewrite on_chan_app, on_chan_single.
             destruct (c =? c') eqn:Ecc; [apply Z.eqb_eq in Ecc; congruence|]. now rewrite app_nil_r.
      + intros Hst c' Hc'. destruct (Hstop Hst c' Hc') as [rest Hrest]. unfold prefix_inv; cbn [s_accepted s_send s_recv s_wire].
        rewrite on_chan_app, Hrest. eexists. now rewrite <- app_assoc.
    - rewrite (H2 eq_refl). repeat split; auto.
  Qed.

  (* ---------------------------------------------------------------- sendPacketMsg *)

  Definition isp (sc : schan) : schan := fst (is_send_pending sc).

  Lemma isp_id : forall sc, sc_id (isp sc) = sc_id sc.
  Proof. intros sc. unfold isp, is_send_pending. destruct (sc_sending sc); [reflexivity|]. destruct (sc_queue sc); reflexivity. Qed.

  Lemma isp_pending : forall rc w sc,
    (sc_sending sc = None -> snd (reasm (rc_recving rc) w) = []) ->
    pending_of rc w (isp sc) = pending_of rc w sc /\
    (sc_sending (isp sc) = None -> snd (reasm (rc_recving rc) w) = []).
  Proof.
    intros rc w sc H. unfold isp, is_send_pending.
    destruct (sc_sending sc) as [x|] eqn:Es; cbn; [rewrite Es; auto|].
    destruct (sc_queue sc) as [|m q] eqn:Eq; cbn; [rewrite Es; auto|].
    split; [|discriminate].
    unfold pending_of, in_progress; cbn. rewrite Es, Eq, (H eq_refl). reflexivity.
  Qed.

  Lemma isp_flag : forall sc, snd (is_send_pending sc) = true -> exists x, sc_sending (isp sc) = Some x.
  Proof.
    intros sc. unfold isp, is_send_pending.
    destruct (sc_sending sc) as [x|] eqn:Es; cbn; [intros _; rewrite Es; eauto|].
    destruct (sc_queue sc) as [|m q]; cbn; [discriminate | eauto].
  Qed.

  Definition with_send (s : sys) (chs : list schan) : sys :=
    {| s_send := chs; s_wire := s_wire s; s_recv := s_recv s; s_accepted := s_accepted s |}.

  Lemma poll_Inv : forall s, Inv s -> Inv (with_send s (map isp (s_send s))).
  Proof.
    intros s (Hs & Hr & Hw & Hrun & Hstop).
    split; [cbn; rewrite map_map; rewrite <- Hs; apply map_ext, isp_id|].
    split; [exact Hr|]. split; [exact Hw|]. split; cbn [s_accepted s_send s_recv s_wire with_send].
    - intros Hns c Hc. destruct (Hrun Hns c Hc) as (sc & rc & F1 & F2 & F3 & F4).
      destruct (isp_pending rc (wire_on c (s_wire s)) sc F4) as [P1 P2].
      exists (isp sc), rc. unfold chan_inv; cbn [s_accepted s_send s_recv s_wire with_send].
      rewrite (find_schan_map isp isp_id), F1. repeat split; auto. now rewrite P1.
    - exact Hstop.
  Qed.

  Lemma find_schan_nth : forall chs k ch, NoDup (map sc_id chs) -> nth_error chs k = Some ch ->
    find_schan chs (sc_id ch) = Some ch.
  Proof.
    induction chs as [|x r IH]; intros [|k] ch Hnd Hn; cbn in *; try discriminate.
    - injection Hn as ->. now rewrite Z.eqb_refl.
    - inversion Hnd as [|? ? Hnotin Hnd']; subst.
      destruct (sc_id x =? sc_id ch) eqn:E; [|eauto].
      apply Z.eqb_eq in E. exfalso. apply Hnotin. rewrite E. apply in_map. eapply nth_error_In; eauto.
  Qed.

  Lemma next_packet_spec : forall sc x sc' p,
    sc_sending sc = Some x -> next_packet_msg maxsz sc = (sc', p) ->
    sc_id sc' = sc_id sc /\ p_ch p = sc_id sc /\ sc_queue sc' = sc_queue sc /\
    ((p_eof p = true /\ p_data p = x /\ sc_sending sc' = None) \/
     (p_eof p = false /\ exists rest, x = p_data p ++ rest /\ sc_sending sc' = Some rest)) /\
    (length (p_data p) <= maxsz)%nat.
  Proof.
    intros sc x sc' p Hx E. unfold next_packet_msg in E. rewrite Hx in E.
    destruct (length x <=? maxsz)%nat eqn:El; injection E as <- <-; cbn; repeat split; auto.
    - left. apply Nat.leb_le in El. repeat split. now apply firstn_all2.
    - apply firstn_le_length.
    - right. split; [reflexivity|]. exists (skipn maxsz x). split; [now rewrite firstn_skipn | reflexivity].
    - apply firstn_le_length.
  Qed.

  Lemma serve_Inv : forall s k ch x ch' p,
    Inv s -> nth_error (s_send s) k = Some ch -> sc_sending ch = Some x ->
    next_packet_msg maxsz ch = (ch', p) ->
    Inv {| s_send := update_nth k (fun _ => ch') (s_send s); s_wire := s_wire s ++ [p];
           s_recv := s_recv s; s_accepted := s_accepted s |}.
  Proof.
    intros s k ch x ch' p (Hs & Hr & Hw & Hrun & Hstop) Hn Hx E.
    destruct (next_packet_spec _ _ _ _ Hx E) as (Hid & Hpc & Hq & Hcase & _).
    assert (Hnd : NoDup (map sc_id (s_send s))) by (rewrite Hs; exact ids_nodup).
    assert (Hin : In (sc_id ch) ids) by (rewrite <- Hs; apply in_map; eapply nth_error_In; eauto).
    split; [cbn; rewrite (update_nth_ids _ _ _ _ Hn Hid); exact Hs|].
    split; [exact Hr|].
    split; [cbn; apply Forall_app; split; [exact Hw | constructor; [rewrite Hpc; exact Hin | constructor]]|].
    split; cbn [s_accepted s_send s_recv s_wire]; [|exact Hstop].
    intros Hns c Hc. destruct (Hrun Hns c Hc) as (sc & rc & F1 & F2 & F3 & F4).
    unfold chan_inv; cbn [s_accepted s_send s_recv s_wire].
    rewrite (find_schan_update_nth _ _ _ _ c Hnd Hn Hid), wire_on_app.
    destruct (sc_id ch =? c) eqn:Ec.
    - apply Z.eqb_eq in Ec. subst c.
      rewrite (find_schan_nth _ _ _ Hnd Hn) in F1. injection F1 as <-.
      exists ch', rc. split; [reflexivity|]. split; [exact F2|].
      assert (Ew : wire_on (sc_id ch) [p] = [p]) by (unfold wire_on; cbn; now rewrite Hpc, Z.eqb_refl).
      rewrite Ew.
      unfold pending_of, in_progress in *. rewrite Hx in F3.
      destruct Hcase as [(He & Hd & Hs')|(He & rest & Hd & Hs')].
      + rewrite (reasm_app_eof _ _ _ He). cbn [fst snd]. split; [|reflexivity].
        rewrite F3, Hs', Hd, Hq. f_equal. now rewrite <- !app_assoc.
      + rewrite (reasm_app_noeof _ _ _ He). cbn [fst snd]. split; [|rewrite Hs'; discriminate].
        rewrite F3, Hs', Hq, Hd. f_equal. f_equal. cbn. now rewrite <- !app_assoc.
    - exists sc, rc. split; [exact F1|]. split; [exact F2|].
      assert (Ew : wire_on c [p] = []).
      { unfold wire_on; cbn. rewrite Hpc, Ec. reflexivity. }
      rewrite Ew, app_nil_r. auto.
  Qed.

  Lemma step_step_Inv : forall s k, Inv s -> Inv (step maxsz s (OStep k)).
  Proof.
    intros s k HI. unfold step, step_with, send_packet_msg_with, poll_all.
    pose proof (poll_Inv s HI) as HP.
    change (map (fun c => fst (is_send_pending c)) (s_send s)) with (map isp (s_send s)).
    set (flags := map (fun c => snd (is_send_pending c)) (s_send s)).
    destruct (negb (existsb (fun b => b) flags)); [exact HP|].
    destruct (nth_error (map isp (s_send s)) k) as [ch|] eqn:En; [|exact HP].
    destruct (nth_error flags k) as [[|]|] eqn:Ef; try exact HP.
    destruct (next_packet_msg maxsz ch) as [ch' p] eqn:Enp.
    assert (Hx : exists x, sc_sending ch = Some x).
    { unfold flags in Ef. rewrite nth_error_map in En, Ef.
      destruct (nth_error (s_send s) k) as [c0|]; [|discriminate].
      cbn in En, Ef. injection En as <-. injection Ef as Ef. now apply isp_flag. }
    destruct Hx as [x Hx].
    exact (serve_Inv (with_send s (map isp (s_send s))) k ch x ch' p HP En Hx Enp).
  Qed.

  (* ---------------------------------------------------------------- recvRoutine *)

  Lemma in_ids_byte : forall c, In c ids -> (c <? 0) || (255 <? c) = false.
  Proof.
    intros c H. rewrite Forall_forall in ids_byte. apply ids_byte in H.
    apply orb_false_iff; split; [apply Z.ltb_ge | apply Z.ltb_ge]; lia.
  Qed.

  Lemma wire_on_cons_same : forall p w, wire_on (p_ch p) (p :: w) = p :: wire_on (p_ch p) w.
  Proof. intros. unfold wire_on; cbn. now rewrite Z.eqb_refl. Qed.
  Lemma wire_on_cons_other : forall c p w, p_ch p <> c -> wire_on c (p :: w) = wire_on c w.
  Proof. intros c p w H. unfold wire_on; cbn. destruct (p_ch p =? c) eqn:E; [apply Z.eqb_eq in E; contradiction | reflexivity]. Qed.

  Lemma step_recv_Inv : forall s, recv_nonnil (s_recv s) -> Inv s -> Inv (step maxsz s ORecv).
  Proof.
    intros s HN HI. unfold step, step_with. destruct (s_wire s) as [|p w] eqn:Ew; [exact HI|].
    destruct HI as (Hs & Hr & Hw & Hrun & Hstop). rewrite Ew in *.
    inversion Hw as [|? ? Hp Hw']; subst.
    destruct (r_stopped (s_recv s)) eqn:Est.
    - (* connection already dropped: the packet goes nowhere *)
      assert (E : recv_item (s_recv s) (WMsg p) = s_recv s) by (unfold recv_item; now rewrite Est).
      rewrite E. split; [exact Hs|]. split; [exact Hr|]. split; [exact Hw'|].
      split; cbn [s_accepted s_send s_recv s_wire].
      + intros Hns. congruence.
      + intros _ c Hc. exact (Hstop eq_refl c Hc).
    - destruct (Hrun eq_refl _ Hp) as (sc0 & rc0 & F1 & F2 & F3 & F4).
      destruct (find_rchan_In _ _ _ F2) as [Hin0 Hid0].
      assert (Hnn0 : nonnil rc0) by (unfold recv_nonnil in HN; rewrite Forall_forall in HN; auto).
      unfold recv_item. rewrite Est. cbn match. rewrite (in_ids_byte _ Hp), F2.
      unfold recv_packet_msg. rewrite (go_append_nonnil _ _ Hnn0).
      change (sl_bytes (rc_buf rc0)) with (rc_recving rc0).
      destruct (rc_cap rc0 <? _) eqn:Ecap.
      + (* over capacity: stopForError *)
        split; [exact Hs|]. split; [exact Hr|]. split; [exact Hw'|].
        split; cbn [s_accepted s_send s_recv s_wire stop r_stopped r_delivered r_chans].
        * discriminate.
        * intros _ c Hc. destruct (chan_inv_prefix _ _ (Hrun eq_refl c Hc)) as [rest Hrest].
          exists rest. exact Hrest.
      + rewrite Ew in F3, F4. rewrite wire_on_cons_same in F3, F4.
        destruct (p_eof p) eqn:Eeof.
        * (* message complete: delivered *)
          cbn [go_reslice0].
          set (rc' := {| rc_id := rc_id rc0; rc_cap := rc_cap rc0; rc_buf := Some [] |}).
          split; [exact Hs|].
          split; [cbn; rewrite set_rchan_ids by exact Hid0; exact Hr|].
          split; [exact Hw'|].
          split; cbn [s_accepted s_send s_recv s_wire r_stopped r_delivered r_chans]; [|discriminate].
          intros _ c Hc. unfold chan_inv; cbn [s_accepted s_send s_recv s_wire r_stopped r_delivered r_chans].
          rewrite (find_rchan_set _ (p_ch p) rc' c Hid0), F2, on_chan_app, on_chan_single.
          destruct (Z.eq_dec c (p_ch p)) as [->|Hne].
          -- rewrite !Z.eqb_refl. exists sc0, rc'. split; [exact F1|]. split; [reflexivity|].
             unfold pending_of in *. change (rc_recving rc') with (@nil N).
             rewrite (reasm_cons_eof _ _ _ Eeof) in F3, F4. cbn [fst snd] in F3, F4.
             split; [|exact F4]. rewrite F3. cbn [fst snd]. now rewrite <- app_assoc.
          -- destruct (Hrun eq_refl c Hc) as (sc & rc & G1 & G2 & G3 & G4).
             assert (Ec : (c =? p_ch p) = false) by now apply Z.eqb_neq.
             assert (Ec' : (p_ch p =? c) = false) by (apply Z.eqb_neq; congruence).
             rewrite Ec, Ec', app_nil_r. rewrite Ew in G3, G4. rewrite wire_on_cons_other in G3, G4 by congruence.
             exists sc, rc. auto.
        * (* partial message: buffered *)
          set (rc' := {| rc_id := rc_id rc0; rc_cap := rc_cap rc0; rc_buf := Some (rc_recving rc0 ++ p_data p) |}).
          split; [exact Hs|].
          split; [cbn; rewrite set_rchan_ids by exact Hid0; exact Hr|].
          split; [exact Hw'|].
          split; cbn [s_accepted s_send s_recv s_wire r_stopped r_delivered r_chans]; [|discriminate].
          intros _ c Hc. unfold chan_inv; cbn [s_accepted s_send s_recv s_wire r_stopped r_delivered r_chans].
          rewrite (find_rchan_set _ (p_ch p) rc' c Hid0), F2.
          destruct (Z.eq_dec c (p_ch p)) as [->|Hne].
          -- rewrite !Z.eqb_refl. exists sc0, rc'. split; [exact F1|]. split; [reflexivity|].
             unfold pending_of in *. change (rc_recving rc') with (rc_recving rc0 ++ p_data p).
             rewrite (reasm_cons_noeof _ _ _ Eeof) in F3, F4. auto.
          -- destruct (Hrun eq_refl c Hc) as (sc & rc & G1 & G2 & G3 & G4).
             assert (Ec : (c =? p_ch p) = false) by now apply Z.eqb_neq.
             rewrite Ec. rewrite Ew in G3, G4. rewrite wire_on_cons_other in G3, G4 by congruence.
             exists sc, rc. auto.
  Qed.

  (* the invariant together with "no receive buffer is nil" *)
  Definition InvN (s : sys) : Prop := Inv s /\ recv_nonnil (s_recv s).

  Lemma step_nonnil : forall s o, recv_nonnil (s_recv s) -> recv_nonnil (s_recv (step maxsz s o)).
  Proof.
    intros s [c m|k|] H; unfold step, step_with.
    - destruct (send_to (s_send s) c m) as [chs ok]. exact H.
    - destruct (send_packet_msg_with _ _ _ _) as [[chs pk] e]. exact H.
    - destruct (s_wire s) as [|p w]; [exact H|]. cbn [s_recv]. apply recv_item_nonnil, H.
  Qed.

  Lemma step_Inv : forall s o, InvN s -> InvN (step maxsz s o).
  Proof.
    intros s o [H HN]. split; [|apply step_nonnil, HN].
    destruct o as [c m|k|]; [apply step_send_Inv | apply step_step_Inv | apply step_recv_Inv]; assumption.
  Qed.

  Lemma run_Inv : forall ops s, InvN s -> InvN (run maxsz s ops).
  Proof.
    induction ops as [|o ops IH]; intros s H; [exact H|].
    change (run maxsz s (o :: ops)) with (run maxsz (step maxsz s o) ops). apply IH, step_Inv, H.
  Qed.

  (* at rest nothing is pending *)
  Lemma find_schan_In : forall chs c sc, find_schan chs c = Some sc -> In sc chs.
  Proof.
    induction chs as [|x r IH]; cbn; intros c sc H; [discriminate|].
    destruct (sc_id x =? c); [injection H as <-; now left | right; eauto].
  Qed.

  Lemma quiescent_complete : forall s c, Inv s -> In c ids ->
    r_stopped (s_recv s) = false -> quiescent s = true ->
    on_chan c (r_delivered (s_recv s)) = on_chan c (s_accepted s).
  Proof.
    intros s c (Hs & Hr & Hw & Hrun & Hstop) Hc Hns Hq.
    destruct (Hrun Hns c Hc) as (sc & rc & F1 & F2 & F3 & F4).
    unfold quiescent in Hq. apply andb_true_iff in Hq as [Hidle Hwire].
    destruct (s_wire s); [|discriminate].
    rewrite forallb_forall in Hidle. specialize (Hidle _ (find_schan_In _ _ _ F1)).
    unfold schan_idle in Hidle.
    destruct (sc_queue sc) eqn:Eq; [|discriminate]. destruct (sc_sending sc) eqn:Es; [discriminate|].
    unfold pending_of, in_progress in F3. cbn in F3. rewrite Es, Eq in F3. cbn in F3.
    now rewrite F3, app_nil_r.
  Qed.
End Fifo.

(* ---------------------------------------------------------------- the initial state *)

Definition ids_of (descs : list (Z * nat * Z)) : list Z := map (fun d => fst (fst d)) descs.

Lemma init_find_schan : forall descs c, In c (ids_of descs) ->
  exists sc, find_schan (s_send (init_sys descs)) c = Some sc /\ sc_queue sc = [] /\ sc_sending sc = None.
Proof.
  unfold init_sys, ids_of; cbn. induction descs as [|d r IH]; cbn; intros c H; [contradiction|].
  destruct (fst (fst d) =? c) eqn:E; [eexists; repeat split|].
  destruct H as [H|H]; [apply Z.eqb_neq in E; contradiction | auto].
Qed.

Lemma init_find_rchan : forall descs c, In c (ids_of descs) ->
  exists rc, find_rchan (r_chans (s_recv (init_sys descs))) c = Some rc /\ rc_recving rc = [].
Proof.
  unfold init_sys, ids_of, new_receiver; cbn. induction descs as [|d r IH]; cbn; intros c H; [contradiction|].
  destruct (fst (fst d) =? c) eqn:E; [eexists; repeat split|].
  destruct H as [H|H]; [apply Z.eqb_neq in E; contradiction | auto].
Qed.

Lemma init_Inv : forall descs, InvN (ids_of descs) (init_sys descs).
Proof.
  intros descs. split; [|apply new_receiver_nonnil].
  unfold Inv. split; [|split; [|split; [|split]]].
  - unfold init_sys, ids_of; cbn. rewrite map_map. reflexivity.
  - unfold init_sys, ids_of, new_receiver; cbn. rewrite !map_map. reflexivity.
  - constructor.
  - intros _ c Hc. destruct (init_find_schan _ _ Hc) as (sc & A1 & A2 & A3).
    destruct (init_find_rchan _ _ Hc) as (rc & B1 & B2).
    exists sc, rc. split; [exact A1|]. split; [exact B1|]. split.
    + unfold pending_of, in_progress; cbn. rewrite B2, A2, A3. reflexivity.
    + intros _. cbn. rewrite B2. reflexivity.
  - cbn. discriminate.
Qed.

(* per_channel_fifo, safety half: at every moment, on every channel, what was delivered is a
   prefix of what was accepted (exactly once, unmodified, in order) *)
Lemma per_channel_fifo_prefix : forall maxsz descs ops c,
  NoDup (ids_of descs) -> Forall (fun c => 0 <= c <= 255) (ids_of descs) -> In c (ids_of descs) ->
  let s := run maxsz (init_sys descs) ops in
  exists rest, on_chan c (s_accepted s) = on_chan c (r_delivered (s_recv s)) ++ rest.
Proof.
  intros maxsz descs ops c Hnd Hb Hc s.
  exact (Inv_prefix _ _ _ (proj1 (run_Inv maxsz _ Hnd Hb ops _ (init_Inv descs))) Hc).
Qed.

(* per_channel_fifo, completeness half: when nothing is left in queues, in progress or on the
   wire and the connection is up, everything accepted has been delivered *)
Lemma per_channel_fifo_complete : forall maxsz descs ops c,
  NoDup (ids_of descs) -> Forall (fun c => 0 <= c <= 255) (ids_of descs) -> In c (ids_of descs) ->
  let s := run maxsz (init_sys descs) ops in
  r_stopped (s_recv s) = false -> quiescent s = true ->
  on_chan c (r_delivered (s_recv s)) = on_chan c (s_accepted s).
Proof.
  intros maxsz descs ops c Hnd Hb Hc s Hns Hq.
  exact (quiescent_complete _ _ _ (proj1 (run_Inv maxsz _ Hnd Hb ops _ (init_Inv descs))) Hc Hns Hq).
Qed.

(* ================================================================== no spurious disconnect *)

Fixpoint cap_of (l : list (Z * Z)) (c : Z) : option Z :=
  match l with
  | [] => None
  | d :: r => if fst d =? c then Some (snd d) else cap_of r c
  end.

Definition rdescs (r : receiver) : list (Z * Z) := map (fun x => (rc_id x, rc_cap x)) (r_chans r).

Lemma find_rchan_cap : forall chs c rc, find_rchan chs c = Some rc ->
  cap_of (map (fun x => (rc_id x, rc_cap x)) chs) c = Some (rc_cap rc).
Proof.
  induction chs as [|x r IH]; cbn; intros c rc H; [discriminate|].
  destruct (rc_id x =? c); [now injection H as <- | auto].
Qed.

Lemma reasm_head : forall w buf,
  match fst (reasm buf w) with
  | m :: _ => exists t, m = buf ++ t
  | [] => exists t, snd (reasm buf w) = buf ++ t
  end.
Proof.
  induction w as [|p w IH]; intros buf; cbn.
  - exists []. now rewrite app_nil_r.
  - destruct (p_eof p); cbn.
    + now exists (p_data p).
    + specialize (IH (buf ++ p_data p)).
      destruct (fst (reasm (buf ++ p_data p) w)); destruct IH as [t Ht];
        exists (p_data p ++ t); rewrite Ht; now rewrite app_assoc.
Qed.

Definition fits_acc (dl : list (Z * Z)) (acc : list (Z * bytes)) : Prop :=
  forall c m cap, In m (on_chan c acc) -> cap_of dl c = Some cap -> Z.of_nat (length m) <= cap.

Definition op_fits (dl : list (Z * Z)) (o : op) : Prop :=
  match o with
  | OSend c m => forall cap, cap_of dl c = Some cap -> Z.of_nat (length m) <= cap
  | _ => True
  end.

Section NoStop.
  Variable maxsz : nat.
  Variable ids : list Z.
  Hypothesis ids_nodup : NoDup ids.
  Hypothesis ids_byte : Forall (fun c => 0 <= c <= 255) ids.
  Variable dl : list (Z * Z).
  Hypothesis dl_nonneg : forall c cap, cap_of dl c = Some cap -> 0 <= cap.

  Definition Good (s : sys) : Prop :=
    InvN ids s /\ rdescs (s_recv s) = dl /\ fits_acc dl (s_accepted s) /\ r_stopped (s_recv s) = false.

  Lemma step_Good : forall s o, Good s -> op_fits dl o -> Good (step maxsz s o).
  Proof.
    intros s o (HI & Hd & Hf & Hns) Ho.
    split; [apply step_Inv; assumption|].
    destruct o as [c m|k|].
    - (* Send *)
      unfold step, step_with. destruct (send_to (s_send s) c m) as [chs ok].
      cbn [s_recv s_accepted]. split; [exact Hd|]. split; [|exact Hns].
      destruct ok; [|exact Hf].
      intros c' m' cap Hin Hcap. rewrite on_chan_app, on_chan_single in Hin.
      apply in_app_or in Hin as [Hin|Hin]; [eauto|].
      destruct (c =? c') eqn:E; [|contradiction].
      apply Z.eqb_eq in E. subst c'. destruct Hin as [<-|[]]. apply Ho, Hcap.
    - (* sendPacketMsg *)
      unfold step, step_with. destruct (send_packet_msg_with _ _ _ _) as [[chs pk] e].
      cbn [s_recv s_accepted]. auto.
    - (* recvRoutine *)
      unfold step, step_with. destruct (s_wire s) as [|p w] eqn:Ew; [auto|].
      cbn [s_recv s_accepted].
      split; [unfold rdescs; rewrite recv_item_descs; exact Hd|]. split; [exact Hf|].
      apply good_item_keeps; [exact Hns|].
      destruct HI as ((Hs & Hr & Hw & Hrun & Hstop) & HN). rewrite Ew in Hw.
      pose proof (Forall_inv Hw) as Hp. cbn in Hp.
      destruct (Hrun Hns _ Hp) as (sc0 & rc0 & F1 & F2 & F3 & F4).
      unfold item_bad. rewrite (in_ids_byte ids ids_byte _ Hp), F2. cbn.
      apply Z.ltb_ge.
      assert (Hcap : cap_of dl (p_ch p) = Some (rc_cap rc0)) by (rewrite <- Hd; apply find_rchan_cap, F2).
      assert (Hall : forall m, In m (pending_of rc0 (wire_on (p_ch p) (s_wire s)) sc0) ->
                               Z.of_nat (length m) <= rc_cap rc0).
      { intros m Hm. apply (Hf (p_ch p) m _); [|exact Hcap]. rewrite F3. apply in_or_app. now right. }
      rewrite Ew, wire_on_cons_same in Hall, F4. unfold pending_of in Hall.
      destruct (p_eof p) eqn:Eeof.
      + rewrite (reasm_cons_eof _ _ _ Eeof) in Hall. cbn [fst] in Hall.
        specialize (Hall (rc_recving rc0 ++ p_data p) (or_introl eq_refl)).
        rewrite app_length in Hall. lia.
      + rewrite (reasm_cons_noeof _ _ _ Eeof) in Hall, F4.
        pose proof (reasm_head (wire_on (p_ch p) w) (rc_recving rc0 ++ p_data p)) as Hh.
        destruct (fst (reasm (rc_recving rc0 ++ p_data p) (wire_on (p_ch p) w))) as [|m ms].
        * destruct Hh as [t Ht]. unfold in_progress in Hall.
          destruct (sc_sending sc0) as [x|] eqn:Ex.
          -- specialize (Hall _ (or_introl eq_refl)). rewrite Ht, !app_length in Hall. lia.
          -- rewrite (F4 eq_refl) in Ht. symmetry in Ht.
             apply app_eq_nil in Ht as [Ht _]. apply app_eq_nil in Ht as [Ha Hb].
             rewrite Ha, Hb. cbn. apply (dl_nonneg _ _ Hcap).
        * destruct Hh as [t Ht]. specialize (Hall m (or_introl eq_refl)).
          rewrite Ht, !app_length in Hall. lia.
  Qed.

  Lemma run_Good : forall ops s, Good s -> Forall (op_fits dl) ops -> Good (run maxsz s ops).
  Proof.
    induction ops as [|o ops IH]; intros s H Hops; [exact H|].
    inversion Hops; subst.
    change (run maxsz s (o :: ops)) with (run maxsz (step maxsz s o) ops). apply IH; [apply step_Good|]; auto.
  Qed.
End NoStop.

Definition rdescs_of (descs : list (Z * nat * Z)) : list (Z * Z) := map (fun d => (fst (fst d), snd d)) descs.

Lemma cap_of_In : forall l c cap, cap_of l c = Some cap -> In (c, cap) l.
Proof.
  induction l as [|d r IH]; cbn; intros c cap H; [discriminate|].
  destruct (fst d =? c) eqn:E.
  - injection H as <-. apply Z.eqb_eq in E. left. destruct d; cbn in *; now subst.
  - right; auto.
Qed.

(* messages within the receive capacity of their channel never make the receiver drop the connection *)
Lemma no_spurious_stop : forall maxsz descs ops,
  NoDup (ids_of descs) -> Forall (fun c => 0 <= c <= 255) (ids_of descs) ->
  Forall (fun d => 0 <= snd d) descs ->
  Forall (op_fits (rdescs_of descs)) ops ->
  r_stopped (s_recv (run maxsz (init_sys descs) ops)) = false.
Proof.
  intros maxsz descs ops Hnd Hb Hcaps Hops.
  assert (Hnn : forall c cap, cap_of (rdescs_of descs) c = Some cap -> 0 <= cap).
  { intros c cap H. apply cap_of_In in H. unfold rdescs_of in H. apply in_map_iff in H as (d & E & Hin).
    injection E as _ <-. rewrite Forall_forall in Hcaps. now apply Hcaps. }
  assert (G : Good (ids_of descs) (rdescs_of descs) (init_sys descs)).
  { split; [apply init_Inv|]. split; [|split; [|reflexivity]].
    - unfold rdescs, rdescs_of, init_sys, new_receiver; cbn. rewrite !map_map. reflexivity.
    - intros c m cap H. cbn in H. contradiction. }
  exact (proj2 (proj2 (proj2 (run_Good maxsz _ Hnd Hb _ Hnn ops _ G Hops)))).
Qed.

(* ================================================================== progress: draining *)

Definition mcost (m : bytes) : nat := S (length m).
Definition cost (sc : schan) : nat :=
  (match sc_sending sc with Some x => mcost x | None => O end + list_sum (map mcost (sc_queue sc)))%nat.
Definition total (chs : list schan) : nat := list_sum (map cost chs).
Definition measure (s : sys) : nat := (2 * total (s_send s) + length (s_wire s))%nat.

Lemma cost_isp : forall sc, cost (isp sc) = cost sc.
Proof.
  intros sc. unfold isp, is_send_pending, cost.
  destruct (sc_sending sc) as [x|] eqn:Es; cbn; [now rewrite Es|].
  destruct (sc_queue sc) as [|m q] eqn:Eq; cbn; [now rewrite Es, Eq | lia].
Qed.

Lemma total_isp : forall chs, total (map isp chs) = total chs.
Proof.
  unfold total. induction chs as [|x r IH]; [reflexivity|].
  change (list_sum (map cost (map isp (x :: r)))) with (cost (isp x) + list_sum (map cost (map isp r)))%nat.
  change (list_sum (map cost (x :: r))) with (cost x + list_sum (map cost r))%nat.
  now rewrite cost_isp, IH.
Qed.

Lemma total_update : forall l k ch ch', nth_error l k = Some ch ->
  (total (update_nth k (fun _ => ch') l) + cost ch = total l + cost ch')%nat.
Proof.
  unfold total. induction l as [|x r IH]; intros [|k] ch ch' H; cbn [nth_error] in H; try discriminate.
  - injection H as ->. cbn [update_nth map list_sum fold_right].
    generalize (cost ch) (cost ch') (fold_right Init.Nat.add 0%nat (map cost r)). intros; lia.
  - specialize (IH k ch ch' H). cbn [update_nth map]. unfold list_sum in *. cbn [fold_right].
    revert IH.
    generalize (cost ch) (cost ch') (cost x) (fold_right Init.Nat.add 0%nat (map cost r))
               (fold_right Init.Nat.add 0%nat (map cost (update_nth k (fun _ : schan => ch') r))).
    intros; lia.
Qed.

Lemma first_pending_some : forall chs k, first_pending chs = Some k ->
  exists c0, nth_error chs k = Some c0 /\ snd (is_send_pending c0) = true.
Proof.
  induction chs as [|x r IH]; cbn [first_pending]; intros k H; [discriminate|].
  destruct (snd (is_send_pending x)) eqn:E.
  - injection H as <-. cbn [nth_error]. eauto.
  - destruct (first_pending r) as [j|]; [|discriminate]. injection H as <-. cbn [nth_error]. auto.
Qed.

Lemma first_pending_none : forall chs, first_pending chs = None -> forallb schan_idle chs = true.
Proof.
  induction chs as [|x r IH]; cbn [first_pending forallb]; intros H; [reflexivity|].
  destruct (snd (is_send_pending x)) eqn:E; [discriminate|].
  destruct (first_pending r); [discriminate|]. rewrite IH by reflexivity. rewrite andb_true_r.
  unfold is_send_pending in E. unfold schan_idle.
  destruct (sc_sending x); [discriminate|]. destruct (sc_queue x); [reflexivity | discriminate].
Qed.

Lemma next_packet_cost : forall maxsz sc x sc' p, (0 < maxsz)%nat ->
  sc_sending sc = Some x -> next_packet_msg maxsz sc = (sc', p) -> (cost sc' < cost sc)%nat.
Proof.
  intros maxsz sc x sc' p Hm Hx E. unfold next_packet_msg in E. rewrite Hx in E. unfold cost. rewrite Hx.
  destruct (length x <=? maxsz)%nat eqn:El; injection E as <- <-; cbn [sc_sending sc_queue]; unfold mcost.
  - generalize (list_sum (map (fun m : bytes => S (length m)) (sc_queue sc))). intros; lia.
  - apply Nat.leb_gt in El. rewrite skipn_length.
    generalize (list_sum (map (fun m : bytes => S (length m)) (sc_queue sc))). intros; lia.
Qed.

Lemma drain_step_measure : forall maxsz s k, (0 < maxsz)%nat ->
  s_wire s = [] -> first_pending (s_send s) = Some k ->
  (measure (step maxsz s (OStep k)) < measure s)%nat.
Proof.
  intros maxsz s k Hm Hw Hk.
  destruct (first_pending_some _ _ Hk) as (c0 & Hn & Hf).
  unfold step, step_with, send_packet_msg_with, poll_all.
  change (map (fun c => fst (is_send_pending c)) (s_send s)) with (map isp (s_send s)).
  assert (Hex : existsb (fun b => b) (map (fun c => snd (is_send_pending c)) (s_send s)) = true).
  { apply existsb_exists. exists true. split; [|reflexivity].
    apply in_map_iff. exists c0. split; [exact Hf | eapply nth_error_In; eauto]. }
  rewrite Hex. cbn [negb].
  rewrite !nth_error_map, Hn. cbn [option_map]. rewrite Hf. unfold isp.
  destruct (next_packet_msg maxsz (fst (is_send_pending c0))) as [ch' p] eqn:Enp.
  destruct (isp_flag _ Hf) as [x Hx].
  pose proof (next_packet_cost _ _ _ _ _ Hm Hx Enp) as Hlt.
  assert (Hn' : nth_error (map isp (s_send s)) k = Some (isp c0)) by (rewrite nth_error_map, Hn; reflexivity).
  pose proof (total_update _ _ _ ch' Hn') as Hu. rewrite total_isp in Hu.
  unfold measure. cbv beta iota zeta. cbn [s_send s_wire]. rewrite Hw. cbn [app length].
  unfold isp in *.
  revert Hlt Hu.
  generalize (cost ch') (cost (fst (is_send_pending c0))) (total (s_send s))
             (total (update_nth k (fun _ : schan => ch') (map (fun sc => fst (is_send_pending sc)) (s_send s)))).
  intros; lia.
Qed.

Lemma total_zero_idle : forall chs, total chs = O -> forallb schan_idle chs = true.
Proof.
  unfold total. induction chs as [|x r IH]; [reflexivity|].
  change (list_sum (map cost (x :: r))) with (cost x + list_sum (map cost r))%nat.
  intros H. apply Nat.eq_add_0 in H as [Hx Hr]. cbn [forallb]. rewrite (IH Hr), andb_true_r.
  unfold cost in Hx. apply Nat.eq_add_0 in Hx as [Hs Hq]. unfold schan_idle.
  destruct (sc_sending x); [unfold mcost in Hs; discriminate|].
  destruct (sc_queue x); [reflexivity | cbn in Hq; unfold mcost in Hq; discriminate].
Qed.

Lemma drain_quiescent : forall maxsz, (0 < maxsz)%nat ->
  forall fuel s, (measure s <= fuel)%nat -> quiescent (drain fuel maxsz s) = true.
Proof.
  intros maxsz Hm. induction fuel as [|f IH]; intros s Hle.
  - cbn [drain]. unfold measure in Hle. unfold quiescent.
    apply Nat.le_0_r in Hle. apply Nat.eq_add_0 in Hle as [Ht Hl].
    apply length_zero_iff_nil in Hl. rewrite Hl, andb_true_r.
    apply total_zero_idle. apply Nat.eq_mul_0 in Ht as [Ht|Ht]; [discriminate | exact Ht].
  - cbn [drain]. destruct (s_wire s) as [|p w] eqn:Ew.
    + destruct (first_pending (s_send s)) as [k|] eqn:Ek.
      * apply IH. pose proof (drain_step_measure maxsz s k Hm Ew Ek). lia.
      * unfold quiescent. rewrite Ew, (first_pending_none _ Ek). reflexivity.
    + apply IH. unfold step, step_with. rewrite Ew. unfold measure in *; cbn [s_send s_wire].
      rewrite Ew in Hle. cbn in Hle. lia.
Qed.

Lemma drain_accepted : forall maxsz fuel s, s_accepted (drain fuel maxsz s) = s_accepted s.
Proof.
  intros maxsz. induction fuel as [|f IH]; intros s; [reflexivity|]. cbn [drain].
  destruct (s_wire s) as [|p w] eqn:Ew.
  - destruct (first_pending (s_send s)) as [k|]; [|reflexivity]. rewrite IH.
    unfold step, step_with. destruct (send_packet_msg_with _ _ _ _) as [[chs pk] e]. reflexivity.
  - rewrite IH. unfold step, step_with. rewrite Ew. reflexivity.
Qed.

Lemma drain_Good : forall maxsz ids dl, NoDup ids -> Forall (fun c => 0 <= c <= 255) ids ->
  (forall c cap, cap_of dl c = Some cap -> 0 <= cap) ->
  forall fuel s, Good ids dl s -> Good ids dl (drain fuel maxsz s).
Proof.
  intros maxsz ids dl Hnd Hb Hnn. induction fuel as [|f IH]; intros s G; [exact G|]. cbn [drain].
  destruct (s_wire s) as [|p w].
  - destruct (first_pending (s_send s)) as [k|]; [|exact G].
    apply IH. apply (step_Good maxsz ids Hnd Hb dl Hnn s (OStep k) G). exact I.
  - apply IH. apply (step_Good maxsz ids Hnd Hb dl Hnn s ORecv G). exact I.
Qed.

(* per_channel_fifo, delivery: after ANY history of sends, scheduler choices and receive steps
   whose messages fit the receive capacities, letting the two routines run (serve any pending
   channel, consume the wire) delivers on every channel exactly the accepted messages *)
Lemma per_channel_fifo_delivery : forall maxsz descs ops c,
  (0 < maxsz)%nat ->
  NoDup (ids_of descs) -> Forall (fun c => 0 <= c <= 255) (ids_of descs) ->
  Forall (fun d => 0 <= snd d) descs ->
  Forall (op_fits (rdescs_of descs)) ops -> In c (ids_of descs) ->
  let s := run maxsz (init_sys descs) ops in
  let s' := drain (measure s) maxsz s in
  r_stopped (s_recv s') = false /\ quiescent s' = true /\
  on_chan c (r_delivered (s_recv s')) = on_chan c (s_accepted s).
Proof.
  intros maxsz descs ops c Hm Hnd Hb Hcaps Hops Hc s s'.
  assert (Hnn : forall c cap, cap_of (rdescs_of descs) c = Some cap -> 0 <= cap).
  { intros c0 cap H. apply cap_of_In in H. unfold rdescs_of in H. apply in_map_iff in H as (d & E & Hin).
    injection E as _ <-. rewrite Forall_forall in Hcaps. now apply Hcaps. }
  assert (G : Good (ids_of descs) (rdescs_of descs) (init_sys descs)).
  { split; [apply init_Inv|]. split; [|split; [|reflexivity]].
    - unfold rdescs, rdescs_of, init_sys, new_receiver; cbn. rewrite !map_map. reflexivity.
    - intros c0 m cap H. cbn in H. contradiction. }
  pose proof (run_Good maxsz _ Hnd Hb _ Hnn ops _ G Hops) as G1. fold s in G1.
  pose proof (drain_Good maxsz _ _ Hnd Hb Hnn (measure s) s G1) as G2. fold s' in G2.
  destruct G2 as (HI & _ & _ & Hns).
  assert (Hq : quiescent s' = true) by (apply drain_quiescent; [exact Hm | lia]).
  split; [exact Hns|]. split; [exact Hq|].
  rewrite (quiescent_complete _ _ _ (proj1 HI) Hc Hns Hq). unfold s'. now rewrite drain_accepted.
Qed.

(* ================================================================== layer B: validated => in bounds *)

Lemma max_bits_val : max_bits = 10000.
Proof. reflexivity. Qed.

Lemma ba_ok_of_validate : forall b bound,
  ba_validate_basic b = true -> ba_size b <= bound -> bound <= max_bits -> ba_wellformed b = true.
Proof.
  intros [pr bits elems] bound Hv Hs Hb. unfold ba_validate_basic, ba_wellformed, ba_size in *. cbn in *.
  destruct pr; cbn in *; [|reflexivity].
  apply andb_true_iff in Hv as [H1 H2]. rewrite H1, H2. cbn. apply Z.leb_le. lia.
Qed.

Lemma validated_msgs_in_bounds : forall m,
  validate_basic m = true -> forallb demand_ok (demands m) = true.
Proof.
  intros m H. destruct m; cbn [demands forallb]; try reflexivity; unfold validate_basic in H;
    repeat (apply andb_true_iff in H; destruct H as [H ?]); rewrite andb_true_r; unfold demand_ok.
  - (* NewValidBlock *)
    eapply ba_ok_of_validate; eauto.
    + apply Z.leb_le; eassumption.
    + rewrite max_bits_val. unfold max_block_parts_count. lia.
  - (* Proposal *)
    apply Z.leb_le. rewrite max_bits_val.
    match goal with Hx : (psh_total _ <=? max_block_parts_count) = true |- _ => apply Z.leb_le in Hx; unfold max_block_parts_count in Hx; lia end.
  - (* ProposalPOL *)
    eapply ba_ok_of_validate; eauto.
    + apply Z.leb_le; eassumption.
    + rewrite max_bits_val. unfold max_votes_count. lia.
  - (* VoteSetBits *)
    eapply ba_ok_of_validate; eauto.
    + apply Z.leb_le; eassumption.
    + rewrite max_bits_val. unfold max_votes_count. lia.
Qed.

(* ================================================================== layer B: state-machine side guards *)

(* Part.Index is a uint32 and never negative; Vote.ValidatorIndex is tested.  Every access the
   state machine makes with the numbers of a message — any message, validated or not — is in
   range, for every part set whose parts slice has [total] entries. *)
Lemma add_part_in_bounds : forall ps idx genuine,
  0 <= idx -> forallb acc_ok (snd (add_part ps idx genuine)) = true.
Proof.
  intros ps idx genuine Hi. unfold add_part, add_part_with.
  destruct (pt_total ps <=? idx) eqn:E; [reflexivity|]. apply Z.leb_gt in E.
  assert (Ha : acc_ok (Acc idx (pt_total ps)) = true).
  { cbn. apply andb_true_iff; split; [apply Z.leb_le | apply Z.ltb_lt]; lia. }
  destruct (nth (Z.to_nat idx) (pt_have ps) false); [cbn [snd forallb]; now rewrite Ha|].
  destruct (negb genuine); cbn [snd forallb]; now rewrite Ha.
Qed.

Definition msg_index_unsigned (m : cmsg) : Prop :=
  match m with MBlockPart _ _ idx _ _ => 0 <= idx | _ => True end.

Lemma statemachine_in_bounds : forall st m genuine,
  msg_index_unsigned m -> forallb acc_ok (sm_accesses st m genuine) = true.
Proof.
  intros st m genuine Hu. unfold sm_accesses, sm_accesses_with. destruct m; try reflexivity.
  - destruct (height =? sm_height st); [|reflexivity].
    destruct (sm_parts st) as [ps|]; [|reflexivity]. now apply add_part_in_bounds.
  - destruct ((index <? 0) || (sm_nvals st <=? index)) eqn:E; [reflexivity|].
    apply orb_false_iff in E as [E1 E2]. apply Z.ltb_ge in E1. apply Z.leb_gt in E2.
    cbn. assert (H : (0 <=? index) && (index <? sm_nvals st) = true)
      by (apply andb_true_iff; split; [apply Z.leb_le | apply Z.ltb_lt]; lia).
    now rewrite H.
Qed.

(* a part is only ever added at a free position inside the set *)
Lemma part_added_spec : forall st m genuine, sm_part_added st m genuine = true ->
  exists h r idx bl pk ps, m = MBlockPart h r idx bl pk /\ h = sm_height st /\ sm_parts st = Some ps /\
    idx < pt_total ps /\ nth (Z.to_nat idx) (pt_have ps) false = false /\ genuine = true.
Proof.
  intros st m genuine H. destruct m; try discriminate. cbn in H.
  apply andb_true_iff in H as [Hh H]. apply Z.eqb_eq in Hh.
  destruct (sm_parts st) as [ps|] eqn:Ep; [|discriminate].
  unfold add_part, add_part_with in H.
  destruct (pt_total ps <=? index) eqn:E; [discriminate|]. apply Z.leb_gt in E.
  destruct (nth (Z.to_nat index) (pt_have ps) false) eqn:En; [discriminate|].
  destruct genuine; [|discriminate].
  exists height, round, index, byteslen, proof_ok, ps. repeat split; auto.
Qed.
