(* C09 — model of the light client: light/verifier.go (VerifyNonAdjacent, VerifyAdjacent, Verify,
   verifyNewHeaderAndVals, HeaderExpired, VerifyBackwards; ValidateTrustLevel is
   C07.Model.validate_trust_level), light/client.go (initializeWithTrustOptions,
   compareFirstHeaderWithWitnesses, VerifyLightBlockAtHeight, Update, verifyLightBlock,
   verifySequential, verifySkipping, verifySkippingAgainstPrimary, backwards,
   lightBlockFromPrimary, findNewPrimary, removeWitnesses, updateTrustedLightBlock),
   light/detector.go (detectDivergence, compareNewHeaderWithWitness, getTargetBlockOrLatest,
   handleConflictingHeaders, examineConflictingHeaderAgainstTrace, newLightClientAttackEvidence),
   light/store/db (as a height-sorted list with Prune), types/light.go (ValidateBasic).
   Transcribed by hand, branch by branch in the order of the source.  No proofs in this file.

   The model is of the REPAIRED code for three defects:
     F2  compareNewHeaderWithWitness returns after sending errConflictingHeaders
         ([compare_hash] yields one message; the unfixed code is [compare_hash_unfixed]);
     F23 backwards compares the header reached by the hash-chain walk with the requested header;
     F50 findNewPrimary promotes the responding witness only after removeWitnesses succeeded; when
         no witness would remain, primary and witness list stay as they were (the unfixed loop is
         [fnp_loop_unfixed]: the respondent became primary and stayed a witness).

   Abstractions.
   * Commit verification is C07.Model (verify_commit_light, verify_commit_light_trusting) over an
     arbitrary signature check [sv].
   * A header is a record of the fields the light client reads; everything else is [h_tag].
     Header.Hash, ValidatorSet.Hash and BlockID.Hash are arbitrary functions [hash], [vhash],
     [bid_hash]; hashes, chain ids, block ids, provider ids are integers.
   * time.Time is a Z (nanoseconds); Before/After are < and >.
   * Providers are adversarial: the world [W] is an arbitrary type and [ask w p h] an arbitrary
     function giving provider p's answer to a request for height h and the next world (answers
     may depend on everything that happened before).  Every request/answer is appended to
     [st_log], every ReportEvidence to [st_ev].
   * Concurrency: the goroutines of one detectDivergence / findNewPrimary /
     compareFirstHeaderWithWitnesses round run to completion one after another in the order
     given by [rank] (smaller rank = its messages arrive earlier on the channel); the main loop
     then reads the first cap(errc) messages in that order.  A goroutine contributes the LIST of
     messages it sends.  time.Sleep and context cancellation by the caller are not modelled
     (providers may answer with a context error).  Witness slots holding the same provider (only
   possible in the unrepaired code, F50) have the same rank: their goroutines run in slot order. *)
From Coq Require Import List ZArith NArith Bool.
From TM Require Import Generated.Consts C07.Model.
Import ListNotations.
Open Scope Z_scope.

Definition pid := Z.

Record header := {
  h_chain : Z; h_height : Z; h_time : Z;
  h_last_bid : Z;                 (* LastBlockID.Hash *)
  h_vals_hash : Z; h_next_vals_hash : Z;
  h_cons : Z; h_app : Z; h_res : Z;   (* ConsensusHash, AppHash, LastResultsHash *)
  h_fmt_ok : bool;                (* the length/version checks of Header.ValidateBasic *)
  h_tag : Z                       (* all remaining content *)
}.

Record params := {
  p_chain : Z; p_period : Z; p_drift : Z;
  p_num : Z; p_den : Z;           (* trust level *)
  p_sequential : bool;
  p_prune : Z                     (* pruningSize *)
}.

(* provider errors *)
Inductive perr := PE_no_response | PE_not_found | PE_too_high | PE_bad | PE_ctx.

(* errors returned by client calls (classes the harness can observe) *)
Inductive cerr :=
| X_verif_invalid                 (* ErrVerificationFailed{Reason: ErrInvalidHeader} *)
| X_verif_expired                 (* ErrVerificationFailed{Reason: ErrOldHeaderExpired} *)
| X_verif_provider (e : perr)     (* ErrVerificationFailed{Reason: provider error} *)
| X_verif_other                   (* ErrVerificationFailed{Reason: anything else} *)
| X_attack                        (* ErrLightClientAttack *)
| X_crossref                      (* ErrFailedHeaderCrossReferencing *)
| X_no_witnesses                  (* ErrNoWitnesses *)
| X_provider (e : perr)           (* provider error passed through by lightBlockFromPrimary *)
| X_back_invalid                  (* ErrInvalidHeader from backwards *)
| X_back_fetch (e : cerr)         (* "failed to obtain the header at height" wrapping *)
| X_conflict_first                (* errConflictingHeaders from compareFirstHeaderWithWitnesses *)
| X_ctx
| X_other
| X_panic.

(* result of the verifier functions *)
Inductive verr := E_ok | E_expired | E_invalid | E_cant_trust | E_other | E_panic.

Fixpoint insert_by {A} (key : A -> Z) (x : A) (l : list A) : list A :=
  match l with
  | [] => [x]
  | y :: r => if key x <? key y then x :: l
              else if key x =? key y then x :: r
              else y :: insert_by key x r
  end.

Fixpoint replace_nth {A} (i : nat) (x : A) (l : list A) : list A :=
  match l, i with
  | [], _ => []
  | _ :: r, O => x :: r
  | y :: r, S j => y :: replace_nth j x r
  end.

Fixpoint insert_desc (x : nat) (l : list nat) : list nat :=
  match l with
  | [] => [x]
  | y :: r => if Nat.leb y x then x :: l else y :: insert_desc x r
  end.
Definition sort_desc (l : list nat) : list nat := fold_right insert_desc [] l.

(* removeWitnesses: one index (w[i] = w[len-1]; w = w[:len-1]) *)
Definition remove_at (ws : list pid) (i : nat) : list pid :=
  match length ws with
  | O => ws
  | S m => firstn m (replace_nth i (nth m ws 0) ws)
  end.

(* removeWitnesses; None = ErrNoWitnesses *)
Definition remove_witnesses (ws : list pid) (idxs : list nat) : option (list pid) :=
  if Nat.leb (length ws) (length idxs) then None
  else Some (fold_left remove_at (sort_desc idxs) ws).

Section Light.

Variable sig : Type.
Variable sv : key -> signmsg -> sig -> bool.
Variable hash : header -> Z.
Variable vhash : list validator -> Z.
Variable bid_hash : blockid -> Z.

Record lblock := { lb_hdr : header; lb_commit : commit sig; lb_vals : list validator;
                   lb_vals_fmt_ok : bool  (* ValidatorSet.ValidateBasic: non-empty, proposer, key sizes *) }.

Definition lb_height (b : lblock) := h_height (lb_hdr b).
Definition lb_time (b : lblock) := h_time (lb_hdr b).
Definition lb_hash (b : lblock) := hash (lb_hdr b).

(* ------------------------------------------------------------------ types/light.go, types/block.go *)

(* Header.ValidateBasic *)
Definition header_validate_basic (h : header) : bool := h_fmt_ok h && (0 <? h_height h).

(* SignedHeader.ValidateBasic(chainID) *)
Definition signed_header_validate_basic (chain : Z) (b : lblock) : bool :=
  header_validate_basic (lb_hdr b) && commit_validate_basic (lb_commit b)
  && (h_chain (lb_hdr b) =? chain) && (c_height (lb_commit b) =? lb_height b)
  && (bid_hash (c_bid (lb_commit b)) =? lb_hash b).

(* ValidatorSet.ValidateBasic as far as the model's fields go *)
Definition valset_validate_basic (b : lblock) : bool :=
  lb_vals_fmt_ok b && negb (Nat.eqb (length (lb_vals b)) 0) && forallb (fun v => 0 <=? v_power v) (lb_vals b).

(* LightBlock.ValidateBasic(chainID) *)
Definition light_block_validate_basic (chain : Z) (b : lblock) : bool :=
  signed_header_validate_basic chain b && valset_validate_basic b
  && (h_vals_hash (lb_hdr b) =? vhash (lb_vals b)).

(* ------------------------------------------------------------------ light/verifier.go *)

(* HeaderExpired: !expirationTime.After(now) *)
Definition header_expired (t : lblock) (period now : Z) : bool := negb (now <? lb_time t + period).

(* verifyNewHeaderAndVals (every failure becomes ErrInvalidHeader) *)
Definition verify_new_header_and_vals (u t : lblock) (now drift : Z) : bool :=
  signed_header_validate_basic (h_chain (lb_hdr t)) u
  && (lb_height t <? lb_height u)
  && (lb_time t <? lb_time u)
  && (lb_time u <? now + drift)
  && (h_vals_hash (lb_hdr u) =? vhash (lb_vals u)).

(* the own-set check: untrustedVals.VerifyCommitLight(chainID, commit.BlockID, height, commit) *)
Definition own_commit_check (t u : lblock) : vresult :=
  verify_commit_light sv (lb_vals u) (h_chain (lb_hdr t)) (c_bid (lb_commit u)) (lb_height u) (lb_commit u).

Definition verify_non_adjacent (P : params) (t : lblock) (tvals : list validator) (u : lblock) (now : Z) : verr :=
  if lb_height u =? lb_height t + 1 then E_other
  else if header_expired t (p_period P) now then E_expired
  else if negb (verify_new_header_and_vals u t now (p_drift P)) then E_invalid
  else
    match verify_commit_light_trusting sv tvals (h_chain (lb_hdr t)) (lb_commit u) (p_num P) (p_den P) with
    | R_ok =>
      match own_commit_check t u with
      | R_ok => E_ok
      | R_panic => E_panic
      | _ => E_invalid
      end
    | R_err_power _ _ => E_cant_trust
    | R_panic => E_panic
    | _ => E_other
    end.

Definition verify_adjacent (P : params) (t u : lblock) (now : Z) : verr :=
  if negb (lb_height u =? lb_height t + 1) then E_other
  else if header_expired t (p_period P) now then E_expired
  else if negb (verify_new_header_and_vals u t now (p_drift P)) then E_invalid
  else if negb (h_vals_hash (lb_hdr u) =? h_next_vals_hash (lb_hdr t)) then E_other
  else
    match own_commit_check t u with
    | R_ok => E_ok
    | R_panic => E_panic
    | _ => E_invalid
    end.

Definition verify (P : params) (t : lblock) (tvals : list validator) (u : lblock) (now : Z) : verr :=
  if negb (lb_height u =? lb_height t + 1) then verify_non_adjacent P t tvals u now
  else verify_adjacent P t u now.

(* VerifyBackwards(untrustedHeader, trustedHeader) *)
Definition verify_backwards (u t : header) : bool :=
  header_validate_basic u
  && (h_chain u =? h_chain t)
  && (h_time u <? h_time t)
  && (hash u =? h_last_bid t).

(* ------------------------------------------------------------------ providers, state *)

Inductive preply := P_block (b : lblock) | P_err (e : perr).

Record evid := { ev_block : lblock; ev_common : Z }.   (* ConflictingBlock, CommonHeight *)

Variable W : Type.
Variable ask : W -> pid -> Z -> preply * W.
Variable rank : pid -> Z.

Record st := { st_w : W; st_log : list (pid * Z * preply); st_ev : list (pid * evid) }.

Definition askS (s : st) (p : pid) (h : Z) : preply * st :=
  let '(r, w') := ask (st_w s) p h in
  (r, {| st_w := w'; st_log := (p, h, r) :: st_log s; st_ev := st_ev s |}).

Definition reportS (s : st) (p : pid) (e : evid) : st :=
  {| st_w := st_w s; st_log := st_log s; st_ev := (p, e) :: st_ev s |}.

Record client := {
  cl_primary : pid;
  cl_witnesses : list pid;
  cl_store : list lblock;            (* trusted store, ascending heights *)
  cl_latest : option lblock          (* latestTrustedBlock *)
}.

Definition set_providers (c : client) (p : pid) (ws : list pid) : client :=
  {| cl_primary := p; cl_witnesses := ws; cl_store := cl_store c; cl_latest := cl_latest c |}.

Definition is_benign (e : perr) : bool :=
  match e with PE_no_response | PE_not_found | PE_too_high => true | _ => false end.

(* witnesses with their indices in arrival order *)
Fixpoint insert_rank (x : nat * pid) (l : list (nat * pid)) : list (nat * pid) :=
  match l with
  | [] => [x]
  | y :: r => if rank (snd x) <? rank (snd y) then x :: l else y :: insert_rank x r
  end.
Definition indexed (ws : list pid) : list (nat * pid) := combine (seq 0 (length ws)) ws.
Definition arrival_order (ws : list pid) : list (nat * pid) := fold_right insert_rank [] (indexed ws).

(* ------------------------------------------------------------------ findNewPrimary *)

(* all witness goroutines ask for [height] *)
Fixpoint fnp_ask (s : st) (ws : list (nat * pid)) (height : Z) : list (nat * preply) * st :=
  match ws with
  | [] => ([], s)
  | (i, p) :: r =>
    let '(rep, s1) := askS s p height in
    let '(rs, s2) := fnp_ask s1 r height in
    ((i, rep) :: rs, s2)
  end.

(* as in the unrepaired source (F50): the respondent is made primary BEFORE removeWitnesses, which
   refuses to empty the witness list; the provider is then primary and witness at once.  Used only
   to exhibit F50 *)
Fixpoint fnp_loop_unfixed (c : client) (remove : bool) (resp : list (nat * preply)) (to_remove : list nat)
         (last_err : cerr) : (lblock + cerr) * client :=
  match resp with
  | [] =>
    let c' := match remove_witnesses (cl_witnesses c) to_remove with
              | Some ws => set_providers c (cl_primary c) ws
              | None => c
              end in
    (inr last_err, c')
  | (i, P_block b) :: _ =>
    let ws1 := if remove then cl_witnesses c else cl_witnesses c ++ [cl_primary c] in
    let prim := nth i ws1 0 in
    match remove_witnesses ws1 (to_remove ++ [i]) with
    | None => (inr X_no_witnesses, set_providers c prim ws1)
    | Some ws2 => (inl b, set_providers c prim ws2)
    end
  | (i, P_err e) :: r =>
    if is_benign e then fnp_loop_unfixed c remove r to_remove (X_provider e)
    else fnp_loop_unfixed c remove r (to_remove ++ [i]) (X_provider e)
  end.

Fixpoint fnp_loop (c : client) (remove : bool) (resp : list (nat * preply)) (to_remove : list nat)
         (last_err : cerr) : (lblock + cerr) * client :=
  match resp with
  | [] =>
    (* remove witnesses marked as bad; a failure is only logged *)
    let c' := match remove_witnesses (cl_witnesses c) to_remove with
              | Some ws => set_providers c (cl_primary c) ws
              | None => c
              end in
    (inr last_err, c')
  | (i, P_block b) :: _ =>
    let ws1 := if remove then cl_witnesses c else cl_witnesses c ++ [cl_primary c] in
    let prim := nth i ws1 0 in
    let to_remove' := to_remove ++ [i] in
    match remove_witnesses ws1 to_remove' with
    | None => (inr X_no_witnesses, c)          (* REPAIRED (F50): nothing changes *)
    | Some ws2 => (inl b, set_providers c prim ws2)
    end
  | (i, P_err e) :: r =>
    if is_benign e then fnp_loop c remove r to_remove (X_provider e)
    else fnp_loop c remove r (to_remove ++ [i]) (X_provider e)
  end.

Definition find_new_primary (c : client) (s : st) (height : Z) (remove : bool)
  : (lblock + cerr) * client * st :=
  match cl_witnesses c with
  | [] => (inr X_no_witnesses, c, s)
  | _ =>
    let '(resp, s1) := fnp_ask s (arrival_order (cl_witnesses c)) height in
    let '(r, c1) := fnp_loop c remove resp [] X_other in
    (r, c1, s1)
  end.

(* lightBlockFromPrimary *)
Definition light_block_from_primary (c : client) (s : st) (height : Z) : (lblock + cerr) * client * st :=
  let '(rep, s1) := askS s (cl_primary c) height in
  match rep with
  | P_block b => (inl b, c, s1)
  | P_err PE_ctx => (inr X_ctx, c, s1)
  | P_err e => if is_benign e then find_new_primary c s1 height false
               else find_new_primary c s1 height true
  end.

(* ------------------------------------------------------------------ verifySkipping *)

Definition pivot_height (hv hc : Z) : Z :=
  hv + Z.quot ((hc - hv) * light_skipping_numerator) light_skipping_denominator.

Definition verr_to_cerr (e : verr) : cerr :=
  match e with
  | E_ok => X_other
  | E_expired => X_verif_expired
  | E_invalid => X_verif_invalid
  | E_cant_trust => X_verif_other
  | E_other => X_verif_other
  | E_panic => X_panic
  end.

(* result: the trace, or the error together with ErrVerificationFailed.To when the reason is
   ErrInvalidHeader (what verifySkippingAgainstPrimary inspects) *)
Inductive skip_err :=
| SK_verif (e : verr) (to : Z)        (* ErrVerificationFailed{To: to, Reason: e} *)
| SK_cant_trust                        (* the raw ErrNewValSetCantBeTrusted (benign provider error at the pivot) *)
| SK_provider (e : perr)               (* ErrVerificationFailed{Reason: providerErr} *)
| SK_fuel.

Fixpoint verify_skipping_loop (fuel : nat) (P : params) (source : pid) (now : Z) (newb : lblock)
         (s : st) (cache : list lblock) (depth : nat) (verified : lblock) (trace : list lblock)
  : (list lblock + skip_err) * st :=
  match fuel with
  | O => (inr SK_fuel, s)
  | S fuel' =>
    let cur := nth depth cache newb in
    match verify P verified (lb_vals verified) cur now with
    | E_ok =>
      if Nat.eqb depth 0 then (inl (trace ++ [newb]), s)
      else verify_skipping_loop fuel' P source now newb s (firstn depth cache) 0 cur (trace ++ [cur])
    | E_cant_trust =>
      if Nat.eqb depth (length cache - 1) then
        let pv := pivot_height (lb_height verified) (lb_height cur) in
        let '(rep, s1) := askS s source pv in
        match rep with
        | P_block ib =>
          verify_skipping_loop fuel' P source now newb s1 (cache ++ [ib; ib]) (S depth) verified trace
        | P_err e => if is_benign e then (inr SK_cant_trust, s1) else (inr (SK_provider e), s1)
        end
      else verify_skipping_loop fuel' P source now newb s cache (S depth) verified trace
    | e => (inr (SK_verif e (lb_height cur)), s)
    end
  end.

Definition skipping_fuel (t u : lblock) : nat :=
  let g := Z.to_nat (lb_height u - lb_height t) in (g * g + 16)%nat.

Definition verify_skipping (P : params) (source : pid) (s : st) (t u : lblock) (now : Z)
  : (list lblock + skip_err) * st :=
  verify_skipping_loop (skipping_fuel t u) P source now u s [u] 0 t [t].

Definition skip_err_to_cerr (e : skip_err) : cerr :=
  match e with
  | SK_verif v _ => verr_to_cerr v
  | SK_cant_trust => X_other          (* errors.Unwrap gives nil: detectDivergence(nil trace) fails *)
  | SK_provider p => X_verif_provider p
  | SK_fuel => X_panic
  end.

(* ------------------------------------------------------------------ detector *)

Inductive msg :=
| M_nil
| M_conflict (b : lblock) (widx : nat)
| M_bad (widx : nat)
| M_benign
| M_ctx.

(* the end of compareNewHeaderWithWitness — REPAIRED (F2): return after the conflict *)
Definition compare_hash (target : lblock) (b : lblock) (widx : nat) : list msg :=
  if negb (lb_hash target =? lb_hash b) then [M_conflict b widx] else [M_nil].
(* as in the unrepaired source: falls through and also sends nil *)
Definition compare_hash_unfixed (target : lblock) (b : lblock) (widx : nat) : list msg :=
  if negb (lb_hash target =? lb_hash b) then [M_conflict b widx; M_nil] else [M_nil].

Definition err_msg (e : perr) : msg := match e with PE_ctx => M_ctx | _ => M_benign end.

(* getTargetBlockOrLatest: (isTarget, block) or the error *)
Definition get_target_or_latest (s : st) (w : pid) (height : Z) : ((bool * lblock) + perr) * st :=
  let '(rep, s1) := askS s w 0 in
  match rep with
  | P_err e => (inr e, s1)
  | P_block b =>
    if lb_height b =? height then (inl (true, b), s1)
    else if height <? lb_height b then
      let '(rep2, s2) := askS s1 w height in
      match rep2 with
      | P_block b2 => (inl (true, b2), s2)
      | P_err e => (inr e, s2)
      end
    else (inl (false, b), s1)
  end.

(* the messages one witness goroutine sends on errc *)
Definition compare_new_header_with_witness (s : st) (target : lblock) (w : pid) (widx : nat)
  : list msg * st :=
  let '(rep, s1) := askS s w (lb_height target) in
  match rep with
  | P_block b => (compare_hash target b widx, s1)
  | P_err PE_no_response => ([M_benign], s1)
  | P_err PE_not_found => ([M_benign], s1)
  | P_err PE_ctx => ([M_ctx], s1)
  | P_err PE_too_high =>
    let '(r1, s2) := get_target_or_latest s1 w (lb_height target) in
    match r1 with
    | inr e => ([err_msg e], s2)
    | inl (true, b) => (compare_hash target b widx, s2)
    | inl (false, b) =>
      if negb (lb_time b <? lb_time target) then ([M_conflict b widx], s2)
      else
        let '(r2, s3) := get_target_or_latest s2 w (lb_height target) in
        match r2 with
        | inr PE_ctx => ([M_ctx], s3)
        | inr _ => ([M_bad widx], s3)
        | inl (true, b') => (compare_hash target b' widx, s3)
        | inl (false, b') =>
          if negb (lb_time b' <? lb_time target) then ([M_conflict b' widx], s3)
          else ([M_benign], s3)
        end
    end
  | P_err PE_bad => ([M_bad widx], s1)
  end.

Fixpoint compare_all (s : st) (target : lblock) (ws : list (nat * pid)) : list msg * st :=
  match ws with
  | [] => ([], s)
  | (i, p) :: r =>
    let '(m, s1) := compare_new_header_with_witness s target p i in
    let '(ms, s2) := compare_all s1 target r in
    (m ++ ms, s2)
  end.

(* ConflictingHeaderIsInvalid *)
Definition conflicting_header_is_invalid (c t : header) : bool :=
  negb ((h_vals_hash c =? h_vals_hash t) && (h_next_vals_hash c =? h_next_vals_hash t)
        && (h_cons c =? h_cons t) && (h_app c =? h_app t) && (h_res c =? h_res t)).

(* newLightClientAttackEvidence (ByzantineValidators, Timestamp, TotalVotingPower not modelled) *)
Definition new_evidence (conflicted trusted common : lblock) : evid :=
  {| ev_block := conflicted;
     ev_common := if conflicting_header_is_invalid (lb_hdr conflicted) (lb_hdr trusted)
                  then lb_height common else lb_height trusted |}.

(* examineConflictingHeaderAgainstTrace: Some (sourceTrace, divergent trace block) or an error *)
Fixpoint examine_loop (P : params) (source : pid) (now : Z) (target : lblock) (s : st)
         (trace : list lblock) (first : bool) (prev : lblock) (source_trace : list lblock)
  : option (list lblock * lblock) * st :=
  match trace with
  | [] => (None, s)                                            (* errNoDivergence *)
  | tb :: rest =>
    if lb_height target <? lb_height tb then
      if lb_time target <? lb_time tb then (None, s)           (* sanity check failed *)
      else if negb (lb_height prev =? lb_height target) then
        match verify_skipping P source s prev target now with
        | (inl tr, s1) => (Some (tr, tb), s1)
        | (inr _, s1) => (None, s1)
        end
      else (Some (source_trace, tb), s)
    else
      let '(sbr, s1) :=
        if lb_height tb =? lb_height target then (P_block target, s)
        else askS s source (lb_height tb) in
      match sbr with
      | P_err _ => (None, s1)
      | P_block sb =>
        if first then
          if negb (lb_hash sb =? lb_hash tb) then (None, s1)
          else examine_loop P source now target s1 rest false sb source_trace
        else
          match verify_skipping P source s1 prev sb now with
          | (inr _, s2) => (None, s2)
          | (inl tr, s2) =>
            if negb (lb_hash sb =? lb_hash tb) then (Some (tr, tb), s2)
            else examine_loop P source now target s2 rest false sb tr
          end
      end
  end.

Definition examine_conflicting (P : params) (source : pid) (now : Z) (s : st)
           (trace : list lblock) (target : lblock) : option (list lblock * lblock) * st :=
  match trace with
  | [] => (None, s)
  | t0 :: _ =>
    if lb_height target <? lb_height t0 then (None, s)
    else examine_loop P source now target s trace true t0 []
  end.

Inductive hc_result := HC_not_attack | HC_attack | HC_panic.

(* handleConflictingHeaders; HC_not_attack = returned nil (the witness will be removed) *)
Definition handle_conflicting (P : params) (c : client) (now : Z) (s : st) (ptrace : list lblock)
           (challenging : lblock) (widx : nat) : hc_result * st :=
  let sw := nth widx (cl_witnesses c) 0 in
  match examine_conflicting P sw now s ptrace challenging with
  | (None, s1) => (HC_not_attack, s1)
  | (Some (wtrace, pblock), s1) =>
    match wtrace with
    | [] => (HC_panic, s1)                                      (* witnessTrace[0]: index out of range *)
    | common :: _ =>
      let trusted := last wtrace common in
      let s2 := reportS s1 sw (new_evidence pblock trusted common) in
      match examine_conflicting P (cl_primary c) now s2 wtrace pblock with
      | (None, s3) => (HC_attack, s3)
      | (Some (ptrace', wblock), s3) =>
        match ptrace' with
        | [] => (HC_panic, s3)
        | common' :: _ =>
          (HC_attack, reportS s3 (cl_primary c) (new_evidence wblock (last ptrace' common') common'))
        end
      end
    end
  end.

(* the loop of detectDivergence over the messages read from errc.  [handle] is
   handleConflictingHeaders; the loop state is generic so that the loop can be studied on its own *)
Inductive dd_result := DD_trusted (to_remove : list nat) | DD_crossref (to_remove : list nat)
                     | DD_attack | DD_ctx | DD_panic.

Fixpoint detect_loop {S : Type} (handle : S -> lblock -> nat -> hc_result * S)
         (s : S) (msgs : list msg) (matched : bool) (to_remove : list nat) : dd_result * S :=
  match msgs with
  | [] => (if matched then DD_trusted to_remove else DD_crossref to_remove, s)
  | M_nil :: r => detect_loop handle s r true to_remove
  | M_conflict b i :: r =>
    match handle s b i with
    | (HC_attack, s1) => (DD_attack, s1)
    | (HC_panic, s1) => (DD_panic, s1)
    | (HC_not_attack, s1) => detect_loop handle s1 r matched (to_remove ++ [i])
    end
  | M_bad i :: r => detect_loop handle s r matched (to_remove ++ [i])
  | M_benign :: r => detect_loop handle s r matched to_remove
  | M_ctx :: _ => (DD_ctx, s)
  end.

(* detectDivergence: None = trusted *)
Definition detect_divergence (P : params) (c : client) (s : st) (trace : list lblock) (now : Z)
  : option cerr * client * st :=
  match trace with
  | [] | [_] => (Some X_other, c, s)
  | t0 :: _ =>
    match cl_witnesses c with
    | [] => (Some X_no_witnesses, c, s)
    | _ =>
      let target := last trace t0 in
      let '(msgs, s1) := compare_all s target (arrival_order (cl_witnesses c)) in
      let msgs' := firstn (length (cl_witnesses c)) msgs in     (* cap(errc) receives *)
      match detect_loop (fun s b i => handle_conflicting P c now s trace b i) s1 msgs' false [] with
      | (DD_attack, s2) => (Some X_attack, c, s2)
      | (DD_ctx, s2) => (Some X_ctx, c, s2)
      | (DD_panic, s2) => (Some X_panic, c, s2)
      | (DD_trusted rm, s2) =>
        match remove_witnesses (cl_witnesses c) rm with
        | None => (Some X_no_witnesses, c, s2)
        | Some ws => (None, set_providers c (cl_primary c) ws, s2)
        end
      | (DD_crossref rm, s2) =>
        match remove_witnesses (cl_witnesses c) rm with
        | None => (Some X_no_witnesses, c, s2)
        | Some ws => (Some X_crossref, set_providers c (cl_primary c) ws, s2)
        end
      end
    end
  end.

(* ------------------------------------------------------------------ verifySkippingAgainstPrimary *)

Fixpoint verify_skipping_against_primary (fuel : nat) (P : params) (c : client) (s : st)
         (t u : lblock) (now : Z) : option cerr * client * st :=
  match fuel with
  | O => (Some X_panic, c, s)
  | S fuel' =>
    match verify_skipping P (cl_primary c) s t u now with
    | (inl trace, s1) => detect_divergence P c s1 trace now
    | (inr SK_cant_trust, s1) => detect_divergence P c s1 [] now
    | (inr (SK_verif E_invalid to), s1) =>
      if to =? lb_height u then (Some X_verif_invalid, c, s1)
      else
        match find_new_primary c s1 (lb_height u) true with
        | (inr _, c1, s2) => (Some X_verif_invalid, c1, s2)
        | (inl repl, c1, s2) =>
          if negb (lb_hash repl =? lb_hash u) then (Some X_verif_invalid, c1, s2)
          else verify_skipping_against_primary fuel' P c1 s2 t repl now
        end
    | (inr e, s1) => (Some (skip_err_to_cerr e), c, s1)
    end
  end.

(* ------------------------------------------------------------------ verifySequential *)

Fixpoint verify_sequential_loop (fuel : nat) (P : params) (c : client) (s : st) (u : lblock) (now : Z)
         (verified : lblock) (height : Z) (trace : list lblock) : option cerr * client * st :=
  match fuel with
  | O => (Some X_panic, c, s)
  | S fuel' =>
    if lb_height u <? height then detect_divergence P c s trace now
    else
      let '(fetched, c1, s1) :=
        if height =? lb_height u then (inl u, c, s) else light_block_from_primary c s height in
      match fetched with
      | inr (X_provider e) => (Some (X_verif_provider e), c1, s1)
      | inr X_ctx => (Some (X_verif_provider PE_ctx), c1, s1)
      | inr _ => (Some X_verif_other, c1, s1)
      | inl interim =>
        match verify_adjacent P verified interim now with
        | E_ok => verify_sequential_loop fuel' P c1 s1 u now interim (height + 1) (trace ++ [interim])
        | E_invalid =>
          if lb_height interim =? lb_height u then (Some X_verif_invalid, c1, s1)
          else
            match find_new_primary c1 s1 (lb_height u) true with
            | (inr _, c2, s2) => (Some X_verif_invalid, c2, s2)
            | (inl repl, c2, s2) =>
              if negb (lb_hash repl =? lb_hash u) then (Some X_verif_invalid, c2, s2)
              else verify_sequential_loop fuel' P c2 s2 u now verified height trace
            end
        | e => (Some (verr_to_cerr e), c1, s1)
        end
      end
  end.

Definition verify_sequential (P : params) (c : client) (s : st) (t u : lblock) (now : Z)
  : option cerr * client * st :=
  verify_sequential_loop (Z.to_nat (lb_height u - lb_height t) + length (cl_witnesses c) + 2)
                         P c s u now t (lb_height t + 1) [t].

(* ------------------------------------------------------------------ backwards — REPAIRED (F23) *)

Fixpoint backwards (fuel : nat) (c : client) (s : st) (verified newh : header)
  : option cerr * client * st :=
  match fuel with
  | O => (Some X_panic, c, s)
  | S fuel' =>
    if h_height newh <? h_height verified then
      match light_block_from_primary c s (h_height verified - 1) with
      | (inr e, c1, s1) => (Some (X_back_fetch e), c1, s1)
      | (inl ib, c1, s1) =>
        if verify_backwards (lb_hdr ib) verified then backwards fuel' c1 s1 (lb_hdr ib) newh
        else
          match find_new_primary c1 s1 (h_height newh) true with
          | (inr _, c2, s2) => (Some X_back_invalid, c2, s2)
          | (inl nb, c2, s2) =>
            if negb (lb_hash nb =? hash newh) then (Some X_back_invalid, c2, s2)
            else backwards fuel' c2 s2 verified (lb_hdr nb)
          end
      end
    else
      (* the repair: the header reached by the walk must be the header that will be stored *)
      if negb (hash verified =? hash newh) then (Some X_back_invalid, c, s)
      else (None, c, s)
  end.

(* backwards as in the unrepaired source (no comparison after the walk); used only to exhibit F23 *)
Fixpoint backwards_unfixed (fuel : nat) (c : client) (s : st) (verified newh : header)
  : option cerr * client * st :=
  match fuel with
  | O => (Some X_panic, c, s)
  | S fuel' =>
    if h_height newh <? h_height verified then
      match light_block_from_primary c s (h_height verified - 1) with
      | (inr e, c1, s1) => (Some (X_back_fetch e), c1, s1)
      | (inl ib, c1, s1) =>
        if verify_backwards (lb_hdr ib) verified then backwards_unfixed fuel' c1 s1 (lb_hdr ib) newh
        else
          match find_new_primary c1 s1 (h_height newh) true with
          | (inr _, c2, s2) => (Some X_back_invalid, c2, s2)
          | (inl nb, c2, s2) =>
            if negb (lb_hash nb =? hash newh) then (Some X_back_invalid, c2, s2)
            else backwards_unfixed fuel' c2 s2 verified (lb_hdr nb)
          end
      end
    else (None, c, s)
  end.

(* ------------------------------------------------------------------ store, verifyLightBlock *)

Definition store_prune (l : list lblock) (size : Z) : list lblock :=
  skipn (length l - Z.to_nat size) l.

(* updateTrustedLightBlock *)
Definition update_trusted (P : params) (c : client) (b : lblock) : client :=
  let st1 := insert_by lb_height b (cl_store c) in
  let st2 := if 0 <? p_prune P then store_prune st1 (p_prune P) else st1 in
  {| cl_primary := cl_primary c; cl_witnesses := cl_witnesses c; cl_store := st2;
     cl_latest := match cl_latest c with
                  | None => Some b
                  | Some l => if lb_height l <? lb_height b then Some b else Some l
                  end |}.

Definition store_lookup (l : list lblock) (h : Z) : option lblock :=
  find (fun b => lb_height b =? h) l.

(* LightBlockBefore: the stored block with the largest height below h *)
Definition store_before (l : list lblock) (h : Z) : option lblock :=
  fold_left (fun acc b => if lb_height b <? h then Some b else acc) l None.

Definition verify_func (P : params) (c : client) (s : st) (t u : lblock) (now : Z)
  : option cerr * client * st :=
  if p_sequential P then verify_sequential P c s t u now
  else verify_skipping_against_primary (length (cl_witnesses c) + 2) P c s t u now.

Definition verify_light_block (P : params) (c : client) (s : st) (u : lblock) (now : Z)
  : option cerr * client * st :=
  match cl_latest c, cl_store c with
  | Some latest, firstb :: _ =>
    let '(err, c1, s1) :=
      if lb_height latest <=? lb_height u then verify_func P c s latest u now
      else if lb_height u <? lb_height firstb then
        backwards (Z.to_nat (lb_height firstb - lb_height u) + length (cl_witnesses c) + 2)
                  c s (lb_hdr firstb) (lb_hdr u)
      else
        match store_before (cl_store c) (lb_height u) with
        | None => (Some X_other, c, s)
        | Some closest => verify_func P c s closest u now
        end in
    match err with
    | Some e => (Some e, c1, s1)
    | None => (None, update_trusted P c1 u, s1)
    end
  | _, _ => (Some X_panic, c, s)
  end.

(* ------------------------------------------------------------------ the client's entry points *)

Inductive op := Op_verify_at (h now : Z) | Op_update (now : Z).

Definition last_height (c : client) : Z :=
  match cl_store c with [] => -1 | b :: r => lb_height (last r b) end.

(* VerifyLightBlockAtHeight *)
Definition verify_at (P : params) (c : client) (s : st) (h now : Z) : option cerr * client * st :=
  if h <=? 0 then (Some X_other, c, s)
  else
    match (if last_height c <? h then None else store_lookup (cl_store c) h) with
    | Some _ => (None, c, s)
    | None =>
      match light_block_from_primary c s h with
      | (inr e, c1, s1) => (Some e, c1, s1)
      | (inl b, c1, s1) => verify_light_block P c1 s1 b now
      end
    end.

(* Update *)
Definition update (P : params) (c : client) (s : st) (now : Z) : option cerr * client * st :=
  if last_height c =? -1 then (None, c, s)
  else
    match light_block_from_primary c s 0 with
    | (inr e, c1, s1) => (Some e, c1, s1)
    | (inl b, c1, s1) =>
      if last_height c <? lb_height b then verify_light_block P c1 s1 b now else (None, c1, s1)
    end.

Definition step (P : params) (c : client) (s : st) (o : op) : option cerr * client * st :=
  match o with
  | Op_verify_at h now => verify_at P c s h now
  | Op_update now => update P c s now
  end.

(* run a list of operations, collecting (error, client after) per operation *)
Fixpoint run (P : params) (c : client) (s : st) (ops : list op)
  : list (option cerr * client * st) :=
  match ops with
  | [] => []
  | o :: r => let '(e, c1, s1) := step P c s o in (e, c1, s1) :: run P c1 s1 r
  end.

Fixpoint run_final (P : params) (c : client) (s : st) (ops : list op) : client * st :=
  match ops with
  | [] => (c, s)
  | o :: r => let '(_, c1, s1) := step P c s o in run_final P c1 s1 r
  end.

(* ------------------------------------------------------------------ NewClient over an empty store *)

(* compareFirstHeaderWithWitnesses (uses the same witness goroutine) *)
Fixpoint first_loop (msgs : list msg) (to_remove : list nat) : (list nat) + cerr :=
  match msgs with
  | [] => inl to_remove
  | M_nil :: r => first_loop r to_remove
  | M_conflict _ _ :: _ => inr X_conflict_first
  | M_bad i :: r => first_loop r (to_remove ++ [i])
  | M_benign :: r => first_loop r to_remove
  | M_ctx :: _ => inr X_ctx
  end.

Definition compare_first_header (c : client) (s : st) (b : lblock) : option cerr * client * st :=
  match cl_witnesses c with
  | [] => (Some X_no_witnesses, c, s)
  | _ =>
    let '(msgs, s1) := compare_all s b (arrival_order (cl_witnesses c)) in
    match first_loop (firstn (length (cl_witnesses c)) msgs) [] with
    | inr e => (Some e, c, s1)
    | inl rm =>
      match remove_witnesses (cl_witnesses c) rm with
      | None => (None, c, s1)
      | Some ws => (None, set_providers c (cl_primary c) ws, s1)
      end
    end
  end.

(* NewClient with an empty store: initializeWithTrustOptions(height, hash) *)
Definition initialize (P : params) (prim : pid) (ws : list pid) (s : st) (theight thash : Z)
  : option cerr * client * st :=
  let c0 := {| cl_primary := prim; cl_witnesses := ws; cl_store := []; cl_latest := None |} in
  match ws with
  | [] => (Some X_no_witnesses, c0, s)
  | _ =>
    match light_block_from_primary c0 s theight with
    | (inr e, c1, s1) => (Some e, c1, s1)
    | (inl b, c1, s1) =>
      if negb (light_block_validate_basic (p_chain P) b) then (Some X_other, c1, s1)
      else if negb (lb_hash b =? thash) then (Some X_other, c1, s1)
      else
        match verify_commit_light sv (lb_vals b) (p_chain P) (c_bid (lb_commit b)) (lb_height b) (lb_commit b) with
        | R_ok =>
          match compare_first_header c1 s1 b with
          | (Some e, c2, s2) => (Some e, c2, s2)
          | (None, c2, s2) => (None, update_trusted P c2 b, s2)
          end
        | R_panic => (Some X_panic, c1, s1)
        | _ => (Some X_other, c1, s1)
        end
    end
  end.

End Light.
