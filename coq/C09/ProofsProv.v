(* C09 — the provider lists (repaired findNewPrimary, F50): the primary is never one of the
   witnesses and no provider occupies two witness slots, after any sequence of client calls against
   arbitrary providers and arrival orders; hence a confirmation by a witness is a confirmation by a
   provider other than the primary. *)
From Coq Require Import List ZArith NArith Bool Lia Permutation Sorting.Sorted.
From TM Require Import Generated.Consts C07.Model C09.Model C09.Proofs.
Import ListNotations.
Open Scope Z_scope.

(* ---------------------------------------------------------------- removeWitnesses on lists *)

Lemma replace_nth_app : forall {A} (a : list A) x y b,
  replace_nth (length a) y (a ++ x :: b) = a ++ y :: b.
Proof. intros A a x y b. induction a as [|z a IH]; cbn; [reflexivity | rewrite IH; reflexivity]. Qed.

Lemma replace_nth_oob : forall {A} (l : list A) i y, (length l <= i)%nat -> replace_nth i y l = l.
Proof.
  intros A l. induction l as [|z l IH]; intros i y H; [destruct i; reflexivity|].
  destruct i as [|i]; cbn in H; [lia|]. cbn. rewrite IH; [reflexivity | lia].
Qed.

Lemma firstn_in : forall {A} n (l : list A) x, In x (firstn n l) -> In x l.
Proof. intros A n l x H. rewrite <- (firstn_skipn n l). apply in_or_app. left. exact H. Qed.

Lemma nodup_app_l : forall {A} (a b : list A), NoDup (a ++ b) -> NoDup a.
Proof.
  intros A a b. induction b as [|x b IH]; intro H; [rewrite app_nil_r in H; exact H|].
  apply IH. eapply NoDup_remove_1. exact H.
Qed.

Lemma firstn_nodup : forall {A} n (l : list A), NoDup l -> NoDup (firstn n l).
Proof.
  intros A n l H. rewrite <- (firstn_skipn n l) in H. eapply nodup_app_l. exact H.
Qed.

Lemma remove_at_last : forall (a : list pid) x, remove_at (a ++ [x]) (length a) = a.
Proof.
  intros a x. unfold remove_at. rewrite app_length. cbn [length]. rewrite Nat.add_1_r.
  rewrite app_nth2; [|lia]. rewrite Nat.sub_diag. cbn [nth].
  rewrite replace_nth_app. rewrite firstn_app, firstn_all, Nat.sub_diag. cbn. apply app_nil_r.
Qed.

Lemma remove_at_mid : forall (a : list pid) x b l,
  remove_at (a ++ x :: b ++ [l]) (length a) = a ++ l :: b.
Proof.
  intros a x b l. unfold remove_at.
  assert (E : (a ++ x :: b ++ [l]) = (a ++ x :: b) ++ [l]) by (rewrite <- app_assoc; reflexivity).
  assert (L : length (a ++ x :: b ++ [l]) = S (length (a ++ x :: b))).
  { rewrite E, app_length. cbn. lia. }
  rewrite L.
  assert (N : nth (length (a ++ x :: b)) (a ++ x :: b ++ [l]) 0 = l).
  { rewrite E. rewrite app_nth2; [|lia]. rewrite Nat.sub_diag. reflexivity. }
  rewrite N. rewrite replace_nth_app.
  replace (a ++ l :: b ++ [l]) with ((a ++ l :: b) ++ [l]) by (rewrite <- app_assoc; reflexivity).
  replace (length (a ++ x :: b)) with (length (a ++ l :: b)) by (rewrite !app_length; reflexivity).
  rewrite firstn_app, firstn_all, Nat.sub_diag. cbn. apply app_nil_r.
Qed.

(* removing slot i < len: the slots before i keep their content, the rest is a rearrangement *)
Lemma remove_at_spec : forall (ws : list pid) i, (i < length ws)%nat ->
  exists a b tl, ws = a ++ nth i ws 0 :: b /\ length a = i /\
                 remove_at ws i = a ++ tl /\ Permutation b tl.
Proof.
  intros ws i H.
  destruct (nth_split ws 0 H) as [a [b [E L]]].
  exists a, b. remember (nth i ws 0) as x eqn:Ex. clear Ex. subst i.
  destruct b as [|b0 b1].
  - exists []. subst ws. split; [reflexivity|]. split; [reflexivity|]. split; [|constructor].
    rewrite remove_at_last. symmetry. apply app_nil_r.
  - destruct (@exists_last _ (b0 :: b1)) as [b' [l Eb]]; [discriminate|].
    rewrite Eb in *. exists (l :: b'). subst ws. split; [reflexivity|]. split; [reflexivity|]. split.
    + apply remove_at_mid.
    + apply Permutation_sym. apply Permutation_cons_append.
Qed.

Lemma remove_at_perm : forall (ws : list pid) i, (i < length ws)%nat ->
  Permutation ws (nth i ws 0 :: remove_at ws i).
Proof.
  intros ws i H. destruct (remove_at_spec ws i H) as [a [b [tl [E [L [R Pm]]]]]].
  rewrite R. set (x := nth i ws 0) in *. clearbody x. rewrite E.
  apply Permutation_sym. apply Permutation_cons_app.
  apply Permutation_app_head. apply Permutation_sym. exact Pm.
Qed.

Lemma remove_at_before : forall (ws : list pid) i p, (i < length ws)%nat -> (p < i)%nat ->
  nth p (remove_at ws i) 0 = nth p ws 0.
Proof.
  intros ws i p H Hp. destruct (remove_at_spec ws i H) as [a [b [tl [E [L [R Pm]]]]]].
  rewrite R. set (x := nth i ws 0) in *. clearbody x. rewrite E. rewrite !app_nth1 by lia. reflexivity.
Qed.

Lemma remove_at_length : forall (ws : list pid) i, (i < length ws)%nat ->
  length ws = S (length (remove_at ws i)).
Proof.
  intros ws i H. rewrite (Permutation_length (remove_at_perm ws i H)). reflexivity.
Qed.

Lemma remove_at_oob : forall (ws : list pid) i, (length ws <= i)%nat ->
  remove_at ws i = firstn (length ws - 1) ws.
Proof.
  intros ws i H. unfold remove_at. destruct (length ws) as [|m] eqn:E.
  - destruct ws; [reflexivity | discriminate].
  - rewrite replace_nth_oob by lia. cbn. rewrite Nat.sub_0_r. reflexivity.
Qed.

(* in every case: a sub-list without repetitions *)
Lemma remove_at_sub : forall (ws : list pid) i,
  incl (remove_at ws i) ws /\ (NoDup ws -> NoDup (remove_at ws i)).
Proof.
  intros ws i. destruct (Nat.lt_ge_cases i (length ws)) as [H|H].
  - pose proof (remove_at_perm ws i H) as Pm. split.
    + intros x Hx. eapply Permutation_in; [apply Permutation_sym; exact Pm | right; exact Hx].
    + intro N. eapply Permutation_NoDup in N; [|exact Pm]. inversion N; assumption.
  - rewrite remove_at_oob by exact H. split.
    + intros x Hx. eapply firstn_in; exact Hx.
    + apply firstn_nodup.
Qed.

Lemma remove_at_gone : forall (ws : list pid) i, (i < length ws)%nat -> NoDup ws ->
  ~ In (nth i ws 0) (remove_at ws i).
Proof.
  intros ws i H N. eapply Permutation_NoDup in N; [|apply remove_at_perm; exact H].
  inversion N; assumption.
Qed.

Lemma fold_remove_sub : forall l (ws : list pid),
  incl (fold_left remove_at l ws) ws /\ (NoDup ws -> NoDup (fold_left remove_at l ws)).
Proof.
  induction l as [|k l IH]; intro ws; cbn [fold_left].
  - split; [apply incl_refl | auto].
  - destruct (IH (remove_at ws k)) as [I1 N1]. destruct (remove_at_sub ws k) as [I2 N2]. split.
    + eapply incl_tran; eassumption.
    + intro N. apply N1, N2, N.
Qed.

Definition desc (l : list nat) : Prop := StronglySorted (fun a b => (b < a)%nat) l.

(* removal in strictly descending order of valid indices removes exactly those slots *)
Lemma fold_remove_gone : forall l (ws : list pid), NoDup ws -> desc l ->
  (forall k, In k l -> (k < length ws)%nat) ->
  forall k, In k l -> ~ In (nth k ws 0) (fold_left remove_at l ws).
Proof.
  induction l as [|k0 l IH]; intros ws N D B k Hk; [destruct Hk|].
  cbn [fold_left]. inversion D as [|? ? D' F]; subst.
  assert (B0 : (k0 < length ws)%nat) by (apply B; left; reflexivity).
  destruct Hk as [<-|Hk].
  - intro Hin. apply (proj1 (fold_remove_sub l (remove_at ws k0))) in Hin.
    exact (remove_at_gone ws k0 B0 N Hin).
  - rewrite Forall_forall in F. pose proof (F k Hk) as Hlt.
    rewrite <- (remove_at_before ws k0 k B0 Hlt).
    apply IH; [apply (proj2 (remove_at_sub ws k0)); exact N | exact D' | | exact Hk].
    intros k' Hk'. pose proof (F k' Hk'). pose proof (remove_at_length ws k0 B0). lia.
Qed.

Lemma insert_desc_in : forall x l y, In y (insert_desc x l) <-> y = x \/ In y l.
Proof.
  intros x l y. induction l as [|z l IH]; cbn [insert_desc].
  - cbn. intuition.
  - destruct (Nat.leb z x); cbn [In]; [intuition | rewrite IH; cbn [In]; intuition].
Qed.

Lemma insert_desc_sorted : forall x l, desc l -> ~ In x l -> desc (insert_desc x l).
Proof.
  intros x l. induction l as [|z l IH]; intros D Hx; cbn [insert_desc].
  - constructor; constructor.
  - inversion D as [|? ? D' F]; subst. destruct (Nat.leb z x) eqn:E.
    + apply Nat.leb_le in E. assert (z < x)%nat by (assert (z <> x) by (intro; apply Hx; left; assumption); lia).
      constructor; [exact D|]. constructor; [assumption|].
      rewrite Forall_forall in *. intros y Hy. pose proof (F y Hy). lia.
    + apply Nat.leb_gt in E. constructor.
      * apply IH; [exact D' | intro; apply Hx; right; assumption].
      * rewrite Forall_forall in *. intros y Hy. apply insert_desc_in in Hy as [->|Hy]; [exact E | apply F; exact Hy].
Qed.

Lemma sort_desc_in : forall l y, In y (sort_desc l) <-> In y l.
Proof.
  induction l as [|x l IH]; intro y; unfold sort_desc in *; cbn [fold_right]; [reflexivity|].
  rewrite insert_desc_in. rewrite IH. cbn [In]. intuition.
Qed.

Lemma sort_desc_sorted : forall l, NoDup l -> desc (sort_desc l).
Proof.
  induction l as [|x l IH]; intro N; unfold sort_desc in *; cbn [fold_right]; [constructor|].
  inversion N; subst. apply insert_desc_sorted; [apply IH; assumption|].
  intro H. apply (sort_desc_in l x) in H. contradiction.
Qed.

Lemma remove_witnesses_sub : forall (ws : list pid) idxs ws',
  remove_witnesses ws idxs = Some ws' -> incl ws' ws /\ (NoDup ws -> NoDup ws').
Proof.
  intros ws idxs ws' H. unfold remove_witnesses in H.
  destruct (Nat.leb (length ws) (length idxs)); [discriminate|]. injection H as <-.
  apply fold_remove_sub.
Qed.

Lemma remove_witnesses_gone : forall (ws : list pid) idxs ws',
  remove_witnesses ws idxs = Some ws' -> NoDup ws -> NoDup idxs ->
  (forall k, In k idxs -> (k < length ws)%nat) ->
  forall k, In k idxs -> ~ In (nth k ws 0) ws'.
Proof.
  intros ws idxs ws' H N Ni B k Hk. unfold remove_witnesses in H.
  destruct (Nat.leb (length ws) (length idxs)); [discriminate|]. injection H as <-.
  apply fold_remove_gone; [exact N | apply sort_desc_sorted; exact Ni | |apply sort_desc_in; exact Hk].
  intros k' Hk'. apply B. apply sort_desc_in. exact Hk'.
Qed.

(* ---------------------------------------------------------------- arrival order: the slots once each *)

Lemma map_fst_combine : forall {A B} (a : list A) (b : list B),
  length a = length b -> map fst (combine a b) = a.
Proof.
  intros A B a. induction a as [|x a IH]; intros b H; [reflexivity|].
  destruct b as [|y b]; [discriminate|]. cbn. rewrite IH; [reflexivity | cbn in H; lia].
Qed.

Section Prov.

Variable sig : Type.
Variable sv : key -> signmsg -> sig -> bool.
Variable hash : header -> Z.
Variable vhash : list validator -> Z.
Variable bid_hash : blockid -> Z.
Variable W : Type.
Variable ask : W -> pid -> Z -> preply sig * W.
Variable rank : pid -> Z.
Variable P : params.

Notation client := (client sig).
Notation cl_primary := (cl_primary sig).
Notation cl_witnesses := (cl_witnesses sig).

Lemma insert_rank_perm : forall x l, Permutation (insert_rank rank x l) (x :: l).
Proof.
  intros x l. induction l as [|y l IH]; cbn [insert_rank]; [apply Permutation_refl|].
  destruct (rank (snd x) <? rank (snd y)); [apply Permutation_refl|].
  eapply Permutation_trans; [apply perm_skip; exact IH | apply perm_swap].
Qed.

Lemma arrival_order_perm : forall ws, Permutation (arrival_order rank ws) (indexed ws).
Proof.
  intro ws. unfold arrival_order. induction (indexed ws) as [|x l IH]; cbn [fold_right]; [constructor|].
  eapply Permutation_trans; [apply insert_rank_perm | apply perm_skip; exact IH].
Qed.

Lemma arrival_order_slots : forall ws,
  NoDup (map fst (arrival_order rank ws)) /\
  (forall k, In k (map fst (arrival_order rank ws)) -> (k < length ws)%nat).
Proof.
  intro ws.
  assert (Pm : Permutation (map fst (arrival_order rank ws)) (seq 0 (length ws))).
  { eapply Permutation_trans; [apply Permutation_map; apply arrival_order_perm|].
    unfold indexed. rewrite map_fst_combine; [apply Permutation_refl | apply seq_length]. }
  split.
  - eapply Permutation_NoDup; [apply Permutation_sym; exact Pm | apply seq_NoDup].
  - intros k Hk. eapply Permutation_in in Hk; [|exact Pm]. apply in_seq in Hk. lia.
Qed.

Lemma fnp_ask_slots : forall ws s h resp s',
  fnp_ask sig W ask s ws h = (resp, s') -> map fst resp = map fst ws.
Proof.
  induction ws as [|[i p] ws IH]; intros s h resp s' H; cbn [fnp_ask] in H.
  - injection H as <- _. reflexivity.
  - destruct (askS sig W ask s p h) as [rep s1].
    destruct (fnp_ask sig W ask s1 ws h) as [rs s2] eqn:E2.
    injection H as <- _. cbn. erewrite IH; [reflexivity | exact E2].
Qed.

(* ---------------------------------------------------------------- the invariant *)

(* the primary is not a witness and no provider holds two witness slots *)
Definition pinv (c : client) : Prop := NoDup (cl_primary c :: cl_witnesses c).

(* a step that keeps the invariant *)
Definition pkeep (c c' : client) : Prop := pinv c -> pinv c'.

Lemma pk_refl : forall c, pkeep c c. Proof. intros c H. exact H. Qed.
Lemma pk_trans : forall a b c, pkeep a b -> pkeep b c -> pkeep a c.
Proof. intros a b c A B H. apply B, A, H. Qed.

(* witnesses removed, primary kept *)
Lemma pk_removed : forall c rm ws,
  remove_witnesses (cl_witnesses c) rm = Some ws -> pkeep c (set_providers sig c (cl_primary c) ws).
Proof.
  intros c rm ws H I. unfold pinv in *. cbn [Model.cl_primary Model.cl_witnesses set_providers].
  apply remove_witnesses_sub in H as [Hi Hn]. inversion I as [|? ? Hp Hw]; subst.
  constructor; [intro Hin; apply Hp, Hi, Hin | apply Hn, Hw].
Qed.

Lemma fnp_loop_keep : forall resp c remove rm le r c',
  fnp_loop sig c remove resp rm le = (r, c') ->
  NoDup (rm ++ map fst resp) ->
  (forall k, In k (rm ++ map fst resp) -> (k < length (cl_witnesses c))%nat) ->
  pkeep c c'.
Proof.
  induction resp as [|[i rep] resp IH]; intros c remove rm le r c' H N B; cbn [fnp_loop] in H.
  - injection H as _ <-. destruct (remove_witnesses (cl_witnesses c) rm) eqn:E;
      [eapply pk_removed; exact E | apply pk_refl].
  - cbn [map fst] in N, B. destruct rep as [b|e].
    + set (ws1 := if remove then cl_witnesses c else cl_witnesses c ++ [cl_primary c]) in *.
      destruct (remove_witnesses ws1 (rm ++ [i])) as [ws2|] eqn:E; injection H as _ <-; [|apply pk_refl].
      intro I. unfold pinv in *. cbn [Model.cl_primary Model.cl_witnesses set_providers].
      assert (N1 : NoDup ws1).
      { subst ws1. destruct remove; [inversion I; assumption|].
        eapply Permutation_NoDup; [apply Permutation_cons_append | exact I]. }
      assert (L1 : (length (cl_witnesses c) <= length ws1)%nat).
      { subst ws1. destruct remove; [lia | rewrite app_length; lia]. }
      assert (N2 : NoDup (rm ++ [i])).
      { assert (G : NoDup ((rm ++ [i]) ++ map fst resp)) by (rewrite <- app_assoc; exact N).
        eapply nodup_app_l; exact G. }
      constructor.
      * eapply remove_witnesses_gone; [exact E | exact N1 | exact N2 | | apply in_or_app; right; left; reflexivity].
        intros k Hk. assert (In k (rm ++ i :: map fst resp)).
        { apply in_app_or in Hk as [Hk|[<-|[]]]; apply in_or_app; [left; exact Hk | right; left; reflexivity]. }
        pose proof (B k H). lia.
      * apply remove_witnesses_sub in E as [_ Hn]. apply Hn, N1.
    + destruct (is_benign e).
      * eapply IH; [exact H | eapply NoDup_remove_1; exact N |].
        intros k Hk. apply B. apply in_app_or in Hk as [Hk|Hk]; apply in_or_app; [left | right; right]; exact Hk.
      * eapply IH; [exact H | rewrite <- app_assoc; exact N | rewrite <- app_assoc; exact B].
Qed.

Lemma find_new_primary_keep : forall c s h remove r c' s',
  find_new_primary sig W ask rank c s h remove = (r, c', s') -> pkeep c c'.
Proof.
  intros c s h remove r c' s' H. unfold find_new_primary in H.
  destruct (cl_witnesses c) as [|w0 ws] eqn:Ew; [injection H as _ <- _; apply pk_refl|].
  destruct (fnp_ask sig W ask s _ h) as [resp s1] eqn:Ea.
  destruct (fnp_loop sig c remove resp [] X_other) as [r1 c1] eqn:E.
  injection H as _ <- _. apply fnp_ask_slots in Ea.
  destruct (arrival_order_slots (w0 :: ws)) as [N B].
  eapply fnp_loop_keep; [exact E | cbn [app]; rewrite Ea; exact N |].
  cbn [app]. rewrite Ea, Ew. exact B.
Qed.

Lemma lbfp_keep : forall c s h r c' s',
  light_block_from_primary sig W ask rank c s h = (r, c', s') -> pkeep c c'.
Proof.
  intros c s h r c' s' H. unfold light_block_from_primary in H.
  destruct (askS sig W ask s (cl_primary c) h) as [rep s1].
  destruct rep as [b|e].
  - injection H as _ <- _. apply pk_refl.
  - destruct e; cbn [is_benign] in H;
      try (eapply find_new_primary_keep; exact H).
    injection H as _ <- _. apply pk_refl.
Qed.

Lemma detect_keep : forall c s trace now r c' s',
  detect_divergence sig sv hash vhash bid_hash W ask rank P c s trace now = (r, c', s') -> pkeep c c'.
Proof.
  intros c s trace now r c' s' H. unfold detect_divergence in H.
  destruct trace as [|t0 [|t1 tr]]; try (injection H as _ <- _; apply pk_refl).
  destruct (cl_witnesses c) as [|w0 ws] eqn:Ew; [injection H as _ <- _; apply pk_refl|].
  destruct (compare_all sig hash W ask s _ _) as [msgs s1].
  match type of H with context [detect_loop sig ?hd s1 ?m false []] =>
    destruct (detect_loop sig hd s1 m false []) as [r1 s2] end.
  destruct r1 as [rm|rm| | |]; try (injection H as _ <- _; apply pk_refl).
  - destruct (remove_witnesses _ rm) eqn:E; injection H as _ <- _; [|apply pk_refl].
    rewrite <- Ew in E. eapply pk_removed; exact E.
  - destruct (remove_witnesses _ rm) eqn:E; injection H as _ <- _; [|apply pk_refl].
    rewrite <- Ew in E. eapply pk_removed; exact E.
Qed.

Lemma vsap_keep : forall fuel c s t u now r c' s',
  verify_skipping_against_primary sig sv hash vhash bid_hash W ask rank fuel P c s t u now = (r, c', s') ->
  pkeep c c'.
Proof.
  induction fuel as [|fuel IH]; intros c s t u now r c' s' H; cbn [verify_skipping_against_primary] in H.
  - injection H as _ <- _. apply pk_refl.
  - destruct (verify_skipping sig sv hash vhash bid_hash W ask P (cl_primary c) s t u now) as [r1 s1].
    destruct r1 as [trace|e]; [eapply detect_keep; exact H|].
    destruct e as [v to| |pe|].
    + destruct v; try (injection H as _ <- _; apply pk_refl).
      destruct (to =? lb_height sig u); [injection H as _ <- _; apply pk_refl|].
      destruct (find_new_primary sig W ask rank c s1 (lb_height sig u) true) as [[r2 c1] s2] eqn:Ef.
      pose proof (find_new_primary_keep _ _ _ _ _ _ _ Ef) as S1.
      destruct r2 as [repl|e2]; [|injection H as _ <- _; exact S1].
      destruct (negb (Model.lb_hash sig hash repl =? Model.lb_hash sig hash u)).
      * injection H as _ <- _; exact S1.
      * apply IH in H. eapply pk_trans; eassumption.
    + eapply detect_keep; exact H.
    + injection H as _ <- _. apply pk_refl.
    + injection H as _ <- _. apply pk_refl.
Qed.

Lemma seq_loop_keep : forall fuel c s u now verified height trace r c' s',
  verify_sequential_loop sig sv hash vhash bid_hash W ask rank fuel P c s u now verified height trace = (r, c', s') ->
  pkeep c c'.
Proof.
  induction fuel as [|fuel IH]; intros c s u now verified height trace r c' s' H;
    cbn [verify_sequential_loop] in H.
  - injection H as _ <- _. apply pk_refl.
  - destruct (lb_height sig u <? height); [eapply detect_keep; exact H|].
    destruct (if height =? lb_height sig u then (inl u, c, s)
              else light_block_from_primary sig W ask rank c s height) as [[fetched c1] s1] eqn:Ef.
    assert (S1 : pkeep c c1).
    { destruct (height =? lb_height sig u); [injection Ef as _ <- _; apply pk_refl|].
      eapply lbfp_keep; exact Ef. }
    destruct fetched as [interim|e].
    + destruct (verify_adjacent sig sv hash vhash bid_hash P verified interim now);
        try (injection H as _ <- _; exact S1).
      * apply IH in H. eapply pk_trans; eassumption.
      * destruct (lb_height sig interim =? lb_height sig u); [injection H as _ <- _; exact S1|].
        destruct (find_new_primary sig W ask rank c1 s1 (lb_height sig u) true) as [[r2 c2] s2] eqn:Ef2.
        pose proof (find_new_primary_keep _ _ _ _ _ _ _ Ef2) as S2.
        destruct r2 as [repl|e2]; [|injection H as _ <- _; eapply pk_trans; eassumption].
        destruct (negb (Model.lb_hash sig hash repl =? Model.lb_hash sig hash u)).
        -- injection H as _ <- _; eapply pk_trans; eassumption.
        -- apply IH in H. eapply pk_trans; [exact S1|]. eapply pk_trans; eassumption.
    + destruct e; injection H as _ <- _; exact S1.
Qed.

Lemma verify_func_keep : forall c s t u now r c' s',
  verify_func sig sv hash vhash bid_hash W ask rank P c s t u now = (r, c', s') -> pkeep c c'.
Proof.
  intros c s t u now r c' s' H. unfold verify_func in H. destruct (p_sequential P).
  - unfold verify_sequential in H. eapply seq_loop_keep; exact H.
  - eapply vsap_keep; exact H.
Qed.

Lemma backwards_keep : forall fuel c s verified newh r c' s',
  backwards sig hash W ask rank fuel c s verified newh = (r, c', s') -> pkeep c c'.
Proof.
  induction fuel as [|fuel IH]; intros c s verified newh r c' s' H; cbn [backwards] in H.
  - injection H as _ <- _. apply pk_refl.
  - destruct (h_height newh <? h_height verified).
    + destruct (light_block_from_primary sig W ask rank c s (h_height verified - 1)) as [[r1 c1] s1] eqn:Ef.
      pose proof (lbfp_keep _ _ _ _ _ _ Ef) as S1.
      destruct r1 as [ib|e]; [|injection H as _ <- _; exact S1].
      destruct (verify_backwards hash (lb_hdr sig ib) verified).
      * apply IH in H. eapply pk_trans; eassumption.
      * destruct (find_new_primary sig W ask rank c1 s1 (h_height newh) true) as [[r2 c2] s2] eqn:Ef2.
        pose proof (find_new_primary_keep _ _ _ _ _ _ _ Ef2) as S2.
        destruct r2 as [nb|e]; [|injection H as _ <- _; eapply pk_trans; eassumption].
        destruct (negb (Model.lb_hash sig hash nb =? hash newh)).
        -- injection H as _ <- _. eapply pk_trans; eassumption.
        -- apply IH in H. eapply pk_trans; [exact S1|]. eapply pk_trans; eassumption.
    + destruct (negb (hash verified =? hash newh)); injection H as _ <- _; apply pk_refl.
Qed.

Lemma pk_update : forall c u, pkeep c (update_trusted sig P c u).
Proof. intros c u I. exact I. Qed.

Lemma verify_light_block_keep : forall c s u now r c' s',
  verify_light_block sig sv hash vhash bid_hash W ask rank P c s u now = (r, c', s') -> pkeep c c'.
Proof.
  intros c s u now r c' s' H. unfold verify_light_block in H.
  destruct (cl_latest sig c) as [latest|]; [|injection H as _ <- _; apply pk_refl].
  destruct (cl_store sig c) as [|firstb rest]; [injection H as _ <- _; apply pk_refl|].
  destruct (lb_height sig latest <=? lb_height sig u).
  - destruct (verify_func sig sv hash vhash bid_hash W ask rank P c s latest u now) as [[e c1] s1] eqn:Ev.
    pose proof (verify_func_keep _ _ _ _ _ _ _ _ Ev) as S1.
    destruct e as [e|]; injection H as _ <- _; [exact S1 | eapply pk_trans; [exact S1 | apply pk_update]].
  - destruct (lb_height sig u <? lb_height sig firstb).
    + match type of H with context [backwards sig hash W ask rank ?f c s ?a ?b] =>
        destruct (backwards sig hash W ask rank f c s a b) as [[e c1] s1] eqn:Eb end.
      pose proof (backwards_keep _ _ _ _ _ _ _ _ Eb) as S1.
      destruct e as [e|]; injection H as _ <- _; [exact S1 | eapply pk_trans; [exact S1 | apply pk_update]].
    + destruct (store_before sig (firstb :: rest) (lb_height sig u)) as [closest|].
      * destruct (verify_func sig sv hash vhash bid_hash W ask rank P c s closest u now) as [[e c1] s1] eqn:Ev.
        pose proof (verify_func_keep _ _ _ _ _ _ _ _ Ev) as S1.
        destruct e as [e|]; injection H as _ <- _; [exact S1 | eapply pk_trans; [exact S1 | apply pk_update]].
      * injection H as _ <- _. apply pk_refl.
Qed.

Lemma step_keep : forall c s o r c' s',
  step sig sv hash vhash bid_hash W ask rank P c s o = (r, c', s') -> pkeep c c'.
Proof.
  intros c s o r c' s' H. destruct o as [h now|now]; cbn [step] in H.
  - unfold verify_at in H. destruct (h <=? 0); [injection H as _ <- _; apply pk_refl|].
    destruct (if last_height sig c <? h then None else store_lookup sig (cl_store sig c) h).
    + injection H as _ <- _; apply pk_refl.
    + destruct (light_block_from_primary sig W ask rank c s h) as [[r1 c1] s1] eqn:Ef.
      pose proof (lbfp_keep _ _ _ _ _ _ Ef) as S1.
      destruct r1 as [b|e]; [|injection H as _ <- _; exact S1].
      eapply pk_trans; [exact S1 | eapply verify_light_block_keep; exact H].
  - unfold update in H. destruct (last_height sig c =? -1); [injection H as _ <- _; apply pk_refl|].
    destruct (light_block_from_primary sig W ask rank c s 0) as [[r1 c1] s1] eqn:Ef.
    pose proof (lbfp_keep _ _ _ _ _ _ Ef) as S1.
    destruct r1 as [b|e]; [|injection H as _ <- _; exact S1].
    destruct (last_height sig c <? lb_height sig b).
    + eapply pk_trans; [exact S1 | eapply verify_light_block_keep; exact H].
    + injection H as _ <- _. exact S1.
Qed.

Lemma run_final_keep : forall ops c s c' s',
  run_final sig sv hash vhash bid_hash W ask rank P c s ops = (c', s') -> pkeep c c'.
Proof.
  induction ops as [|o ops IH]; intros c s c' s' H; cbn [run_final] in H.
  - injection H as <- _. apply pk_refl.
  - destruct (step sig sv hash vhash bid_hash W ask rank P c s o) as [[e c1] s1] eqn:Es.
    apply step_keep in Es. eapply pk_trans; [exact Es | eapply IH; exact H].
Qed.

Lemma compare_first_keep : forall c s b r c' s',
  compare_first_header sig hash W ask rank c s b = (r, c', s') -> pkeep c c'.
Proof.
  intros c s b r c' s' H. unfold compare_first_header in H.
  destruct (cl_witnesses c) as [|w0 ws] eqn:Ew; [injection H as _ <- _; apply pk_refl|].
  destruct (compare_all sig hash W ask s b _) as [msgs s1].
  destruct (first_loop sig _ []) as [rm|e]; [|injection H as _ <- _; apply pk_refl].
  destruct (remove_witnesses _ rm) eqn:E; injection H as _ <- _; [|apply pk_refl].
  rewrite <- Ew in E. eapply pk_removed; exact E.
Qed.

Lemma initialize_keep : forall prim ws s th root r c0 s1,
  initialize sig sv hash vhash bid_hash W ask rank P prim ws s th root = (r, c0, s1) ->
  NoDup (prim :: ws) -> pinv c0.
Proof.
  intros prim ws s th root r c0 s1 H N. unfold initialize in H.
  set (cE := {| Model.cl_primary := prim; Model.cl_witnesses := ws; Model.cl_store := [];
                Model.cl_latest := None |}) in *.
  assert (HE : pinv cE) by exact N.
  destruct ws as [|w0 ws']; [injection H as _ <- _; exact HE|].
  destruct (light_block_from_primary sig W ask rank cE s th) as [[r1 c1] s2] eqn:Ef.
  pose proof (lbfp_keep _ _ _ _ _ _ Ef HE) as S1.
  destruct r1 as [b|e]; [|injection H as _ <- _; exact S1].
  destruct (negb (light_block_validate_basic sig hash vhash bid_hash (p_chain P) b)); [injection H as _ <- _; exact S1|].
  destruct (negb (Model.lb_hash sig hash b =? root)); [injection H as _ <- _; exact S1|].
  destruct (verify_commit_light sv (lb_vals sig b) (p_chain P) _ _ _); try (injection H as _ <- _; exact S1).
  destruct (compare_first_header sig hash W ask rank c1 s2 b) as [[e2 c2] s3] eqn:Ec.
  pose proof (compare_first_keep _ _ _ _ _ _ Ec S1) as S2.
  destruct e2 as [e2|]; injection H as _ <- _; exact S2.
Qed.

(* after NewClient with pairwise different providers and any sequence of calls: the primary is not
   a witness and no provider holds two witness slots *)
Theorem providers_distinct : forall prim ws s0 th root c0 s1 ops c s,
  NoDup (prim :: ws) ->
  initialize sig sv hash vhash bid_hash W ask rank P prim ws s0 th root = (None, c0, s1) ->
  run_final sig sv hash vhash bid_hash W ask rank P c0 s1 ops = (c, s) ->
  NoDup (cl_primary c :: cl_witnesses c).
Proof.
  intros prim ws s0 th root c0 s1 ops c s N Hi Hr.
  eapply run_final_keep; [exact Hr|]. eapply initialize_keep; [exact Hi | exact N].
Qed.

(* every function that touches the provider lists keeps them pairwise different, so the invariant
   holds for every intermediate client inside a call as well *)
Theorem providers_distinct_inside : forall c, pinv c ->
  (forall s h remove r c' s',
     find_new_primary sig W ask rank c s h remove = (r, c', s') -> pinv c') /\
  (forall s h r c' s',
     light_block_from_primary sig W ask rank c s h = (r, c', s') -> pinv c') /\
  (forall s trace now r c' s',
     detect_divergence sig sv hash vhash bid_hash W ask rank P c s trace now = (r, c', s') -> pinv c') /\
  (forall s o r c' s',
     step sig sv hash vhash bid_hash W ask rank P c s o = (r, c', s') -> pinv c').
Proof.
  intros c I. repeat split; intros.
  - eapply find_new_primary_keep; eassumption.
  - eapply lbfp_keep; eassumption.
  - eapply detect_keep; eassumption.
  - eapply step_keep; eassumption.
Qed.

(* detectDivergence returns nil only if a witness OTHER THAN THE PRIMARY answered, in this round,
   with a block of the verified header's hash *)
Theorem confirmation_by_other_provider : forall c s t0 rest now c' s',
  pinv c ->
  detect_divergence sig sv hash vhash bid_hash W ask rank P c s (t0 :: rest) now = (None, c', s') ->
  let target := last (t0 :: rest) t0 in
  exists msgs s1 pre,
    compare_all sig hash W ask s target (arrival_order rank (cl_witnesses c)) = (msgs, s1) /\
    st_log sig W s1 = pre ++ st_log sig W s /\
    exists w h b, In w (cl_witnesses c) /\ w <> cl_primary c /\ In (w, h, P_block sig b) pre /\
                  lb_hash sig hash b = lb_hash sig hash target.
Proof.
  intros c s t0 rest now c' s' I H.
  destruct (confirmation_requires_match sig sv hash vhash bid_hash W ask rank P c s t0 rest now c' s' H)
    as [msgs [s1 [pre [A [B [w [h [b [Hw [Hl Hh]]]]]]]]]].
  exists msgs, s1, pre. split; [exact A|]. split; [exact B|].
  exists w, h, b. split; [exact Hw|]. split; [|split; [exact Hl | exact Hh]].
  intro E. unfold pinv in I. inversion I as [|? ? Hp _]; subst. apply Hp. exact Hw.
Qed.

End Prov.
