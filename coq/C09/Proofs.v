(* C09 — lemmas and proofs about the light-client model (C09/Model.v). *)
From Coq Require Import List ZArith NArith Bool Lia Permutation.
From TM Require Import Generated.Consts C07.Model C07.Proofs C09.Model.
Import ListNotations.
Open Scope Z_scope.

(* ------------------------------------------------------------------ generic list facts *)

(* consecutive elements are related *)
Fixpoint linked {A} (R : A -> A -> Prop) (l : list A) : Prop :=
  match l with
  | a :: ((b :: _) as r) => R a b /\ linked R r
  | _ => True
  end.

Lemma linked_snoc : forall {A} (R : A -> A -> Prop) pre v x,
  linked R (pre ++ [v]) -> R v x -> linked R ((pre ++ [v]) ++ [x]).
Proof.
  intros A R pre. induction pre as [|a pre IH]; intros v x H Hr.
  - cbn. split; [exact Hr | exact I].
  - destruct pre as [|b pre'].
    + cbn in *. destruct H as [H1 _]. split; [exact H1 | split; [exact Hr | exact I]].
    + change (((a :: b :: pre') ++ [v]) ++ [x]) with (a :: ((b :: pre') ++ [v]) ++ [x]).
      change ((a :: b :: pre') ++ [v]) with (a :: (b :: pre') ++ [v]) in H.
      cbn [linked app] in H. cbn [linked app]. destruct H as [H1 H2].
      split; [exact H1 | exact (IH v x H2 Hr)].
Qed.

Lemma linked_impl : forall {A} (R R' : A -> A -> Prop) l,
  (forall a b, R a b -> R' a b) -> linked R l -> linked R' l.
Proof.
  intros A R R' l HR. induction l as [|a l IH]; intro H; [exact I|].
  destruct l as [|b l']; [exact I|]. cbn [linked] in *. destruct H as [H1 H2].
  split; [apply HR, H1 | apply IH, H2].
Qed.

Lemma last_snoc : forall {A} (l : list A) x d, last (l ++ [x]) d = x.
Proof. intros. apply last_last. Qed.

Section Proofs.

Variable sig : Type.
Variable sv : key -> signmsg -> sig -> bool.
Variable hash : header -> Z.
Variable vhash : list validator -> Z.
Variable bid_hash : blockid -> Z.

Notation lblock := (lblock sig).
Notation lb_hdr := (lb_hdr sig).
Notation lb_commit := (lb_commit sig).
Notation lb_vals := (lb_vals sig).
Notation lb_height := (lb_height sig).
Notation lb_time := (lb_time sig).
Notation lb_hash := (lb_hash sig hash).
Notation shvb := (signed_header_validate_basic sig hash bid_hash).
Notation verify := (verify sig sv hash vhash bid_hash).
Notation verify_adjacent := (verify_adjacent sig sv hash vhash bid_hash).
Notation verify_non_adjacent := (verify_non_adjacent sig sv hash vhash bid_hash).
Notation verify_backwards := (verify_backwards hash).

(* ------------------------------------------------------------------ the clause list of one step *)

(* more than 2/3 of the block's own validator set signed exactly (chain, height, round, block id) *)
Definition own_signed (chain : Z) (u : lblock) : Prop :=
  wf_valset (lb_vals u) ->
  length (lb_vals u) = length (c_sigs (lb_commit u)) /\
  3 * good_tally sig sv chain (lb_height u) (c_round (lb_commit u)) (c_bid (lb_commit u))
                 (lb_vals u) (c_sigs (lb_commit u)) > 2 * sum_power (lb_vals u).

(* distinct members of the trusted set with verified signatures in u's commit hold more than the
   trust level of the trusted set *)
Definition trust_signed (P : params) (chain : Z) (tvals : list validator) (u : lblock) : Prop :=
  wf_valset tvals -> 0 <= p_num P <= max_int64 -> 0 <= p_den P <= max_int64 ->
  exists S : list nat,
    NoDup S /\ Forall (member_signed sig sv chain (lb_commit u) tvals) S /\
    p_den P * pw tvals S > p_num P * sum_power tvals.

(* the validator set delivered with the block is the one its header commits to *)
Definition vals_bound (u : lblock) : Prop := h_vals_hash (lb_hdr u) = vhash (lb_vals u).

Definition step_ok (P : params) (t u : lblock) (now : Z) : Prop :=
  let chain := h_chain (lb_hdr t) in
  shvb chain u = true /\                                   (* well formed, same chain, commit is for this header *)
  lb_height t < lb_height u /\                             (* later in height *)
  lb_time t < lb_time u /\                                 (* later in time *)
  lb_time u < now + p_drift P /\                           (* not from the future *)
  now < lb_time t + p_period P /\                          (* trusted header within the trusting period *)
  vals_bound u /\
  own_signed chain u /\                                    (* +2/3 of its own set *)
  ((lb_height u = lb_height t + 1 /\ h_vals_hash (lb_hdr u) = h_next_vals_hash (lb_hdr t)) \/
   (lb_height u <> lb_height t + 1 /\ trust_signed P chain (lb_vals t) u)).

Lemma vnhv_true : forall u t now drift,
  verify_new_header_and_vals sig hash vhash bid_hash u t now drift = true ->
  shvb (h_chain (lb_hdr t)) u = true /\ lb_height t < lb_height u /\ lb_time t < lb_time u /\
  lb_time u < now + drift /\ vals_bound u.
Proof.
  intros u t now drift H. unfold verify_new_header_and_vals in H.
  apply andb_true_iff in H as [H H5]. apply andb_true_iff in H as [H H4].
  apply andb_true_iff in H as [H H3]. apply andb_true_iff in H as [H1 H2].
  split; [exact H1|]. split; [apply Z.ltb_lt; exact H2|]. split; [apply Z.ltb_lt; exact H3|].
  split; [apply Z.ltb_lt; exact H4|]. unfold vals_bound. apply Z.eqb_eq. exact H5.
Qed.

Lemma own_check_sound : forall t u,
  own_commit_check sig sv t u = R_ok -> own_signed (h_chain (lb_hdr t)) u.
Proof.
  intros t u H Hwf. unfold own_commit_check in H.
  apply (verify_commit_light_sound sig sv _ _ _ _ _ Hwf) in H as [L [_ [_ G]]].
  split; assumption.
Qed.

Lemma expired_false : forall t period now,
  header_expired sig t period now = false -> now < lb_time t + period.
Proof.
  intros t period now H. unfold header_expired in H. apply negb_false_iff in H.
  apply Z.ltb_lt. exact H.
Qed.

Lemma verify_adjacent_sound : forall P t u now,
  verify_adjacent P t u now = E_ok -> step_ok P t u now.
Proof.
  intros P t u now H. unfold Model.verify_adjacent in H.
  destruct (lb_height u =? lb_height t + 1) eqn:Eh; cbn [negb] in H; [|discriminate].
  destruct (header_expired sig t (p_period P) now) eqn:Ee; [discriminate|].
  destruct (verify_new_header_and_vals sig hash vhash bid_hash u t now (p_drift P)) eqn:Ev;
    cbn [negb] in H; [|discriminate].
  destruct (h_vals_hash (lb_hdr u) =? h_next_vals_hash (lb_hdr t)) eqn:En; cbn [negb] in H; [|discriminate].
  destruct (own_commit_check sig sv t u) eqn:Eo; try discriminate.
  apply vnhv_true in Ev as [A [B [C [D E]]]].
  unfold step_ok. split; [exact A|]. split; [exact B|]. split; [exact C|]. split; [exact D|].
  split; [apply expired_false; exact Ee|]. split; [exact E|].
  split; [apply own_check_sound; exact Eo|].
  left. split; [apply Z.eqb_eq; exact Eh | apply Z.eqb_eq; exact En].
Qed.

Lemma verify_non_adjacent_sound : forall P t u now,
  verify_non_adjacent P t (lb_vals t) u now = E_ok -> step_ok P t u now.
Proof.
  intros P t u now H. unfold Model.verify_non_adjacent in H.
  destruct (lb_height u =? lb_height t + 1) eqn:Eh; [discriminate|].
  destruct (header_expired sig t (p_period P) now) eqn:Ee; [discriminate|].
  destruct (verify_new_header_and_vals sig hash vhash bid_hash u t now (p_drift P)) eqn:Ev;
    cbn [negb] in H; [|discriminate].
  destruct (verify_commit_light_trusting sv (lb_vals t) (h_chain (lb_hdr t)) (lb_commit u) (p_num P) (p_den P))
    eqn:Et; try discriminate.
  destruct (own_commit_check sig sv t u) eqn:Eo; try discriminate.
  apply vnhv_true in Ev as [A [B [C [D E]]]].
  unfold step_ok. split; [exact A|]. split; [exact B|]. split; [exact C|]. split; [exact D|].
  split; [apply expired_false; exact Ee|]. split; [exact E|].
  split; [apply own_check_sound; exact Eo|].
  right. split; [apply Z.eqb_neq; exact Eh|].
  intros Hwf Hn Hd.
  exact (verify_commit_light_trusting_sound sig sv _ _ _ _ _ Hwf Hn Hd Et).
Qed.

Lemma verify_sound : forall P t u now,
  verify P t (lb_vals t) u now = E_ok -> step_ok P t u now.
Proof.
  intros P t u now H. unfold Model.verify in H.
  destruct (negb (lb_height u =? lb_height t + 1)).
  - apply verify_non_adjacent_sound. exact H.
  - apply verify_adjacent_sound. exact H.
Qed.

Lemma verify_adjacent_is_verify : forall P t u now,
  verify_adjacent P t u now = E_ok -> verify P t (lb_vals t) u now = E_ok.
Proof.
  intros P t u now H. unfold Model.verify.
  destruct (lb_height u =? lb_height t + 1) eqn:Eh; cbn [negb]; [exact H|].
  unfold Model.verify_adjacent in H. rewrite Eh in H. cbn [negb] in H. discriminate.
Qed.

(* VerifyBackwards: the clause list of a backwards (hash-linking) step *)
Definition back_ok (u t : header) : Prop :=
  header_validate_basic u = true /\ h_chain u = h_chain t /\ h_time u < h_time t /\
  hash u = h_last_bid t.

Lemma verify_backwards_sound : forall u t, verify_backwards u t = true -> back_ok u t.
Proof.
  intros u t H. unfold Model.verify_backwards in H.
  apply andb_true_iff in H as [H H4]. apply andb_true_iff in H as [H H3].
  apply andb_true_iff in H as [H1 H2].
  split; [exact H1|]. split; [apply Z.eqb_eq; exact H2|]. split; [apply Z.ltb_lt; exact H3|].
  apply Z.eqb_eq. exact H4.
Qed.

(* ------------------------------------------------------------------ providers *)

Variable W : Type.
Variable ask : W -> pid -> Z -> preply sig * W.
Variable rank : pid -> Z.

Notation st := (st sig W).
Notation askS := (askS sig W ask).
Notation client := (client sig).
Notation verify_skipping_loop := (verify_skipping_loop sig sv hash vhash bid_hash W ask).
Notation verify_skipping := (verify_skipping sig sv hash vhash bid_hash W ask).

(* ------------------------------------------------------------------ verifySkipping refines verify *)

Definition V (P : params) (now : Z) (a b : lblock) : Prop := verify P a (lb_vals a) b now = E_ok.

Lemma skipping_loop_refines : forall fuel P source now newb s cache depth verified pre tr s',
  (exists r, cache = newb :: r) ->
  linked (V P now) (pre ++ [verified]) ->
  verify_skipping_loop fuel P source now newb s cache depth verified (pre ++ [verified]) = (inl tr, s') ->
  linked (V P now) tr /\ (exists mid, tr = pre ++ [verified] ++ mid ++ [newb]).
Proof.
  induction fuel as [|fuel IH]; intros P source now newb s cache depth verified pre tr s' Hc Hl H.
  - cbn in H. discriminate.
  - cbn [Model.verify_skipping_loop] in H.
    destruct (verify P verified (lb_vals verified) (nth depth cache newb) now) eqn:Ev; try discriminate.
    + (* E_ok *)
      destruct (Nat.eqb depth 0) eqn:Ed.
      * apply Nat.eqb_eq in Ed. subst depth. destruct Hc as [r ->]. cbn [nth] in Ev.
        injection H as <- <-. split.
        -- apply linked_snoc; [exact Hl | exact Ev].
        -- exists []. rewrite <- app_assoc. reflexivity.
      * set (cur := nth depth cache newb) in *.
        assert (Hc' : exists r, firstn depth cache = newb :: r).
        { destruct Hc as [r ->]. destruct depth; [discriminate|]. cbn. eexists. reflexivity. }
        assert (Hl' : linked (V P now) ((pre ++ [verified]) ++ [cur])).
        { apply linked_snoc; [exact Hl | exact Ev]. }
        specialize (IH P source now newb s (firstn depth cache) O cur (pre ++ [verified]) tr s' Hc' Hl' H).
        destruct IH as [I1 [mid I2]]. split; [exact I1|].
        exists (cur :: mid). rewrite I2. rewrite <- !app_assoc. reflexivity.
    + (* E_cant_trust *)
      destruct (Nat.eqb depth (length cache - 1)).
      * destruct (Model.askS sig W ask s source
                    (pivot_height (lb_height verified) (lb_height (nth depth cache newb)))) as [rep s1].
        destruct rep as [ib|e].
        -- apply (IH P source now newb s1 (cache ++ [ib; ib]) (S depth) verified pre tr s'); try assumption.
           destruct Hc as [r ->]. eexists. reflexivity.
        -- destruct (is_benign e); discriminate.
      * apply (IH P source now newb s cache (S depth) verified pre tr s'); assumption.
Qed.

Lemma skipping_refines : forall P source s t u now tr s',
  verify_skipping P source s t u now = (inl tr, s') ->
  linked (V P now) tr /\ (exists mid, tr = t :: mid ++ [u]).
Proof.
  intros P source s t u now tr s' H. unfold Model.verify_skipping in H.
  apply (skipping_loop_refines _ P source now u s [u] O t [] tr s') in H.
  - destruct H as [H1 [mid H2]]. split; [exact H1|]. exists mid. exact H2.
  - exists []. reflexivity.
  - exact I.
Qed.

(* ------------------------------------------------------------------ backwards (repaired) *)

Notation find_new_primary := (find_new_primary sig W ask rank).
Notation light_block_from_primary := (light_block_from_primary sig W ask rank).
Notation backwards := (backwards sig hash W ask rank).

(* headers reachable from [a] by backwards (hash-linking) steps *)
Inductive back_reach (a : header) : header -> Prop :=
| BR_refl : back_reach a a
| BR_step : forall x y, back_reach a x -> back_ok y x -> back_reach a y.

Lemma back_reach_prepend : forall a b v, back_ok b a -> back_reach b v -> back_reach a v.
Proof.
  intros a b v Hab H. induction H as [|x y _ IH Hyx].
  - eapply BR_step; [apply BR_refl | exact Hab].
  - eapply BR_step; [exact IH | exact Hyx].
Qed.

Lemma backwards_sound : forall fuel c s verified newh c' s',
  backwards fuel c s verified newh = (None, c', s') ->
  exists v, back_reach verified v /\ hash v = hash newh.
Proof.
  induction fuel as [|fuel IH]; intros c s verified newh c' s' H.
  - cbn in H. discriminate.
  - cbn [Model.backwards] in H.
    destruct (h_height newh <? h_height verified).
    + destruct (Model.light_block_from_primary sig W ask rank c s (h_height verified - 1)) as [[r c1] s1].
      destruct r as [ib|e]; [|discriminate].
      destruct (Model.verify_backwards hash (lb_hdr ib) verified) eqn:Eb.
      * apply IH in H as [v [H1 H2]]. exists v. split; [|exact H2].
        eapply back_reach_prepend; [apply verify_backwards_sound; exact Eb | exact H1].
      * destruct (Model.find_new_primary sig W ask rank c1 s1 (h_height newh) true) as [[r2 c2] s2].
        destruct r2 as [nb|e]; [|discriminate].
        destruct (Model.lb_hash sig hash nb =? hash newh) eqn:Eh; cbn [negb] in H; [|discriminate].
        apply IH in H as [v [H1 H2]]. exists v. split; [exact H1|].
        rewrite H2. apply Z.eqb_eq in Eh. exact Eh.
    + destruct (hash verified =? hash newh) eqn:Eh; cbn [negb] in H; [|discriminate].
      exists verified. split; [apply BR_refl | apply Z.eqb_eq; exact Eh].
Qed.

(* ------------------------------------------------------------------ the detector loop *)

Definition msg_idx (m : msg sig) : list nat :=
  match m with M_conflict _ _ i => [i] | M_bad _ i => [i] | _ => [] end.
Definition removed (msgs : list (msg sig)) : list nat := flat_map msg_idx msgs.

Definition is_nil (m : msg sig) : bool := match m with M_nil _ => true | _ => false end.

Section Loop.
Variable S : Type.
Variable handle : S -> lblock -> nat -> hc_result * S.
Notation detect_loop := (detect_loop sig handle).

(* the loop ends with "trusted" only if a nil (= identical header) message was read *)
Lemma detect_loop_trusted_nil : forall msgs s matched rm rm' s',
  detect_loop s msgs matched rm = (DD_trusted rm', s') ->
  matched = true \/ In (M_nil sig) msgs.
Proof.
  induction msgs as [|m msgs IH]; intros s matched rm rm' s' H.
  - cbn in H. destruct matched; [left; reflexivity | discriminate].
  - destruct m as [|b i|i| |]; cbn [Model.detect_loop] in H.
    + right. left. reflexivity.
    + destruct (handle s b i) as [[| |] s1]; try discriminate.
      apply IH in H as [H|H]; [left; exact H | right; right; exact H].
    + apply IH in H as [H|H]; [left; exact H | right; right; exact H].
    + apply IH in H as [H|H]; [left; exact H | right; right; exact H].
    + discriminate.
Qed.

(* when the loop runs to its end, every witness that sent a conflicting or invalid block is in
   the removal list; a conflicting block that is handled as an attack ends the loop with the
   attack verdict *)
Lemma detect_loop_removed : forall msgs s matched rm r s',
  detect_loop s msgs matched rm = (r, s') ->
  match r with
  | DD_trusted rm' | DD_crossref rm' => rm' = rm ++ removed msgs
  | _ => True
  end.
Proof.
  induction msgs as [|m msgs IH]; intros s matched rm r s' H.
  - cbn in H. injection H as <- _. destruct matched; cbn; rewrite app_nil_r; reflexivity.
  - destruct m as [|b i|i| |]; cbn [Model.detect_loop] in H.
    + apply IH in H. exact H.
    + destruct (handle s b i) as [[| |] s1].
      * apply IH in H. destruct r; try exact I; rewrite H; unfold removed; cbn [flat_map msg_idx];
          rewrite <- app_assoc; reflexivity.
      * injection H as <- _. exact I.
      * injection H as <- _. exact I.
    + apply IH in H. destruct r; try exact I; rewrite H; unfold removed; cbn [flat_map msg_idx];
        rewrite <- app_assoc; reflexivity.
    + apply IH in H. exact H.
    + injection H as <- _. exact I.
Qed.

End Loop.

(* the loop with a handler whose verdict does not depend on the state (answers of the examined
   providers do not depend on the order of the examinations) *)
Section PureLoop.
Variable hv : lblock -> nat -> hc_result.

Definition pure_loop (msgs : list (msg sig)) (matched : bool) (rm : list nat) : dd_result :=
  fst (detect_loop sig (fun (_ : unit) b i => (hv b i, tt)) tt msgs matched rm).

Definition msg_fine (m : msg sig) : Prop :=
  match m with
  | M_conflict _ b i => hv b i = HC_not_attack
  | M_ctx _ => False
  | _ => True
  end.

Definition is_trusted (r : dd_result) : Prop := exists rm, r = DD_trusted rm.

Lemma pure_loop_trusted_iff : forall msgs matched rm,
  is_trusted (pure_loop msgs matched rm) <->
  ((matched = true \/ In (M_nil sig) msgs) /\ Forall msg_fine msgs).
Proof.
  unfold pure_loop.
  induction msgs as [|m msgs IH]; intros matched rm.
  - cbn. split.
    + intros [rm' H]. destruct matched; [|discriminate]. split; [left; reflexivity | constructor].
    + intros [[H|[]] _]. rewrite H. eexists. reflexivity.
  - rewrite Forall_cons_iff.
    destruct m as [|b i|i| |]; cbn [Model.detect_loop In msg_fine].
    + rewrite IH. intuition (try discriminate; auto).
    + destruct (hv b i) eqn:Eh; cbn [fst].
      * rewrite IH. intuition (try discriminate; auto).
      * split; [intros [rm' H]; discriminate | intros [_ [F _]]; discriminate].
      * split; [intros [rm' H]; discriminate | intros [_ [F _]]; discriminate].
    + rewrite IH. intuition (try discriminate; auto).
    + rewrite IH. intuition (try discriminate; auto).
    + cbn [fst]. split; [intros [rm' H]; discriminate | intros [_ [[] _]]].
Qed.

Lemma order_independent : forall msgs msgs',
  Permutation msgs msgs' ->
  (is_trusted (pure_loop msgs false []) <-> is_trusted (pure_loop msgs' false [])).
Proof.
  intros msgs msgs' Hp. rewrite !pure_loop_trusted_iff. split; intros [[H|H] F]; try discriminate.
  - split; [right; eapply Permutation_in; [exact Hp | exact H]|].
    eapply Permutation_Forall; [exact Hp | exact F].
  - split; [right; eapply Permutation_in; [apply Permutation_sym; exact Hp | exact H]|].
    eapply Permutation_Forall; [apply Permutation_sym; exact Hp | exact F].
Qed.

Lemma removed_perm : forall msgs msgs', Permutation msgs msgs' -> Permutation (removed msgs) (removed msgs').
Proof.
  intros msgs msgs' Hp. unfold removed. induction Hp.
  - constructor.
  - cbn. apply Permutation_app_head. exact IHHp.
  - cbn. rewrite !app_assoc. apply Permutation_app_tail. apply Permutation_app_comm.
  - eapply Permutation_trans; eassumption.
Qed.

End PureLoop.

(* ------------------------------------------------------------------ a nil message needs an identical header *)

Notation get_target_or_latest := (get_target_or_latest sig W ask).
Notation compare_new_header_with_witness := (compare_new_header_with_witness sig hash W ask).
Notation compare_all := (compare_all sig hash W ask).

Lemma askS_log : forall s p h r s', askS s p h = (r, s') -> st_log sig W s' = (p, h, r) :: st_log sig W s.
Proof.
  intros s p h r s' H. unfold Model.askS in H. destruct (ask (st_w sig W s) p h) as [r0 w'].
  injection H as <- <-. reflexivity.
Qed.

Lemma compare_hash_nil : forall target b i,
  In (M_nil sig) (compare_hash sig hash target b i) -> lb_hash b = lb_hash target.
Proof.
  intros target b i H. unfold compare_hash in H.
  destruct (Model.lb_hash sig hash target =? Model.lb_hash sig hash b) eqn:E; cbn [negb] in H.
  - apply Z.eqb_eq in E. symmetry. exact E.
  - destruct H as [H|[]]. discriminate.
Qed.

Lemma gtl_spec : forall s w height r s',
  get_target_or_latest s w height = (r, s') ->
  exists pre, st_log sig W s' = pre ++ st_log sig W s /\
              (forall f b, r = inl (f, b) -> exists h', In (w, h', P_block sig b) pre).
Proof.
  intros s w height r s' H. unfold Model.get_target_or_latest in H.
  destruct (Model.askS sig W ask s w 0) as [rep s1] eqn:E1. pose proof (askS_log _ _ _ _ _ E1) as L1.
  destruct rep as [b|e].
  - destruct (Model.lb_height sig b =? height).
    + injection H as <- <-. exists [(w, 0, P_block sig b)]. split; [rewrite L1; reflexivity|].
      intros f b' Hr. injection Hr as _ <-. exists 0. left. reflexivity.
    + destruct (height <? Model.lb_height sig b).
      * destruct (Model.askS sig W ask s1 w height) as [rep2 s2] eqn:E2.
        pose proof (askS_log _ _ _ _ _ E2) as L2.
        destruct rep2 as [b2|e2]; injection H as <- <-.
        -- exists [(w, height, P_block sig b2); (w, 0, P_block sig b)]. split; [rewrite L2, L1; reflexivity|].
           intros f b' Hr. injection Hr as _ <-. exists height. left. reflexivity.
        -- exists [(w, height, P_err sig e2); (w, 0, P_block sig b)]. split; [rewrite L2, L1; reflexivity|].
           intros f b' Hr. discriminate.
      * injection H as <- <-. exists [(w, 0, P_block sig b)]. split; [rewrite L1; reflexivity|].
        intros f b' Hr. injection Hr as _ <-. exists 0. left. reflexivity.
  - injection H as <- <-. exists [(w, 0, P_err sig e)]. split; [rewrite L1; reflexivity|].
    intros f b' Hr. discriminate.
Qed.

Ltac nonil H := cbn in H; repeat (destruct H as [H|H]; [discriminate|]); destruct H.

(* a witness goroutine sends nil only after this witness answered, in this very comparison, with
   a block whose header hash is the hash of the header under comparison *)
Lemma compare_nil_match : forall s target w i msgs s',
  compare_new_header_with_witness s target w i = (msgs, s') ->
  exists pre, st_log sig W s' = pre ++ st_log sig W s /\
    (In (M_nil sig) msgs ->
     exists h b, In (w, h, P_block sig b) pre /\ lb_hash b = lb_hash target).
Proof.
  intros s target w i msgs s' H. unfold Model.compare_new_header_with_witness in H.
  destruct (Model.askS sig W ask s w (Model.lb_height sig target)) as [rep s1] eqn:E1.
  pose proof (askS_log _ _ _ _ _ E1) as L1.
  destruct rep as [b|e].
  - injection H as <- <-. exists [(w, Model.lb_height sig target, P_block sig b)].
    split; [rewrite L1; reflexivity|].
    intro Hin. apply compare_hash_nil in Hin. exists (Model.lb_height sig target), b.
    split; [left; reflexivity | exact Hin].
  - destruct e.
    + injection H as <- <-. exists [(w, Model.lb_height sig target, P_err sig PE_no_response)].
      split; [rewrite L1; reflexivity | intro Hin; nonil Hin].
    + injection H as <- <-. exists [(w, Model.lb_height sig target, P_err sig PE_not_found)].
      split; [rewrite L1; reflexivity | intro Hin; nonil Hin].
    + destruct (Model.get_target_or_latest sig W ask s1 w (Model.lb_height sig target)) as [r1 s2] eqn:E2.
      apply gtl_spec in E2 as [pre2 [L2 G2]].
      destruct r1 as [[f b]|e].
      * destruct f.
        -- injection H as <- <-. exists (pre2 ++ [(w, Model.lb_height sig target, P_err sig PE_too_high)]).
           split; [rewrite L2, L1, <- app_assoc; reflexivity|].
           intro Hin. apply compare_hash_nil in Hin. destruct (G2 _ _ eq_refl) as [h' Hh].
           exists h', b. split; [apply in_or_app; left; exact Hh | exact Hin].
        -- destruct (negb (Model.lb_time sig b <? Model.lb_time sig target)).
           ++ injection H as <- <-. exists (pre2 ++ [(w, Model.lb_height sig target, P_err sig PE_too_high)]).
              split; [rewrite L2, L1, <- app_assoc; reflexivity | intro Hin; nonil Hin].
           ++ destruct (Model.get_target_or_latest sig W ask s2 w (Model.lb_height sig target)) as [r2 s3] eqn:E3.
              apply gtl_spec in E3 as [pre3 [L3 G3]].
              assert (LL : st_log sig W s3 =
                           (pre3 ++ pre2 ++ [(w, Model.lb_height sig target, P_err sig PE_too_high)]) ++ st_log sig W s).
              { rewrite L3, L2, L1, <- !app_assoc. reflexivity. }
              destruct r2 as [[f2 b2]|e2].
              ** destruct f2.
                 --- injection H as <- <-. eexists. split; [exact LL|].
                     intro Hin. apply compare_hash_nil in Hin. destruct (G3 _ _ eq_refl) as [h' Hh].
                     exists h', b2. split; [apply in_or_app; left; exact Hh | exact Hin].
                 --- destruct (negb (Model.lb_time sig b2 <? Model.lb_time sig target));
                       injection H as <- <-; (eexists; split; [exact LL | intro Hin; nonil Hin]).
              ** destruct e2; injection H as <- <-; (eexists; split; [exact LL | intro Hin; nonil Hin]).
      * injection H as <- <-. exists (pre2 ++ [(w, Model.lb_height sig target, P_err sig PE_too_high)]).
        split; [rewrite L2, L1, <- app_assoc; reflexivity|].
        intro Hin. destruct e; nonil Hin.
    + injection H as <- <-. exists [(w, Model.lb_height sig target, P_err sig PE_bad)].
      split; [rewrite L1; reflexivity | intro Hin; nonil Hin].
    + injection H as <- <-. exists [(w, Model.lb_height sig target, P_err sig PE_ctx)].
      split; [rewrite L1; reflexivity | intro Hin; nonil Hin].
Qed.

Lemma compare_all_nil_match : forall ws s target msgs s',
  compare_all s target ws = (msgs, s') ->
  exists pre, st_log sig W s' = pre ++ st_log sig W s /\
    (In (M_nil sig) msgs ->
     exists i w h b, In (i, w) ws /\ In (w, h, P_block sig b) pre /\ lb_hash b = lb_hash target).
Proof.
  induction ws as [|[i p] ws IH]; intros s target msgs s' H.
  - cbn in H. injection H as <- <-. exists []. split; [reflexivity | intros []].
  - cbn [Model.compare_all] in H.
    destruct (Model.compare_new_header_with_witness sig hash W ask s target p i) as [m s1] eqn:E1.
    destruct (Model.compare_all sig hash W ask s1 target ws) as [ms s2] eqn:E2.
    injection H as <- <-.
    apply compare_nil_match in E1 as [pre1 [L1 N1]]. apply IH in E2 as [pre2 [L2 N2]].
    exists (pre2 ++ pre1). split; [rewrite L2, L1, app_assoc; reflexivity|].
    intro Hin. apply in_app_or in Hin as [Hin|Hin].
    + destruct (N1 Hin) as [h [b [A B]]]. exists i, p, h, b.
      split; [left; reflexivity|]. split; [apply in_or_app; right; exact A | exact B].
    + destruct (N2 Hin) as [i' [w' [h [b [A [B C]]]]]]. exists i', w', h, b.
      split; [right; exact A|]. split; [apply in_or_app; left; exact B | exact C].
Qed.

(* arrival order is a rearrangement of the witnesses *)
Lemma insert_rank_in : forall x y l, In y (insert_rank rank x l) -> y = x \/ In y l.
Proof.
  intros x y l. induction l as [|z l IH]; cbn [insert_rank]; intro H.
  - destruct H as [H|[]]. left. symmetry. exact H.
  - destruct (rank (snd x) <? rank (snd z)).
    + destruct H as [H|H]; [left; symmetry; exact H | right; exact H].
    + destruct H as [H|H]; [right; left; exact H|].
      apply IH in H as [H|H]; [left; exact H | right; right; exact H].
Qed.

Lemma arrival_order_in : forall ws i w, In (i, w) (arrival_order rank ws) -> In w ws.
Proof.
  intros ws i w H. unfold arrival_order in H.
  assert (G : forall l, In (i, w) (fold_right (insert_rank rank) [] l) -> In (i, w) l).
  { induction l as [|x l IH]; cbn [fold_right]; intro Hx; [exact Hx|].
    apply insert_rank_in in Hx as [Hx|Hx]; [left; symmetry; exact Hx | right; apply IH; exact Hx]. }
  apply G in H. unfold indexed in H. apply in_combine_r in H. exact H.
Qed.

Notation detect_divergence := (detect_divergence sig sv hash vhash bid_hash W ask rank).

Lemma firstn_in : forall {A} n (l : list A) x, In x (firstn n l) -> In x l.
Proof.
  intros A n. induction n as [|n IH]; intros l x H; [destruct H|].
  destruct l as [|a l]; [destruct H|]. cbn in H. destruct H as [H|H]; [left; exact H | right; apply IH; exact H].
Qed.

(* detectDivergence says "trusted" only if, in this very round, one of the current witnesses
   answered with a block whose header hash is the hash of the header being cross-checked *)
Lemma confirmation_requires_match : forall P c s t0 rest now c' s',
  detect_divergence P c s (t0 :: rest) now = (None, c', s') ->
  let target := last (t0 :: rest) t0 in
  exists msgs s1 pre,
    compare_all s target (arrival_order rank (cl_witnesses sig c)) = (msgs, s1) /\
    st_log sig W s1 = pre ++ st_log sig W s /\
    exists w h b, In w (cl_witnesses sig c) /\ In (w, h, P_block sig b) pre /\ lb_hash b = lb_hash target.
Proof.
  intros P c s t0 rest now c' s' H target. unfold Model.detect_divergence in H.
  destruct rest as [|t1 rest']; [discriminate|].
  destruct (cl_witnesses sig c) as [|w0 ws] eqn:Ew; [discriminate|].
  fold target in H.
  destruct (Model.compare_all sig hash W ask s target (arrival_order rank (w0 :: ws))) as [msgs s1] eqn:Ec.
  exists msgs, s1. pose proof (compare_all_nil_match _ _ _ _ _ Ec) as [pre [L N]]. exists pre.
  split; [reflexivity|]. split; [exact L|].
  match type of H with context [Model.detect_loop sig ?hd s1 ?m false []] =>
    destruct (Model.detect_loop sig hd s1 m false []) as [r s2] eqn:El end.
  destruct r as [rm|rm| | |]; try discriminate.
  - apply detect_loop_trusted_nil in El as [El|El]; [discriminate|].
    apply firstn_in in El. destruct (N El) as [i [w [h [b [A [B C]]]]]].
    exists w, h, b. split; [|split; assumption].
    apply arrival_order_in in A. exact A.
  - destruct (remove_witnesses (w0 :: ws) rm); discriminate.
Qed.

(* ------------------------------------------------------------------ an attack verdict comes with evidence *)

Lemma askS_ev : forall s p h r s', askS s p h = (r, s') -> st_ev sig W s' = st_ev sig W s.
Proof.
  intros s p h r s' H. unfold Model.askS in H. destruct (ask (st_w sig W s) p h) as [r0 w'].
  injection H as _ <-. reflexivity.
Qed.

Lemma skipping_loop_ev : forall fuel P source now newb s cache depth verified trace r s',
  verify_skipping_loop fuel P source now newb s cache depth verified trace = (r, s') ->
  st_ev sig W s' = st_ev sig W s.
Proof.
  induction fuel as [|fuel IH]; intros P source now newb s cache depth verified trace r s' H.
  - cbn in H. injection H as _ <-. reflexivity.
  - cbn [Model.verify_skipping_loop] in H.
    destruct (verify P verified (lb_vals verified) (nth depth cache newb) now);
      try (injection H as _ <-; reflexivity).
    + destruct (Nat.eqb depth 0); [injection H as _ <-; reflexivity|]. eapply IH; exact H.
    + destruct (Nat.eqb depth (length cache - 1)); [|eapply IH; exact H].
      destruct (Model.askS sig W ask s source _) as [rep s1] eqn:E. apply askS_ev in E.
      destruct rep as [ib|e].
      * apply IH in H. congruence.
      * destruct (is_benign e); injection H as _ <-; exact E.
Qed.

Lemma skipping_ev : forall P source s t u now r s',
  verify_skipping P source s t u now = (r, s') -> st_ev sig W s' = st_ev sig W s.
Proof. intros. unfold Model.verify_skipping in H. eapply skipping_loop_ev; exact H. Qed.

Notation examine_loop := (examine_loop sig sv hash vhash bid_hash W ask).
Notation examine_conflicting := (examine_conflicting sig sv hash vhash bid_hash W ask).
Notation handle_conflicting := (handle_conflicting sig sv hash vhash bid_hash W ask).

Lemma examine_loop_ev : forall trace P source now target s first prev strace r s',
  examine_loop P source now target s trace first prev strace = (r, s') ->
  st_ev sig W s' = st_ev sig W s.
Proof.
  induction trace as [|tb rest IH]; intros P source now target s first prev strace r s' H;
    cbn [Model.examine_loop] in H.
  - injection H as _ <-. reflexivity.
  - destruct (Model.lb_height sig target <? Model.lb_height sig tb).
    + destruct (Model.lb_time sig target <? Model.lb_time sig tb); [injection H as _ <-; reflexivity|].
      destruct (negb (Model.lb_height sig prev =? Model.lb_height sig target)); [|injection H as _ <-; reflexivity].
      destruct (Model.verify_skipping sig sv hash vhash bid_hash W ask P source s prev target now) as [[tr|e] s1] eqn:E;
        apply skipping_ev in E; injection H as _ <-; exact E.
    + destruct (if Model.lb_height sig tb =? Model.lb_height sig target then (P_block sig target, s)
                else Model.askS sig W ask s source (Model.lb_height sig tb)) as [sbr s1] eqn:E1.
      assert (L1 : st_ev sig W s1 = st_ev sig W s).
      { destruct (Model.lb_height sig tb =? Model.lb_height sig target);
          [injection E1 as _ <-; reflexivity | eapply askS_ev; exact E1]. }
      destruct sbr as [sb|e]; [|injection H as _ <-; exact L1].
      destruct first.
      * destruct (negb (Model.lb_hash sig hash sb =? Model.lb_hash sig hash tb)); [injection H as _ <-; exact L1|].
        apply IH in H. congruence.
      * destruct (Model.verify_skipping sig sv hash vhash bid_hash W ask P source s1 prev sb now) as [[tr|e] s2] eqn:E2;
          apply skipping_ev in E2.
        -- destruct (negb (Model.lb_hash sig hash sb =? Model.lb_hash sig hash tb)); [injection H as _ <-; congruence|].
           apply IH in H. congruence.
        -- injection H as _ <-. congruence.
Qed.

Lemma examine_ev : forall P source now s trace target r s',
  examine_conflicting P source now s trace target = (r, s') -> st_ev sig W s' = st_ev sig W s.
Proof.
  intros P source now s trace target r s' H. unfold Model.examine_conflicting in H.
  destruct trace as [|t0 rest]; [injection H as _ <-; reflexivity|].
  destruct (Model.lb_height sig target <? Model.lb_height sig t0); [injection H as _ <-; reflexivity|].
  eapply examine_loop_ev; exact H.
Qed.

(* handleConflictingHeaders answers "attack" only after reporting evidence against the primary to
   the witness that backed the conflicting header; otherwise no evidence is reported *)
Lemma handle_attack_evidence : forall P c now s ptrace b i s',
  handle_conflicting P c now s ptrace b i = (HC_attack, s') ->
  exists e tl, st_ev sig W s' = tl ++ (nth i (cl_witnesses sig c) 0, e) :: st_ev sig W s.
Proof.
  intros P c now s ptrace b i s' H. unfold Model.handle_conflicting in H.
  destruct (Model.examine_conflicting sig sv hash vhash bid_hash W ask P (nth i (cl_witnesses sig c) 0) now s ptrace b)
    as [[[wtrace pblock]|] s1] eqn:E1; [|discriminate].
  apply examine_ev in E1.
  destruct wtrace as [|common wrest]; [discriminate|].
  match type of H with context [Model.reportS sig W s1 ?p ?e] => set (ev1 := e) in *; set (sw := p) in * end.
  destruct (Model.examine_conflicting sig sv hash vhash bid_hash W ask P (cl_primary sig c) now
              (Model.reportS sig W s1 sw ev1) (common :: wrest) pblock) as [[[ptrace' wblock]|] s3] eqn:E2;
    apply examine_ev in E2; cbn [Model.reportS Model.st_ev] in E2.
  - destruct ptrace' as [|common' prest]; [discriminate|]. injection H as <-.
    cbn [Model.reportS Model.st_ev]. rewrite E2, E1. eexists ev1, [_]. reflexivity.
  - injection H as <-. rewrite E2, E1. exists ev1, []. reflexivity.
Qed.

Lemma detect_loop_attack : forall {S} (handle : S -> lblock -> nat -> hc_result * S) msgs s matched rm s',
  Model.detect_loop sig handle s msgs matched rm = (DD_attack, s') ->
  exists sa b i, In (M_conflict sig b i) msgs /\ handle sa b i = (HC_attack, s').
Proof.
  intros S handle. induction msgs as [|m msgs IH]; intros s matched rm s' H.
  - cbn in H. destruct matched; discriminate.
  - destruct m as [|b i|i| |]; cbn [Model.detect_loop] in H.
    + apply IH in H as [sa [b [i [A B]]]]. exists sa, b, i. split; [right; exact A | exact B].
    + destruct (handle s b i) as [[| |] s1] eqn:Eh.
      * apply IH in H as [sa [b' [i' [A B]]]]. exists sa, b', i'. split; [right; exact A | exact B].
      * injection H as <-. exists s, b, i. split; [left; reflexivity | exact Eh].
      * discriminate.
    + apply IH in H as [sa [b [i' [A B]]]]. exists sa, b, i'. split; [right; exact A | exact B].
    + apply IH in H as [sa [b [i [A B]]]]. exists sa, b, i. split; [right; exact A | exact B].
    + discriminate.
Qed.

(* detectDivergence returns ErrLightClientAttack only after evidence against the primary was
   reported to the witness whose conflicting header could be verified *)
Lemma attack_has_evidence : forall P c s trace now c' s',
  detect_divergence P c s trace now = (Some X_attack, c', s') ->
  exists i e, In (nth i (cl_witnesses sig c) 0, e) (st_ev sig W s').
Proof.
  intros P c s trace now c' s' H. unfold Model.detect_divergence in H.
  destruct trace as [|t0 [|t1 tr]]; try discriminate.
  destruct (cl_witnesses sig c) as [|w0 ws] eqn:Ew; [discriminate|].
  destruct (Model.compare_all sig hash W ask s _ _) as [msgs s1].
  match type of H with context [Model.detect_loop sig ?hd s1 ?m false []] =>
    destruct (Model.detect_loop sig hd s1 m false []) as [r s2] eqn:El end.
  destruct r as [rm|rm| | |]; try discriminate.
  - destruct (remove_witnesses (w0 :: ws) rm); discriminate.
  - destruct (remove_witnesses (w0 :: ws) rm); discriminate.
  - injection H as _ <-. apply detect_loop_attack in El as [sa [b [i [_ Hh]]]].
    apply handle_attack_evidence in Hh as [e [tl Hev]]. rewrite Ew in Hev.
    exists i, e. rewrite Hev. apply in_or_app. right. left. reflexivity.
Qed.

(* detectDivergence says "trusted" (or "no witness confirmed") only with every witness whose
   answer conflicted, or was invalid, removed from the witness list *)
Lemma trusted_removes_conflicting : forall P c s t0 rest now c' s',
  detect_divergence P c s (t0 :: rest) now = (None, c', s') ->
  exists msgs s1 rm,
    compare_all s (last (t0 :: rest) t0) (arrival_order rank (cl_witnesses sig c)) = (msgs, s1) /\
    rm = removed (firstn (length (cl_witnesses sig c)) msgs) /\
    remove_witnesses (cl_witnesses sig c) rm = Some (cl_witnesses sig c') /\
    (forall b i, In (M_conflict sig b i) (firstn (length (cl_witnesses sig c)) msgs) -> In i rm).
Proof.
  intros P c s t0 rest now c' s' H. unfold Model.detect_divergence in H.
  destruct rest as [|t1 rest']; [discriminate|].
  destruct (cl_witnesses sig c) as [|w0 ws] eqn:Ew; [discriminate|].
  destruct (Model.compare_all sig hash W ask s (last (t0 :: t1 :: rest') t0) (arrival_order rank (w0 :: ws)))
    as [msgs s1] eqn:Ec.
  match type of H with context [Model.detect_loop sig ?hd s1 ?m false []] =>
    destruct (Model.detect_loop sig hd s1 m false []) as [r s2] eqn:El end.
  apply detect_loop_removed in El.
  destruct r as [rm|rm| | |]; try discriminate.
  - destruct (remove_witnesses (w0 :: ws) rm) as [ws'|] eqn:Er; [|discriminate].
    injection H as <- _. cbn [app] in El. subst rm.
    exists msgs, s1, (removed (firstn (length (w0 :: ws)) msgs)).
    split; [reflexivity|]. split; [reflexivity|]. split; [exact Er|].
    intros b i Hin. unfold removed. apply in_flat_map. exists (M_conflict sig b i).
    split; [exact Hin | left; reflexivity].
  - destruct (remove_witnesses (w0 :: ws) rm); discriminate.
Qed.

End Proofs.
