(* C09 — the client's entry points once more, returning IN ADDITION the full evidence
   (C09/EvidenceModel.v, [hc_full true] = the code with repair F77) reported during the call.
   Model.v's state keeps of an evidence only (ConflictingBlock, CommonHeight); the functions below
   are copies of Model.detect_divergence, verify_skipping_against_primary,
   verify_sequential_loop, verify_sequential, verify_func, verify_light_block, verify_at, update,
   step with one more component threaded through ([acc], newest first); everything else
   (detect_loop, compare_all, handle_conflicting, ...) is Model.v's.  C09/Exec.v runs them beside
   Model.step, checks that both agree (mismatch 18) and compares the full evidence with the
   implementation's (mismatch 17).  No proofs in this file. *)
From Coq Require Import List ZArith NArith Bool.
From TM Require Import Generated.Consts C07.Model C09.Model C09.EvidenceModel.
Import ListNotations.
Open Scope Z_scope.

Section Run.

Variable sig : Type.
Variable sv : key -> signmsg -> sig -> bool.
Variable hash : header -> Z.
Variable vhash : list validator -> Z.
Variable bid_hash : blockid -> Z.
Variable an : Z -> N.
Variable hn : Z -> N.
Variable W : Type.
Variable ask : W -> pid -> Z -> preply sig * W.
Variable rank : pid -> Z.

Notation lblock := (lblock sig).
Notation client := (client sig).
Notation st := (st sig W).
Notation lb_height := (lb_height sig).
Notation lb_hash := (lb_hash sig hash).
Notation cl_witnesses := (cl_witnesses sig).
Notation cl_primary := (cl_primary sig).

Definition acc := list (pid * evid_full sig).
Definition res := (option cerr * client * st * acc)%type.

Definition handle_full (P : params) (c : client) (now : Z) (ptrace : list lblock)
           (sa : st * acc) (b : lblock) (i : nat) : hc_result * (st * acc) :=
  let '(s, a) := sa in
  let '(r, s') := handle_conflicting sig sv hash vhash bid_hash W ask P c now s ptrace b i in
  (r, (s', hc_full sig sv hash vhash bid_hash an hn W ask true P c now s ptrace b i ++ a)).

Definition detect_divergence_full (P : params) (c : client) (s : st) (a : acc) (trace : list lblock) (now : Z)
  : res :=
  match trace with
  | [] | [_] => (Some X_other, c, s, a)
  | t0 :: _ =>
    match cl_witnesses c with
    | [] => (Some X_no_witnesses, c, s, a)
    | _ =>
      let target := last trace t0 in
      let '(msgs, s1) := compare_all sig hash W ask s target (arrival_order rank (cl_witnesses c)) in
      let msgs' := firstn (length (cl_witnesses c)) msgs in
      match detect_loop sig (handle_full P c now trace) (s1, a) msgs' false [] with
      | (DD_attack, (s2, a2)) => (Some X_attack, c, s2, a2)
      | (DD_ctx, (s2, a2)) => (Some X_ctx, c, s2, a2)
      | (DD_panic, (s2, a2)) => (Some X_panic, c, s2, a2)
      | (DD_trusted rm, (s2, a2)) =>
        match remove_witnesses (cl_witnesses c) rm with
        | None => (Some X_no_witnesses, c, s2, a2)
        | Some ws => (None, set_providers sig c (cl_primary c) ws, s2, a2)
        end
      | (DD_crossref rm, (s2, a2)) =>
        match remove_witnesses (cl_witnesses c) rm with
        | None => (Some X_no_witnesses, c, s2, a2)
        | Some ws => (Some X_crossref, set_providers sig c (cl_primary c) ws, s2, a2)
        end
      end
    end
  end.

Fixpoint vsap_full (fuel : nat) (P : params) (c : client) (s : st) (a : acc)
         (t u : lblock) (now : Z) : res :=
  match fuel with
  | O => (Some X_panic, c, s, a)
  | S fuel' =>
    match verify_skipping sig sv hash vhash bid_hash W ask P (cl_primary c) s t u now with
    | (inl trace, s1) => detect_divergence_full P c s1 a trace now
    | (inr SK_cant_trust, s1) => detect_divergence_full P c s1 a [] now
    | (inr (SK_verif E_invalid to), s1) =>
      if to =? lb_height u then (Some X_verif_invalid, c, s1, a)
      else
        match find_new_primary sig W ask rank c s1 (lb_height u) true with
        | (inr _, c1, s2) => (Some X_verif_invalid, c1, s2, a)
        | (inl repl, c1, s2) =>
          if negb (lb_hash repl =? lb_hash u) then (Some X_verif_invalid, c1, s2, a)
          else vsap_full fuel' P c1 s2 a t repl now
        end
    | (inr e, s1) => (Some (skip_err_to_cerr e), c, s1, a)
    end
  end.

Fixpoint seq_loop_full (fuel : nat) (P : params) (c : client) (s : st) (a : acc) (u : lblock) (now : Z)
         (verified : lblock) (height : Z) (trace : list lblock) : res :=
  match fuel with
  | O => (Some X_panic, c, s, a)
  | S fuel' =>
    if lb_height u <? height then detect_divergence_full P c s a trace now
    else
      let '(fetched, c1, s1) :=
        if height =? lb_height u then (inl u, c, s) else light_block_from_primary sig W ask rank c s height in
      match fetched with
      | inr (X_provider e) => (Some (X_verif_provider e), c1, s1, a)
      | inr X_ctx => (Some (X_verif_provider PE_ctx), c1, s1, a)
      | inr _ => (Some X_verif_other, c1, s1, a)
      | inl interim =>
        match verify_adjacent sig sv hash vhash bid_hash P verified interim now with
        | E_ok => seq_loop_full fuel' P c1 s1 a u now interim (height + 1) (trace ++ [interim])
        | E_invalid =>
          if lb_height interim =? lb_height u then (Some X_verif_invalid, c1, s1, a)
          else
            match find_new_primary sig W ask rank c1 s1 (lb_height u) true with
            | (inr _, c2, s2) => (Some X_verif_invalid, c2, s2, a)
            | (inl repl, c2, s2) =>
              if negb (lb_hash repl =? lb_hash u) then (Some X_verif_invalid, c2, s2, a)
              else seq_loop_full fuel' P c2 s2 a u now verified height trace
            end
        | e => (Some (verr_to_cerr e), c1, s1, a)
        end
      end
  end.

Definition verify_func_full (P : params) (c : client) (s : st) (a : acc) (t u : lblock) (now : Z) : res :=
  if p_sequential P then
    seq_loop_full (Z.to_nat (lb_height u - lb_height t) + length (cl_witnesses c) + 2)
                  P c s a u now t (lb_height t + 1) [t]
  else vsap_full (length (cl_witnesses c) + 2) P c s a t u now.

Definition verify_light_block_full (P : params) (c : client) (s : st) (a : acc) (u : lblock) (now : Z) : res :=
  match cl_latest sig c, cl_store sig c with
  | Some latest, firstb :: _ =>
    let '(err, c1, s1, a1) :=
      if lb_height latest <=? lb_height u then verify_func_full P c s a latest u now
      else if lb_height u <? lb_height firstb then
        let '(e, c', s') :=
          backwards sig hash W ask rank
                    (Z.to_nat (lb_height firstb - lb_height u) + length (cl_witnesses c) + 2)
                    c s (lb_hdr sig firstb) (lb_hdr sig u) in (e, c', s', a)
      else
        match store_before sig (cl_store sig c) (lb_height u) with
        | None => (Some X_other, c, s, a)
        | Some closest => verify_func_full P c s a closest u now
        end in
    match err with
    | Some e => (Some e, c1, s1, a1)
    | None => (None, update_trusted sig P c1 u, s1, a1)
    end
  | _, _ => (Some X_panic, c, s, a)
  end.

Definition verify_at_full (P : params) (c : client) (s : st) (a : acc) (h now : Z) : res :=
  if h <=? 0 then (Some X_other, c, s, a)
  else
    match (if last_height sig c <? h then None else store_lookup sig (cl_store sig c) h) with
    | Some _ => (None, c, s, a)
    | None =>
      match light_block_from_primary sig W ask rank c s h with
      | (inr e, c1, s1) => (Some e, c1, s1, a)
      | (inl b, c1, s1) => verify_light_block_full P c1 s1 a b now
      end
    end.

Definition update_full (P : params) (c : client) (s : st) (a : acc) (now : Z) : res :=
  if last_height sig c =? -1 then (None, c, s, a)
  else
    match light_block_from_primary sig W ask rank c s 0 with
    | (inr e, c1, s1) => (Some e, c1, s1, a)
    | (inl b, c1, s1) =>
      if last_height sig c <? lb_height b then verify_light_block_full P c1 s1 a b now else (None, c1, s1, a)
    end.

Definition step_full (P : params) (c : client) (s : st) (o : op) : res :=
  match o with
  | Op_verify_at h now => verify_at_full P c s [] h now
  | Op_update now => update_full P c s [] now
  end.

End Run.
