(* C09 — executable side of the correspondence check: the case type written by the Go harness
   (harness/overlay/light/verif_c09_client_test.go), the property monitors evaluated on the
   implementation's own answers, and the comparison of the model with the implementation.
   Depends on definition files only (Model.v, EvidenceModel.v, EvidenceRun.v, and for the
   evidence monitor the SPECIFICATION C11/Spec.v with C11/Model.v's record types), never on a
   proof file. *)
From Coq Require Import List ZArith NArith Bool.
From TM Require Import Common.Hex Generated.Consts C07.Model C09.Model C09.EvidenceModel C09.EvidenceRun.
From TM Require C11.Model C11.Spec.
Import ListNotations.
Open Scope Z_scope.

(* ------------------------------------------------------------------ what the harness writes *)

(* what a commit slot's signature was made over (the harness made it, so it knows) *)
Inductive sdesc :=
| SB (k : Z)              (* key k over this commit's own canonical precommit for its block id *)
| SO (k : Z) (bid : Z)    (* key k over the same vote but for another block id *)
| SG.                     (* random bytes *)
Definition slott := (Z * Z * sdesc)%type.                 (* flag, validator address, signature *)

(* chain, height, time, LastBlockID.Hash, ValidatorsHash, NextValidatorsHash,
   ConsensusHash, AppHash, LastResultsHash, format ok, hash id of the header *)
Definition hdrt := (Z * Z * Z * Z * Z * Z * Z * Z * Z * bool * Z)%type.
(* header, commit (height, round, block id, slots), index of the validator set, valset format ok.
   Block ids are [1024 * hash id + part-set-header id]; validator-set hashes are indices into
   the case's table of validator sets (or numbers beyond it for unknown sets). *)
Definition blockt := (hdrt * (Z * Z * Z * list slott) * nat * bool)%type.

Inductive rep := RB (idx : nat) | RE (code : N).          (* a block of the table / an error *)
(* a provider: id, whether it checks LightBlock.ValidateBasic and the height of what it returns
   (as light/provider/http does), and per requested height its successive answers (the last one
   repeats; no entry = ErrLightBlockNotFound) *)
Definition provt := (Z * bool * list (Z * list rep))%type.

(* the remaining fields of a reported evidence, as the implementation filled them: table index of
   the conflicting light block (-1: not a block of the table), Timestamp, TotalVotingPower,
   ByzantineValidators (address, power) in order, and the answer of a real evidence.Pool over the
   honest chain to AddEvidence: 0 not asked (outside the premises of C09_evidence_is_admissible
   decidable on the case), 1 accepted, 2 refused *)
Definition evx := (Z * Z * Z * list (Z * Z) * N)%type.

(* observation after a client call: error class, store (height, hash id), primary, witnesses,
   evidence reported during the call (receiver, hash id of ConflictingBlock, CommonHeight),
   requests answered during the call (provider, height, hash id or -1-code), and for each
   evidence, in the same order, its remaining fields *)
Definition obs := (N * list (Z * Z) * Z * list Z * list (Z * Z * Z) * list (Z * Z * Z) * list evx)%type.

Inductive opt := OV (h now : Z) | OU (now : Z).

Inductive case :=
| CRun (par : Z * Z * Z * Z * Z * bool * Z)   (* chain, period, drift, num, den, sequential, pruning size *)
       (valsets : list (list (Z * Z * Z)))    (* (address, key, power) *)
       (blocks : list blockt)
       (provs : list provt)
       (order : list Z)                       (* provider ids, earliest arrival first *)
       (init : Z * list Z * Z * Z)            (* primary, witnesses, trust height, trust hash id *)
       (init_obs : obs)
       (ops : list (opt * obs))
       (hchain : list nat)                    (* the honest chain: table index of the block of height 1, 2, ... *)
       (aorder : list Z).                     (* aorder[a]: rank of validator address a in the byte order of the
                                                 real addresses (ValidatorsByVotingPower breaks ties by address) *)

(* ------------------------------------------------------------------ building model values *)

Definition mk_val (t : Z * Z * Z) : validator :=
  let '(a, k, p) := t in {| v_addr := a; v_key := k; v_power := p |}.

Definition mk_hdr (t : hdrt) : header :=
  let '(ch, h, tm, lb, vh, nvh, co, ap, re, fm, tg) := t in
  {| h_chain := ch; h_height := h; h_time := tm; h_last_bid := lb; h_vals_hash := vh;
     h_next_vals_hash := nvh; h_cons := co; h_app := ap; h_res := re; h_fmt_ok := fm; h_tag := tg |}.

Definition mk_msg (chain h r bid : Z) : signmsg :=
  {| sm_chain := chain; sm_type := precommit_type; sm_height := h; sm_round := r;
     sm_bid := if bid =? 0 then None else Some bid; sm_ts := 0 |}.

Definition mk_slot (chain h r bid : Z) (s : slott) : commitsig isig :=
  let '(f, a, d) := s in
  {| cs_flag := f; cs_addr := a; cs_ts := 0;
     cs_sig := match d with
               | SB k => Signed k (mk_msg chain h r bid)
               | SO k b' => Signed k (mk_msg chain h r b')
               | SG => Garbage
               end |}.

Definition lblk := lblock isig.

Definition mk_block (valsets : list (list validator)) (t : blockt) : lblk :=
  let '(ht, (ch, cr, cb, slots), vi, vfm) := t in
  let hd := mk_hdr ht in
  {| lb_hdr := hd;
     lb_commit := {| c_height := ch; c_round := cr; c_bid := cb;
                     c_sigs := map (mk_slot (h_chain hd) ch cr cb) slots |};
     lb_vals := nth vi valsets [];
     lb_vals_fmt_ok := vfm |}.

Definition xhash (h : header) : Z := h_tag h.
Definition xbid_hash (b : blockid) : Z := Z.quot b 1024.

Definition val_eqb (a b : validator) : bool :=
  (v_addr a =? v_addr b) && (v_key a =? v_key b) && (v_power a =? v_power b).
Fixpoint vals_eqb (a b : list validator) : bool :=
  match a, b with
  | [], [] => true
  | x :: a', y :: b' => val_eqb x y && vals_eqb a' b'
  | _, _ => false
  end.
Fixpoint find_idx (tbl : list (list validator)) (vs : list validator) (i : Z) : Z :=
  match tbl with
  | [] => -1
  | t :: r => if vals_eqb t vs then i else find_idx r vs (i + 1)
  end.
Definition xvhash (tbl : list (list validator)) (vs : list validator) : Z := find_idx tbl vs 0.

(* the world: every provider's remaining script *)
Definition world := list (Z * bool * list (Z * list rep)).

Definition perr_of (c : N) : perr :=
  match c with
  | 0%N => PE_no_response | 1%N => PE_not_found | 2%N => PE_too_high | 3%N => PE_bad | _ => PE_ctx
  end.

Fixpoint script_take (sc : list (Z * list rep)) (h : Z) : option rep * list (Z * list rep) :=
  match sc with
  | [] => (None, [])
  | (h', rs) :: r =>
    if h' =? h then
      match rs with
      | [] => (None, sc)
      | [x] => (Some x, sc)
      | x :: rs' => (Some x, (h', rs') :: r)
      end
    else let '(o, r') := script_take r h in (o, (h', rs) :: r')
  end.

Section World.
Variable chain : Z.
Variable tbl : list (list validator).
Variable blks : list lblk.

Definition reply_of (validating : bool) (h : Z) (o : option rep) : preply isig :=
  match o with
  | None => P_err isig PE_not_found
  | Some (RE c) => P_err isig (perr_of c)
  | Some (RB i) =>
    match nth_error blks i with
    | None => P_err isig PE_not_found
    | Some b =>
      if validating then
        if light_block_validate_basic isig xhash (xvhash tbl) xbid_hash chain b
           && ((h =? 0) || (lb_height isig b =? h))
        then P_block isig b else P_err isig PE_bad
      else P_block isig b
    end
  end.

Fixpoint xask (w : world) (p : pid) (h : Z) : preply isig * world :=
  match w with
  | [] => (P_err isig PE_no_response, [])
  | (q, validating, sc) :: r =>
    if q =? p then
      let '(o, sc') := script_take sc h in (reply_of validating h o, (q, validating, sc') :: r)
    else let '(rp, r') := xask r p h in (rp, (q, validating, sc) :: r')
  end.
End World.

Fixpoint index_of (l : list Z) (p : Z) (i : Z) : Z :=
  match l with [] => 1000000 | q :: r => if q =? p then i else index_of r p (i + 1) end.

(* ------------------------------------------------------------------ observables of the model *)

Definition perr_code (e : perr) : N :=
  match e with PE_no_response => 0 | PE_not_found => 1 | PE_too_high => 2 | PE_bad => 3 | PE_ctx => 4 end%N.

Fixpoint cerr_code (e : cerr) : N :=
  match e with
  | X_verif_invalid => 1 | X_verif_expired => 2
  | X_verif_provider p => 30 + perr_code p
  | X_verif_other => 4 | X_attack => 5 | X_crossref => 6 | X_no_witnesses => 7
  | X_provider PE_ctx => 12
  | X_provider p => 20 + perr_code p
  | X_back_invalid => 9
  | X_back_fetch e' => cerr_code e'
  | X_conflict_first => 11 | X_ctx => 12 | X_other => 13 | X_panic => 14
  end%N.

Definition err_code (e : option cerr) : N := match e with None => 0%N | Some x => cerr_code x end.

Definition reply_code (r : preply isig) : Z :=
  match r with P_block _ b => h_tag (lb_hdr isig b) | P_err _ e => -1 - Z.of_N (perr_code e) end.

Definition zz_eqb (a b : Z * Z) : bool := (fst a =? fst b) && (snd a =? snd b).
Definition zzz_eqb (a b : Z * Z * Z) : bool :=
  let '(a1, a2, a3) := a in let '(b1, b2, b3) := b in (a1 =? b1) && (a2 =? b2) && (a3 =? b3).
Definition list_eqb {A} (eqb : A -> A -> bool) (a b : list A) : bool :=
  Nat.eqb (length a) (length b) && forallb (fun '(x, y) => eqb x y) (combine a b).

Definition mism (b : bool) (code : N) : verdict := if b then V_ok else V_mismatch code.
Definition viol (b : bool) (clause : N) : verdict := if b then V_ok else V_violation clause.

(* ------------------------------------------------------------------ monitors: reference
   quantities in plain unbounded Z, no function of C09.Model / C07 verification involved *)

Definition good_slot (chain h r bid : Z) (k : Z) (cs : commitsig isig) : bool :=
  if cs_flag cs =? block_id_flag_commit
  then ideal_verify k (mk_msg chain h r bid) (cs_sig cs) else false.

Fixpoint pos_tally (chain h r bid : Z) (vs : list validator) (sigs : list (commitsig isig)) : Z :=
  match vs, sigs with
  | v :: vs', cs :: sigs' =>
    (if good_slot chain h r bid (v_key v) cs then v_power v else 0) + pos_tally chain h r bid vs' sigs'
  | _, _ => 0
  end.

Definition addr_tally (chain h r bid : Z) (vs : list validator) (sigs : list (commitsig isig)) : Z :=
  fold_right (fun v acc =>
    (if existsb (fun cs => if cs_addr cs =? v_addr v then good_slot chain h r bid (v_key v) cs else false) sigs
     then v_power v else 0) + acc) 0 vs.

Fixpoint total_power (vs : list validator) : Z :=
  match vs with [] => 0 | v :: r => v_power v + total_power r end.

Section Monitor.
Variable P : params.
Variable tbl : list (list validator).
Variable blks : list lblk.

Definition hd_of (b : lblk) := lb_hdr isig b.
Definition tag_of (b : lblk) := h_tag (hd_of b).

(* the clause list of the property for one step a -> u at local time [now] *)
Definition step_okb (now : Z) (a u : lblk) : bool :=
  let ha := hd_of a in let hu := hd_of u in
  let cu := lb_commit isig u in
  if negb (h_height ha <? h_height hu) then false else
  if negb (h_time ha <? h_time hu) then false else
  if negb (h_time hu <? now + p_drift P) then false else            (* not from the future *)
  if negb (now <? h_time ha + p_period P) then false else           (* within the trusting period *)
  if negb (h_fmt_ok hu && (0 <? h_height hu) && (h_chain hu =? p_chain P) && (h_chain ha =? p_chain P)
           && (c_height cu =? h_height hu) && (Z.quot (c_bid cu) 1024 =? h_tag hu)
           && negb (c_bid cu =? 0) && (0 <=? c_round cu)) then false else  (* well formed *)
  if negb (xvhash tbl (lb_vals isig u) =? h_vals_hash hu) then false else
  if negb (xvhash tbl (lb_vals isig a) =? h_vals_hash ha) then false else
  if negb (Nat.eqb (length (lb_vals isig u)) (length (c_sigs cu))) then false else
  if negb (2 * total_power (lb_vals isig u) <?
           3 * pos_tally (h_chain hu) (c_height cu) (c_round cu) (c_bid cu) (lb_vals isig u) (c_sigs cu))
  then false else                                                    (* +2/3 of its own set *)
  if (h_height hu =? h_height ha + 1) && (h_vals_hash hu =? h_next_vals_hash ha) then true
  else
    p_num P * total_power (lb_vals isig a) <?
    p_den P * addr_tally (h_chain hu) (c_height cu) (c_round cu) (c_bid cu) (lb_vals isig a) (c_sigs cu).

(* hash link downwards: u is the block a's LastBlockID points to *)
Definition back_okb (a u : lblk) : bool :=
  let ha := hd_of a in let hu := hd_of u in
  (h_last_bid ha =? h_tag hu) && (h_time hu <? h_time ha) && (h_chain hu =? h_chain ha)
  && h_fmt_ok hu && (0 <? h_height hu).

Definition in_tags (t : Z) (T : list Z) : bool := existsb (Z.eqb t) T.

Definition variants (t : Z) : list lblk := filter (fun b => tag_of b =? t) blks.

(* tags reachable from the trusted tags S by valid steps (any stored variant of a trusted header
   with any variant of the new one) *)
Fixpoint closure (fuel : nat) (now : Z) (T : list Z) : list Z :=
  match fuel with
  | O => T
  | S fuel' =>
    let trusted := filter (fun b => in_tags (tag_of b) T) blks in
    let fresh := filter (fun u => if in_tags (tag_of u) T then false
                                  else existsb (fun a => if step_okb now a u then true else back_okb a u) trusted) blks in
    match fresh with
    | [] => T
    | _ => closure fuel' now (T ++ map tag_of fresh)
    end
  end.

(* the property's chain read strictly: FORWARD steps only (each new header later in height and
   time than the trusted end it is judged from, whose validator set is the one the trust level is
   taken of) from the headers trusted before the call ... *)
Fixpoint closure_fwd (fuel : nat) (now : Z) (T : list Z) : list Z :=
  match fuel with
  | O => T
  | S fuel' =>
    let trusted := filter (fun b => in_tags (tag_of b) T) blks in
    let fresh := filter (fun u => if in_tags (tag_of u) T then false
                                  else existsb (fun a => step_okb now a u) trusted) blks in
    match fresh with
    | [] => T
    | _ => closure_fwd fuel' now (T ++ map tag_of fresh)
    end
  end.
(* ... and, below the first trusted height, hash links only *)
Fixpoint closure_back (fuel : nat) (T : list Z) : list Z :=
  match fuel with
  | O => T
  | S fuel' =>
    let trusted := filter (fun b => in_tags (tag_of b) T) blks in
    let fresh := filter (fun u => if in_tags (tag_of u) T then false
                                  else existsb (fun a => back_okb a u) trusted) blks in
    match fresh with
    | [] => T
    | _ => closure_back fuel' (T ++ map tag_of fresh)
    end
  end.

(* every flagged-for-the-block slot of b's commit carries a signature of the validator of its
   index over this commit's vote *)
Definition all_slots_good (b : lblk) : bool :=
  let c := lb_commit isig b in
  Nat.eqb (length (lb_vals isig b)) (length (c_sigs c)) &&
  forallb (fun '(v, cs) => negb (cs_flag cs =? block_id_flag_commit)
                           || ((cs_addr cs =? v_addr v)
                               && good_slot (h_chain (hd_of b)) (c_height c) (c_round c) (c_bid c) (v_key v) cs))
          (combine (lb_vals isig b) (c_sigs c)).

End Monitor.

(* ------------------------------------------------------------------ check *)

Definition store_obs (c : client isig) : list (Z * Z) :=
  map (fun b => (lb_height isig b, h_tag (lb_hdr isig b))) (cl_store isig c).

Definition ev_obs (l : list (pid * evid isig)) : list (Z * Z * Z) :=
  map (fun '(p, e) => (p, h_tag (lb_hdr isig (ev_block isig e)), ev_common isig e)) l.

Definition log_obs (l : list (pid * Z * preply isig)) : list (Z * Z * Z) :=
  map (fun '(p, h, r) => (p, h, reply_code r)) l.

Definition per_provider (p : Z) (l : list (Z * Z * Z)) : list (Z * Z * Z) :=
  filter (fun '(q, _, _) => q =? p) l.

Definition obs_err (o : obs) : N := let '(e, _, _, _, _, _, _) := o in e.
Definition obs_store (o : obs) : list (Z * Z) := let '(_, s, _, _, _, _, _) := o in s.
Definition obs_prim (o : obs) : Z := let '(_, _, p, _, _, _, _) := o in p.
Definition obs_wits (o : obs) : list Z := let '(_, _, _, w, _, _, _) := o in w.
Definition obs_ev (o : obs) : list (Z * Z * Z) := let '(_, _, _, _, e, _, _) := o in e.
Definition obs_log (o : obs) : list (Z * Z * Z) := let '(_, _, _, _, _, l, _) := o in l.
Definition obs_evx (o : obs) : list evx := let '(_, _, _, _, _, _, x) := o in x.

(* model state after a call vs observation; the model's log/evidence lists are newest-first and
   cumulative: [nlog], [nev] are their lengths before the call *)
Definition compare_obs (pids : list Z) (e : option cerr) (c : client isig) (s : st isig world)
           (nlog nev : nat) (o : obs) : list verdict :=
  let newlog := rev (firstn (length (st_log isig world s) - nlog) (log_obs (st_log isig world s))) in
  let newev := rev (firstn (length (st_ev isig world s) - nev) (ev_obs (st_ev isig world s))) in
  [ mism (N.eqb (err_code e) (obs_err o)) 11;
    mism (list_eqb zz_eqb (store_obs c) (obs_store o)) 12;
    mism (cl_primary isig c =? obs_prim o) 13;
    mism (list_eqb Z.eqb (cl_witnesses isig c) (obs_wits o)) 14;
    mism (list_eqb zzz_eqb newev (obs_ev o)) 15;
    mism (forallb (fun p => list_eqb zzz_eqb (per_provider p newlog) (per_provider p (obs_log o))) pids) 16 ].

(* last answer of provider p to a request for height h during the call *)
Definition last_answer (log : list (Z * Z * Z)) (p h : Z) : option Z :=
  fold_left (fun acc '(q, h', r) => if (q =? p) && (h' =? h) then Some r else acc) log None.

(* monitors of one call on the implementation's observations: [before] / [after] *)
Definition monitors (P : params) (tbl : list (list validator)) (blks : list lblk)
           (now : Z) (before after : obs) : list verdict :=
  let sb := obs_store before in let sa := obs_store after in
  let fresh := filter (fun x => negb (existsb (zz_eqb x) sb)) sa in
  let first_h := match sb with [] => 0 | (h, _) :: _ => h end in
  let cl := closure P tbl blks (length blks) now (map snd sb) in
  let fwd := filter (fun x => first_h <=? fst x) fresh in
  [ (* 1: every newly stored header is reachable from the trusted ones by valid steps *)
    viol (forallb (fun x => in_tags (snd x) cl) fresh) 1;
    (* 2: a header stored by forward verification was returned, identical, during the call by a
          provider that is a witness after the call AND is not the primary the header was verified
          with (the primary of the cross-check = the primary after the call: detectDivergence is the
          last step of a successful call).  A primary that also sits in the witness list answering
          its own header is no confirmation (F50). *)
    viol (forallb (fun x => existsb (fun '(p, _, r) => (r =? snd x) && existsb (Z.eqb p) (obs_wits after)
                                                       && negb (p =? obs_prim after))
                                    (obs_log after)) fwd) 2;
    (* 3: a witness whose last answer for that height was a different header is not a witness any more *)
    viol (forallb (fun x => forallb (fun p => match last_answer (obs_log after) p (fst x) with
                                              | Some r => (r <? 0) || (r =? snd x)
                                              | None => true
                                              end) (obs_wits after)) fwd) 3;
    (* 4: an attack error comes with evidence sent to a provider *)
    viol (negb (N.eqb (obs_err after) 5) || negb (Nat.eqb (length (obs_ev after)) 0)) 4;
    (* 5: a trusted header is never replaced by another one at its height *)
    viol (forallb (fun x => forallb (fun y => negb (fst x =? fst y) || (snd x =? snd y)) sa) sb) 5;
    (* 6: a call that failed stored nothing *)
    viol (N.eqb (obs_err after) 0 || Nat.eqb (length fresh) 0) 6 ].


(* ------------------------------------------------------------------ monitors on the evidence.
   The SPECIFICATION of light client attack evidence (C11/Spec.v) evaluated on the evidence the
   implementation reported, against the honest chain of the case; nothing of C09.Model's detector
   or of EvidenceModel.new_evidence_full is involved (only the translation of blocks into C11's
   records). *)

Definition zn (z : Z) : N := Z.to_N z.            (* all ids of a case are >= 0 *)
(* addresses become their rank in the order of the real addresses *)
Definition arank (aorder : list Z) (a : Z) : N := Z.to_N (nth (Z.to_nat a) aorder 0).

Section EvMonitor.
Variable P : params.
Variable tbl : list (list validator).
Variable blks : list lblk.
Variable hchain : list nat.
Variable aorder : list Z.
Variable provs : list provt.

(* a provider every scripted block of which is THE block of the honest chain for the requested
   height (any honest block for "latest"; the block itself, not only its header hash: a block with
   the honest header and another validator set or commit, or of another height, is outside the
   provider contract) *)
Definition honest_provider (p : Z) : bool :=
  existsb (fun '(q, _, sc) =>
    (q =? p) && forallb (fun '(h, rs) => forallb (fun r => match r with
                                                          | RB i => if h =? 0 then existsb (Nat.eqb i) hchain
                                                                    else match nth_error hchain (Z.to_nat (h - 1)) with
                                                                         | Some j => (0 <? h) && Nat.eqb i j
                                                                         | None => false
                                                                         end
                                                          | RE _ => true
                                                          end) rs) sc) provs.

Definition hblock (h : Z) : option lblk :=
  if h <=? 0 then None
  else match nth_error hchain (Z.to_nat (h - 1)) with
       | Some i => nth_error blks i
       | None => None
       end.
Definition honest_tag (t : Z) : bool :=
  existsb (fun i => match nth_error blks i with Some b => h_tag (lb_hdr isig b) =? t | None => false end) hchain.
Definition height_of_tag (t : Z) : Z :=
  match find (fun b => h_tag (lb_hdr isig b) =? t) blks with Some b => lb_height isig b | None => -1 end.

(* provider p answered, during the call, with blocks of the honest chain only (errors aside) *)
Definition served_honestly (log : list (Z * Z * Z)) (p : Z) : bool :=
  honest_provider p && forallb (fun '(q, _, r) => negb (q =? p) || (r <? 0) || honest_tag r) log.
Definition heights_served (log : list (Z * Z * Z)) (p : Z) : list Z :=
  map (fun '(_, _, r) => height_of_tag r) (filter (fun '(q, _, r) => (q =? p) && (0 <=? r)) log).

(* the block of the receiver's chain the conflicting block is compared with: the honest block of
   its height when the receiver served that height, else the receiver's highest block when that
   is below (forward lunatic attack) *)
Definition opt_list {A} (o : option A) : list A := match o with Some x => [x] | None => [] end.
(* the trusted block is not part of the evidence: the honest block of the conflicting height, or,
   when everything the receiver served is below (forward lunatic attack), its highest block *)
Definition reference_blocks (log : list (Z * Z * Z)) (p hc : Z) : list lblk :=
  let hs := heights_served log p in
  let top := fold_right Z.max 0 hs in
  opt_list (hblock hc) ++ (if (0 <? top) && (top <? hc) then opt_list (hblock top) else []).

Definition to_hdr11 (b : lblk) := to_header isig xhash zn b.
Definition core11 (chain : Z) (b : lblk) :=
  lca_core isig ideal_verify xhash (xvhash tbl) xbid_hash (arank aorder) zn chain b.

(* the static chain a provider serves: exactly one scripted answer, a block, for every height
   1..n (n = length of the honest chain) *)
Definition static_chain (p : Z) : option (list lblk) :=
  match find (fun '(q, _, _) => q =? p) provs with
  | None => None
  | Some (_, _, sc) =>
    let at_h := fun h : Z =>
      match find (fun '(h', _) => h' =? h) sc with
      | Some (_, [RB i]) => nth_error blks i
      | _ => None
      end in
    let l := map at_h (map Z.of_nat (seq 1 (length hchain))) in
    if forallb (fun o => match o with Some _ => true | None => false end) l
    then Some (flat_map (@opt_list lblk) l) else None
  end.

Fixpoint adjacent_ok (now : Z) (l : list lblk) : bool :=
  match l with
  | a :: ((u :: _) as r) =>
    (lb_height isig u =? lb_height isig a + 1)
    && (h_vals_hash (lb_hdr isig u) =? h_next_vals_hash (lb_hdr isig a))
    && step_okb P tbl now a u && all_slots_good u
    && adjacent_ok now r
  | _ => true
  end.

(* "the primary's side of the conflict can be examined against the witness's trace", decided on
   the world: the primary (the same provider before and after the call) serves a static chain -
   one block for every height, never an error - whose blocks up to the conflicting height form
   valid ADJACENT steps at [now] (well formed, time increasing, not from the future, +2/3 of the
   own set, ValidatorsHash = the predecessor's NextValidatorsHash, every for-block signature
   good): bisection over such a chain can always fall back to adjacent steps and never meets an
   invalid header; the witness the first evidence went to serves the honest chain, block for
   block; and the primary's chain starts with the honest blocks (so that its block at the common
   height is the witness's).  Then the reverse examination finds the divergence and the evidence
   against the witness - conflicting block: an honest block that is not the primary's block of
   that height - has to reach the primary; and the evidence that reached the witness carries a
   block of the primary's chain. *)
Definition both_sides_ok (now : Z) (before after : obs) : bool :=
  if negb (N.eqb (obs_err after) 5) then true else
  let p := obs_prim after in
  if negb (p =? obs_prim before) then true else
  match static_chain p, combine (obs_ev after) (obs_evx after) with
  | Some pch, ((w, xtag, _), (bi, _, _, _, _)) :: _ =>
    match (if bi <? 0 then None else nth_error blks (Z.to_nat bi)) with
    | None => true
    | Some xb =>
      let hx := lb_height isig xb in
      let upto := firstn (Z.to_nat hx) pch in
      if negb (honest_provider w && negb (w =? p)) then true else
      if negb (existsb (fun b => tag_of b =? xtag) upto) then true else
      if negb (match pch with b1 :: _ => honest_tag (tag_of b1) | [] => false end) then true else
      if negb (forallb honest_tag (map snd (obs_store before))) then true else
      if negb (adjacent_ok now upto) then true else
      existsb (fun '(q, t, _) => (q =? p) && honest_tag t
                                 && negb (existsb (fun b => tag_of b =? t) pch)) (obs_ev after)
    end
  | _, _ => true
  end.

Definition ev_spec_ok (log : list (Z * Z * Z)) (e : Z * Z * Z) (x : evx) : bool :=
  let '(p, tag, H) := e in
  let '(bi, tm, tot, byz, _) := x in
  match (if bi <? 0 then None else nth_error blks (Z.to_nat bi)) with
  | None => true
  | Some cb =>
    let hc := lb_height isig cb in
    if negb (h_tag (lb_hdr isig cb) =? tag) then true else
    if honest_tag tag then true else                      (* "evidence" against the honest block: no claim *)
    if negb (served_honestly log p) then true else        (* the receiver's side is not the honest chain *)
    match reference_blocks log p hc with
    | [] => true
    | refs =>
      existsb (fun t =>
        let chain := h_chain (lb_hdr isig t) in
        let l := core11 chain cb in
        if negb (E.sigs_for_block_ok l) then true else    (* a for-block slot that does not verify *)
        match hblock H with
        | None => false                                   (* CommonHeight is not a height of the chain *)
        | Some base =>
          let lun := ES.hashes_differ l (to_hdr11 t) in
          (if lun then H <? hc else H =? lb_height isig t)
          && (tm =? lb_time isig base)
          && (tot =? total_power (lb_vals isig base))
          && ES.byz_ok l (to_vals (arank aorder) (lb_vals isig base)) (to_vals (arank aorder) (lb_vals isig t))
                       (to_hdr11 t)
                       (map (fun ap => {| E.va_addr := arank aorder (fst ap); E.va_power := snd ap |}) byz)
        end) refs
    end
  end.

(* a provider that was a witness when the call began, answered only with blocks of the honest
   chain during the call, and whose last answer for height h is the honest header, not later
   than now + drift, while another header was stored for h *)
Definition backable_conflict (now : Z) (before after : obs) (x : Z * Z) : bool :=
  let log := obs_log after in
  forallb honest_tag (map snd (obs_store before)) &&
  existsb (fun p =>
    negb (p =? obs_prim after) && negb (p =? obs_prim before) && honest_provider p &&
    forallb (fun '(q, _, r) => negb (q =? p) || ((0 <=? r) && honest_tag r)) log &&
    match last_answer log p (fst x), hblock (fst x) with
    | Some g, Some hb => (g =? h_tag (lb_hdr isig hb)) && negb (g =? snd x)
                         && (lb_time isig hb <? now + p_drift P)
    | _, _ => false
    end) (obs_wits before).

End EvMonitor.

Definition ev_monitors (P : params) (tbl : list (list validator)) (blks : list lblk) (hchain : list nat)
           (aorder : list Z) (provs : list provt) (now : Z) (before after : obs) : list verdict :=
  let sb := obs_store before in let sa := obs_store after in
  let fresh := filter (fun x => negb (existsb (zz_eqb x) sb)) sa in
  let first_h := match sb with [] => 0 | (h, _) :: _ => h end in
  let fwd := filter (fun x => first_h <=? fst x) fresh in
  let bwd := filter (fun x => fst x <? first_h) fresh in
  [ (* 11: the chain of the property, read strictly: a header stored at or above the first trusted
           height is reachable from the headers trusted before the call by FORWARD steps only -
           each later in height AND time than the trusted end it is judged from, adjacent with
           matching NextValidatorsHash or signed by MORE than the configured trust level of THAT
           end's validator set (tally of its members' valid signatures, by the case's key
           table), +2/3 of its own set, trusted end within the trusting period, new header not
           from the future - over all blocks of the case (forged and genuine); a header stored
           below the first trusted height is reachable by hash links only *)
    viol (forallb (fun x => in_tags (snd x) (closure_fwd P tbl blks (length blks) now (map snd sb))) fwd
          && forallb (fun x => in_tags (snd x) (closure_back blks (length blks) (map snd sb))) bwd) 11;
    (* 12: evidence for both sides when the primary's side can be examined *)
    viol (both_sides_ok P tbl blks hchain provs now before after) 12; (* 8: the evidence sent to a provider on the honest chain is what the specification says:
          CommonHeight = the reference block's height unless the conflicting header is invalid
          (then below the conflicting block), Timestamp / TotalVotingPower = those of the honest
          block / validator set of CommonHeight, ByzantineValidators = THE specified list
          relative to that validator set *)
    viol (Nat.eqb (length (obs_ev after)) (length (obs_evx after)) &&
          forallb (fun '(e, x) => ev_spec_ok tbl blks hchain aorder provs (obs_log after) e x)
                  (combine (obs_ev after) (obs_evx after))) 8;
    (* 9: a full node holding the honest chain admits the evidence (real evidence.Pool) *)
    viol (forallb (fun x => let '(_, _, _, _, a) := x in negb (N.eqb a 2)) (obs_evx after)) 9;
    (* 10: a header is not stored while a witness holds, and can back, the honest header of that
           height (the call must end with the attack error) *)
    viol (negb (N.eqb (obs_err after) 0) ||
          forallb (fun x => negb (backable_conflict P blks hchain provs now before after x)) fwd) 10 ].

Definition op_now (o : opt) : Z := match o with OV _ n => n | OU n => n end.
Definition mk_op (o : opt) : op := match o with OV h n => Op_verify_at h n | OU n => Op_update n end.

Section Run.
Variable P : params.
Variable tbl : list (list validator).
Variable blks : list lblk.
Variable order : list Z.
Variable pids : list Z.
Variable hchain : list nat.
Variable aorder : list Z.
Variable provs : list provt.

Definition xstep := step isig ideal_verify xhash (xvhash tbl) xbid_hash world
                         (xask (p_chain P) tbl blks) (fun p => index_of order p 0) P.
(* the same step, returning the full evidence of the repaired detector as well (EvidenceRun.v) *)
Definition xstep_full := step_full isig ideal_verify xhash (xvhash tbl) xbid_hash (arank aorder) zn world
                                   (xask (p_chain P) tbl blks) (fun p => index_of order p 0) P.

Definition evf_obs (l : list (pid * evid_full isig)) : list (Z * Z * Z * (Z * Z * list (Z * Z))) :=
  map (fun '(p, e) => (p, h_tag (lb_hdr isig (ef_block isig e)), ef_common isig e,
                       (ef_time isig e, ef_total isig e,
                        map (fun v => (Z.of_N (E.va_addr v), E.va_power v)) (ef_byz isig e)))) l.
Definition evf_eqb (a b : Z * Z * Z * (Z * Z * list (Z * Z))) : bool :=
  let '(a1, (at1, ao1, ab1)) := a in let '(b1, (bt1, bo1, bb1)) := b in
  zzz_eqb a1 b1 && (at1 =? bt1) && (ao1 =? bo1) && list_eqb zz_eqb ab1 bb1.

(* 17: the full evidence of the model vs the implementation's; 18: EvidenceRun's copy of the call
   tree agrees with Model.step on everything Model.step is compared by *)
Definition compare_full (c : client isig) (s : st isig world) (o : opt) (ob : obs) : list verdict :=
  let '(e, c1, s1) := xstep c s (mk_op o) in
  let '(e', c1', s1', a) := xstep_full c s (mk_op o) in
  let nev := (length (st_ev isig world s1) - length (st_ev isig world s))%nat in
  [ mism (list_eqb evf_eqb (rev (evf_obs a))
            (map (fun '(e3, x) => let '(_, tm, tot, byz, _) := x in
                                  (e3, (tm, tot, map (fun ap => (Z.of_N (arank aorder (fst ap)), snd ap)) byz)))
                 (combine (obs_ev ob) (obs_evx ob)))
          && Nat.eqb (length (obs_ev ob)) (length (obs_evx ob))) 17;
    mism (N.eqb (err_code e) (err_code e')
          && list_eqb zz_eqb (store_obs c1) (store_obs c1')
          && (cl_primary isig c1 =? cl_primary isig c1')
          && list_eqb Z.eqb (cl_witnesses isig c1) (cl_witnesses isig c1')
          && list_eqb zzz_eqb (ev_obs (st_ev isig world s1)) (ev_obs (st_ev isig world s1'))
          && list_eqb zzz_eqb (log_obs (st_log isig world s1)) (log_obs (st_log isig world s1'))
          && list_eqb zzz_eqb (ev_obs (firstn nev (st_ev isig world s1)))
                      (map (fun '(p, t, h, _) => (p, t, h)) (evf_obs a))) 18 ].

Fixpoint run_ops (c : client isig) (s : st isig world) (before : obs) (ops : list (opt * obs))
  : list verdict :=
  match ops with
  | [] => []
  | (o, ob) :: r =>
    let '(e, c1, s1) := xstep c s (mk_op o) in
    monitors P tbl blks (op_now o) before ob
    ++ ev_monitors P tbl blks hchain aorder provs (op_now o) before ob
    ++ compare_obs pids e c1 s1 (length (st_log isig world s)) (length (st_ev isig world s)) ob
    ++ compare_full c s o ob
    ++ run_ops c1 s1 ob r
  end.
End Run.

Definition check (c : case) : verdict :=
  match c with
  | CRun (chain, period, drift, num, den, sequential, prune) valsets blocks provs order
         (prim, wits, th, thash) init_obs ops hchain aorder =>
    let P := {| p_chain := chain; p_period := period; p_drift := drift; p_num := num; p_den := den;
                p_sequential := sequential; p_prune := prune |} in
    let tbl := map (map mk_val) valsets in
    let blks := map (mk_block tbl) blocks in
    let pids := map (fun '(p, _, _) => p) provs in
    let s0 := {| st_w := provs; st_log := []; st_ev := [] |} in
    let '(e0, c0, s1) :=
      initialize isig ideal_verify xhash (xvhash tbl) xbid_hash world (xask chain tbl blks)
                 (fun p => index_of order p 0) P prim wits s0 th thash in
    first_of (
      (* the root is the header the user named *)
      viol (negb (N.eqb (obs_err init_obs) 0) ||
            list_eqb zz_eqb (obs_store init_obs) [(th, thash)]) 7
      :: compare_obs pids e0 c0 s1 0 0 init_obs
      ++ (if N.eqb (obs_err init_obs) 0
          then run_ops P tbl blks order pids hchain aorder provs c0 s1 init_obs ops
          else []))
  end.
