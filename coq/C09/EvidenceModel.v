(* C09 — the CONTENTS of the light client attack evidence the detector produces, and its way to a
   full node.  Extension of C09/Model.v (which keeps of an evidence only ConflictingBlock and
   CommonHeight, observable 15) by the remaining fields as light/detector.go
   newLightClientAttackEvidence fills them:

     ev := &LightClientAttackEvidence{ConflictingBlock: conflicted}
     if ev.ConflictingHeaderIsInvalid(trusted.Header) {         -- lunatic
        CommonHeight, Timestamp, TotalVotingPower := common.Height, common.Time, common.ValidatorSet.TotalVotingPower()
     } else {                                                   -- equivocation / amnesia
        CommonHeight, Timestamp, TotalVotingPower := trusted.Height, trusted.Time, trusted.ValidatorSet.TotalVotingPower()
     }
     ev.ByzantineValidators = ev.GetByzantineValidators(common.ValidatorSet, trusted.SignedHeader)

   GetByzantineValidators is NOT transcribed again: it is C11.Model.byz_validators (the function
   the evidence pool's validateABCIEvidence calls; tied to types/evidence.go by C11's harness),
   applied to the translation of the detector's arguments.  No proofs in this file.

   [fx77] = true is the code as it is: repair F77 (fixes/F77-detector-byzantine-validators-of-
   evidence-height.diff, applied to the repository): in the non-lunatic branch the validators are
   looked up in trusted.ValidatorSet, the validator set of the evidence's height (CommonHeight =
   trusted.Height there) - the set a full node looks them up in (Pool.verify loads
   LoadValidators(evidence.Height())).  [fx77] = false is the code before that repair (always
   common.ValidatorSet), kept to exhibit the defect; the difference matters since repair F57 made
   the equivocation branch of GetByzantineValidators read its commonVals argument.
   The correspondence run compares [hc_full true] with the implementation's evidence field by
   field on every run (C09/EvidenceRun.v, C09/Exec.v observable 17).

   Translation C09 -> C11 (the two models use different vocabularies): addresses and hashes are
   integers in C09 and opaque [N] identities in C11; [an] / [hn] are arbitrary maps (injective
   where a theorem needs it).  A C09 light block becomes a C11 header (time, hash, five derived
   hashes, round and flags of its commit); a validator set becomes (address, power) pairs; a
   commit slot becomes (flag, address, oracle "the slot carries the address of the validator of
   its index and its signature verifies under that validator's key" = what
   evidence/verify.go verifyAllSignaturesForBlock checks, repair F60). *)
From Coq Require Import List ZArith NArith Bool.
From TM Require Import Generated.Consts C07.Model C09.Model.
From TM Require C11.Model C11.Spec.
Import ListNotations.
Open Scope Z_scope.

Module E := TM.C11.Model.
Module ES := TM.C11.Spec.

Section Evidence.

Variable sig : Type.
Variable sv : key -> signmsg -> sig -> bool.
Variable hash : header -> Z.
Variable vhash : list validator -> Z.
Variable bid_hash : blockid -> Z.
Variable an : Z -> N.       (* address  -> C11 identity *)
Variable hn : Z -> N.       (* hash     -> C11 identity *)

Notation lblock := (lblock sig).
Notation lb_hdr := (lb_hdr sig).
Notation lb_commit := (lb_commit sig).
Notation lb_vals := (lb_vals sig).
Notation lb_height := (lb_height sig).
Notation lb_time := (lb_time sig).
Notation lb_hash := (lb_hash sig hash).

(* ------------------------------------------------------------------ translation *)

Definition to_val (v : validator) : E.valinfo :=
  {| E.va_addr := an (v_addr v); E.va_power := v_power v |}.
Definition to_vals (vs : list validator) : E.valset := map to_val vs.

Definition res_ok (r : vresult) : bool := match r with R_ok => true | _ => false end.

(* verifyAllSignaturesForBlock, one slot: idx < len(vals), address of vals[idx], signature of
   vals[idx] over Commit.VoteSignBytes(chainID, idx) *)
Definition slot_ok_b (chain : Z) (c : commit sig) (ov : option validator) (cs : commitsig sig) : bool :=
  match ov with
  | None => false
  | Some v => (v_addr v =? cs_addr cs) &&
              match vote_sign_bytes chain c cs with
              | Some m => sv (v_key v) m (cs_sig cs)
              | None => false
              end
  end.

Fixpoint to_sigs (chain : Z) (c : commit sig) (vals : list validator) (sigs : list (commitsig sig))
  : list E.csig :=
  match sigs with
  | [] => []
  | cs :: r => {| E.cs_flag := cs_flag cs; E.cs_addr := an (cs_addr cs);
                  E.cs_ok := slot_ok_b chain c (hd_error vals) cs |}
               :: to_sigs chain c (tl vals) r
  end.

(* a light block as the header + commit a full node stores for that height *)
Definition to_header (b : lblock) : E.header :=
  {| E.h_time := lb_time b; E.h_hash := hn (lb_hash b);
     E.h_vh := hn (h_vals_hash (lb_hdr b)); E.h_nvh := hn (h_next_vals_hash (lb_hdr b));
     E.h_ch := hn (h_cons (lb_hdr b)); E.h_ah := hn (h_app (lb_hdr b)); E.h_lrh := hn (h_res (lb_hdr b));
     E.h_has_commit := true;
     E.h_round := c_round (lb_commit b);
     E.h_flags := map (fun cs => cs_flag cs) (c_sigs (lb_commit b)) |}.

(* the evidence record of C11 around conflicting block [b]; [chain] is the chain id the verifying
   node uses (trustedHeader.ChainID), [trusting_ok] the node's
   commonVals.VerifyCommitLightTrusting(chain, b.Commit, 1/3) *)
Definition mk_lca (chain : Z) (b : lblock) (common time total : Z) (byz : option (list E.valinfo))
           (trusting_ok : bool) : E.lca :=
  {| E.l_common := common;
     E.l_height := lb_height b; E.l_ctime := lb_time b; E.l_chash := hn (lb_hash b);
     E.l_vh := hn (h_vals_hash (lb_hdr b)); E.l_nvh := hn (h_next_vals_hash (lb_hdr b));
     E.l_ch := hn (h_cons (lb_hdr b)); E.l_ah := hn (h_app (lb_hdr b)); E.l_lrh := hn (h_res (lb_hdr b));
     E.l_round := c_round (lb_commit b);
     E.l_sigs := to_sigs chain (lb_commit b) (lb_vals b) (c_sigs (lb_commit b));
     E.l_cvals := to_vals (lb_vals b);
     E.l_byz := byz; E.l_total := total; E.l_time := time;
     E.l_trusting_ok := trusting_ok;
     E.l_light_ok := res_ok (verify_commit_light sv (lb_vals b) chain (c_bid (lb_commit b))
                                                 (lb_height b) (lb_commit b));
     E.l_basic_ok := light_block_validate_basic sig hash vhash bid_hash (h_chain (lb_hdr b)) b |}.

(* the part GetByzantineValidators reads (conflicting header hashes, commit round, slots) *)
Definition lca_core (chain : Z) (b : lblock) : E.lca := mk_lca chain b 0 0 0 None false.

(* ------------------------------------------------------------------ newLightClientAttackEvidence *)

(* ByzantineValidators as (address, power) pairs; an empty result is the nil slice *)
Record evid_full := {
  ef_block : lblock;            (* ConflictingBlock *)
  ef_common : Z;                (* CommonHeight *)
  ef_time : Z;                  (* Timestamp *)
  ef_total : Z;                 (* TotalVotingPower *)
  ef_byz : list E.valinfo       (* ByzantineValidators *)
}.

(* ValidatorSet.TotalVotingPower(); -1 stands for its panic (total above MaxTotalVotingPower) *)
Definition total_power (vs : list validator) : Z :=
  match total_voting_power vs with Some t => t | None => -1 end.

Definition new_evidence_full (fx77 : bool) (conflicted trusted common : lblock) : evid_full :=
  let lun := conflicting_header_is_invalid (lb_hdr conflicted) (lb_hdr trusted) in
  let base := if lun then common else trusted in
  let bv := if lun then common else if fx77 then trusted else common in
  {| ef_block := conflicted;
     ef_common := lb_height base;
     ef_time := lb_time base;
     ef_total := total_power (lb_vals base);
     ef_byz := E.byz_validators (lca_core (h_chain (lb_hdr trusted)) conflicted)
                                (to_vals (lb_vals bv)) (to_header trusted) |}.

(* what C09/Model.v keeps (observable 15 of the correspondence) *)
Definition ef_proj (e : evid_full) : evid sig :=
  {| ev_block := ef_block e; ev_common := ef_common e |}.

(* ------------------------------------------------------------------ the evidence at a full node *)

(* [node_cvals]: the validator set the node loads for the evidence's height *)
Definition to_lca (chain : Z) (node_cvals : list validator) (e : evid_full) : E.lca :=
  mk_lca chain (ef_block e) (ef_common e) (ef_time e) (ef_total e)
         (match ef_byz e with [] => None | l => Some l end)
         (res_ok (verify_commit_light_trusting sv node_cvals chain (lb_commit (ef_block e)) 1 3)).

Definition to_evidence (chain : Z) (node_cvals : list validator) (e : evid_full) : E.evidence :=
  {| E.e_hash := 0%N; E.e_size := 0; E.e_body := E.EvLca (to_lca chain node_cvals e) |}.

(* a full node holding, for each height it has, header + commit + validator set *)
Definition node_env (node : Z -> option lblock) (top : Z) : E.env :=
  {| E.en_meta := fun h => option_map to_header (node h);
     E.en_vals := fun h => option_map (fun b => to_vals (lb_vals b)) (node h);
     E.en_store_height := top |}.

(* ------------------------------------------------------------------ handleConflictingHeaders *)

Variable W : Type.
Variable ask : W -> pid -> Z -> preply sig * W.

Notation examine_conflicting := (examine_conflicting sig sv hash vhash bid_hash W ask).

(* the full evidence handleConflictingHeaders reports, newest first, with the receiver:
   same control flow as Model.handle_conflicting *)
Definition hc_full (fx77 : bool) (P : params) (c : client sig) (now : Z) (s : st sig W)
           (ptrace : list lblock) (challenging : lblock) (widx : nat) : list (pid * evid_full) :=
  let sw := nth widx (cl_witnesses sig c) 0 in
  match examine_conflicting P sw now s ptrace challenging with
  | (None, _) => []
  | (Some (wtrace, pblock), s1) =>
    match wtrace with
    | [] => []
    | common :: _ =>
      let trusted := last wtrace common in
      let e1 := (sw, new_evidence_full fx77 pblock trusted common) in
      let s2 := reportS sig W s1 sw (new_evidence sig pblock trusted common) in
      match examine_conflicting P (cl_primary sig c) now s2 wtrace pblock with
      | (None, _) => [e1]
      | (Some (ptrace', wblock), _) =>
        match ptrace' with
        | [] => [e1]
        | common' :: _ =>
          [(cl_primary sig c, new_evidence_full fx77 wblock (last ptrace' common') common'); e1]
        end
      end
    end
  end.

End Evidence.
