(* C09 — The light client only trusts headers reachable by valid verification steps.
   Only the property statements; each is closed by [exact] of a lemma of Proofs.v /
   ProofsStore.v and followed by Print Assumptions.

   Reading guide.  Everything is stated for an arbitrary signature check [sv], arbitrary hash
   functions [hash] (Header.Hash), [vhash] (ValidatorSet.Hash), [bid_hash] (BlockID.Hash), an
   arbitrary world type [W] with an arbitrary provider oracle [ask : W -> provider -> height ->
   answer * W] (providers may answer anything, adaptively, differently each time), and an
   arbitrary arrival order [rank] of the concurrent witness answers.  The model is of the code
   with the three repairs F2, F23 and F50 (see C09/Model.v); the examples at the end show that the
   statements fail for the unrepaired variants.

   step_ok P t u now — the clause list of the property for one step from trusted block t to u:
     u is well formed for t's chain and its commit is for this header; u is later in height and in
     time; u's time is before now + MaxClockDrift; t is within the trusting period at [now]; the
     delivered validator set is the one u's header commits to; more than 2/3 of u's own set signed
     exactly (chain, height, round, block id) (C07.good_tally); and either u is adjacent and its
     ValidatorsHash is t's NextValidatorsHash, or distinct members of t's set with verified
     signatures in u's commit hold more than the trust level of t's set (C07.member_signed, pw).
     (The two signature clauses are stated for well-formed sets: no negative power, total at most
     MaxTotalVotingPower; trust level numerator/denominator within int64 — C07's premises.)
   back_ok u t — the clause list of a backwards step: u well formed, same chain, earlier in time,
     and hash u is t's LastBlockID.Hash.
   Trusted P root h — header hash h is reachable from the root hash by such steps.  Headers BELOW
     the first trusted height are admitted by hash-linking (back_ok) only: no signature is
     checked on that path; "later in height" of the informal statement does not apply to them. *)
From Coq Require Import List ZArith NArith Bool Permutation.
From TM Require Import Generated.Consts C07.Model C07.Proofs C09.Model C09.Proofs C09.ProofsStore C09.ProofsProv.
Import ListNotations.
Open Scope Z_scope.

(* ---- one verification step ------------------------------------------------------------------ *)

(* light.Verify (adjacent or not) accepts only if every clause of the property holds for the step. *)
Theorem C09_verify_sound :
  forall (sig : Type) (sv : key -> signmsg -> sig -> bool) (hash : header -> Z)
         (vhash : list validator -> Z) (bid_hash : blockid -> Z)
         (P : params) (t u : lblock sig) (now : Z),
    verify sig sv hash vhash bid_hash P t (lb_vals sig t) u now = E_ok ->
    step_ok sig sv hash vhash bid_hash P t u now.
Proof. exact verify_sound. Qed.
Print Assumptions C09_verify_sound.

(* light.VerifyBackwards accepts only a header that the trusted header's LastBlockID points to. *)
Theorem C09_verify_backwards_sound :
  forall (hash : header -> Z) (u t : header),
    verify_backwards hash u t = true -> back_ok hash u t.
Proof. exact verify_backwards_sound. Qed.
Print Assumptions C09_verify_backwards_sound.

(* ---- bisection ------------------------------------------------------------------------------- *)

(* verifySkipping (pivot 9/16, block cache with its duplicated append, any fuel) returns a trace
   only if the trace starts with the trusted block, ends with the requested block, and every
   consecutive pair was accepted by Verify: bisection concludes only from Verify successes,
   whatever the source provider answered. *)
Theorem C09_skipping_refines_verify :
  forall (sig : Type) (sv : key -> signmsg -> sig -> bool) (hash : header -> Z)
         (vhash : list validator -> Z) (bid_hash : blockid -> Z)
         (W : Type) (ask : W -> pid -> Z -> preply sig * W)
         (P : params) (source : pid) (s : st sig W) (t u : lblock sig) (now : Z)
         (tr : list (lblock sig)) (s' : st sig W),
    verify_skipping sig sv hash vhash bid_hash W ask P source s t u now = (inl tr, s') ->
    linked (fun a b => verify sig sv hash vhash bid_hash P a (lb_vals sig a) b now = E_ok) tr /\
    exists mid, tr = t :: mid ++ [u].
Proof. exact skipping_refines. Qed.
Print Assumptions C09_skipping_refines_verify.

(* ---- the trusted store ------------------------------------------------------------------------ *)

(* After NewClient (trust root = hash [root] at height th) and ANY sequence of
   VerifyLightBlockAtHeight / Update calls, in sequential or skipping mode, against ANY provider
   behaviour (wrong, missing, late, conflicting, equivocating answers, primary replacement) and
   ANY arrival order of witness answers, every light block in the trusted store has a header hash
   that is reachable from the root hash by valid steps, and carries the validator set its header
   commits to.  Premise: providers hand over blocks whose validator set matches the header
   (LightBlock.ValidateBasic, performed by light/provider/http and light/provider/mock). *)
Theorem C09_store_sound :
  forall (sig : Type) (sv : key -> signmsg -> sig -> bool) (hash : header -> Z)
         (vhash : list validator -> Z) (bid_hash : blockid -> Z)
         (W : Type) (ask : W -> pid -> Z -> preply sig * W) (rank : pid -> Z)
         (P : params) (root : Z),
    provider_contract sig vhash W ask ->
    forall (prim : pid) (ws : list pid) (s0 : st sig W) (th : Z) (c0 : client sig) (s1 : st sig W)
           (ops : list op) (c : client sig) (s : st sig W),
      initialize sig sv hash vhash bid_hash W ask rank P prim ws s0 th root = (None, c0, s1) ->
      run_final sig sv hash vhash bid_hash W ask rank P c0 s1 ops = (c, s) ->
      forall b, In b (cl_store sig c) ->
        Trusted sig sv hash vhash bid_hash P root (lb_hash sig hash b) /\ vals_bound sig vhash b.
Proof.
  intros sig sv hash vhash bid_hash W ask rank P root Hc prim ws s0 th c0 s1 ops c s.
  exact (store_sound sig sv hash vhash bid_hash W ask rank P root Hc prim ws s0 th c0 s1 ops c s).
Qed.
Print Assumptions C09_store_sound.

(* backwards (repaired, F23): success means the hash of the header that will be stored is the
   hash of a header reached from the first trusted header by hash-linking steps, whatever the
   primary (and its replacements) answered. *)
Theorem C09_backwards_sound :
  forall (sig : Type) (hash : header -> Z) (W : Type) (ask : W -> pid -> Z -> preply sig * W)
         (rank : pid -> Z) (fuel : nat) (c : client sig) (s : st sig W) (verified newh : header)
         (c' : client sig) (s' : st sig W),
    backwards sig hash W ask rank fuel c s verified newh = (None, c', s') ->
    exists v, back_reach hash verified v /\ hash v = hash newh.
Proof. exact backwards_sound. Qed.
Print Assumptions C09_backwards_sound.

(* ---- the witness cross-check -------------------------------------------------------------------- *)

(* detectDivergence (repaired, F2) returns nil only if, in this very round, one of the current
   witnesses answered with a block whose header hash is the hash of the verified header. *)
Theorem C09_confirmation_requires_match :
  forall (sig : Type) (sv : key -> signmsg -> sig -> bool) (hash : header -> Z)
         (vhash : list validator -> Z) (bid_hash : blockid -> Z)
         (W : Type) (ask : W -> pid -> Z -> preply sig * W) (rank : pid -> Z)
         (P : params) (c : client sig) (s : st sig W) (t0 : lblock sig) (rest : list (lblock sig))
         (now : Z) (c' : client sig) (s' : st sig W),
    detect_divergence sig sv hash vhash bid_hash W ask rank P c s (t0 :: rest) now = (None, c', s') ->
    let target := last (t0 :: rest) t0 in
    exists msgs s1 pre,
      compare_all sig hash W ask s target (arrival_order rank (cl_witnesses sig c)) = (msgs, s1) /\
      st_log sig W s1 = pre ++ st_log sig W s /\
      exists w h b, In w (cl_witnesses sig c) /\ In (w, h, P_block sig b) pre /\
                    lb_hash sig hash b = lb_hash sig hash target.
Proof. exact confirmation_requires_match. Qed.
Print Assumptions C09_confirmation_requires_match.

(* The provider lists (repaired findNewPrimary, F50).  After NewClient with pairwise different
   providers and ANY sequence of calls (primary replacements with and without removal, witness
   removals by the detector, in any arrival order), the primary is not one of the witnesses and no
   provider holds two witness slots ... *)
Theorem C09_providers_stay_distinct :
  forall (sig : Type) (sv : key -> signmsg -> sig -> bool) (hash : header -> Z)
         (vhash : list validator -> Z) (bid_hash : blockid -> Z)
         (W : Type) (ask : W -> pid -> Z -> preply sig * W) (rank : pid -> Z)
         (P : params) (prim : pid) (ws : list pid) (s0 : st sig W) (th root : Z)
         (c0 : client sig) (s1 : st sig W) (ops : list op) (c : client sig) (s : st sig W),
    NoDup (prim :: ws) ->
    initialize sig sv hash vhash bid_hash W ask rank P prim ws s0 th root = (None, c0, s1) ->
    run_final sig sv hash vhash bid_hash W ask rank P c0 s1 ops = (c, s) ->
    NoDup (cl_primary sig c :: cl_witnesses sig c).
Proof.
  intros sig sv hash vhash bid_hash W ask rank P.
  exact (providers_distinct sig sv hash vhash bid_hash W ask rank P).
Qed.
Print Assumptions C09_providers_stay_distinct.

(* ... the same holds for every intermediate client inside a call (each function that changes the
   provider lists keeps them pairwise different) ... *)
Theorem C09_providers_stay_distinct_inside_a_call :
  forall (sig : Type) (sv : key -> signmsg -> sig -> bool) (hash : header -> Z)
         (vhash : list validator -> Z) (bid_hash : blockid -> Z)
         (W : Type) (ask : W -> pid -> Z -> preply sig * W) (rank : pid -> Z)
         (P : params) (c : client sig),
    NoDup (cl_primary sig c :: cl_witnesses sig c) ->
    (forall s h remove r c' s',
       find_new_primary sig W ask rank c s h remove = (r, c', s') ->
       NoDup (cl_primary sig c' :: cl_witnesses sig c')) /\
    (forall s h r c' s',
       light_block_from_primary sig W ask rank c s h = (r, c', s') ->
       NoDup (cl_primary sig c' :: cl_witnesses sig c')) /\
    (forall s trace now r c' s',
       detect_divergence sig sv hash vhash bid_hash W ask rank P c s trace now = (r, c', s') ->
       NoDup (cl_primary sig c' :: cl_witnesses sig c')) /\
    (forall s o r c' s',
       step sig sv hash vhash bid_hash W ask rank P c s o = (r, c', s') ->
       NoDup (cl_primary sig c' :: cl_witnesses sig c')).
Proof.
  intros sig sv hash vhash bid_hash W ask rank P.
  exact (providers_distinct_inside sig sv hash vhash bid_hash W ask rank P).
Qed.
Print Assumptions C09_providers_stay_distinct_inside_a_call.

(* ... and therefore the confirmation of C09_confirmation_requires_match comes from a provider
   OTHER THAN THE PRIMARY: detectDivergence returns nil only if a witness different from the
   primary answered, in this round, with a block of the verified header's hash.  A primary
   vouching for its own header is no confirmation. *)
Theorem C09_confirmation_by_other_provider :
  forall (sig : Type) (sv : key -> signmsg -> sig -> bool) (hash : header -> Z)
         (vhash : list validator -> Z) (bid_hash : blockid -> Z)
         (W : Type) (ask : W -> pid -> Z -> preply sig * W) (rank : pid -> Z)
         (P : params) (c : client sig) (s : st sig W) (t0 : lblock sig) (rest : list (lblock sig))
         (now : Z) (c' : client sig) (s' : st sig W),
    NoDup (cl_primary sig c :: cl_witnesses sig c) ->
    detect_divergence sig sv hash vhash bid_hash W ask rank P c s (t0 :: rest) now = (None, c', s') ->
    let target := last (t0 :: rest) t0 in
    exists msgs s1 pre,
      compare_all sig hash W ask s target (arrival_order rank (cl_witnesses sig c)) = (msgs, s1) /\
      st_log sig W s1 = pre ++ st_log sig W s /\
      exists w h b, In w (cl_witnesses sig c) /\ w <> cl_primary sig c /\
                    In (w, h, P_block sig b) pre /\
                    lb_hash sig hash b = lb_hash sig hash target.
Proof.
  intros sig sv hash vhash bid_hash W ask rank P.
  exact (confirmation_by_other_provider sig sv hash vhash bid_hash W ask rank P).
Qed.
Print Assumptions C09_confirmation_by_other_provider.

(* A witness goroutine sends nil only after this witness answered, in this comparison, with a
   block of the identical header hash: no response, "not found", a lagging witness, a context
   error, an invalid block or a different header never turn into a confirmation. *)
Theorem C09_nil_only_for_identical_header :
  forall (sig : Type) (hash : header -> Z) (W : Type) (ask : W -> pid -> Z -> preply sig * W)
         (s : st sig W) (target : lblock sig) (w : pid) (i : nat) (msgs : list (msg sig)) (s' : st sig W),
    compare_new_header_with_witness sig hash W ask s target w i = (msgs, s') ->
    exists pre, st_log sig W s' = pre ++ st_log sig W s /\
      (In (M_nil sig) msgs ->
       exists h b, In (w, h, P_block sig b) pre /\ lb_hash sig hash b = lb_hash sig hash target).
Proof. exact compare_nil_match. Qed.
Print Assumptions C09_nil_only_for_identical_header.

(* If detectDivergence returns nil, every witness whose message was a conflicting header (it could
   not be verified, else the attack error below) or an invalid block has been removed from the
   witness list. *)
Theorem C09_conflict_yields_removal :
  forall (sig : Type) (sv : key -> signmsg -> sig -> bool) (hash : header -> Z)
         (vhash : list validator -> Z) (bid_hash : blockid -> Z)
         (W : Type) (ask : W -> pid -> Z -> preply sig * W) (rank : pid -> Z)
         (P : params) (c : client sig) (s : st sig W) (t0 : lblock sig) (rest : list (lblock sig))
         (now : Z) (c' : client sig) (s' : st sig W),
    detect_divergence sig sv hash vhash bid_hash W ask rank P c s (t0 :: rest) now = (None, c', s') ->
    exists msgs s1 rm,
      compare_all sig hash W ask s (last (t0 :: rest) t0) (arrival_order rank (cl_witnesses sig c)) = (msgs, s1) /\
      rm = removed sig (firstn (length (cl_witnesses sig c)) msgs) /\
      remove_witnesses (cl_witnesses sig c) rm = Some (cl_witnesses sig c') /\
      (forall b i, In (M_conflict sig b i) (firstn (length (cl_witnesses sig c)) msgs) -> In i rm).
Proof. exact trusted_removes_conflicting. Qed.
Print Assumptions C09_conflict_yields_removal.

(* A conflicting header that the witness can back (examineConflictingHeaderAgainstTrace succeeds)
   ends the loop with the attack verdict ... *)
Theorem C09_conflict_yields_attack :
  forall (sig : Type) (S : Type) (handle : S -> lblock sig -> nat -> hc_result * S)
         (msgs : list (msg sig)) (s : S) (matched : bool) (rm : list nat) (s' : S),
    detect_loop sig handle s msgs matched rm = (DD_attack, s') ->
    exists sa b i, In (M_conflict sig b i) msgs /\ handle sa b i = (HC_attack, s').
Proof. intros sig S handle. exact (detect_loop_attack sig handle). Qed.
Print Assumptions C09_conflict_yields_attack.

(* ... and ErrLightClientAttack is returned only after evidence against the primary has been
   reported to that witness.  (Evidence against the witness is sent to the primary when the
   primary answers the reverse examination; that direction is best effort in the code.) *)
Theorem C09_attack_has_evidence :
  forall (sig : Type) (sv : key -> signmsg -> sig -> bool) (hash : header -> Z)
         (vhash : list validator -> Z) (bid_hash : blockid -> Z)
         (W : Type) (ask : W -> pid -> Z -> preply sig * W) (rank : pid -> Z)
         (P : params) (c : client sig) (s : st sig W) (trace : list (lblock sig)) (now : Z)
         (c' : client sig) (s' : st sig W),
    detect_divergence sig sv hash vhash bid_hash W ask rank P c s trace now = (Some X_attack, c', s') ->
    exists i e, In (nth i (cl_witnesses sig c) 0, e) (st_ev sig W s').
Proof. exact attack_has_evidence. Qed.
Print Assumptions C09_attack_has_evidence.

(* The verdict "trusted" of the detector loop does not depend on the order in which the witness
   messages arrive (for examinations whose outcome does not depend on that order), and the
   removal lists are rearrangements of each other. *)
Theorem C09_order_independent :
  forall (sig : Type) (hv : lblock sig -> nat -> hc_result) (msgs msgs' : list (msg sig)),
    Permutation msgs msgs' ->
    (is_trusted (pure_loop sig hv msgs false []) <-> is_trusted (pure_loop sig hv msgs' false [])) /\
    Permutation (removed sig msgs) (removed sig msgs').
Proof.
  intros sig hv msgs msgs' Hp. split; [apply order_independent; exact Hp | apply removed_perm; exact Hp].
Qed.
Print Assumptions C09_order_independent.

(* The loop says "trusted" iff a nil message was read, no conflicting header was backed, and no
   context error arrived. *)
Theorem C09_trusted_iff :
  forall (sig : Type) (hv : lblock sig -> nat -> hc_result) (msgs : list (msg sig)),
    is_trusted (pure_loop sig hv msgs false []) <->
    (In (M_nil sig) msgs /\ Forall (msg_fine sig hv) msgs).
Proof.
  intros sig hv msgs. rewrite (pure_loop_trusted_iff sig hv msgs false []).
  split; [intros [[H|H] F]; [discriminate | split; assumption] | intros [H F]; split; [right; exact H | exact F]].
Qed.
Print Assumptions C09_trusted_iff.

(* ---- non-vacuity and the two refuted statements (closed computations) ---------------------- *)

Definition xP : params :=
  {| p_chain := 7; p_period := 1000; p_drift := 0; p_num := 1; p_den := 3;
     p_sequential := false; p_prune := 0 |}.
Definition xPseq : params :=
  {| p_chain := 7; p_period := 1000; p_drift := 0; p_num := 1; p_den := 3;
     p_sequential := true; p_prune := 0 |}.

Definition setA : list validator :=
  [ {| v_addr := 11; v_key := 11; v_power := 1 |}; {| v_addr := 12; v_key := 12; v_power := 1 |};
    {| v_addr := 13; v_key := 13; v_power := 1 |} ].
Definition setB : list validator :=
  [ {| v_addr := 21; v_key := 21; v_power := 2 |}; {| v_addr := 22; v_key := 22; v_power := 1 |};
    {| v_addr := 23; v_key := 23; v_power := 1 |} ].

Definition xhash (h : header) : Z := h_tag h.
Definition xvhash (vs : list validator) : Z := fold_left (fun a v => a * 31 + v_key v * 7 + v_power v) vs 0.
Definition xbid (b : blockid) : Z := b.

(* heights 1,2 have set A (next of 2 is B), heights 3..5 set B; everybody signs *)
Definition set_at (h : Z) := if h <=? 2 then setA else setB.
Definition xslot (h tag : Z) (v : validator) : commitsig isig :=
  {| cs_flag := block_id_flag_commit; cs_addr := v_addr v; cs_ts := 0;
     cs_sig := Signed (v_key v) (sign_msg 7 h 0 tag 0) |}.
Definition xblk_with (h tag time : Z) (signers : list validator) : lblock isig :=
  {| lb_hdr := {| h_chain := 7; h_height := h; h_time := time; h_last_bid := 100 + h - 1;
                  h_vals_hash := xvhash (set_at h); h_next_vals_hash := xvhash (set_at (h + 1));
                  h_cons := 0; h_app := 0; h_res := 0; h_fmt_ok := true; h_tag := tag |};
     lb_commit := {| c_height := h; c_round := 0; c_bid := tag;
                     c_sigs := map (xslot h tag) signers |};
     lb_vals := set_at h; lb_vals_fmt_ok := true |}.
Definition xblk (h : Z) : lblock isig := xblk_with h (100 + h) (10 * h) (set_at h).

(* honest providers: the chain 1..5 *)
Definition ask_honest (w : unit) (p : pid) (h : Z) : preply isig * unit :=
  if h =? 0 then (P_block isig (xblk 5), w)
  else if (1 <=? h) && (h <=? 5) then (P_block isig (xblk h), w)
  else (P_err isig PE_not_found, w).

Definition s0 {W} (w : W) : st isig W := {| st_w := w; st_log := []; st_ev := [] |}.
Definition xrank (p : pid) : Z := p.

(* the clause list is satisfiable: an adjacent and a non-adjacent step are accepted; exactly 1/3 of
   the trusted power is NOT enough (trust level is strict), exactly 2/3 of the own set neither *)
Example C09_verify_nonvacuous :
  verify isig ideal_verify xhash xvhash xbid xP (xblk 1) setA (xblk 2) 60 = E_ok /\
  verify isig ideal_verify xhash xvhash xbid xP (xblk 3) setB (xblk 5) 60 = E_ok /\
  verify isig ideal_verify xhash xvhash xbid xP (xblk 1) setA (xblk 5) 60 = E_cant_trust /\
  (* set B = powers 2,1,1: validator 22 alone holds exactly 1/4, 21 alone exactly 1/2 > 1/3 *)
  verify isig ideal_verify xhash xvhash xbid xP (xblk 3) setB (xblk_with 5 105 50 setB) 60 = E_ok /\
  (* a header from the future (time 50, now 50, drift 0) and an expired trusted header *)
  verify isig ideal_verify xhash xvhash xbid xP (xblk 3) setB (xblk 5) 50 = E_invalid /\
  verify isig ideal_verify xhash xvhash xbid xP (xblk 3) setB (xblk 5) 1030 = E_expired.
Proof. vm_compute. repeat split; reflexivity. Qed.

(* bisection really bisects: 1 -> 5 is verified through 2 and 3 *)
Example C09_skipping_nonvacuous :
  match verify_skipping isig ideal_verify xhash xvhash xbid unit ask_honest xP 1 (s0 tt) (xblk 1) (xblk 5) 60 with
  | (inl tr, _) => map (lb_height isig) tr = [1; 2; 3; 5]
  | _ => False
  end.
Proof. vm_compute. reflexivity. Qed.

(* the hypotheses of C09_store_sound are satisfiable: a client rooted at height 3 verifies 5
   (forwards, cross-checked by witnesses 2 and 3), then 1 (backwards), then 4 (between) *)
Example C09_store_nonvacuous :
  match initialize isig ideal_verify xhash xvhash xbid unit ask_honest xrank xP 1 [2; 3] (s0 tt) 3 103 with
  | (None, c0, s1) =>
    map (lb_height isig) (cl_store isig (fst (run_final isig ideal_verify xhash xvhash xbid unit ask_honest xrank xP
                                                c0 s1 [Op_verify_at 5 60; Op_verify_at 1 60; Op_verify_at 4 60])))
    = [1; 3; 4; 5]
  | _ => False
  end /\
  provider_contract isig xvhash unit ask_honest.
Proof.
  split; [vm_compute; reflexivity|].
  intros w p h b w' H. unfold ask_honest in H.
  destruct (h =? 0); [injection H as <- _; vm_compute; reflexivity|].
  destruct ((1 <=? h) && (h <=? 5)) eqn:E; [|discriminate].
  injection H as <- _. unfold vals_bound, xblk, xblk_with. cbn [lb_hdr lb_vals h_vals_hash]. reflexivity.
Qed.

(* the same in sequential mode *)
Example C09_store_nonvacuous_sequential :
  match initialize isig ideal_verify xhash xvhash xbid unit ask_honest xrank xPseq 1 [2; 3] (s0 tt) 1 101 with
  | (None, c0, s1) =>
    map (lb_height isig) (cl_store isig (fst (run_final isig ideal_verify xhash xvhash xbid unit ask_honest xrank xPseq
                                                c0 s1 [Op_verify_at 4 60; Op_update 60])))
    = [1; 4; 5]
  | _ => False
  end.
Proof. vm_compute. reflexivity. Qed.

(* ---- F2: why compareNewHeaderWithWitness needs the `return` ----------------------------------- *)

(* a liar's block for height 5 (different hash, signed by nobody the client knows) *)
Definition liar5 : lblock isig := xblk_with 5 999 50 [].

(* Unrepaired goroutine: after the conflict message it also sends nil.  With witnesses
   [liar; silent] and the liar's messages arriving first, the loop reads [conflict; nil]: the
   conflicting header cannot be verified (witness removed) and the header is TRUSTED although no
   witness returned it.  The repaired goroutine sends the conflict only: not trusted. *)
Example C09_confirmation_refuted_unfixed :
  let unverifiable := fun (_ : unit) (_ : lblock isig) (_ : nat) => (HC_not_attack, tt) in
  compare_hash_unfixed isig xhash (xblk 5) liar5 0 = [M_conflict isig liar5 0; M_nil isig] /\
  fst (detect_loop isig unverifiable tt
         (firstn 2 (compare_hash_unfixed isig xhash (xblk 5) liar5 0 ++ [M_benign isig])) false [])
    = DD_trusted [0%nat] /\
  fst (detect_loop isig unverifiable tt
         (firstn 2 (compare_hash isig xhash (xblk 5) liar5 0 ++ [M_benign isig])) false [])
    = DD_crossref [0%nat].
Proof. vm_compute. repeat split; reflexivity. Qed.

(* ---- F23: why backwards needs the final comparison ------------------------------------------- *)

(* forged, self-consistent block for height 2 (other hash) *)
Definition forged2 : lblock isig := xblk_with 2 777 15 [].

(* an equivocating primary: the first request for height 2 is answered with the forged block,
   all later requests with the genuine chain *)
Definition ask_equiv (w : bool) (p : pid) (h : Z) : preply isig * bool :=
  if (p =? 1) && (h =? 2) && negb w then (P_block isig forged2, true)
  else (fst (ask_honest tt p h), w).

(* A client rooted at height 4 is asked for height 2.  The primary's forged block is fetched, the
   hash-chain walk 4 -> 3 -> 2 is done with freshly fetched genuine headers.  Unrepaired code:
   success, i.e. the forged block would be stored.  Repaired code: ErrInvalidHeader, nothing
   stored. *)
Example C09_backwards_refuted_unfixed :
  let c4 := {| cl_primary := 1; cl_witnesses := [2; 3]; cl_store := [xblk 4]; cl_latest := Some (xblk 4) |} in
  fst (fst (backwards_unfixed isig xhash bool ask_equiv xrank 10 c4 (s0 true) (lb_hdr isig (xblk 4)) (lb_hdr isig forged2)))
    = None /\
  fst (fst (backwards isig xhash bool ask_equiv xrank 10 c4 (s0 true) (lb_hdr isig (xblk 4)) (lb_hdr isig forged2)))
    = Some X_back_invalid /\
  (match verify_at isig ideal_verify xhash xvhash xbid bool ask_equiv xrank xP c4 (s0 false) 2 60 with
   | (e, c', _) => (e, map (lb_hash isig xhash) (cl_store isig c'))
   end) = (Some X_back_invalid, [104]) /\
  (* with an honest primary the same call stores the genuine header 2 *)
  (match verify_at isig ideal_verify xhash xvhash xbid unit ask_honest xrank xP c4 (s0 tt) 2 60 with
   | (e, c', _) => (e, map (lb_hash isig xhash) (cl_store isig c'))
   end) = (None, [102; 104]).
Proof. vm_compute. repeat split; reflexivity. Qed.

(* ---- the detector: non-vacuity ----------------------------------------------------------------- *)

(* witness 2 serves a fork block for height 5 signed by set B (more than 1/3 of the trusted set
   of height 3): the witness can back it from the common block 3, so the client halts with the
   attack error and reports evidence; witness 3 never gets to confirm *)
Definition fork5 : lblock isig := xblk_with 5 555 50 setB.
Definition ask_fork (w : unit) (p : pid) (h : Z) : preply isig * unit :=
  if (p =? 2) && ((h =? 5) || (h =? 0)) then (P_block isig fork5, w) else ask_honest w p h.

Example C09_attack_nonvacuous :
  let c3 := {| cl_primary := 1; cl_witnesses := [2; 3]; cl_store := [xblk 3]; cl_latest := Some (xblk 3) |} in
  (match verify_at isig ideal_verify xhash xvhash xbid unit ask_fork xrank xP c3 (s0 tt) 5 60 with
   | (e, c', s') => (e, map (lb_height isig) (cl_store isig c'),
                     map (fun pe => (fst pe, lb_hash isig xhash (ev_block isig (snd pe)), ev_common isig (snd pe)))
                         (st_ev isig unit s'))
   end) = (Some X_attack, [3], [(1, 555, 5); (2, 105, 5)]) /\
  (* a liar that cannot back its header is removed and the honest witness confirms *)
  (match verify_at isig ideal_verify xhash xvhash xbid unit
           (fun w p h => if (p =? 2) && (h =? 5) then (P_block isig liar5, w) else ask_honest w p h)
           xrank xP c3 (s0 tt) 5 60 with
   | (e, c', _) => (e, map (lb_height isig) (cl_store isig c'), cl_witnesses isig c')
   end) = (None, [3; 5], [3]) /\
  (* liar + silent witness: no confirmation, nothing stored *)
  (match verify_at isig ideal_verify xhash xvhash xbid unit
           (fun w p h => if (p =? 2) && (h =? 5) then (P_block isig liar5, w)
                         else if p =? 3 then (P_err isig PE_no_response, w) else ask_honest w p h)
           xrank xP c3 (s0 tt) 5 60 with
   | (e, c', _) => (e, map (lb_height isig) (cl_store isig c'), cl_witnesses isig c')
   end) = (Some X_crossref, [3], [3]).
Proof. vm_compute. repeat split; reflexivity. Qed.

(* ---- F50: why findNewPrimary must promote the respondent only after the removal ------------- *)

(* primary 1, witnesses [2; 3]: witness 3 answered with an invalid block first (marked for removal),
   then witness 2 with a block.  removeWitnesses([1; 0]) refuses to empty the list.  Unrepaired
   loop: provider 2 has been made primary already and stays a witness.  Repaired loop: nothing
   changes.  With the unrepaired provider lists and witness 3 silent, a verification of height 5
   ends TRUSTED although provider 2 - the primary - is the only one that returned the header. *)
Example C09_self_confirmation_refuted_unfixed :
  let c3 := {| cl_primary := 1; cl_witnesses := [2; 3]; cl_store := [xblk 3]; cl_latest := Some (xblk 3) |} in
  let resp := [(1%nat, P_err isig PE_bad); (0%nat, P_block isig (xblk 5))] in
  let providers := fun rc : (lblock isig + cerr) * client isig =>
                     (cl_primary isig (snd rc), cl_witnesses isig (snd rc)) in
  let ask_silent3 := fun (w : unit) (p : pid) (h : Z) =>
                       if p =? 3 then (P_err isig PE_no_response, w) else ask_honest w p h in
  providers (fnp_loop_unfixed isig c3 true resp [] X_other) = (2, [2; 3]) /\
  providers (fnp_loop isig c3 true resp [] X_other) = (1, [2; 3]) /\
  fst (fnp_loop isig c3 true resp [] X_other) = inr X_no_witnesses /\
  (let c' := snd (fnp_loop_unfixed isig c3 true resp [] X_other) in
   match verify_at isig ideal_verify xhash xvhash xbid unit ask_silent3 xrank xP c' (s0 tt) 5 60 with
   | (e, c'', s') => (e, map (lb_height isig) (cl_store isig c''),
                      map (fun x => fst (fst x)) (filter (fun x => match snd x with P_block _ _ => true | _ => false end)
                                                         (st_log isig unit s')))
   end) = (None, [3; 5], [2; 2]) /\
  (* with pairwise different providers the same situation is not trusted *)
  (match verify_at isig ideal_verify xhash xvhash xbid unit ask_silent3 xrank xP
                   {| cl_primary := 2; cl_witnesses := [3]; cl_store := [xblk 3]; cl_latest := Some (xblk 3) |}
                   (s0 tt) 5 60 with
   | (e, c'', _) => (e, map (lb_height isig) (cl_store isig c''))
   end) = (Some X_crossref, [3]).
Proof. vm_compute. repeat split; reflexivity. Qed.

(* ==== the evidence: contents, admission by a full node, both sides (C09/EvidenceModel.v,
   C09/ProofsEvidence.v; cross-property with C11) ==================================================

   Reading guide.  [evid_full] extends the evidence of Model.v by Timestamp, TotalVotingPower and
   ByzantineValidators as light/detector.go newLightClientAttackEvidence fills them;
   GetByzantineValidators is C11.Model.byz_validators applied to the translated arguments.
   [hc_full fx ...] is the list (receiver, evidence), newest first, handleConflictingHeaders
   reports.  [fx] = true is the code as it is (repair F77,
   fixes/F77-detector-byzantine-validators-of-evidence-height.diff, is applied to the
   repository), [fx] = false the code before that repair, kept as the regression witness.  The
   full evidence of [hc_full true] is compared with the implementation's evidence (Timestamp,
   TotalVotingPower, ByzantineValidators in order) on every run of the correspondence
   (C09/EvidenceRun.v threads it through the call tree; Exec.v observables 17, 18), and three
   monitors re-check the statements below on the implementation's own evidence: the specification
   C11/Spec.v on its fields (clause 8), a real evidence.Pool over the honest chain admitting it
   (clause 9), and no header stored while a witness holds and can back the honest one (clause 10).  [an] / [hn] translate addresses / hashes into C11's opaque
   identities.  [no_collision bs x]: no block of bs has x's header hash without having x's header
   and validator set.  [node_env node top]: the chain a full node holds, as C11's environment. *)
From TM Require Import C09.EvidenceModel C09.EvidenceRun C09.ProofsEvidence.
From TM Require C11.Model C11.Spec C11.SpecProofs.
From Coq Require Import Lia.

(* the evidence Model.handle_conflicting records in st_ev - what the correspondence run compares
   with the implementation (observable 15) - is the projection (ConflictingBlock, CommonHeight) of
   the full evidence, in the same order, to the same receivers *)
Theorem C09_evidence_reported_is_projection :
  forall (sig : Type) (sv : key -> signmsg -> sig -> bool) (hash : header -> Z)
         (vhash : list validator -> Z) (bid_hash : blockid -> Z) (an hn : Z -> N)
         (W : Type) (ask : W -> pid -> Z -> preply sig * W)
         (fx : bool) (P : params) (c : client sig) (now : Z) (s : st sig W)
         (ptrace : list (lblock sig)) (b : lblock sig) (i : nat) (r : hc_result) (s' : st sig W),
    handle_conflicting sig sv hash vhash bid_hash W ask P c now s ptrace b i = (r, s') ->
    st_ev sig W s' =
    proj_all sig (hc_full sig sv hash vhash bid_hash an hn W ask fx P c now s ptrace b i) ++ st_ev sig W s.
Proof. exact hc_full_reports. Qed.
Print Assumptions C09_evidence_reported_is_projection.

(* every evidence reported is newLightClientAttackEvidence(conflicted, last of the source's trace,
   first of the source's trace) of a successful examineConflictingHeaderAgainstTrace of a trace
   that was verified step by step: the primary's trace examined with the witness as source
   (receiver: that witness), or the witness's trace returned by that examination examined with
   the primary as source (receiver: the primary) *)
Theorem C09_evidence_origin :
  forall (sig : Type) (sv : key -> signmsg -> sig -> bool) (hash : header -> Z)
         (vhash : list validator -> Z) (bid_hash : blockid -> Z) (an hn : Z -> N)
         (W : Type) (ask : W -> pid -> Z -> preply sig * W)
         (fx : bool) (P : params) (c : client sig) (now : Z) (s : st sig W)
         (ptrace : list (lblock sig)) (b : lblock sig) (i : nat) (r : pid) (e : evid_full sig),
    linked (V sig sv hash vhash bid_hash P now) ptrace ->
    In (r, e) (hc_full sig sv hash vhash bid_hash an hn W ask fx P c now s ptrace b i) ->
    exists source s0 xtrace target conflicted common wr s1,
      linked (V sig sv hash vhash bid_hash P now) xtrace /\
      examine_conflicting sig sv hash vhash bid_hash W ask P source now s0 xtrace target
        = (Some (common :: wr, conflicted), s1) /\
      e = new_evidence_full sig sv hash vhash bid_hash an hn fx conflicted (last (common :: wr) common) common /\
      r = source /\
      ( (source = nth i (cl_witnesses sig c) 0 /\ xtrace = ptrace /\ target = b /\ s0 = s)
        \/ (source = cl_primary sig c /\ In target ptrace /\
            exists s', examine_conflicting sig sv hash vhash bid_hash W ask P (nth i (cl_witnesses sig c) 0)
                                           now s ptrace b = (Some (xtrace, target), s')) ).
Proof. exact evidence_origin. Qed.
Print Assumptions C09_evidence_origin.

(* the functions of C09/EvidenceRun.v, which thread the full evidence through the client's entry
   points so that Exec.v can compare it with the implementation's evidence on every run, are
   Model.v's call tree: dropping the full evidence gives Model.step, for every operation, client,
   state and provider behaviour *)
Theorem C09_evidence_run_refines_step :
  forall (sig : Type) (sv : key -> signmsg -> sig -> bool) (hash : header -> Z)
         (vhash : list validator -> Z) (bid_hash : blockid -> Z) (an hn : Z -> N)
         (W : Type) (ask : W -> pid -> Z -> preply sig * W) (rank : pid -> Z)
         (P : params) (c : client sig) (s : st sig W) (o : op),
    pr sig W (EvidenceRun.step_full sig sv hash vhash bid_hash an hn W ask rank P c s o) =
    step sig sv hash vhash bid_hash W ask rank P c s o.
Proof. exact step_full_refines. Qed.
Print Assumptions C09_evidence_run_refines_step.

(* (1) the contents.  For every successful examination of a verified trace [xtrace] (the accused
   side) with the other side as source: ConflictingBlock is a block of xtrace the client verified
   directly from its predecessor there; the common block (first of the source's verified trace)
   is the source's block with that predecessor's hash, the trusted block the last of the
   source's trace (the target itself in a same-height conflict).  CommonHeight / Timestamp /
   TotalVotingPower are those of the common block for a lunatic conflict
   (ConflictingHeaderIsInvalid) and of the trusted block otherwise - the conflicting block's own
   height in a same-height conflict.  ByzantineValidators = GetByzantineValidators(bv, trusted
   signed header) of the conflicting block, which is THE list C11's specification names (C11
   Spec.byz_ok: members of [bv] with their power there, who signed as the kind of attack says,
   power descending then address ascending) under C11's well-formedness premise [byz_wf]; [bv] is
   the common block's validator set, and with repair F77 the validator set of the evidence's
   height ([base]) in every case. *)
Theorem C09_evidence_contents :
  forall (sig : Type) (sv : key -> signmsg -> sig -> bool) (hash : header -> Z)
         (vhash : list validator -> Z) (bid_hash : blockid -> Z) (an hn : Z -> N)
         (W : Type) (ask : W -> pid -> Z -> preply sig * W)
         (fx : bool) (P : params) (source : pid) (now : Z) (s : st sig W)
         (xtrace : list (lblock sig)) (target conflicted : lblock sig) (s' : st sig W)
         (common : lblock sig) (wr : list (lblock sig))
         (trusted : lblock sig) (lun : bool) (base bv : lblock sig) (chain : Z),
    linked (V sig sv hash vhash bid_hash P now) xtrace ->
    examine_conflicting sig sv hash vhash bid_hash W ask P source now s xtrace target
      = (Some (common :: wr, conflicted), s') ->
    trusted = last (common :: wr) common ->
    lun = conflicting_header_is_invalid (lb_hdr sig conflicted) (lb_hdr sig trusted) ->
    base = (if lun then common else trusted) ->
    bv = (if lun then common else if fx then trusted else common) ->
    chain = h_chain (lb_hdr sig trusted) ->
    no_collision sig hash xtrace trusted ->
    let e := new_evidence_full sig sv hash vhash bid_hash an hn fx conflicted trusted common in
    (exists l1 pred l2, xtrace = l1 ++ pred :: conflicted :: l2 /\
                        V sig sv hash vhash bid_hash P now pred conflicted /\
                        lb_hash sig hash common = lb_hash sig hash pred) /\
    linked (V sig sv hash vhash bid_hash P now) (common :: wr) /\
    ef_block sig e = conflicted /\
    ef_common sig e = lb_height sig base /\ ef_time sig e = lb_time sig base /\
    ef_total sig e = total_power (lb_vals sig base) /\
    (lun = false -> lb_height sig conflicted = lb_height sig target ->
     ef_common sig e = lb_height sig conflicted) /\
    (lb_height sig conflicted = lb_height sig target -> trusted = target) /\
    ef_byz sig e = E.byz_validators (lca_core sig sv hash vhash bid_hash an hn chain conflicted)
                                    (to_vals an (lb_vals sig bv)) (to_header sig hash hn trusted) /\
    (forall tvals,
       TM.C11.SpecProofs.byz_wf (lca_core sig sv hash vhash bid_hash an hn chain conflicted)
                                (to_vals an (lb_vals sig bv)) tvals (to_header sig hash hn trusted) ->
       ES.byz_ok (lca_core sig sv hash vhash bid_hash an hn chain conflicted)
                 (to_vals an (lb_vals sig bv)) tvals (to_header sig hash hn trusted) (ef_byz sig e) = true) /\
    (fx = true -> bv = base).
Proof. exact evidence_contents. Qed.
Print Assumptions C09_evidence_contents.

(* the link between the two verifications: a commit accepted by VerifyCommitLightTrusting at the
   client's trust level (ValidateTrustLevel: at least 1/3) is accepted at the level 1/3 at which
   evidence.VerifyLightClientAttack re-checks it *)
Theorem C09_trust_level_covers_one_third :
  forall (sig : Type) (sv : key -> signmsg -> sig -> bool) (vs : list validator) (chain : Z)
         (c : commit sig) (num den : Z),
    wf_valset vs -> 0 <= num <= max_int64 -> 0 < den <= max_int64 -> den <= 3 * num ->
    verify_commit_light_trusting sv vs chain c num den = R_ok ->
    verify_commit_light_trusting sv vs chain c 1 3 = R_ok.
Proof. exact trusting_level_third. Qed.
Print Assumptions C09_trust_level_covers_one_third.

(* (2) admission.  The evidence of the detector (the code as it is, [fx] = true), formed from a
   successful examination of the accused side's verified trace, passes C11's model of Pool.verify /
   VerifyLightClientAttack (with F57 / F60) at a full node on the trusted side.  Premises, all
   named:  hashes translate injectively; no block of the examined trace collides with the common
   / the trusted block; the client's trust level is within int64 and at least 1/3; the validator
   set of the evidence's height is well formed; the node holds the block of the evidence's height
   ([base]: the common block if lunatic, else the trusted block) and the trusted block - at the
   conflicting block's height, or as its latest block, not older than the conflicting block, when
   the conflicting block is above its chain (node_has_trusted); the evidence is not older than
   BOTH age limits at the node's state; every signature FOR the conflicting block is by the
   validator of its index and verifies (all_for_block_ok - repair F60 verifies all of them, the
   light client only the first +2/3); and the skipping step of VerifyLightClientAttack: DERIVED
   from the client's own verification for a lunatic conflict whose conflicting block is not
   adjacent to the common block (first disjunct), not needed for a same-height non-lunatic
   conflict (second), and a PREMISE otherwise - an adjacent lunatic block was admitted by
   NextValidatorsHash alone, nothing says that 1/3 of the common set signed it. *)
Theorem C09_evidence_is_admissible :
  forall (sig : Type) (sv : key -> signmsg -> sig -> bool) (hash : header -> Z)
         (vhash : list validator -> Z) (bid_hash : blockid -> Z) (an hn : Z -> N),
    (forall a b, hn a = hn b -> a = b) ->
  forall (W : Type) (ask : W -> pid -> Z -> preply sig * W)
         (P : params) (now : Z) (source : pid) (s : st sig W) (ptrace : list (lblock sig))
         (target pblock : lblock sig) (s' : st sig W) (common : lblock sig) (wr : list (lblock sig))
         (node : Z -> option (lblock sig)) (top : Z) (pst : E.pstate)
         (trusted : lblock sig) (lun : bool) (base : lblock sig) (chain : Z),
    linked (V sig sv hash vhash bid_hash P now) ptrace ->
    examine_conflicting sig sv hash vhash bid_hash W ask P source now s ptrace target
      = (Some (common :: wr, pblock), s') ->
    trusted = last (common :: wr) common ->
    lun = conflicting_header_is_invalid (lb_hdr sig pblock) (lb_hdr sig trusted) ->
    base = (if lun then common else trusted) ->
    chain = h_chain (lb_hdr sig trusted) ->
    no_collision sig hash ptrace common -> no_collision sig hash ptrace trusted ->
    0 <= p_num P <= max_int64 -> 0 < p_den P <= max_int64 -> p_den P <= 3 * p_num P ->
    wf_valset (lb_vals sig base) ->
    node (lb_height sig base) = Some base ->
    node_has_trusted sig node top trusted pblock ->
    ((E.s_time pst - lb_time sig base >? E.s_max_dur pst) &&
     (E.s_height pst - lb_height sig base >? E.s_max_blocks pst)) = false ->
    all_for_block_ok sig sv an chain pblock ->
    ( (lun = true /\ lb_height sig pblock <> lb_height sig common + 1)
      \/ (lun = false /\ lb_height sig trusted = lb_height sig pblock)
      \/ verify_commit_light_trusting sv (lb_vals sig base) chain (lb_commit sig pblock) 1 3 = R_ok ) ->
    E.verify (node_env sig hash an hn node top) pst
             (to_evidence sig sv hash vhash bid_hash an hn chain (lb_vals sig base)
                (new_evidence_full sig sv hash vhash bid_hash an hn true pblock trusted common)) = true.
Proof. exact evidence_admissible. Qed.
Print Assumptions C09_evidence_is_admissible.

(* (3) both sides - EXACTLY what handleConflictingHeaders reports and returns.  Nothing when the
   witness cannot back its header from the primary's trace (the witness is removed).  Otherwise
   the evidence against the primary is sent to the witness FIRST, in every case (also when the
   call then panics on an empty trace).  The evidence against the witness is sent to the
   primary if and only if the reverse examination - the witness's trace, against the primary as
   source - succeeds with a non-empty trace, i.e. the primary answers the requests for the
   heights of the witness's trace, its block at the common height has the common block's hash,
   and its blocks verify by bisection up to a block that differs from the witness's.  A primary
   that stays silent, no longer serves its fork, or differs at the common height gets nothing;
   the call still ends with the attack verdict. *)
Theorem C09_evidence_for_both_sides :
  forall (sig : Type) (sv : key -> signmsg -> sig -> bool) (hash : header -> Z)
         (vhash : list validator -> Z) (bid_hash : blockid -> Z) (an hn : Z -> N)
         (W : Type) (ask : W -> pid -> Z -> preply sig * W)
         (fx : bool) (P : params) (c : client sig) (now : Z) (s : st sig W)
         (ptrace : list (lblock sig)) (b : lblock sig) (i : nat),
    let sw := nth i (cl_witnesses sig c) 0 in
    let hc := handle_conflicting sig sv hash vhash bid_hash W ask P c now s ptrace b i in
    let full := hc_full sig sv hash vhash bid_hash an hn W ask fx P c now s ptrace b i in
    match examine_conflicting sig sv hash vhash bid_hash W ask P sw now s ptrace b with
    | (None, s1) => hc = (HC_not_attack, s1) /\ full = []
    | (Some ([], _), s1) => hc = (HC_panic, s1) /\ full = []
    | (Some (common :: wr, pblock), s1) =>
      let wtrace := common :: wr in
      let e1 := new_evidence_full sig sv hash vhash bid_hash an hn fx pblock (last wtrace common) common in
      let s2 := reportS sig W s1 sw (ef_proj sig e1) in
      match examine_conflicting sig sv hash vhash bid_hash W ask P (cl_primary sig c) now s2 wtrace pblock with
      | (None, s3) => hc = (HC_attack, s3) /\ full = [(sw, e1)]
      | (Some ([], _), s3) => hc = (HC_panic, s3) /\ full = [(sw, e1)]
      | (Some (common' :: pr, wblock), s3) =>
        let e2 := new_evidence_full sig sv hash vhash bid_hash an hn fx wblock
                                    (last (common' :: pr) common') common' in
        hc = (HC_attack, reportS sig W s3 (cl_primary sig c) (ef_proj sig e2)) /\
        full = [(cl_primary sig c, e2); (sw, e1)]
      end
    end.
Proof. exact hc_cases. Qed.
Print Assumptions C09_evidence_for_both_sides.

(* ---- non-vacuity and the refuted variants ---------------------------------------------------- *)

(* injective translation of integers into C11's identities *)
Definition zn (z : Z) : N := Z.to_N (if 0 <=? z then 2 * z else - 2 * z - 1).
Lemma zn_inj : forall a b, zn a = zn b -> a = b.
Proof.
  intros a b H. unfold zn in H.
  destruct (0 <=? a) eqn:Ea; destruct (0 <=? b) eqn:Eb; apply Z2N.inj in H; lia.
Qed.

(* the same three validators at every height; their powers change at height 3 *)
Definition yA : list validator :=
  [ {| v_addr := 1; v_key := 1; v_power := 10 |}; {| v_addr := 2; v_key := 2; v_power := 10 |};
    {| v_addr := 3; v_key := 3; v_power := 10 |} ].
Definition yB : list validator :=
  [ {| v_addr := 1; v_key := 1; v_power := 10 |}; {| v_addr := 2; v_key := 2; v_power := 15 |};
    {| v_addr := 3; v_key := 3; v_power := 20 |} ].
Definition yset (h : Z) := if h <=? 2 then yA else yB.
Definition zblk (vs nvs : list validator) (h tag time app : Z) : lblock isig :=
  {| lb_hdr := {| h_chain := 7; h_height := h; h_time := time; h_last_bid := 100 + h - 1;
                  h_vals_hash := xvhash vs; h_next_vals_hash := xvhash nvs;
                  h_cons := 0; h_app := app; h_res := 0; h_fmt_ok := true; h_tag := tag |};
     lb_commit := {| c_height := h; c_round := 0; c_bid := tag; c_sigs := map (xslot h tag) vs |};
     lb_vals := vs; lb_vals_fmt_ok := true |}.
Definition yblk (h tag time app : Z) : lblock isig := zblk (yset h) (yset (h + 1)) h tag time app.
Definition yg (h : Z) : lblock isig := yblk h (100 + h) (10 * h) 0.        (* the chain, heights 1..4 *)
Definition yf4 : lblock isig := yblk 4 444 41 0.                           (* equivocation at height 4 *)
Definition yl4 : lblock isig := yblk 4 445 41 9.                           (* lunatic (other AppHash) at 4 *)
Definition yask (w : unit) (p : pid) (h : Z) : preply isig * unit :=
  if (1 <=? h) && (h <=? 4) then (P_block isig (yg h), w) else (P_err isig PE_not_found, w).
Definition ynode (h : Z) : option (lblock isig) := if (1 <=? h) && (h <=? 4) then Some (yg h) else None.
Definition ypst : E.pstate :=
  {| E.s_height := 5; E.s_time := 50; E.s_max_blocks := 100; E.s_max_dur := 1000; E.s_lastvals := [] |}.
Definition yverify (fx : bool) (pblock trusted common base : lblock isig) : bool :=
  E.verify (node_env isig xhash zn zn ynode 4) ypst
           (to_evidence isig ideal_verify xhash xvhash xbid zn zn 7 (lb_vals isig base)
              (new_evidence_full isig ideal_verify xhash xvhash xbid zn zn fx pblock trusted common)).

(* F77 - the regression witness for the code BEFORE the repair ([fx] = false).  The primary equivocates at height 4 (same derived hashes, same round, everybody signs both
   blocks); the client, rooted at height 1, verified 1 -> 4' in one skipping step; the witness
   backs the genuine block 4 from the common block 1.  CommonHeight = 4 (not lunatic), but the
   code looks the double signers up in the validator set of the COMMON block (height 1: powers
   10/10/10), the full node in the set of height 4 (10/15/20): the evidence of the detector
   before the repair is REFUSED by the honest full node, the evidence of the code as it is is
   admitted (bin/check on a tree without the repair: monitor clauses 8 and 9 fail with input).
   Replayed on the implementation (light.Client + evidence.Pool, 4 validators, powers
   10/10/10/10 -> 10/15/20/25): AddEvidence fails with 'evidence contained an unexpected
   byzantine validator address' without the repair and succeeds with it. *)
Example C09_evidence_unrepaired_F77_refuted :
  verify isig ideal_verify xhash xvhash xbid xP (yg 1) (lb_vals isig (yg 1)) yf4 60 = E_ok /\
  fst (examine_conflicting isig ideal_verify xhash xvhash xbid unit yask xP 2 60 (s0 tt) [yg 1; yf4] (yg 4))
    = Some ([yg 1; yg 4], yf4) /\
  conflicting_header_is_invalid (lb_hdr isig yf4) (lb_hdr isig (yg 4)) = false /\
  (let e := new_evidence_full isig ideal_verify xhash xvhash xbid zn zn false yf4 (yg 4) (yg 1) in
   (ef_common isig e, ef_total isig e, map E.va_power (ef_byz isig e)) = (4, 45, [10; 10; 10])) /\
  (let e := new_evidence_full isig ideal_verify xhash xvhash xbid zn zn true yf4 (yg 4) (yg 1) in
   (ef_common isig e, ef_total isig e, map E.va_power (ef_byz isig e)) = (4, 45, [20; 15; 10])) /\
  yverify false yf4 (yg 4) (yg 1) (yg 4) = false /\
  yverify true yf4 (yg 4) (yg 1) (yg 4) = true.
Proof. vm_compute. repeat split; reflexivity. Qed.

(* the premises of C09_evidence_is_admissible are satisfiable: the equivocation above (second
   disjunct of the skipping premise) and a lunatic block at height 4 verified by one skipping step
   from height 1 (first disjunct: the 1/3 of the common set is derived from the client's own
   verification); both evidences are admitted *)
Example C09_evidence_admissible_nonvacuous :
  (forall a b, zn a = zn b -> a = b) /\
  linked (V isig ideal_verify xhash xvhash xbid xP 60) [yg 1; yl4] /\
  examine_conflicting isig ideal_verify xhash xvhash xbid unit yask xP 2 60 (s0 tt) [yg 1; yl4] (yg 4)
    = (Some ([yg 1; yg 4], yl4), snd (examine_conflicting isig ideal_verify xhash xvhash xbid unit yask xP 2 60
                                         (s0 tt) [yg 1; yl4] (yg 4))) /\
  conflicting_header_is_invalid (lb_hdr isig yl4) (lb_hdr isig (yg 4)) = true /\
  no_collision isig xhash [yg 1; yl4] (yg 1) /\ no_collision isig xhash [yg 1; yl4] (yg 4) /\
  (0 <= p_num xP <= max_int64 /\ 0 < p_den xP <= max_int64 /\ p_den xP <= 3 * p_num xP) /\
  wf_valset (lb_vals isig (yg 1)) /\
  ynode (lb_height isig (yg 1)) = Some (yg 1) /\
  node_has_trusted isig ynode 4 (yg 4) yl4 /\
  all_for_block_ok isig ideal_verify zn 7 yl4 /\
  lb_height isig yl4 <> lb_height isig (yg 1) + 1 /\
  yverify true yl4 (yg 4) (yg 1) (yg 1) = true /\
  yverify true yf4 (yg 4) (yg 1) (yg 4) = true.
Proof.
  split; [exact zn_inj|]. split; [vm_compute; repeat split; reflexivity|].
  split; [vm_compute; reflexivity|]. split; [vm_compute; reflexivity|].
  split.
  { intros b [<-|[<-|[]]] H; vm_compute in H; try discriminate; split; reflexivity. }
  split.
  { intros b [<-|[<-|[]]] H; vm_compute in H; try discriminate; split; reflexivity. }
  split; [vm_compute; repeat split; discriminate|].
  split; [apply wf_valsetb_wf; vm_compute; reflexivity|].
  split; [vm_compute; reflexivity|].
  split; [left; split; vm_compute; reflexivity|].
  split; [vm_compute; reflexivity|].
  split; [vm_compute; discriminate|].
  split; vm_compute; reflexivity.
Qed.

(* the two premises the detector cannot discharge are needed.  (a) An ADJACENT lunatic block: the
   validator set changes completely from height 2 (set A) to height 3 (set B, as the genuine
   header 2 announces); set B signs a block 3 with another AppHash; the client accepts 2 -> 3' by
   NextValidatorsHash, the witness backs the genuine 3: the evidence (CommonHeight 2, no
   byzantine validator: nobody of set A signed) is refused by the full node - nobody of the common
   set signed, the skipping step of VerifyLightClientAttack fails.  (b) A conflicting commit
   whose last slot is flagged for the block but carries garbage: the client never looks at it
   (the first two slots hold more than 2/3), the full node refuses the evidence (F60). *)
Definition wA : list validator := setA.
Definition wB : list validator := setB.
Definition wg2 : lblock isig := zblk wA wB 2 102 20 0.
Definition wg3 : lblock isig := zblk wB wB 3 103 30 0.
Definition wl3 : lblock isig := zblk wB wB 3 333 31 9.
Definition wnode (h : Z) : option (lblock isig) :=
  if h =? 2 then Some wg2 else if h =? 3 then Some wg3 else None.
Definition garbage_last (b : lblock isig) : lblock isig :=
  {| lb_hdr := lb_hdr isig b;
     lb_commit := {| c_height := c_height (lb_commit isig b); c_round := c_round (lb_commit isig b);
                     c_bid := c_bid (lb_commit isig b);
                     c_sigs := match rev (c_sigs (lb_commit isig b)) with
                               | x :: r => rev ({| cs_flag := cs_flag x; cs_addr := cs_addr x; cs_ts := cs_ts x;
                                                   cs_sig := Garbage |} :: r)
                               | [] => []
                               end |};
     lb_vals := lb_vals isig b; lb_vals_fmt_ok := lb_vals_fmt_ok isig b |}.
Definition yC : list validator :=
  [ {| v_addr := 1; v_key := 1; v_power := 20 |}; {| v_addr := 2; v_key := 2; v_power := 20 |};
    {| v_addr := 3; v_key := 3; v_power := 5 |} ].
Definition cg (h : Z) : lblock isig := zblk yC yC h (100 + h) (10 * h) 0.
Definition cf4 : lblock isig := garbage_last (zblk yC yC 4 444 41 0).
Definition cnode (h : Z) : option (lblock isig) := if (1 <=? h) && (h <=? 4) then Some (cg h) else None.

Example C09_evidence_premises_needed :
  (* (a) *)
  verify isig ideal_verify xhash xvhash xbid xP wg2 (lb_vals isig wg2) wl3 60 = E_ok /\
  conflicting_header_is_invalid (lb_hdr isig wl3) (lb_hdr isig wg3) = true /\
  all_for_block_ok isig ideal_verify zn 7 wl3 /\
  ef_byz isig (new_evidence_full isig ideal_verify xhash xvhash xbid zn zn true wl3 wg3 wg2) = [] /\
  E.verify (node_env isig xhash zn zn wnode 3) ypst
           (to_evidence isig ideal_verify xhash xvhash xbid zn zn 7 (lb_vals isig wg2)
              (new_evidence_full isig ideal_verify xhash xvhash xbid zn zn true wl3 wg3 wg2)) = false /\
  (* (b) *)
  verify isig ideal_verify xhash xvhash xbid xP (cg 1) (lb_vals isig (cg 1)) cf4 60 = E_ok /\
  ~ all_for_block_ok isig ideal_verify zn 7 cf4 /\
  E.verify (node_env isig xhash zn zn cnode 4) ypst
           (to_evidence isig ideal_verify xhash xvhash xbid zn zn 7 (lb_vals isig (cg 4))
              (new_evidence_full isig ideal_verify xhash xvhash xbid zn zn true cf4 (cg 4) (cg 1))) = false /\
  E.verify (node_env isig xhash zn zn cnode 4) ypst
           (to_evidence isig ideal_verify xhash xvhash xbid zn zn 7 (lb_vals isig (cg 4))
              (new_evidence_full isig ideal_verify xhash xvhash xbid zn zn true (zblk yC yC 4 444 41 0) (cg 4) (cg 1))) = true.
Proof.
  vm_compute. repeat split; try reflexivity. discriminate.
Qed.

(* (3) is not vacuous: with the primary still serving its fork both evidences go out (to the
   primary: the witness's block 4; to the witness: the primary's block 4'), with a primary that
   went silent only the evidence against the primary, to the witness; the verdict is the same *)
Definition yask_fork (w : unit) (p : pid) (h : Z) : preply isig * unit :=
  if (p =? 1) && (h =? 4) then (P_block isig yf4, w) else yask w p h.
Definition yask_silent (w : unit) (p : pid) (h : Z) : preply isig * unit :=
  if p =? 1 then (P_err isig PE_no_response, w) else yask w p h.
Example C09_evidence_both_sides_nonvacuous :
  let c := {| cl_primary := 1; cl_witnesses := [2]; cl_store := [yg 1]; cl_latest := Some (yg 1) |} in
  let obs := fun ask =>
    (fst (handle_conflicting isig ideal_verify xhash xvhash xbid unit ask xP c 60 (s0 tt) [yg 1; yf4] (yg 4) 0),
     map (fun pe => (fst pe, lb_hash isig xhash (ef_block isig (snd pe)), ef_common isig (snd pe),
                     map E.va_power (ef_byz isig (snd pe))))
         (hc_full isig ideal_verify xhash xvhash xbid zn zn unit ask true xP c 60 (s0 tt) [yg 1; yf4] (yg 4) 0)) in
  obs yask_fork = (HC_attack, [(1, 104, 4, [20; 15; 10]); (2, 444, 4, [20; 15; 10])]) /\
  obs yask_silent = (HC_attack, [(2, 444, 4, [20; 15; 10])]).
Proof. vm_compute. split; reflexivity. Qed.
