(* C09 — placeholder while the development is being built; replaced by the property theorems. *)
From Coq Require Import List ZArith NArith Bool.
From TM Require Import Generated.Consts C07.Model C09.Model.
Theorem C09_placeholder : True. Proof. exact I. Qed.
Print Assumptions C09_placeholder.
