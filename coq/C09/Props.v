(* C09 — The light client only trusts headers reachable by valid verification steps.
   Only the property statements; each is closed by [exact] of a lemma of Proofs.v /
   ProofsStore.v and followed by Print Assumptions.

   Reading guide.  Everything is stated for an arbitrary signature check [sv], arbitrary hash
   functions [hash] (Header.Hash), [vhash] (ValidatorSet.Hash), [bid_hash] (BlockID.Hash), an
   arbitrary world type [W] with an arbitrary provider oracle [ask : W -> provider -> height ->
   answer * W] (providers may answer anything, adaptively, differently each time), and an
   arbitrary arrival order [rank] of the concurrent witness answers.  The model is of the code
   with the three repairs F2, F23 and F50 (see C09/Model.v); the examples at the end show that the
   statements fail for the unrepaired variants.

   step_ok P t u now — the clause list of the property for one step from trusted block t to u:
     u is well formed for t's chain and its commit is for this header; u is later in height and in
     time; u's time is before now + MaxClockDrift; t is within the trusting period at [now]; the
     delivered validator set is the one u's header commits to; more than 2/3 of u's own set signed
     exactly (chain, height, round, block id) (C07.good_tally); and either u is adjacent and its
     ValidatorsHash is t's NextValidatorsHash, or distinct members of t's set with verified
     signatures in u's commit hold more than the trust level of t's set (C07.member_signed, pw).
     (The two signature clauses are stated for well-formed sets: no negative power, total at most
     MaxTotalVotingPower; trust level numerator/denominator within int64 — C07's premises.)
   back_ok u t — the clause list of a backwards step: u well formed, same chain, earlier in time,
     and hash u is t's LastBlockID.Hash.
   Trusted P root h — header hash h is reachable from the root hash by such steps.  Headers BELOW
     the first trusted height are admitted by hash-linking (back_ok) only: no signature is
     checked on that path; "later in height" of the informal statement does not apply to them. *)
From Coq Require Import List ZArith NArith Bool Permutation.
From TM Require Import Generated.Consts C07.Model C07.Proofs C09.Model C09.Proofs C09.ProofsStore C09.ProofsProv.
Import ListNotations.
Open Scope Z_scope.

(* ---- one verification step ------------------------------------------------------------------ *)

(* light.Verify (adjacent or not) accepts only if every clause of the property holds for the step. *)
Theorem C09_verify_sound :
  forall (sig : Type) (sv : key -> signmsg -> sig -> bool) (hash : header -> Z)
         (vhash : list validator -> Z) (bid_hash : blockid -> Z)
         (P : params) (t u : lblock sig) (now : Z),
    verify sig sv hash vhash bid_hash P t (lb_vals sig t) u now = E_ok ->
    step_ok sig sv hash vhash bid_hash P t u now.
Proof. exact verify_sound. Qed.
Print Assumptions C09_verify_sound.

(* light.VerifyBackwards accepts only a header that the trusted header's LastBlockID points to. *)
Theorem C09_verify_backwards_sound :
  forall (hash : header -> Z) (u t : header),
    verify_backwards hash u t = true -> back_ok hash u t.
Proof. exact verify_backwards_sound. Qed.
Print Assumptions C09_verify_backwards_sound.

(* ---- bisection ------------------------------------------------------------------------------- *)

(* verifySkipping (pivot 9/16, block cache with its duplicated append, any fuel) returns a trace
   only if the trace starts with the trusted block, ends with the requested block, and every
   consecutive pair was accepted by Verify: bisection concludes only from Verify successes,
   whatever the source provider answered. *)
Theorem C09_skipping_refines_verify :
  forall (sig : Type) (sv : key -> signmsg -> sig -> bool) (hash : header -> Z)
         (vhash : list validator -> Z) (bid_hash : blockid -> Z)
         (W : Type) (ask : W -> pid -> Z -> preply sig * W)
         (P : params) (source : pid) (s : st sig W) (t u : lblock sig) (now : Z)
         (tr : list (lblock sig)) (s' : st sig W),
    verify_skipping sig sv hash vhash bid_hash W ask P source s t u now = (inl tr, s') ->
    linked (fun a b => verify sig sv hash vhash bid_hash P a (lb_vals sig a) b now = E_ok) tr /\
    exists mid, tr = t :: mid ++ [u].
Proof. exact skipping_refines. Qed.
Print Assumptions C09_skipping_refines_verify.

(* ---- the trusted store ------------------------------------------------------------------------ *)

(* After NewClient (trust root = hash [root] at height th) and ANY sequence of
   VerifyLightBlockAtHeight / Update calls, in sequential or skipping mode, against ANY provider
   behaviour (wrong, missing, late, conflicting, equivocating answers, primary replacement) and
   ANY arrival order of witness answers, every light block in the trusted store has a header hash
   that is reachable from the root hash by valid steps, and carries the validator set its header
   commits to.  Premise: providers hand over blocks whose validator set matches the header
   (LightBlock.ValidateBasic, performed by light/provider/http and light/provider/mock). *)
Theorem C09_store_sound :
  forall (sig : Type) (sv : key -> signmsg -> sig -> bool) (hash : header -> Z)
         (vhash : list validator -> Z) (bid_hash : blockid -> Z)
         (W : Type) (ask : W -> pid -> Z -> preply sig * W) (rank : pid -> Z)
         (P : params) (root : Z),
    provider_contract sig vhash W ask ->
    forall (prim : pid) (ws : list pid) (s0 : st sig W) (th : Z) (c0 : client sig) (s1 : st sig W)
           (ops : list op) (c : client sig) (s : st sig W),
      initialize sig sv hash vhash bid_hash W ask rank P prim ws s0 th root = (None, c0, s1) ->
      run_final sig sv hash vhash bid_hash W ask rank P c0 s1 ops = (c, s) ->
      forall b, In b (cl_store sig c) ->
        Trusted sig sv hash vhash bid_hash P root (lb_hash sig hash b) /\ vals_bound sig vhash b.
Proof.
  intros sig sv hash vhash bid_hash W ask rank P root Hc prim ws s0 th c0 s1 ops c s.
  exact (store_sound sig sv hash vhash bid_hash W ask rank P root Hc prim ws s0 th c0 s1 ops c s).
Qed.
Print Assumptions C09_store_sound.

(* backwards (repaired, F23): success means the hash of the header that will be stored is the
   hash of a header reached from the first trusted header by hash-linking steps, whatever the
   primary (and its replacements) answered. *)
Theorem C09_backwards_sound :
  forall (sig : Type) (hash : header -> Z) (W : Type) (ask : W -> pid -> Z -> preply sig * W)
         (rank : pid -> Z) (fuel : nat) (c : client sig) (s : st sig W) (verified newh : header)
         (c' : client sig) (s' : st sig W),
    backwards sig hash W ask rank fuel c s verified newh = (None, c', s') ->
    exists v, back_reach hash verified v /\ hash v = hash newh.
Proof. exact backwards_sound. Qed.
Print Assumptions C09_backwards_sound.

(* ---- the witness cross-check -------------------------------------------------------------------- *)

(* detectDivergence (repaired, F2) returns nil only if, in this very round, one of the current
   witnesses answered with a block whose header hash is the hash of the verified header. *)
Theorem C09_confirmation_requires_match :
  forall (sig : Type) (sv : key -> signmsg -> sig -> bool) (hash : header -> Z)
         (vhash : list validator -> Z) (bid_hash : blockid -> Z)
         (W : Type) (ask : W -> pid -> Z -> preply sig * W) (rank : pid -> Z)
         (P : params) (c : client sig) (s : st sig W) (t0 : lblock sig) (rest : list (lblock sig))
         (now : Z) (c' : client sig) (s' : st sig W),
    detect_divergence sig sv hash vhash bid_hash W ask rank P c s (t0 :: rest) now = (None, c', s') ->
    let target := last (t0 :: rest) t0 in
    exists msgs s1 pre,
      compare_all sig hash W ask s target (arrival_order rank (cl_witnesses sig c)) = (msgs, s1) /\
      st_log sig W s1 = pre ++ st_log sig W s /\
      exists w h b, In w (cl_witnesses sig c) /\ In (w, h, P_block sig b) pre /\
                    lb_hash sig hash b = lb_hash sig hash target.
Proof. exact confirmation_requires_match. Qed.
Print Assumptions C09_confirmation_requires_match.

(* The provider lists (repaired findNewPrimary, F50).  After NewClient with pairwise different
   providers and ANY sequence of calls (primary replacements with and without removal, witness
   removals by the detector, in any arrival order), the primary is not one of the witnesses and no
   provider holds two witness slots ... *)
Theorem C09_providers_stay_distinct :
  forall (sig : Type) (sv : key -> signmsg -> sig -> bool) (hash : header -> Z)
         (vhash : list validator -> Z) (bid_hash : blockid -> Z)
         (W : Type) (ask : W -> pid -> Z -> preply sig * W) (rank : pid -> Z)
         (P : params) (prim : pid) (ws : list pid) (s0 : st sig W) (th root : Z)
         (c0 : client sig) (s1 : st sig W) (ops : list op) (c : client sig) (s : st sig W),
    NoDup (prim :: ws) ->
    initialize sig sv hash vhash bid_hash W ask rank P prim ws s0 th root = (None, c0, s1) ->
    run_final sig sv hash vhash bid_hash W ask rank P c0 s1 ops = (c, s) ->
    NoDup (cl_primary sig c :: cl_witnesses sig c).
Proof.
  intros sig sv hash vhash bid_hash W ask rank P.
  exact (providers_distinct sig sv hash vhash bid_hash W ask rank P).
Qed.
Print Assumptions C09_providers_stay_distinct.

(* ... the same holds for every intermediate client inside a call (each function that changes the
   provider lists keeps them pairwise different) ... *)
Theorem C09_providers_stay_distinct_inside_a_call :
  forall (sig : Type) (sv : key -> signmsg -> sig -> bool) (hash : header -> Z)
         (vhash : list validator -> Z) (bid_hash : blockid -> Z)
         (W : Type) (ask : W -> pid -> Z -> preply sig * W) (rank : pid -> Z)
         (P : params) (c : client sig),
    NoDup (cl_primary sig c :: cl_witnesses sig c) ->
    (forall s h remove r c' s',
       find_new_primary sig W ask rank c s h remove = (r, c', s') ->
       NoDup (cl_primary sig c' :: cl_witnesses sig c')) /\
    (forall s h r c' s',
       light_block_from_primary sig W ask rank c s h = (r, c', s') ->
       NoDup (cl_primary sig c' :: cl_witnesses sig c')) /\
    (forall s trace now r c' s',
       detect_divergence sig sv hash vhash bid_hash W ask rank P c s trace now = (r, c', s') ->
       NoDup (cl_primary sig c' :: cl_witnesses sig c')) /\
    (forall s o r c' s',
       step sig sv hash vhash bid_hash W ask rank P c s o = (r, c', s') ->
       NoDup (cl_primary sig c' :: cl_witnesses sig c')).
Proof.
  intros sig sv hash vhash bid_hash W ask rank P.
  exact (providers_distinct_inside sig sv hash vhash bid_hash W ask rank P).
Qed.
Print Assumptions C09_providers_stay_distinct_inside_a_call.

(* ... and therefore the confirmation of C09_confirmation_requires_match comes from a provider
   OTHER THAN THE PRIMARY: detectDivergence returns nil only if a witness different from the
   primary answered, in this round, with a block of the verified header's hash.  A primary
   vouching for its own header is no confirmation. *)
Theorem C09_confirmation_by_other_provider :
  forall (sig : Type) (sv : key -> signmsg -> sig -> bool) (hash : header -> Z)
         (vhash : list validator -> Z) (bid_hash : blockid -> Z)
         (W : Type) (ask : W -> pid -> Z -> preply sig * W) (rank : pid -> Z)
         (P : params) (c : client sig) (s : st sig W) (t0 : lblock sig) (rest : list (lblock sig))
         (now : Z) (c' : client sig) (s' : st sig W),
    NoDup (cl_primary sig c :: cl_witnesses sig c) ->
    detect_divergence sig sv hash vhash bid_hash W ask rank P c s (t0 :: rest) now = (None, c', s') ->
    let target := last (t0 :: rest) t0 in
    exists msgs s1 pre,
      compare_all sig hash W ask s target (arrival_order rank (cl_witnesses sig c)) = (msgs, s1) /\
      st_log sig W s1 = pre ++ st_log sig W s /\
      exists w h b, In w (cl_witnesses sig c) /\ w <> cl_primary sig c /\
                    In (w, h, P_block sig b) pre /\
                    lb_hash sig hash b = lb_hash sig hash target.
Proof.
  intros sig sv hash vhash bid_hash W ask rank P.
  exact (confirmation_by_other_provider sig sv hash vhash bid_hash W ask rank P).
Qed.
Print Assumptions C09_confirmation_by_other_provider.

(* A witness goroutine sends nil only after this witness answered, in this comparison, with a
   block of the identical header hash: no response, "not found", a lagging witness, a context
   error, an invalid block or a different header never turn into a confirmation. *)
Theorem C09_nil_only_for_identical_header :
  forall (sig : Type) (hash : header -> Z) (W : Type) (ask : W -> pid -> Z -> preply sig * W)
         (s : st sig W) (target : lblock sig) (w : pid) (i : nat) (msgs : list (msg sig)) (s' : st sig W),
    compare_new_header_with_witness sig hash W ask s target w i = (msgs, s') ->
    exists pre, st_log sig W s' = pre ++ st_log sig W s /\
      (In (M_nil sig) msgs ->
       exists h b, In (w, h, P_block sig b) pre /\ lb_hash sig hash b = lb_hash sig hash target).
Proof. exact compare_nil_match. Qed.
Print Assumptions C09_nil_only_for_identical_header.

(* If detectDivergence returns nil, every witness whose message was a conflicting header (it could
   not be verified, else the attack error below) or an invalid block has been removed from the
   witness list. *)
Theorem C09_conflict_yields_removal :
  forall (sig : Type) (sv : key -> signmsg -> sig -> bool) (hash : header -> Z)
         (vhash : list validator -> Z) (bid_hash : blockid -> Z)
         (W : Type) (ask : W -> pid -> Z -> preply sig * W) (rank : pid -> Z)
         (P : params) (c : client sig) (s : st sig W) (t0 : lblock sig) (rest : list (lblock sig))
         (now : Z) (c' : client sig) (s' : st sig W),
    detect_divergence sig sv hash vhash bid_hash W ask rank P c s (t0 :: rest) now = (None, c', s') ->
    exists msgs s1 rm,
      compare_all sig hash W ask s (last (t0 :: rest) t0) (arrival_order rank (cl_witnesses sig c)) = (msgs, s1) /\
      rm = removed sig (firstn (length (cl_witnesses sig c)) msgs) /\
      remove_witnesses (cl_witnesses sig c) rm = Some (cl_witnesses sig c') /\
      (forall b i, In (M_conflict sig b i) (firstn (length (cl_witnesses sig c)) msgs) -> In i rm).
Proof. exact trusted_removes_conflicting. Qed.
Print Assumptions C09_conflict_yields_removal.

(* A conflicting header that the witness can back (examineConflictingHeaderAgainstTrace succeeds)
   ends the loop with the attack verdict ... *)
Theorem C09_conflict_yields_attack :
  forall (sig : Type) (S : Type) (handle : S -> lblock sig -> nat -> hc_result * S)
         (msgs : list (msg sig)) (s : S) (matched : bool) (rm : list nat) (s' : S),
    detect_loop sig handle s msgs matched rm = (DD_attack, s') ->
    exists sa b i, In (M_conflict sig b i) msgs /\ handle sa b i = (HC_attack, s').
Proof. intros sig S handle. exact (detect_loop_attack sig handle). Qed.
Print Assumptions C09_conflict_yields_attack.

(* ... and ErrLightClientAttack is returned only after evidence against the primary has been
   reported to that witness.  (Evidence against the witness is sent to the primary when the
   primary answers the reverse examination; that direction is best effort in the code.) *)
Theorem C09_attack_has_evidence :
  forall (sig : Type) (sv : key -> signmsg -> sig -> bool) (hash : header -> Z)
         (vhash : list validator -> Z) (bid_hash : blockid -> Z)
         (W : Type) (ask : W -> pid -> Z -> preply sig * W) (rank : pid -> Z)
         (P : params) (c : client sig) (s : st sig W) (trace : list (lblock sig)) (now : Z)
         (c' : client sig) (s' : st sig W),
    detect_divergence sig sv hash vhash bid_hash W ask rank P c s trace now = (Some X_attack, c', s') ->
    exists i e, In (nth i (cl_witnesses sig c) 0, e) (st_ev sig W s').
Proof. exact attack_has_evidence. Qed.
Print Assumptions C09_attack_has_evidence.

(* The verdict "trusted" of the detector loop does not depend on the order in which the witness
   messages arrive (for examinations whose outcome does not depend on that order), and the
   removal lists are rearrangements of each other. *)
Theorem C09_order_independent :
  forall (sig : Type) (hv : lblock sig -> nat -> hc_result) (msgs msgs' : list (msg sig)),
    Permutation msgs msgs' ->
    (is_trusted (pure_loop sig hv msgs false []) <-> is_trusted (pure_loop sig hv msgs' false [])) /\
    Permutation (removed sig msgs) (removed sig msgs').
Proof.
  intros sig hv msgs msgs' Hp. split; [apply order_independent; exact Hp | apply removed_perm; exact Hp].
Qed.
Print Assumptions C09_order_independent.

(* The loop says "trusted" iff a nil message was read, no conflicting header was backed, and no
   context error arrived. *)
Theorem C09_trusted_iff :
  forall (sig : Type) (hv : lblock sig -> nat -> hc_result) (msgs : list (msg sig)),
    is_trusted (pure_loop sig hv msgs false []) <->
    (In (M_nil sig) msgs /\ Forall (msg_fine sig hv) msgs).
Proof.
  intros sig hv msgs. rewrite (pure_loop_trusted_iff sig hv msgs false []).
  split; [intros [[H|H] F]; [discriminate | split; assumption] | intros [H F]; split; [right; exact H | exact F]].
Qed.
Print Assumptions C09_trusted_iff.

(* ---- non-vacuity and the two refuted statements (closed computations) ---------------------- *)

Definition xP : params :=
  {| p_chain := 7; p_period := 1000; p_drift := 0; p_num := 1; p_den := 3;
     p_sequential := false; p_prune := 0 |}.
Definition xPseq : params :=
  {| p_chain := 7; p_period := 1000; p_drift := 0; p_num := 1; p_den := 3;
     p_sequential := true; p_prune := 0 |}.

Definition setA : list validator :=
  [ {| v_addr := 11; v_key := 11; v_power := 1 |}; {| v_addr := 12; v_key := 12; v_power := 1 |};
    {| v_addr := 13; v_key := 13; v_power := 1 |} ].
Definition setB : list validator :=
  [ {| v_addr := 21; v_key := 21; v_power := 2 |}; {| v_addr := 22; v_key := 22; v_power := 1 |};
    {| v_addr := 23; v_key := 23; v_power := 1 |} ].

Definition xhash (h : header) : Z := h_tag h.
Definition xvhash (vs : list validator) : Z := fold_left (fun a v => a * 31 + v_key v * 7 + v_power v) vs 0.
Definition xbid (b : blockid) : Z := b.

(* heights 1,2 have set A (next of 2 is B), heights 3..5 set B; everybody signs *)
Definition set_at (h : Z) := if h <=? 2 then setA else setB.
Definition xslot (h tag : Z) (v : validator) : commitsig isig :=
  {| cs_flag := block_id_flag_commit; cs_addr := v_addr v; cs_ts := 0;
     cs_sig := Signed (v_key v) (sign_msg 7 h 0 tag 0) |}.
Definition xblk_with (h tag time : Z) (signers : list validator) : lblock isig :=
  {| lb_hdr := {| h_chain := 7; h_height := h; h_time := time; h_last_bid := 100 + h - 1;
                  h_vals_hash := xvhash (set_at h); h_next_vals_hash := xvhash (set_at (h + 1));
                  h_cons := 0; h_app := 0; h_res := 0; h_fmt_ok := true; h_tag := tag |};
     lb_commit := {| c_height := h; c_round := 0; c_bid := tag;
                     c_sigs := map (xslot h tag) signers |};
     lb_vals := set_at h; lb_vals_fmt_ok := true |}.
Definition xblk (h : Z) : lblock isig := xblk_with h (100 + h) (10 * h) (set_at h).

(* honest providers: the chain 1..5 *)
Definition ask_honest (w : unit) (p : pid) (h : Z) : preply isig * unit :=
  if h =? 0 then (P_block isig (xblk 5), w)
  else if (1 <=? h) && (h <=? 5) then (P_block isig (xblk h), w)
  else (P_err isig PE_not_found, w).

Definition s0 {W} (w : W) : st isig W := {| st_w := w; st_log := []; st_ev := [] |}.
Definition xrank (p : pid) : Z := p.

(* the clause list is satisfiable: an adjacent and a non-adjacent step are accepted; exactly 1/3 of
   the trusted power is NOT enough (trust level is strict), exactly 2/3 of the own set neither *)
Example C09_verify_nonvacuous :
  verify isig ideal_verify xhash xvhash xbid xP (xblk 1) setA (xblk 2) 60 = E_ok /\
  verify isig ideal_verify xhash xvhash xbid xP (xblk 3) setB (xblk 5) 60 = E_ok /\
  verify isig ideal_verify xhash xvhash xbid xP (xblk 1) setA (xblk 5) 60 = E_cant_trust /\
  (* set B = powers 2,1,1: validator 22 alone holds exactly 1/4, 21 alone exactly 1/2 > 1/3 *)
  verify isig ideal_verify xhash xvhash xbid xP (xblk 3) setB (xblk_with 5 105 50 setB) 60 = E_ok /\
  (* a header from the future (time 50, now 50, drift 0) and an expired trusted header *)
  verify isig ideal_verify xhash xvhash xbid xP (xblk 3) setB (xblk 5) 50 = E_invalid /\
  verify isig ideal_verify xhash xvhash xbid xP (xblk 3) setB (xblk 5) 1030 = E_expired.
Proof. vm_compute. repeat split; reflexivity. Qed.

(* bisection really bisects: 1 -> 5 is verified through 2 and 3 *)
Example C09_skipping_nonvacuous :
  match verify_skipping isig ideal_verify xhash xvhash xbid unit ask_honest xP 1 (s0 tt) (xblk 1) (xblk 5) 60 with
  | (inl tr, _) => map (lb_height isig) tr = [1; 2; 3; 5]
  | _ => False
  end.
Proof. vm_compute. reflexivity. Qed.

(* the hypotheses of C09_store_sound are satisfiable: a client rooted at height 3 verifies 5
   (forwards, cross-checked by witnesses 2 and 3), then 1 (backwards), then 4 (between) *)
Example C09_store_nonvacuous :
  match initialize isig ideal_verify xhash xvhash xbid unit ask_honest xrank xP 1 [2; 3] (s0 tt) 3 103 with
  | (None, c0, s1) =>
    map (lb_height isig) (cl_store isig (fst (run_final isig ideal_verify xhash xvhash xbid unit ask_honest xrank xP
                                                c0 s1 [Op_verify_at 5 60; Op_verify_at 1 60; Op_verify_at 4 60])))
    = [1; 3; 4; 5]
  | _ => False
  end /\
  provider_contract isig xvhash unit ask_honest.
Proof.
  split; [vm_compute; reflexivity|].
  intros w p h b w' H. unfold ask_honest in H.
  destruct (h =? 0); [injection H as <- _; vm_compute; reflexivity|].
  destruct ((1 <=? h) && (h <=? 5)) eqn:E; [|discriminate].
  injection H as <- _. unfold vals_bound, xblk, xblk_with. cbn [lb_hdr lb_vals h_vals_hash]. reflexivity.
Qed.

(* the same in sequential mode *)
Example C09_store_nonvacuous_sequential :
  match initialize isig ideal_verify xhash xvhash xbid unit ask_honest xrank xPseq 1 [2; 3] (s0 tt) 1 101 with
  | (None, c0, s1) =>
    map (lb_height isig) (cl_store isig (fst (run_final isig ideal_verify xhash xvhash xbid unit ask_honest xrank xPseq
                                                c0 s1 [Op_verify_at 4 60; Op_update 60])))
    = [1; 4; 5]
  | _ => False
  end.
Proof. vm_compute. reflexivity. Qed.

(* ---- F2: why compareNewHeaderWithWitness needs the `return` ----------------------------------- *)

(* a liar's block for height 5 (different hash, signed by nobody the client knows) *)
Definition liar5 : lblock isig := xblk_with 5 999 50 [].

(* Unrepaired goroutine: after the conflict message it also sends nil.  With witnesses
   [liar; silent] and the liar's messages arriving first, the loop reads [conflict; nil]: the
   conflicting header cannot be verified (witness removed) and the header is TRUSTED although no
   witness returned it.  The repaired goroutine sends the conflict only: not trusted. *)
Example C09_confirmation_refuted_unfixed :
  let unverifiable := fun (_ : unit) (_ : lblock isig) (_ : nat) => (HC_not_attack, tt) in
  compare_hash_unfixed isig xhash (xblk 5) liar5 0 = [M_conflict isig liar5 0; M_nil isig] /\
  fst (detect_loop isig unverifiable tt
         (firstn 2 (compare_hash_unfixed isig xhash (xblk 5) liar5 0 ++ [M_benign isig])) false [])
    = DD_trusted [0%nat] /\
  fst (detect_loop isig unverifiable tt
         (firstn 2 (compare_hash isig xhash (xblk 5) liar5 0 ++ [M_benign isig])) false [])
    = DD_crossref [0%nat].
Proof. vm_compute. repeat split; reflexivity. Qed.

(* ---- F23: why backwards needs the final comparison ------------------------------------------- *)

(* forged, self-consistent block for height 2 (other hash) *)
Definition forged2 : lblock isig := xblk_with 2 777 15 [].

(* an equivocating primary: the first request for height 2 is answered with the forged block,
   all later requests with the genuine chain *)
Definition ask_equiv (w : bool) (p : pid) (h : Z) : preply isig * bool :=
  if (p =? 1) && (h =? 2) && negb w then (P_block isig forged2, true)
  else (fst (ask_honest tt p h), w).

(* A client rooted at height 4 is asked for height 2.  The primary's forged block is fetched, the
   hash-chain walk 4 -> 3 -> 2 is done with freshly fetched genuine headers.  Unrepaired code:
   success, i.e. the forged block would be stored.  Repaired code: ErrInvalidHeader, nothing
   stored. *)
Example C09_backwards_refuted_unfixed :
  let c4 := {| cl_primary := 1; cl_witnesses := [2; 3]; cl_store := [xblk 4]; cl_latest := Some (xblk 4) |} in
  fst (fst (backwards_unfixed isig xhash bool ask_equiv xrank 10 c4 (s0 true) (lb_hdr isig (xblk 4)) (lb_hdr isig forged2)))
    = None /\
  fst (fst (backwards isig xhash bool ask_equiv xrank 10 c4 (s0 true) (lb_hdr isig (xblk 4)) (lb_hdr isig forged2)))
    = Some X_back_invalid /\
  (match verify_at isig ideal_verify xhash xvhash xbid bool ask_equiv xrank xP c4 (s0 false) 2 60 with
   | (e, c', _) => (e, map (lb_hash isig xhash) (cl_store isig c'))
   end) = (Some X_back_invalid, [104]) /\
  (* with an honest primary the same call stores the genuine header 2 *)
  (match verify_at isig ideal_verify xhash xvhash xbid unit ask_honest xrank xP c4 (s0 tt) 2 60 with
   | (e, c', _) => (e, map (lb_hash isig xhash) (cl_store isig c'))
   end) = (None, [102; 104]).
Proof. vm_compute. repeat split; reflexivity. Qed.

(* ---- the detector: non-vacuity ----------------------------------------------------------------- *)

(* witness 2 serves a fork block for height 5 signed by set B (more than 1/3 of the trusted set
   of height 3): the witness can back it from the common block 3, so the client halts with the
   attack error and reports evidence; witness 3 never gets to confirm *)
Definition fork5 : lblock isig := xblk_with 5 555 50 setB.
Definition ask_fork (w : unit) (p : pid) (h : Z) : preply isig * unit :=
  if (p =? 2) && ((h =? 5) || (h =? 0)) then (P_block isig fork5, w) else ask_honest w p h.

Example C09_attack_nonvacuous :
  let c3 := {| cl_primary := 1; cl_witnesses := [2; 3]; cl_store := [xblk 3]; cl_latest := Some (xblk 3) |} in
  (match verify_at isig ideal_verify xhash xvhash xbid unit ask_fork xrank xP c3 (s0 tt) 5 60 with
   | (e, c', s') => (e, map (lb_height isig) (cl_store isig c'),
                     map (fun pe => (fst pe, lb_hash isig xhash (ev_block isig (snd pe)), ev_common isig (snd pe)))
                         (st_ev isig unit s'))
   end) = (Some X_attack, [3], [(1, 555, 5); (2, 105, 5)]) /\
  (* a liar that cannot back its header is removed and the honest witness confirms *)
  (match verify_at isig ideal_verify xhash xvhash xbid unit
           (fun w p h => if (p =? 2) && (h =? 5) then (P_block isig liar5, w) else ask_honest w p h)
           xrank xP c3 (s0 tt) 5 60 with
   | (e, c', _) => (e, map (lb_height isig) (cl_store isig c'), cl_witnesses isig c')
   end) = (None, [3; 5], [3]) /\
  (* liar + silent witness: no confirmation, nothing stored *)
  (match verify_at isig ideal_verify xhash xvhash xbid unit
           (fun w p h => if (p =? 2) && (h =? 5) then (P_block isig liar5, w)
                         else if p =? 3 then (P_err isig PE_no_response, w) else ask_honest w p h)
           xrank xP c3 (s0 tt) 5 60 with
   | (e, c', _) => (e, map (lb_height isig) (cl_store isig c'), cl_witnesses isig c')
   end) = (Some X_crossref, [3], [3]).
Proof. vm_compute. repeat split; reflexivity. Qed.

(* ---- F50: why findNewPrimary must promote the respondent only after the removal ------------- *)

(* primary 1, witnesses [2; 3]: witness 3 answered with an invalid block first (marked for removal),
   then witness 2 with a block.  removeWitnesses([1; 0]) refuses to empty the list.  Unrepaired
   loop: provider 2 has been made primary already and stays a witness.  Repaired loop: nothing
   changes.  With the unrepaired provider lists and witness 3 silent, a verification of height 5
   ends TRUSTED although provider 2 - the primary - is the only one that returned the header. *)
Example C09_self_confirmation_refuted_unfixed :
  let c3 := {| cl_primary := 1; cl_witnesses := [2; 3]; cl_store := [xblk 3]; cl_latest := Some (xblk 3) |} in
  let resp := [(1%nat, P_err isig PE_bad); (0%nat, P_block isig (xblk 5))] in
  let providers := fun rc : (lblock isig + cerr) * client isig =>
                     (cl_primary isig (snd rc), cl_witnesses isig (snd rc)) in
  let ask_silent3 := fun (w : unit) (p : pid) (h : Z) =>
                       if p =? 3 then (P_err isig PE_no_response, w) else ask_honest w p h in
  providers (fnp_loop_unfixed isig c3 true resp [] X_other) = (2, [2; 3]) /\
  providers (fnp_loop isig c3 true resp [] X_other) = (1, [2; 3]) /\
  fst (fnp_loop isig c3 true resp [] X_other) = inr X_no_witnesses /\
  (let c' := snd (fnp_loop_unfixed isig c3 true resp [] X_other) in
   match verify_at isig ideal_verify xhash xvhash xbid unit ask_silent3 xrank xP c' (s0 tt) 5 60 with
   | (e, c'', s') => (e, map (lb_height isig) (cl_store isig c''),
                      map (fun x => fst (fst x)) (filter (fun x => match snd x with P_block _ _ => true | _ => false end)
                                                         (st_log isig unit s')))
   end) = (None, [3; 5], [2; 2]) /\
  (* with pairwise different providers the same situation is not trusted *)
  (match verify_at isig ideal_verify xhash xvhash xbid unit ask_silent3 xrank xP
                   {| cl_primary := 2; cl_witnesses := [3]; cl_store := [xblk 3]; cl_latest := Some (xblk 3) |}
                   (s0 tt) 5 60 with
   | (e, c'', _) => (e, map (lb_height isig) (cl_store isig c''))
   end) = (Some X_crossref, [3]).
Proof. vm_compute. repeat split; reflexivity. Qed.
