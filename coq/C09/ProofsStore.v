(* C09 — store soundness: every light block in the trusted store, after any sequence of client
   calls against arbitrary providers and arrival orders, has a header hash that is reachable
   from the root hash by valid steps. *)
From Coq Require Import List ZArith NArith Bool Lia.
From TM Require Import Generated.Consts C07.Model C07.Proofs C09.Model C09.Proofs.
Import ListNotations.
Open Scope Z_scope.

Section Store.

Variable sig : Type.
Variable sv : key -> signmsg -> sig -> bool.
Variable hash : header -> Z.
Variable vhash : list validator -> Z.
Variable bid_hash : blockid -> Z.
Variable W : Type.
Variable ask : W -> pid -> Z -> preply sig * W.
Variable rank : pid -> Z.

Notation lblock := (lblock sig).
Notation lb_hdr := (lb_hdr sig).
Notation lb_vals := (lb_vals sig).
Notation lb_height := (lb_height sig).
Notation lb_hash := (lb_hash sig hash).
Notation client := (client sig).
Notation st := (st sig W).
Notation cl_store := (cl_store sig).
Notation cl_latest := (cl_latest sig).
Notation cl_witnesses := (cl_witnesses sig).
Notation vals_bound := (vals_bound sig vhash).
Notation step_ok := (step_ok sig sv hash vhash bid_hash).
Notation back_ok := (back_ok hash).
Notation V := (V sig sv hash vhash bid_hash).

(* provider contract: a light block handed over by a provider carries the validator set its
   header commits to (LightBlock.ValidateBasic, called by light/provider/http and
   light/provider/mock before they return a block) *)
Definition provider_contract : Prop :=
  forall w p h b w', ask w p h = (P_block sig b, w') -> vals_bound b.

Variable P : params.
Variable root : Z.

(* header hashes reachable from the root hash by valid steps *)
Inductive Trusted : Z -> Prop :=
| T_root : Trusted root
| T_fwd : forall a u now,
    Trusted (lb_hash a) -> vals_bound a -> step_ok P a u now -> Trusted (lb_hash u)
| T_back : forall a u : header, Trusted (hash a) -> back_ok u a -> Trusted (hash u).

Definition TB (b : lblock) : Prop := Trusted (lb_hash b) /\ vals_bound b.

Definition Inv (c : client) : Prop :=
  (forall b, In b (cl_store c) -> TB b) /\ (forall l, cl_latest c = Some l -> TB l).

Definition same_data (c c' : client) : Prop :=
  cl_store c' = cl_store c /\ cl_latest c' = cl_latest c.

Lemma same_refl : forall c, same_data c c. Proof. intro c. split; reflexivity. Qed.
Lemma same_trans : forall a b c, same_data a b -> same_data b c -> same_data a c.
Proof. intros a b c [A1 A2] [B1 B2]. split; congruence. Qed.
Lemma same_set : forall c p ws, same_data c (set_providers sig c p ws).
Proof. intros. split; reflexivity. Qed.
Lemma same_inv : forall c c', same_data c c' -> Inv c -> Inv c'.
Proof. intros c c' [A B] [I1 I2]. split; [rewrite A; exact I1 | rewrite B; exact I2]. Qed.

(* ---------------------------------------------------------------- providers only change providers *)

Lemma fnp_loop_same : forall resp c remove rm le r c',
  fnp_loop sig c remove resp rm le = (r, c') -> same_data c c'.
Proof.
  induction resp as [|[i rep] resp IH]; intros c remove rm le r c' H; cbn [fnp_loop] in H.
  - injection H as _ <-. destruct (remove_witnesses (cl_witnesses c) rm); [apply same_set | apply same_refl].
  - destruct rep as [b|e].
    + destruct (remove_witnesses _ _); injection H as _ <-; [apply same_set | apply same_refl].
    + destruct (is_benign e); apply IH in H; exact H.
Qed.

Lemma find_new_primary_same : forall c s h remove r c' s',
  find_new_primary sig W ask rank c s h remove = (r, c', s') -> same_data c c'.
Proof.
  intros c s h remove r c' s' H. unfold find_new_primary in H.
  destruct (cl_witnesses c); [injection H as _ <- _; apply same_refl|].
  destruct (fnp_ask sig W ask s _ h) as [resp s1].
  destruct (fnp_loop sig c remove resp [] X_other) as [r1 c1] eqn:E.
  injection H as _ <- _. eapply fnp_loop_same; exact E.
Qed.

Lemma lbfp_same : forall c s h r c' s',
  light_block_from_primary sig W ask rank c s h = (r, c', s') -> same_data c c'.
Proof.
  intros c s h r c' s' H. unfold light_block_from_primary in H.
  destruct (askS sig W ask s (cl_primary sig c) h) as [rep s1].
  destruct rep as [b|e].
  - injection H as _ <- _. apply same_refl.
  - destruct e; cbn [is_benign] in H;
      try (eapply find_new_primary_same; exact H).
    injection H as _ <- _. apply same_refl.
Qed.

Lemma detect_same : forall c s trace now r c' s',
  detect_divergence sig sv hash vhash bid_hash W ask rank P c s trace now = (r, c', s') -> same_data c c'.
Proof.
  intros c s trace now r c' s' H. unfold detect_divergence in H.
  destruct trace as [|t0 [|t1 tr]]; try (injection H as _ <- _; apply same_refl).
  destruct (cl_witnesses c); [injection H as _ <- _; apply same_refl|].
  destruct (compare_all sig hash W ask s _ _) as [msgs s1].
  match type of H with context [detect_loop sig ?hd s1 ?m false []] =>
    destruct (detect_loop sig hd s1 m false []) as [r1 s2] end.
  destruct r1 as [rm|rm| | |]; try (injection H as _ <- _; apply same_refl).
  - destruct (remove_witnesses _ rm); injection H as _ <- _; [apply same_set | apply same_refl].
  - destruct (remove_witnesses _ rm); injection H as _ <- _; [apply same_set | apply same_refl].
Qed.

Lemma detect_short : forall c s trace now r c' s',
  (length trace <= 1)%nat ->
  detect_divergence sig sv hash vhash bid_hash W ask rank P c s trace now = (r, c', s') -> r = Some X_other.
Proof.
  intros c s trace now r c' s' L H. unfold detect_divergence in H.
  destruct trace as [|t0 [|t1 tr]]; try (injection H as <- _ _; reflexivity).
  cbn in L. lia.
Qed.

(* ---------------------------------------------------------------- blocks from providers are bound *)

Hypothesis contract : provider_contract.

Lemma askS_good : forall s p h b s', askS sig W ask s p h = (P_block sig b, s') -> vals_bound b.
Proof.
  intros s p h b s' H. unfold askS in H. destruct (ask (st_w sig W s) p h) as [r w'] eqn:E.
  injection H as -> _. eapply contract. exact E.
Qed.

Lemma fnp_ask_good : forall ws s h resp s',
  fnp_ask sig W ask s ws h = (resp, s') ->
  forall i b, In (i, P_block sig b) resp -> vals_bound b.
Proof.
  induction ws as [|[i p] ws IH]; intros s h resp s' H j b Hin; cbn [fnp_ask] in H.
  - injection H as <- _. destruct Hin.
  - destruct (askS sig W ask s p h) as [rep s1] eqn:E1.
    destruct (fnp_ask sig W ask s1 ws h) as [rs s2] eqn:E2.
    injection H as <- _. destruct Hin as [Hin|Hin].
    + injection Hin as _ ->. eapply askS_good. exact E1.
    + eapply IH; [exact E2 | exact Hin].
Qed.

Lemma fnp_loop_good : forall resp c remove rm le b c',
  fnp_loop sig c remove resp rm le = (inl b, c') -> exists i, In (i, P_block sig b) resp.
Proof.
  induction resp as [|[i rep] resp IH]; intros c remove rm le b c' H; cbn [fnp_loop] in H.
  - discriminate.
  - destruct rep as [b0|e].
    + destruct (remove_witnesses _ _); [|discriminate]. injection H as <- _. exists i. left. reflexivity.
    + destruct (is_benign e); apply IH in H as [j Hj]; exists j; right; exact Hj.
Qed.

Lemma find_new_primary_good : forall c s h remove b c' s',
  find_new_primary sig W ask rank c s h remove = (inl b, c', s') -> vals_bound b.
Proof.
  intros c s h remove b c' s' H. unfold find_new_primary in H.
  destruct (cl_witnesses c); [discriminate|].
  destruct (fnp_ask sig W ask s _ h) as [resp s1] eqn:Ea.
  destruct (fnp_loop sig c remove resp [] X_other) as [r1 c1] eqn:E.
  injection H as -> _ _. apply fnp_loop_good in E as [i Hi].
  eapply fnp_ask_good; [exact Ea | exact Hi].
Qed.

Lemma lbfp_good : forall c s h b c' s',
  light_block_from_primary sig W ask rank c s h = (inl b, c', s') -> vals_bound b.
Proof.
  intros c s h b c' s' H. unfold light_block_from_primary in H.
  destruct (askS sig W ask s (cl_primary sig c) h) as [rep s1] eqn:E.
  destruct rep as [b0|e].
  - injection H as <- _ _. eapply askS_good. exact E.
  - destruct e; cbn [is_benign] in H; try (eapply find_new_primary_good; exact H). discriminate.
Qed.

(* ---------------------------------------------------------------- chains of verified steps *)

Lemma chain_trusted : forall now l t, linked (V P now) (t :: l) -> TB t -> Forall TB (t :: l).
Proof.
  intros now l. induction l as [|x l IH]; intros t Hl Ht.
  - constructor; [exact Ht | constructor].
  - cbn [linked] in Hl. destruct Hl as [Hv Hl]. constructor; [exact Ht|].
    apply IH; [exact Hl|]. apply (verify_sound sig sv hash vhash bid_hash) in Hv.
    destruct Ht as [T1 T2]. split.
    + eapply T_fwd; [exact T1 | exact T2 | exact Hv].
    + destruct Hv as [_ [_ [_ [_ [_ [Hb _]]]]]]. exact Hb.
Qed.

Lemma skipping_trusted : forall source s t u now tr s',
  verify_skipping sig sv hash vhash bid_hash W ask P source s t u now = (inl tr, s') ->
  TB t -> TB u.
Proof.
  intros source s t u now tr s' H Ht.
  apply (skipping_refines sig sv hash vhash bid_hash W ask) in H as [Hl [mid ->]].
  apply chain_trusted in Hl; [|exact Ht]. rewrite Forall_forall in Hl. apply Hl.
  right. apply in_or_app. right. left. reflexivity.
Qed.

Lemma vsap_sound : forall fuel c s t u now c' s',
  verify_skipping_against_primary sig sv hash vhash bid_hash W ask rank fuel P c s t u now = (None, c', s') ->
  TB t -> same_data c c' /\ exists u', lb_hash u' = lb_hash u /\ TB u'.
Proof.
  induction fuel as [|fuel IH]; intros c s t u now c' s' H Ht; cbn [verify_skipping_against_primary] in H.
  - discriminate.
  - destruct (verify_skipping sig sv hash vhash bid_hash W ask P (cl_primary sig c) s t u now) as [r s1] eqn:Es.
    destruct r as [trace|e].
    + split; [eapply detect_same; exact H|]. exists u. split; [reflexivity|].
      eapply skipping_trusted; [exact Es | exact Ht].
    + destruct e as [v to| |pe|].
      * destruct v; try discriminate.
        destruct (to =? lb_height u); [discriminate|].
        destruct (find_new_primary sig W ask rank c s1 (lb_height u) true) as [[r2 c1] s2] eqn:Ef.
        destruct r2 as [repl|e2]; [|discriminate].
        destruct (Model.lb_hash sig hash repl =? Model.lb_hash sig hash u) eqn:Eh; cbn [negb] in H; [|discriminate].
        apply IH in H; [|exact Ht]. destruct H as [Hs [u' [Hh Hu]]].
        split; [eapply same_trans; [eapply find_new_primary_same; exact Ef | exact Hs]|].
        exists u'. split; [|exact Hu]. rewrite Hh. apply Z.eqb_eq. exact Eh.
      * apply detect_short in H; [discriminate | cbn; lia].
      * discriminate.
      * discriminate.
Qed.

Lemma seq_loop_sound : forall fuel c s u now verified height trace c' s',
  verify_sequential_loop sig sv hash vhash bid_hash W ask rank fuel P c s u now verified height trace = (None, c', s') ->
  TB verified ->
  (lb_height u < height -> verified = u \/ (length trace <= 1)%nat) ->
  same_data c c' /\ TB u.
Proof.
  induction fuel as [|fuel IH]; intros c s u now verified height trace c' s' H Hv Hinv;
    cbn [verify_sequential_loop] in H.
  - discriminate.
  - destruct (lb_height u <? height) eqn:Elt.
    + apply Z.ltb_lt in Elt. split; [eapply detect_same; exact H|].
      destruct (Hinv Elt) as [->|Hl]; [exact Hv|].
      apply detect_short in H; [discriminate | exact Hl].
    + apply Z.ltb_ge in Elt.
      destruct (height =? lb_height u) eqn:Eeq.
      * (* the last block is the target itself *)
        apply Z.eqb_eq in Eeq.
        destruct (verify_adjacent sig sv hash vhash bid_hash P verified u now) eqn:Ea; try discriminate.
        -- apply IH in H.
           ++ exact H.
           ++ apply (verify_adjacent_sound sig sv hash vhash bid_hash) in Ea. destruct Hv as [T1 T2]. split.
              ** eapply T_fwd; [exact T1 | exact T2 | exact Ea].
              ** destruct Ea as [_ [_ [_ [_ [_ [Hb _]]]]]]. exact Hb.
           ++ intros _. left. reflexivity.
        -- rewrite Z.eqb_refl in H. discriminate.
      * apply Z.eqb_neq in Eeq.
        destruct (light_block_from_primary sig W ask rank c s height) as [[fetched c1] s1] eqn:Ef.
        pose proof (lbfp_same _ _ _ _ _ _ Ef) as S1.
        destruct fetched as [interim|e]; [|destruct e; discriminate].
        destruct (verify_adjacent sig sv hash vhash bid_hash P verified interim now) eqn:Ea; try discriminate.
        -- apply IH in H.
           ++ destruct H as [S2 Hu]. split; [eapply same_trans; eassumption | exact Hu].
           ++ apply (verify_adjacent_sound sig sv hash vhash bid_hash) in Ea. destruct Hv as [T1 T2]. split.
              ** eapply T_fwd; [exact T1 | exact T2 | exact Ea].
              ** destruct Ea as [_ [_ [_ [_ [_ [Hb _]]]]]]. exact Hb.
           ++ intro Hlt. lia.
        -- destruct (lb_height interim =? lb_height u); [discriminate|].
           destruct (find_new_primary sig W ask rank c1 s1 (lb_height u) true) as [[r2 c2] s2] eqn:Ef2.
           destruct r2 as [repl|e2]; [|discriminate].
           destruct (negb (Model.lb_hash sig hash repl =? Model.lb_hash sig hash u)); [discriminate|].
           apply IH in H; [|exact Hv|exact Hinv].
           destruct H as [S2 Hu]. split; [|exact Hu].
           eapply same_trans; [exact S1|]. eapply same_trans; [eapply find_new_primary_same; exact Ef2 | exact S2].
Qed.

Lemma verify_func_sound : forall c s t u now c' s',
  verify_func sig sv hash vhash bid_hash W ask rank P c s t u now = (None, c', s') ->
  TB t -> same_data c c' /\ exists u', lb_hash u' = lb_hash u /\ TB u'.
Proof.
  intros c s t u now c' s' H Ht. unfold verify_func in H. destruct (p_sequential P).
  - unfold verify_sequential in H. apply seq_loop_sound in H.
    + destruct H as [S Hu]. split; [exact S|]. exists u. split; [reflexivity | exact Hu].
    + exact Ht.
    + intros _. right. cbn. lia.
  - eapply vsap_sound; [exact H | exact Ht].
Qed.

(* ---------------------------------------------------------------- backwards *)

Lemma back_reach_trusted : forall a v, back_reach hash a v -> Trusted (hash a) -> Trusted (hash v).
Proof.
  intros a v H Ha. induction H as [|x y _ IH Hyx]; [exact Ha|].
  eapply T_back; [exact IH | exact Hyx].
Qed.

Lemma backwards_same : forall fuel c s verified newh r c' s',
  backwards sig hash W ask rank fuel c s verified newh = (r, c', s') -> same_data c c'.
Proof.
  induction fuel as [|fuel IH]; intros c s verified newh r c' s' H; cbn [backwards] in H.
  - injection H as _ <- _. apply same_refl.
  - destruct (h_height newh <? h_height verified).
    + destruct (light_block_from_primary sig W ask rank c s (h_height verified - 1)) as [[r1 c1] s1] eqn:Ef.
      pose proof (lbfp_same _ _ _ _ _ _ Ef) as S1.
      destruct r1 as [ib|e]; [|injection H as _ <- _; exact S1].
      destruct (verify_backwards hash (lb_hdr ib) verified).
      * apply IH in H. eapply same_trans; eassumption.
      * destruct (find_new_primary sig W ask rank c1 s1 (h_height newh) true) as [[r2 c2] s2] eqn:Ef2.
        pose proof (find_new_primary_same _ _ _ _ _ _ _ Ef2) as S2.
        destruct r2 as [nb|e]; [|injection H as _ <- _; eapply same_trans; eassumption].
        destruct (negb (Model.lb_hash sig hash nb =? hash newh)).
        -- injection H as _ <- _. eapply same_trans; eassumption.
        -- apply IH in H. eapply same_trans; [exact S1|]. eapply same_trans; eassumption.
    + destruct (negb (hash verified =? hash newh)); injection H as _ <- _; apply same_refl.
Qed.

(* ---------------------------------------------------------------- the store *)

Lemma insert_by_in : forall (x b : lblock) l, In x (insert_by lb_height b l) -> x = b \/ In x l.
Proof.
  intros x b l. induction l as [|y l IH]; cbn [insert_by]; intro H.
  - destruct H as [H|[]]. left. symmetry. exact H.
  - destruct (lb_height b <? lb_height y).
    + destruct H as [H|H]; [left; symmetry; exact H | right; exact H].
    + destruct (lb_height b =? lb_height y).
      * destruct H as [H|H]; [left; symmetry; exact H | right; right; exact H].
      * destruct H as [H|H]; [right; left; exact H|].
        apply IH in H as [H|H]; [left; exact H | right; right; exact H].
Qed.

Lemma skipn_in : forall {A} n (l : list A) x, In x (skipn n l) -> In x l.
Proof.
  intros A n. induction n as [|n IH]; intros l x H; [exact H|].
  destruct l as [|a l]; [exact H|]. right. apply IH. exact H.
Qed.

Lemma update_trusted_inv : forall c u, Inv c -> TB u -> Inv (update_trusted sig P c u).
Proof.
  intros c u [I1 I2] Hu. unfold update_trusted. split; cbn [Model.cl_store Model.cl_latest].
  - intros b Hb.
    assert (Hb' : In b (insert_by lb_height u (cl_store c))).
    { destruct (0 <? p_prune P); [unfold store_prune in Hb; eapply skipn_in; exact Hb | exact Hb]. }
    apply insert_by_in in Hb' as [->|Hb']; [exact Hu | apply I1; exact Hb'].
  - intros l Hl. destruct (cl_latest c) as [l0|] eqn:El.
    + destruct (lb_height l0 <? lb_height u); injection Hl as <-; [exact Hu | apply I2; reflexivity].
    + injection Hl as <-. exact Hu.
Qed.

Lemma store_before_in : forall l h b, store_before sig l h = Some b -> In b l.
Proof.
  intros l h b. unfold store_before.
  assert (G : forall l acc, fold_left (fun acc b => if lb_height b <? h then Some b else acc) l acc = Some b ->
                            In b l \/ acc = Some b).
  { induction l0 as [|x l0 IH]; intros acc H; cbn [fold_left] in H; [right; exact H|].
    apply IH in H as [H|H]; [left; right; exact H|].
    destruct (lb_height x <? h); [injection H as ->; left; left; reflexivity | right; exact H]. }
  intro H. apply G in H as [H|H]; [exact H | discriminate].
Qed.

Lemma tb_hash_transfer : forall u u', lb_hash u' = lb_hash u -> TB u' -> vals_bound u -> TB u.
Proof. intros u u' Hh [T _] Hb. split; [rewrite <- Hh; exact T | exact Hb]. Qed.

Lemma vsap_same : forall fuel c s t u now r c' s',
  verify_skipping_against_primary sig sv hash vhash bid_hash W ask rank fuel P c s t u now = (r, c', s') ->
  same_data c c'.
Proof.
  induction fuel as [|fuel IH]; intros c s t u now r c' s' H; cbn [verify_skipping_against_primary] in H.
  - injection H as _ <- _. apply same_refl.
  - destruct (verify_skipping sig sv hash vhash bid_hash W ask P (cl_primary sig c) s t u now) as [r1 s1].
    destruct r1 as [trace|e]; [eapply detect_same; exact H|].
    destruct e as [v to| |pe|].
    + destruct v; try (injection H as _ <- _; apply same_refl).
      destruct (to =? lb_height u); [injection H as _ <- _; apply same_refl|].
      destruct (find_new_primary sig W ask rank c s1 (lb_height u) true) as [[r2 c1] s2] eqn:Ef.
      pose proof (find_new_primary_same _ _ _ _ _ _ _ Ef) as S1.
      destruct r2 as [repl|e2]; [|injection H as _ <- _; exact S1].
      destruct (negb (Model.lb_hash sig hash repl =? Model.lb_hash sig hash u)).
      * injection H as _ <- _; exact S1.
      * apply IH in H. eapply same_trans; eassumption.
    + eapply detect_same; exact H.
    + injection H as _ <- _. apply same_refl.
    + injection H as _ <- _. apply same_refl.
Qed.

Lemma seq_loop_same : forall fuel c s u now verified height trace r c' s',
  verify_sequential_loop sig sv hash vhash bid_hash W ask rank fuel P c s u now verified height trace = (r, c', s') ->
  same_data c c'.
Proof.
  induction fuel as [|fuel IH]; intros c s u now verified height trace r c' s' H;
    cbn [verify_sequential_loop] in H.
  - injection H as _ <- _. apply same_refl.
  - destruct (lb_height u <? height); [eapply detect_same; exact H|].
    destruct (if height =? lb_height u then (inl u, c, s)
              else light_block_from_primary sig W ask rank c s height) as [[fetched c1] s1] eqn:Ef.
    assert (S1 : same_data c c1).
    { destruct (height =? lb_height u); [injection Ef as _ <- _; apply same_refl|].
      eapply lbfp_same; exact Ef. }
    destruct fetched as [interim|e].
    + destruct (verify_adjacent sig sv hash vhash bid_hash P verified interim now);
        try (injection H as _ <- _; exact S1).
      * apply IH in H. eapply same_trans; eassumption.
      * destruct (lb_height interim =? lb_height u); [injection H as _ <- _; exact S1|].
        destruct (find_new_primary sig W ask rank c1 s1 (lb_height u) true) as [[r2 c2] s2] eqn:Ef2.
        pose proof (find_new_primary_same _ _ _ _ _ _ _ Ef2) as S2.
        destruct r2 as [repl|e2]; [|injection H as _ <- _; eapply same_trans; eassumption].
        destruct (negb (Model.lb_hash sig hash repl =? Model.lb_hash sig hash u)).
        -- injection H as _ <- _; eapply same_trans; eassumption.
        -- apply IH in H. eapply same_trans; [exact S1|]. eapply same_trans; eassumption.
    + destruct e; injection H as _ <- _; exact S1.
Qed.

Lemma verify_func_same : forall c s t u now r c' s',
  verify_func sig sv hash vhash bid_hash W ask rank P c s t u now = (r, c', s') -> same_data c c'.
Proof.
  intros c s t u now r c' s' H. unfold verify_func in H. destruct (p_sequential P).
  - unfold verify_sequential in H. eapply seq_loop_same; exact H.
  - eapply vsap_same; exact H.
Qed.

Lemma verify_light_block_inv : forall c s u now r c' s',
  verify_light_block sig sv hash vhash bid_hash W ask rank P c s u now = (r, c', s') ->
  Inv c -> vals_bound u -> Inv c'.
Proof.
  intros c s u now r c' s' H Hi Hu. unfold verify_light_block in H.
  destruct (cl_latest c) as [latest|] eqn:El; [|injection H as _ <- _; exact Hi].
  destruct (cl_store c) as [|firstb rest] eqn:Es; [injection H as _ <- _; exact Hi|].
  assert (Hlatest : TB latest) by (apply (proj2 Hi); exact El).
  assert (Hfirst : TB firstb) by (apply (proj1 Hi); rewrite Es; left; reflexivity).
  destruct (lb_height latest <=? lb_height u).
  - destruct (verify_func sig sv hash vhash bid_hash W ask rank P c s latest u now) as [[e c1] s1] eqn:Ev.
    pose proof (verify_func_same _ _ _ _ _ _ _ _ Ev) as S1.
    destruct e as [e|]; injection H as _ <- _.
    + eapply same_inv; eassumption.
    + apply update_trusted_inv; [eapply same_inv; eassumption|].
      apply verify_func_sound in Ev; [|exact Hlatest]. destruct Ev as [_ [u' [Hh Hu']]].
      eapply tb_hash_transfer; eassumption.
  - destruct (lb_height u <? lb_height firstb).
    + match type of H with context [backwards sig hash W ask rank ?f c s ?a ?b] =>
        destruct (backwards sig hash W ask rank f c s a b) as [[e c1] s1] eqn:Eb end.
      pose proof (backwards_same _ _ _ _ _ _ _ _ Eb) as S1.
      destruct e as [e|]; injection H as _ <- _.
      * eapply same_inv; eassumption.
      * apply update_trusted_inv; [eapply same_inv; eassumption|].
        apply (backwards_sound sig hash W ask rank) in Eb as [v [Hr Hv]].
        split; [|exact Hu]. unfold Model.lb_hash. rewrite <- Hv.
        eapply back_reach_trusted; [exact Hr | exact (proj1 Hfirst)].
    + destruct (store_before sig (firstb :: rest) (lb_height u)) as [closest|] eqn:Ec.
      * assert (Hclosest : TB closest).
        { apply (proj1 Hi). rewrite Es. eapply store_before_in. exact Ec. }
        destruct (verify_func sig sv hash vhash bid_hash W ask rank P c s closest u now) as [[e c1] s1] eqn:Ev.
        pose proof (verify_func_same _ _ _ _ _ _ _ _ Ev) as S1.
        destruct e as [e|]; injection H as _ <- _.
        -- eapply same_inv; eassumption.
        -- apply update_trusted_inv; [eapply same_inv; eassumption|].
           apply verify_func_sound in Ev; [|exact Hclosest]. destruct Ev as [_ [u' [Hh Hu']]].
           eapply tb_hash_transfer; eassumption.
      * injection H as _ <- _. exact Hi.
Qed.

Lemma step_inv : forall c s o r c' s',
  step sig sv hash vhash bid_hash W ask rank P c s o = (r, c', s') -> Inv c -> Inv c'.
Proof.
  intros c s o r c' s' H Hi. destruct o as [h now|now]; cbn [step] in H.
  - unfold verify_at in H. destruct (h <=? 0); [injection H as _ <- _; exact Hi|].
    destruct (if last_height sig c <? h then None else store_lookup sig (cl_store c) h).
    + injection H as _ <- _; exact Hi.
    + destruct (light_block_from_primary sig W ask rank c s h) as [[r1 c1] s1] eqn:Ef.
      pose proof (lbfp_same _ _ _ _ _ _ Ef) as S1.
      destruct r1 as [b|e]; [|injection H as _ <- _; eapply same_inv; eassumption].
      eapply verify_light_block_inv; [exact H | eapply same_inv; eassumption | eapply lbfp_good; exact Ef].
  - unfold update in H. destruct (last_height sig c =? -1); [injection H as _ <- _; exact Hi|].
    destruct (light_block_from_primary sig W ask rank c s 0) as [[r1 c1] s1] eqn:Ef.
    pose proof (lbfp_same _ _ _ _ _ _ Ef) as S1.
    destruct r1 as [b|e]; [|injection H as _ <- _; eapply same_inv; eassumption].
    destruct (last_height sig c <? lb_height b).
    + eapply verify_light_block_inv; [exact H | eapply same_inv; eassumption | eapply lbfp_good; exact Ef].
    + injection H as _ <- _. eapply same_inv; eassumption.
Qed.

Lemma run_final_inv : forall ops c s c' s',
  run_final sig sv hash vhash bid_hash W ask rank P c s ops = (c', s') -> Inv c -> Inv c'.
Proof.
  induction ops as [|o ops IH]; intros c s c' s' H Hi; cbn [run_final] in H.
  - injection H as <- _. exact Hi.
  - destruct (step sig sv hash vhash bid_hash W ask rank P c s o) as [[e c1] s1] eqn:Es.
    apply step_inv in Es; [|exact Hi]. eapply IH; eassumption.
Qed.

Lemma compare_first_same : forall c s b r c' s',
  compare_first_header sig hash W ask rank c s b = (r, c', s') -> same_data c c'.
Proof.
  intros c s b r c' s' H. unfold compare_first_header in H.
  destruct (cl_witnesses c); [injection H as _ <- _; apply same_refl|].
  destruct (compare_all sig hash W ask s b _) as [msgs s1].
  destruct (first_loop sig _ []) as [rm|e]; [|injection H as _ <- _; apply same_refl].
  destruct (remove_witnesses _ rm); injection H as _ <- _; [apply same_set | apply same_refl].
Qed.

Lemma initialize_inv : forall prim ws s th c0 s1,
  initialize sig sv hash vhash bid_hash W ask rank P prim ws s th root = (None, c0, s1) -> Inv c0.
Proof.
  intros prim ws s th c0 s1 H. unfold initialize in H.
  destruct ws as [|w0 ws']; [discriminate|].
  set (cE := {| Model.cl_primary := prim; Model.cl_witnesses := w0 :: ws'; Model.cl_store := [];
                Model.cl_latest := None |}) in *.
  assert (HE : Inv cE). { split; [intros b [] | intros l Hl; discriminate]. }
  destruct (light_block_from_primary sig W ask rank cE s th) as [[r1 c1] s2] eqn:Ef.
  pose proof (lbfp_same _ _ _ _ _ _ Ef) as S1.
  destruct r1 as [b|e]; [|discriminate].
  destruct (light_block_validate_basic sig hash vhash bid_hash (p_chain P) b) eqn:Evb; cbn [negb] in H; [|discriminate].
  destruct (Model.lb_hash sig hash b =? root) eqn:Eh; cbn [negb] in H; [|discriminate].
  destruct (verify_commit_light sv (lb_vals b) (p_chain P) _ _ _); try discriminate.
  destruct (compare_first_header sig hash W ask rank c1 s2 b) as [[e2 c2] s3] eqn:Ec.
  pose proof (compare_first_same _ _ _ _ _ _ Ec) as S2.
  destruct e2 as [e2|]; [discriminate|]. injection H as <- _.
  apply update_trusted_inv.
  - eapply same_inv; [exact S2|]. eapply same_inv; [exact S1 | exact HE].
  - split.
    + apply Z.eqb_eq in Eh. rewrite Eh. apply T_root.
    + unfold light_block_validate_basic in Evb. apply andb_true_iff in Evb as [_ Evb].
      apply Z.eqb_eq. exact Evb.
Qed.

Theorem store_sound : forall prim ws s0 th c0 s1 ops c s,
  initialize sig sv hash vhash bid_hash W ask rank P prim ws s0 th root = (None, c0, s1) ->
  run_final sig sv hash vhash bid_hash W ask rank P c0 s1 ops = (c, s) ->
  forall b, In b (cl_store c) -> Trusted (lb_hash b) /\ vals_bound b.
Proof.
  intros prim ws s0 th c0 s1 ops c s Hi Hr b Hb.
  apply initialize_inv in Hi. eapply run_final_inv in Hr; [|exact Hi].
  exact (proj1 Hr b Hb).
Qed.

End Store.
