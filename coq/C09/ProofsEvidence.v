(* C09 — proofs about the contents of the detector's evidence (C09/EvidenceModel.v) and its
   admission by an honest full node (C11/Model.v: Pool.verify / VerifyLightClientAttack). *)
From Coq Require Import List ZArith NArith Bool Lia.
From TM Require Import Generated.Consts C07.Model C07.Proofs C09.Model C09.Proofs C09.EvidenceModel C09.EvidenceRun.
From TM Require C11.Model C11.Spec C11.SpecProofs.
Import ListNotations.
Open Scope Z_scope.

Module EP := TM.C11.SpecProofs.

(* ------------------------------------------------------------------ generic *)

Lemma linked_app_inv : forall {A} (R : A -> A -> Prop) l1 a b l2,
  linked R (l1 ++ a :: b :: l2) -> R a b.
Proof.
  intros A R l1. induction l1 as [|x l1 IH]; intros a b l2 H.
  - cbn in H. exact (proj1 H).
  - destruct l1 as [|y l1'].
    + cbn in H. destruct H as [_ H]. exact (IH a b l2 H).
    + change ((x :: y :: l1') ++ a :: b :: l2) with (x :: (y :: l1') ++ a :: b :: l2) in H.
      cbn [linked app] in H. destruct H as [_ H]. exact (IH a b l2 H).
Qed.

Lemma linked_tail : forall {A} (R : A -> A -> Prop) a l, linked R (a :: l) -> linked R l.
Proof. intros A R a l H. destruct l as [|b l]; [exact I|]. cbn in H. exact (proj2 H). Qed.

(* ------------------------------------------------------------------ trust levels (C07) *)

Section TrustMono.
Variable sig : Type.
Variable sv : key -> signmsg -> sig -> bool.

Lemma vt_loop_mono : forall chain (c : commit sig) n1 n2 vs sigs idx t seen,
  n1 <= n2 ->
  vt_loop sig sv idw chain c n2 vs sigs idx t seen = R_ok ->
  vt_loop sig sv idw chain c n1 vs sigs idx t seen = R_ok.
Proof.
  intros chain c n1 n2 vs sigs. induction sigs as [|cs sigs IH]; intros idx t seen Hle H.
  - cbn in H. discriminate.
  - rewrite vt_loop_cons in *.
    destruct (negb (cs_for_block cs)); [apply IH; assumption|].
    destruct (get_by_address vs (cs_addr cs) 0) as [[vi v]|]; [|apply IH; assumption].
    destruct (existsb (Nat.eqb vi) seen); [discriminate|].
    destruct (vote_sign_bytes chain c cs) as [m|]; [|discriminate].
    destruct (negb (sv (v_key v) m (cs_sig cs))); [discriminate|].
    cbv zeta in *.
    destruct (idw (t + v_power v) >? n1) eqn:E1; [reflexivity|].
    destruct (idw (t + v_power v) >? n2) eqn:E2; [lia|].
    apply IH; assumption.
Qed.

Lemma safe_mul_one : forall T, 0 <= T <= max_int64 -> safe_mul idw T 1 = (T, false).
Proof.
  intros T HT. unfold safe_mul. destruct (T =? 0) eqn:E0.
  - apply Z.eqb_eq in E0. subst. reflexivity.
  - cbn [orb]. change (1 =? 0) with false. cbn [orb].
    change (1 <? 0) with false. cbv iota.
    assert ((T <? 0) = false) as -> by lia.
    rewrite Z.quot_1_r. assert ((T >? max_int64) = false) as -> by lia.
    unfold idw. rewrite Z.mul_1_r. reflexivity.
Qed.

(* a commit that carries more than num/den of a set carries more than 1/3 of it when
   num/den >= 1/3 (light.ValidateTrustLevel admits [1/3, 1] only); evidence.VerifyLightClientAttack
   re-checks the conflicting commit at light.DefaultTrustLevel = 1/3 *)
Lemma trusting_level_third : forall vs chain (c : commit sig) num den,
  wf_valset vs -> 0 <= num <= max_int64 -> 0 < den <= max_int64 -> den <= 3 * num ->
  verify_commit_light_trusting sv vs chain c num den = R_ok ->
  verify_commit_light_trusting sv vs chain c 1 3 = R_ok.
Proof.
  intros vs chain c num den Hwf Hn Hd Hlvl H.
  assert (M : 3 <= max_int64) by (unfold max_int64; lia).
  rewrite (verify_commit_light_trusting_nowrap sig sv vs chain c num den Hwf Hn ltac:(lia)) in H.
  rewrite (verify_commit_light_trusting_nowrap sig sv vs chain c 1 3 Hwf ltac:(lia) ltac:(lia)).
  unfold verify_commit_light_trusting_w in *.
  assert ((den =? 0) = false) as Ed by lia. rewrite Ed in H. change (3 =? 0) with false. cbv iota.
  rewrite (total_voting_power_wf vs Hwf) in *.
  destruct Hwf as [Hnn Hsum]. pose proof (sum_power_nonneg vs Hnn) as H0.
  pose proof max_total_small as [M0 M8]. set (T := sum_power vs) in *.
  change (idw num) with num in H. change (idw den) with den in H.
  change (idw 1) with 1. change (idw 3) with 3.
  rewrite (safe_mul_one T ltac:(lia)).
  destruct (safe_mul_nonneg T num ltac:(lia) Hn) as [_ Hex].
  destruct (safe_mul idw T num) as [prod ovf]. cbn [fst snd] in Hex.
  destruct ovf; [discriminate|]. destruct (Hex eq_refl) as [-> Hfit].
  change (idw (T * num ÷ den)) with (T * num ÷ den) in H. change (idw (T ÷ 3)) with (T ÷ 3).
  revert H. apply vt_loop_mono.
  rewrite !Z.quot_div_nonneg by nia.
  apply Z.div_le_lower_bound; [lia|].
  (* 3 * (T*num/den) >= T  since  T*num >= T*den/3 ... *)
  pose proof (Z.div_mod (T * num) den ltac:(lia)) as Edm.
  pose proof (Z.mod_pos_bound (T * num) den ltac:(lia)) as Bm.
  pose proof (Z.div_mod T 3 ltac:(lia)) as Edm3.
  pose proof (Z.mod_pos_bound T 3 ltac:(lia)) as Bm3.
  nia.
Qed.
End TrustMono.

Section PE.

Variable sig : Type.
Variable sv : key -> signmsg -> sig -> bool.
Variable hash : header -> Z.
Variable vhash : list validator -> Z.
Variable bid_hash : blockid -> Z.
Variable an : Z -> N.
Variable hn : Z -> N.
Hypothesis hn_inj : forall a b, hn a = hn b -> a = b.

Notation lblock := (lblock sig).
Notation lb_hdr := (lb_hdr sig).
Notation lb_commit := (lb_commit sig).
Notation lb_vals := (lb_vals sig).
Notation lb_height := (lb_height sig).
Notation lb_time := (lb_time sig).
Notation lb_hash := (lb_hash sig hash).
Notation verify := (verify sig sv hash vhash bid_hash).
Notation to_header := (to_header sig hash hn).
Notation to_vals := (to_vals an).
Notation mk_lca := (mk_lca sig sv hash vhash bid_hash an hn).
Notation lca_core := (lca_core sig sv hash vhash bid_hash an hn).
Notation new_evidence_full := (new_evidence_full sig sv hash vhash bid_hash an hn).
Notation to_lca := (to_lca sig sv hash vhash bid_hash an hn).
Notation to_evidence := (to_evidence sig sv hash vhash bid_hash an hn).
Notation node_env := (node_env sig hash an hn).
Notation V := (V sig sv hash vhash bid_hash).

(* ------------------------------------------------------------------ translation facts *)

Lemma hn_eqb : forall a b, (hn a =? hn b)%N = (a =? b).
Proof.
  intros a b. destruct (a =? b) eqn:E.
  - apply Z.eqb_eq in E. subst. apply N.eqb_refl.
  - apply N.eqb_neq. intro H. apply hn_inj in H. apply Z.eqb_neq in E. contradiction.
Qed.

(* ConflictingHeaderIsInvalid is the same predicate on both sides of the translation *)
Lemma header_invalid_to : forall chain b cm tm tot byz tr t,
  E.header_invalid (mk_lca chain b cm tm tot byz tr) (to_header t) =
  conflicting_header_is_invalid (lb_hdr b) (lb_hdr t).
Proof.
  intros. unfold E.header_invalid, conflicting_header_is_invalid, EvidenceModel.mk_lca,
    EvidenceModel.to_header. cbn [E.l_vh E.l_nvh E.l_ch E.l_ah E.l_lrh E.h_vh E.h_nvh E.h_ch E.h_ah E.h_lrh].
  rewrite !hn_eqb.
  rewrite (Z.eqb_sym (h_vals_hash (lb_hdr t))), (Z.eqb_sym (h_next_vals_hash (lb_hdr t))),
    (Z.eqb_sym (h_cons (lb_hdr t))), (Z.eqb_sym (h_app (lb_hdr t))), (Z.eqb_sym (h_res (lb_hdr t))).
  destruct (h_vals_hash (lb_hdr b) =? h_vals_hash (lb_hdr t)),
    (h_next_vals_hash (lb_hdr b) =? h_next_vals_hash (lb_hdr t)),
    (h_cons (lb_hdr b) =? h_cons (lb_hdr t)), (h_app (lb_hdr b) =? h_app (lb_hdr t)),
    (h_res (lb_hdr b) =? h_res (lb_hdr t)); reflexivity.
Qed.

(* GetByzantineValidators reads the conflicting block only *)
Lemma byz_core : forall chain b cm tm tot byz tr cv t,
  E.byz_validators (mk_lca chain b cm tm tot byz tr) cv t = E.byz_validators (lca_core chain b) cv t.
Proof. intros. reflexivity. Qed.

Lemma vs_total_to_vals : forall vs, E.vs_total (to_vals vs) = sum_power vs.
Proof.
  induction vs as [|v vs IH]; [reflexivity|].
  unfold EvidenceModel.to_vals, E.vs_total in *. cbn [map fold_right]. rewrite IH. reflexivity.
Qed.

Lemma total_power_wf : forall vs, wf_valset vs -> total_power vs = sum_power vs.
Proof. intros vs H. unfold total_power. rewrite (total_voting_power_wf vs H). reflexivity. Qed.

Lemma vals_eqb_refl : forall l, E.vals_eqb l l = true.
Proof. intro l. apply EP.vals_eqb_eq. reflexivity. Qed.

(* the extended evidence projects to the evidence of Model.v (observable 15) *)
Lemma ef_proj_new : forall fx c t cm,
  ef_proj sig (new_evidence_full fx c t cm) = new_evidence sig c t cm.
Proof.
  intros. unfold ef_proj, EvidenceModel.new_evidence_full, new_evidence. cbn [ef_block ef_common].
  destruct (conflicting_header_is_invalid (lb_hdr c) (lb_hdr t)); reflexivity.
Qed.


(* ------------------------------------------------------------------ one verified step *)

Lemma verify_ok_inv : forall P t u now,
  verify P t (lb_vals t) u now = E_ok ->
  own_commit_check sig sv t u = R_ok /\ lb_height t < lb_height u /\ lb_time t < lb_time u /\
  h_chain (lb_hdr u) = h_chain (lb_hdr t) /\
  (lb_height u <> lb_height t + 1 ->
   verify_commit_light_trusting sv (lb_vals t) (h_chain (lb_hdr t)) (lb_commit u) (p_num P) (p_den P) = R_ok).
Proof.
  intros P t u now H.
  assert (CH : forall drift, verify_new_header_and_vals sig hash vhash bid_hash u t now drift = true ->
               lb_height t < lb_height u /\ lb_time t < lb_time u /\ h_chain (lb_hdr u) = h_chain (lb_hdr t)).
  { intros drift Ev. apply (vnhv_true sig hash vhash bid_hash) in Ev as [A [B [C _]]].
    split; [exact B|]. split; [exact C|].
    unfold signed_header_validate_basic in A.
    apply andb_true_iff in A as [A _]. apply andb_true_iff in A as [A _].
    apply andb_true_iff in A as [_ A]. apply Z.eqb_eq. exact A. }
  unfold C09.Model.verify in H. destruct (lb_height u =? lb_height t + 1) eqn:Eh; cbn [negb] in H.
  - unfold C09.Model.verify_adjacent in H. rewrite Eh in H. cbn [negb] in H.
    destruct (header_expired sig t (p_period P) now); [discriminate|].
    destruct (verify_new_header_and_vals sig hash vhash bid_hash u t now (p_drift P)) eqn:Ev;
      cbn [negb] in H; [|discriminate].
    destruct (h_vals_hash (lb_hdr u) =? h_next_vals_hash (lb_hdr t)); cbn [negb] in H; [|discriminate].
    destruct (own_commit_check sig sv t u) eqn:Eo; try discriminate.
    destruct (CH _ Ev) as [A [B C]]. repeat split; try assumption.
    intro N. apply Z.eqb_eq in Eh. contradiction.
  - unfold C09.Model.verify_non_adjacent in H. rewrite Eh in H.
    destruct (header_expired sig t (p_period P) now); [discriminate|].
    destruct (verify_new_header_and_vals sig hash vhash bid_hash u t now (p_drift P)) eqn:Ev;
      cbn [negb] in H; [|discriminate].
    destruct (verify_commit_light_trusting sv (lb_vals t) (h_chain (lb_hdr t)) (lb_commit u) (p_num P) (p_den P))
      eqn:Et; try discriminate.
    destruct (own_commit_check sig sv t u) eqn:Eo; try discriminate.
    destruct (CH _ Ev) as [A [B C]]. repeat split; try assumption.
Qed.

(* along a verified trace the chain id does not change *)
Lemma linked_chain : forall P now l a z d,
  linked (V P now) (a :: l) -> last (a :: l) d = z -> h_chain (lb_hdr z) = h_chain (lb_hdr a).
Proof.
  intros P now l. induction l as [|b l IH]; intros a z d HL E.
  - cbn in E. subst. reflexivity.
  - cbn [linked] in HL. destruct HL as [Hv HL].
    apply verify_ok_inv in Hv as [_ [_ [_ [C _]]]].
    change (last (a :: b :: l) d) with (last (b :: l) d) in E.
    rewrite (IH b z d HL E). exact C.
Qed.

(* ------------------------------------------------------------------ handleConflictingHeaders *)

Variable W : Type.
Variable ask : W -> pid -> Z -> preply sig * W.

Notation examine_loop := (examine_loop sig sv hash vhash bid_hash W ask).
Notation examine_conflicting := (examine_conflicting sig sv hash vhash bid_hash W ask).
Notation handle_conflicting := (handle_conflicting sig sv hash vhash bid_hash W ask).
Notation verify_skipping := (verify_skipping sig sv hash vhash bid_hash W ask).
Notation hc_full := (hc_full sig sv hash vhash bid_hash an hn W ask).

Definition proj_all (l : list (pid * evid_full sig)) : list (pid * evid sig) :=
  map (fun pe => (fst pe, ef_proj sig (snd pe))) l.

(* EXACTLY what handleConflictingHeaders reports, to whom, and what it returns *)
Lemma hc_cases : forall fx P c now s ptrace b i,
  let sw := nth i (cl_witnesses sig c) 0 in
  match examine_conflicting P sw now s ptrace b with
  | (None, s1) =>
    handle_conflicting P c now s ptrace b i = (HC_not_attack, s1) /\ hc_full fx P c now s ptrace b i = []
  | (Some ([], _), s1) =>
    handle_conflicting P c now s ptrace b i = (HC_panic, s1) /\ hc_full fx P c now s ptrace b i = []
  | (Some (common :: wr, pblock), s1) =>
    let wtrace := common :: wr in
    let e1 := new_evidence_full fx pblock (last wtrace common) common in
    let s2 := reportS sig W s1 sw (ef_proj sig e1) in
    match examine_conflicting P (cl_primary sig c) now s2 wtrace pblock with
    | (None, s3) =>
      handle_conflicting P c now s ptrace b i = (HC_attack, s3) /\
      hc_full fx P c now s ptrace b i = [(sw, e1)]
    | (Some ([], _), s3) =>
      handle_conflicting P c now s ptrace b i = (HC_panic, s3) /\
      hc_full fx P c now s ptrace b i = [(sw, e1)]
    | (Some (common' :: pr, wblock), s3) =>
      let e2 := new_evidence_full fx wblock (last (common' :: pr) common') common' in
      handle_conflicting P c now s ptrace b i =
        (HC_attack, reportS sig W s3 (cl_primary sig c) (ef_proj sig e2)) /\
      hc_full fx P c now s ptrace b i = [(cl_primary sig c, e2); (sw, e1)]
    end
  end.
Proof.
  intros fx P c now s ptrace b i sw.
  unfold C09.Model.handle_conflicting, EvidenceModel.hc_full. fold sw.
  destruct (examine_conflicting P sw now s ptrace b) as [[[wtrace pblock]|] s1]; [|split; reflexivity].
  destruct wtrace as [|common wr]; [split; reflexivity|].
  cbv zeta. rewrite !ef_proj_new.
  destruct (examine_conflicting P (cl_primary sig c) now
              (reportS sig W s1 sw (new_evidence sig pblock (last (common :: wr) common) common))
              (common :: wr) pblock) as [[[ptrace' wblock]|] s3]; [|split; reflexivity].
  destruct ptrace' as [|common' pr]; (split; [try rewrite ef_proj_new; reflexivity | reflexivity]).
Qed.

(* the evidence Model.handle_conflicting appends to st_ev (what the correspondence run compares with
   the implementation, observable 15) is the projection of the full evidence *)
Lemma hc_full_reports : forall fx P c now s ptrace b i r s',
  handle_conflicting P c now s ptrace b i = (r, s') ->
  st_ev sig W s' = proj_all (hc_full fx P c now s ptrace b i) ++ st_ev sig W s.
Proof.
  intros fx P c now s ptrace b i r s' H.
  pose proof (hc_cases fx P c now s ptrace b i) as C. cbv zeta in C.
  destruct (examine_conflicting P (nth i (cl_witnesses sig c) 0) now s ptrace b)
    as [[[wtrace pblock]|] s1] eqn:E1.
  2:{ destruct C as [C1 C2]. rewrite C2. rewrite C1 in H. injection H as _ <-.
      apply (examine_ev sig sv hash vhash bid_hash W ask) in E1. exact E1. }
  apply (examine_ev sig sv hash vhash bid_hash W ask) in E1.
  destruct wtrace as [|common wr].
  { destruct C as [C1 C2]. rewrite C2. rewrite C1 in H. injection H as _ <-. exact E1. }
  match type of C with context [examine_conflicting P ?p now ?s2 ?wt ?pb] =>
    destruct (examine_conflicting P p now s2 wt pb) as [[[ptrace' wblock]|] s3] eqn:E2 end.
  2:{ destruct C as [C1 C2]. rewrite C2. rewrite C1 in H. injection H as _ <-.
      apply (examine_ev sig sv hash vhash bid_hash W ask) in E2. cbn [reportS st_ev] in E2.
      rewrite E2, E1. reflexivity. }
  apply (examine_ev sig sv hash vhash bid_hash W ask) in E2. cbn [reportS st_ev] in E2.
  destruct ptrace' as [|common' pr]; destruct C as [C1 C2]; rewrite C2; rewrite C1 in H;
    injection H as _ <-.
  - rewrite E2, E1. reflexivity.
  - cbn [reportS st_ev]. rewrite E2, E1. reflexivity.
Qed.


(* ------------------------------------------------------------------ examineConflictingHeaderAgainstTrace *)

(* what a successful examination returns.  [pred], [pblock]: two consecutive blocks of the examined
   trace (so the trace's owner verified pblock directly from pred); [prev]: the source's block with
   pred's hash (the last block both sides agree on).  Either (fresh) the returned source trace
   starts with prev, is verified step by step and ends with the block x the source backs
   against pblock - x = target with pblock above it and not later in time (forward lunatic), or
   x has another hash than pblock and (when pblock has the target's height) is the target -
   or (stale) the code hands back the trace of the PREVIOUS iteration: pblock is above the target
   and prev has the target's height. *)
Definition exam_post (P : params) (now : Z) (target pred prev pblock : lblock) (wtrace : list lblock) : Prop :=
  V P now pred pblock /\ lb_hash prev = lb_hash pred /\
  (lb_height pred = lb_height target -> prev = target) /\
  ( (exists x mid, wtrace = prev :: mid ++ [x] /\ linked (V P now) wtrace /\
       ( (x = target /\ lb_height target < lb_height pblock /\ ~ lb_time target < lb_time pblock)
         \/ (lb_hash x <> lb_hash pblock /\ ~ lb_height target < lb_height pblock /\
             (lb_height pblock = lb_height target -> x = target)) ))
    \/ (lb_height target < lb_height pblock /\ ~ lb_time target < lb_time pblock /\
        lb_height prev = lb_height target /\ (wtrace = [] \/ exists pre', wtrace = pre' ++ [prev]) /\
        linked (V P now) wtrace) ).

Lemma examine_loop_spec : forall rest P source now target s pred prev strace wtrace pblock s',
  linked (V P now) (pred :: rest) ->
  lb_hash prev = lb_hash pred ->
  (lb_height pred = lb_height target -> prev = target) ->
  (strace = [] \/ exists pre', strace = pre' ++ [prev]) ->
  linked (V P now) strace ->
  examine_loop P source now target s rest false prev strace = (Some (wtrace, pblock), s') ->
  exists l1 pred' l2 prev',
    pred :: rest = l1 ++ pred' :: pblock :: l2 /\ exam_post P now target pred' prev' pblock wtrace.
Proof.
  induction rest as [|tb rest IH]; intros P source now target s pred prev strace wtrace pblock s' HL Hh Ht Hs Hsl H;
    cbn [C09.Model.examine_loop] in H; [discriminate|].
  assert (Hv : V P now pred tb) by (cbn [linked] in HL; exact (proj1 HL)).
  destruct (lb_height target <? lb_height tb) eqn:Ef.
  - destruct (lb_time target <? lb_time tb) eqn:Et; [discriminate|].
    destruct (negb (lb_height prev =? lb_height target)) eqn:Eh.
    + destruct (verify_skipping P source s prev target now) as [[tr|e] s1] eqn:Es; [|discriminate].
      injection H as <- <- _.
      apply (skipping_refines sig sv hash vhash bid_hash W ask) in Es as [L [mid Em]].
      exists [], pred, rest, prev. split; [reflexivity|].
      split; [exact Hv|]. split; [exact Hh|]. split; [exact Ht|].
      left. exists target, mid. split; [exact Em|]. split; [exact L|].
      left. split; [reflexivity|]. split; lia.
    + injection H as <- <- _. exists [], pred, rest, prev. split; [reflexivity|].
      split; [exact Hv|]. split; [exact Hh|]. split; [exact Ht|].
      right. apply negb_false_iff, Z.eqb_eq in Eh. repeat split; try lia; assumption.
  - destruct (if lb_height tb =? lb_height target then (P_block sig target, s)
              else askS sig W ask s source (lb_height tb)) as [sbr s1] eqn:E1.
    destruct sbr as [sb|e]; [|discriminate].
    assert (Hsb : lb_height tb = lb_height target -> sb = target).
    { intro Q. apply Z.eqb_eq in Q. rewrite Q in E1. injection E1 as E1 _. congruence. }
    destruct (verify_skipping P source s1 prev sb now) as [[tr|e] s2] eqn:Es; [|discriminate].
    apply (skipping_refines sig sv hash vhash bid_hash W ask) in Es as [L [mid Em]].
    destruct (negb (lb_hash sb =? lb_hash tb)) eqn:Ehh.
    + injection H as <- <- _. exists [], pred, rest, prev. split; [reflexivity|].
      split; [exact Hv|]. split; [exact Hh|]. split; [exact Ht|].
      left. exists sb, mid. split; [exact Em|]. split; [exact L|].
      right. apply negb_true_iff, Z.eqb_neq in Ehh. split; [exact Ehh|]. split; [lia | exact Hsb].
    + apply negb_false_iff, Z.eqb_eq in Ehh.
      apply (IH P source now target s2 tb sb tr wtrace pblock s') in H.
      * destruct H as [l1 [pred' [l2 [prev' [A B]]]]].
        exists (pred :: l1), pred', l2, prev'. split; [cbn [app]; rewrite A; reflexivity | exact B].
      * apply (linked_tail _ _ _ HL).
      * exact Ehh.
      * exact Hsb.
      * right. exists (prev :: mid). rewrite Em. reflexivity.
      * exact L.
Qed.

Lemma examine_spec : forall P source now s ptrace target wtrace pblock s',
  linked (V P now) ptrace ->
  examine_conflicting P source now s ptrace target = (Some (wtrace, pblock), s') ->
  exists l1 pred l2 prev,
    ptrace = l1 ++ pred :: pblock :: l2 /\ exam_post P now target pred prev pblock wtrace.
Proof.
  intros P source now s ptrace target wtrace pblock s' HL H.
  unfold C09.Model.examine_conflicting in H. destruct ptrace as [|t0 rest]; [discriminate|].
  destruct (lb_height target <? lb_height t0) eqn:E0; [discriminate|].
  cbn [C09.Model.examine_loop] in H. rewrite E0 in H.
  destruct (if lb_height t0 =? lb_height target then (P_block sig target, s)
            else askS sig W ask s source (lb_height t0)) as [sbr s1] eqn:E1.
  destruct sbr as [sb|e]; [|discriminate].
  assert (Hsb : lb_height t0 = lb_height target -> sb = target).
  { intro Q. apply Z.eqb_eq in Q. rewrite Q in E1. injection E1 as E1 _. congruence. }
  destruct (negb (lb_hash sb =? lb_hash t0)) eqn:Ehh; [discriminate|].
  apply negb_false_iff, Z.eqb_eq in Ehh.
  eapply examine_loop_spec; [exact HL | exact Ehh | exact Hsb | left; reflexivity | exact I | exact H].
Qed.


(* ------------------------------------------------------------------ no hash collisions *)

(* no block of [bs] collides with x: the same header hash means the same header and (the header
   binds ValidatorsHash, which LightBlock.ValidateBasic / verifyNewHeaderAndVals bind to the
   delivered set) the same validator set *)
Definition no_collision (bs : list lblock) (x : lblock) : Prop :=
  forall b, In b bs -> lb_hash b = lb_hash x -> lb_hdr b = lb_hdr x /\ lb_vals b = lb_vals x.

Lemma last_cons_snoc : forall (a : lblock) mid x d, last (a :: mid ++ [x]) d = x.
Proof. intros. change (a :: mid ++ [x]) with ((a :: mid) ++ [x]). apply last_last. Qed.

Lemma hdr_height : forall a b : lblock, lb_hdr a = lb_hdr b -> lb_height a = lb_height b.
Proof. intros a b H. unfold C09.Model.lb_height. rewrite H. reflexivity. Qed.
Lemma hdr_time : forall a b : lblock, lb_hdr a = lb_hdr b -> lb_time a = lb_time b.
Proof. intros a b H. unfold C09.Model.lb_time. rewrite H. reflexivity. Qed.

(* with the trusted block (last of the returned trace) not colliding with the examined trace, the
   returned trace is the fresh one *)
Lemma exam_fresh : forall P now ptrace target l1 pred l2 prev pblock common wr,
  ptrace = l1 ++ pred :: pblock :: l2 ->
  exam_post P now target pred prev pblock (common :: wr) ->
  no_collision ptrace (last (common :: wr) common) ->
  common = prev /\ linked (V P now) (common :: wr) /\
  let x := last (common :: wr) common in
  ( (x = target /\ lb_height target < lb_height pblock /\ ~ lb_time target < lb_time pblock)
    \/ (lb_hash x <> lb_hash pblock /\ ~ lb_height target < lb_height pblock /\
        (lb_height pblock = lb_height target -> x = target)) ).
Proof.
  intros P now ptrace target l1 pred l2 prev pblock common wr Ep [Hv [Hh [Ht Hc]]] NC.
  destruct Hc as [[x [mid [Ew [L C]]]] | [F [T [Eh [Hs _]]]]].
  - injection Ew as -> ->. split; [reflexivity|]. split; [exact L|]. cbv zeta.
    rewrite last_cons_snoc. exact C.
  - exfalso. destruct Hs as [Hs | [pre' Hs]]; [discriminate|].
    assert (El : last (common :: wr) common = prev) by (rewrite Hs; apply last_last).
    rewrite El in NC.
    assert (Ip : In pred ptrace) by (rewrite Ep; apply in_or_app; right; left; reflexivity).
    destruct (NC pred Ip (eq_sym Hh)) as [Hd _].
    pose proof (hdr_height _ _ Hd) as Hhp. pose proof (hdr_time _ _ Hd) as Htp.
    assert (Q : prev = target) by (apply Ht; rewrite Hhp; exact Eh).
    apply verify_ok_inv in Hv as [_ [_ [Tm _]]]. apply T. rewrite <- Q, <- Htp. exact Tm.
Qed.

Lemma exam_linked : forall P now target pred prev pblock wtrace,
  exam_post P now target pred prev pblock wtrace -> linked (V P now) wtrace.
Proof.
  intros P now target pred prev pblock wtrace [_ [_ [_ [[x [mid [_ [L _]]]] | [_ [_ [_ [_ L]]]]]]]]; exact L.
Qed.

(* every evidence handleConflictingHeaders reports is newLightClientAttackEvidence of a successful
   examination: against the primary (sent to the witness) from the primary's trace examined with
   the witness as source; against the witness (sent to the primary) from the witness's trace -
   itself verified step by step - examined with the primary as source *)
Lemma evidence_origin : forall fx P c now s ptrace b i r e,
  linked (V P now) ptrace ->
  In (r, e) (hc_full fx P c now s ptrace b i) ->
  exists source s0 xtrace target conflicted common wr s1,
    linked (V P now) xtrace /\
    examine_conflicting P source now s0 xtrace target = (Some (common :: wr, conflicted), s1) /\
    e = new_evidence_full fx conflicted (last (common :: wr) common) common /\
    r = source /\
    ( (source = nth i (cl_witnesses sig c) 0 /\ xtrace = ptrace /\ target = b /\ s0 = s)
      \/ (source = cl_primary sig c /\ In target ptrace /\
          exists s', examine_conflicting P (nth i (cl_witnesses sig c) 0) now s ptrace b = (Some (xtrace, target), s')) ).
Proof.
  intros fx P c now s ptrace b i r e HL Hin.
  pose proof (hc_cases fx P c now s ptrace b i) as C. cbv zeta in C.
  destruct (examine_conflicting P (nth i (cl_witnesses sig c) 0) now s ptrace b)
    as [[[wtrace pblock]|] s1] eqn:E1.
  2:{ destruct C as [_ C]. rewrite C in Hin. destruct Hin. }
  destruct wtrace as [|common wr].
  { destruct C as [_ C]. rewrite C in Hin. destruct Hin. }
  assert (Wt : forall r0 e0,
            (r0, e0) = (nth i (cl_witnesses sig c) 0, new_evidence_full fx pblock (last (common :: wr) common) common) ->
            exists source s0 xtrace target conflicted common0 wr0 s2,
              linked (V P now) xtrace /\
              examine_conflicting P source now s0 xtrace target = (Some (common0 :: wr0, conflicted), s2) /\
              e0 = new_evidence_full fx conflicted (last (common0 :: wr0) common0) common0 /\ r0 = source /\
              ( (source = nth i (cl_witnesses sig c) 0 /\ xtrace = ptrace /\ target = b /\ s0 = s)
                \/ (source = cl_primary sig c /\ In target ptrace /\
                    exists s', (Some (common :: wr, pblock), s1) = (Some (xtrace, target), s')) )).
  { intros r0 e0 Q. injection Q as -> ->.
    exists (nth i (cl_witnesses sig c) 0), s, ptrace, b, pblock, common, wr, s1.
    split; [exact HL|]. split; [exact E1|]. split; [reflexivity|]. split; [reflexivity|]. left. repeat split. }
  destruct (examine_spec P _ now s ptrace b _ pblock s1 HL E1) as [l1 [pred [l2 [prev [Ep EPo]]]]].
  pose proof (exam_linked _ _ _ _ _ _ _ EPo) as Lw.
  assert (Ipb : In pblock ptrace) by (rewrite Ep; apply in_or_app; right; right; left; reflexivity).
  match type of C with context [examine_conflicting P ?p now ?s2 ?wt ?pb] =>
    destruct (examine_conflicting P p now s2 wt pb) as [[[ptrace' wblock]|] s3] eqn:E2 end.
  2:{ destruct C as [_ C]. rewrite C in Hin. destruct Hin as [Hin|[]]. exact (Wt r e (eq_sym Hin)). }
  destruct ptrace' as [|common' pr]; destruct C as [_ C]; rewrite C in Hin.
  - destruct Hin as [Hin|[]]. exact (Wt r e (eq_sym Hin)).
  - destruct Hin as [Hin|[Hin|[]]]; [|exact (Wt r e (eq_sym Hin))].
    injection Hin as <- <-.
    eexists (cl_primary sig c), _, (common :: wr), pblock, wblock, common', pr, s3.
    split; [exact Lw|]. split; [exact E2|]. split; [reflexivity|]. split; [reflexivity|].
    right. split; [reflexivity|]. split; [exact Ipb|]. exists s1. reflexivity.
Qed.

(* the contents of the evidence formed from a successful examination of [xtrace] (the accused
   side's verified trace) with [source] (the other side) *)
Lemma evidence_contents : forall (fx : bool) P source now s xtrace target conflicted s' common wr
                                 trusted (lun : bool) base bv chain,
  linked (V P now) xtrace ->
  examine_conflicting P source now s xtrace target = (Some (common :: wr, conflicted), s') ->
  trusted = last (common :: wr) common ->
  lun = conflicting_header_is_invalid (lb_hdr conflicted) (lb_hdr trusted) ->
  base = (if lun then common else trusted) ->
  bv = (if lun then common else if fx then trusted else common) ->
  chain = h_chain (lb_hdr trusted) ->
  no_collision xtrace trusted ->
  let e := new_evidence_full fx conflicted trusted common in
  (* ConflictingBlock: a block of the accused side's trace, verified by the client directly from
     its predecessor there; the common block is the source's block with that predecessor's hash,
     the first block of the source's verified trace, whose last block is the trusted one *)
  (exists l1 pred l2, xtrace = l1 ++ pred :: conflicted :: l2 /\ V P now pred conflicted /\
                      lb_hash common = lb_hash pred) /\
  linked (V P now) (common :: wr) /\
  ef_block sig e = conflicted /\
  (* CommonHeight / Timestamp / TotalVotingPower: of the common block for a lunatic conflict, of
     the trusted block otherwise - which has the conflicting block's height in a same-height
     conflict *)
  ef_common sig e = lb_height base /\ ef_time sig e = lb_time base /\
  ef_total sig e = total_power (lb_vals base) /\
  (lun = false -> lb_height conflicted = lb_height target -> ef_common sig e = lb_height conflicted) /\
  (lb_height conflicted = lb_height target -> trusted = target) /\
  (* ByzantineValidators: GetByzantineValidators(bv.ValidatorSet, trusted.SignedHeader) ... *)
  ef_byz sig e = E.byz_validators (lca_core chain conflicted) (to_vals (lb_vals bv)) (to_header trusted) /\
  (* ... which is THE list the specification (C11/Spec.v byz_ok) names, in its order, relative to
     the validator set [bv] *)
  (forall tvals, EP.byz_wf (lca_core chain conflicted) (to_vals (lb_vals bv)) tvals (to_header trusted) ->
     ES.byz_ok (lca_core chain conflicted) (to_vals (lb_vals bv)) tvals (to_header trusted) (ef_byz sig e) = true) /\
  (* with the repair, [bv] is the validator set of the evidence's height *)
  (fx = true -> bv = base).
Proof.
  intros fx P source now s xtrace target conflicted s' common wr trusted lun base bv chain
         HL Hex Etr Elun Ebase Ebv Echain NCt e.
  destruct (examine_spec P source now s xtrace target _ conflicted s' HL Hex) as [l1 [pred [l2 [prev [Ep EPo]]]]].
  rewrite Etr in NCt.
  destruct (exam_fresh P now xtrace target l1 pred l2 prev conflicted common wr Ep EPo NCt) as [Ec [L C]].
  cbv zeta in C. rewrite <- Etr in C. subst prev. destruct EPo as [Hv [Hh _]].
  assert (Etg : lb_height conflicted = lb_height target -> trusted = target).
  { intro Q. destruct C as [[_ [F _]] | [_ [_ X]]]; [lia | exact (X Q)]. }
  assert (Ebz : ef_byz sig e = E.byz_validators (lca_core chain conflicted) (to_vals (lb_vals bv)) (to_header trusted)).
  { unfold e, EvidenceModel.new_evidence_full. cbn [ef_byz]. rewrite <- Elun, <- Ebv, <- Echain. reflexivity. }
  split; [exists l1, pred, l2; repeat split; assumption|].
  split; [exact L|]. split; [reflexivity|].
  assert (Ecm : ef_common sig e = lb_height base).
  { unfold e, EvidenceModel.new_evidence_full. cbn [ef_common]. rewrite <- Elun, <- Ebase. reflexivity. }
  split; [exact Ecm|].
  split; [unfold e, EvidenceModel.new_evidence_full; cbn [ef_time]; rewrite <- Elun, <- Ebase; reflexivity|].
  split; [unfold e, EvidenceModel.new_evidence_full; cbn [ef_total]; rewrite <- Elun, <- Ebase; reflexivity|].
  split.
  { intros Ql Qh. rewrite Ecm, Ebase, Ql, (Etg Qh). symmetry. exact Qh. }
  split; [exact Etg|]. split; [exact Ebz|].
  split.
  { intros tvals Wf. rewrite Ebz. apply EP.byz_model_meets_spec. exact Wf. }
  intro Q. rewrite Ebv, Ebase, Q. reflexivity.
Qed.

(* ------------------------------------------------------------------ Pool.verify at the node *)

Lemma signed_header_node : forall node top h,
  E.signed_header (node_env node top) h = option_map (fun b => (h, to_header b)) (node h).
Proof.
  intros. unfold E.signed_header, EvidenceModel.node_env. cbn [E.en_meta].
  destruct (node h); reflexivity.
Qed.

(* Pool.verify of light client attack evidence whose height is a height the node holds: time and
   age checks, choice of the trusted header, then VerifyLightClientAttack *)
Lemma verify_eval : forall node top pst l (base : lblock) th t,
  node (lb_height base) = Some base ->
  E.l_common l = lb_height base -> E.l_time l = lb_time base ->
  ((E.s_time pst - lb_time base >? E.s_max_dur pst) &&
   (E.s_height pst - lb_height base >? E.s_max_blocks pst)) = false ->
  (if lb_height base =? E.l_height l then Some (lb_height base, to_header base)
   else match option_map (fun b => (E.l_height l, to_header b)) (node (E.l_height l)) with
        | Some t => Some t
        | None => match option_map (fun b => (top, to_header b)) (node top) with
                  | None => None
                  | Some t => if E.h_time (snd t) <? E.l_ctime l then None else Some t
                  end
        end) = Some (th, t) ->
  E.verify (node_env node top) pst {| E.e_hash := 0%N; E.e_size := 0; E.e_body := E.EvLca l |} =
  E.verify_lca l (lb_height base, to_header base) (th, t) (to_vals (lb_vals base)).
Proof.
  intros node top pst l base th t Hn Hc Ht Hx Hsel.
  unfold E.verify, E.e_height, E.e_time. cbn [E.e_body]. rewrite Hc, Ht.
  rewrite !signed_header_node.
  unfold EvidenceModel.node_env at 1 2. cbn [E.en_meta E.en_vals E.en_store_height]. rewrite Hn. cbn [option_map].
  change (E.h_time (to_header base)) with (lb_time base). rewrite Z.eqb_refl. cbn [negb].
  rewrite Hx. change (E.en_store_height (node_env node top)) with top. rewrite Hsel. reflexivity.
Qed.


(* ------------------------------------------------------------------ admission by an honest node *)

(* the node holds the trusted block: at the conflicting block's height, or (forward lunatic
   attack: the conflicting block is above the node's chain) as its latest block, which is not
   older than the conflicting block *)
Definition node_has_trusted (node : Z -> option lblock) (top : Z) (trusted pblock : lblock) : Prop :=
  (lb_height trusted = lb_height pblock /\ node (lb_height trusted) = Some trusted) \/
  (lb_height trusted < lb_height pblock /\ node (lb_height pblock) = None /\
   top = lb_height trusted /\ node top = Some trusted /\ ~ lb_time trusted < lb_time pblock).

(* every signature FOR the block in the conflicting commit is by the validator of its index and
   verifies (evidence/verify.go verifyAllSignaturesForBlock, repair F60).  The light client does
   NOT establish this: VerifyCommitLight stops at +2/3 *)
Definition all_for_block_ok (chain : Z) (b : lblock) : Prop :=
  forallb (fun s => negb (E.cs_flag s =? block_id_flag_commit) || E.cs_ok s)
          (to_sigs sig sv an chain (lb_commit b) (lb_vals b) (c_sigs (lb_commit b))) = true.

Lemma evidence_admissible : forall P now source s ptrace target pblock s' common wr node top pst
                                   trusted lun base chain,
  linked (V P now) ptrace ->
  examine_conflicting P source now s ptrace target = (Some (common :: wr, pblock), s') ->
  trusted = last (common :: wr) common ->
  lun = conflicting_header_is_invalid (lb_hdr pblock) (lb_hdr trusted) ->
  base = (if lun then common else trusted) ->
  chain = h_chain (lb_hdr trusted) ->
  no_collision ptrace common -> no_collision ptrace trusted ->
  0 <= p_num P <= max_int64 -> 0 < p_den P <= max_int64 -> p_den P <= 3 * p_num P ->
  wf_valset (lb_vals base) ->
  node (lb_height base) = Some base ->
  node_has_trusted node top trusted pblock ->
  ((E.s_time pst - lb_time base >? E.s_max_dur pst) &&
   (E.s_height pst - lb_height base >? E.s_max_blocks pst)) = false ->
  all_for_block_ok chain pblock ->
  ( (lun = true /\ lb_height pblock <> lb_height common + 1)
    \/ (lun = false /\ lb_height trusted = lb_height pblock)
    \/ verify_commit_light_trusting sv (lb_vals base) chain (lb_commit pblock) 1 3 = R_ok ) ->
  E.verify (node_env node top) pst
           (to_evidence chain (lb_vals base) (new_evidence_full true pblock trusted common)) = true.
Proof.
  intros P now source s ptrace target pblock s' common wr node top pst trusted lun base chain
         HL Hex Etr Elun Ebase Echain NCc NCt Hnum Hden Hlvl Hwf Hnode Hnt Hexp Hsigs Htrust.
  destruct (examine_spec P source now s ptrace target _ pblock s' HL Hex) as [l1 [pred [l2 [prev [Ep EPo]]]]].
  rewrite Etr in NCt.
  destruct (exam_fresh P now ptrace target l1 pred l2 prev pblock common wr Ep EPo NCt) as [Ec [L C]].
  cbv zeta in C. rewrite <- Etr in C, NCt. subst prev.
  destruct EPo as [Hv [Hh _]].
  assert (Ipred : In pred ptrace) by (rewrite Ep; apply in_or_app; right; left; reflexivity).
  assert (Ipb : In pblock ptrace) by (rewrite Ep; apply in_or_app; right; right; left; reflexivity).
  destruct (NCc pred Ipred (eq_sym Hh)) as [Hdp Hvp].
  pose proof (hdr_height _ _ Hdp) as Hhp.
  destruct (verify_ok_inv P pred pblock now Hv) as [Hown [Hlt [_ [Hch Htr]]]].
  assert (Hcc : h_chain (lb_hdr trusted) = h_chain (lb_hdr common)).
  { apply (linked_chain P now wr common trusted common L). symmetry. exact Etr. }
  assert (Hcp : h_chain (lb_hdr pred) = chain) by (rewrite Echain, Hcc, Hdp; reflexivity).
  assert (Hlt' : lb_height common < lb_height pblock) by (rewrite <- Hhp; exact Hlt).
  (* the hash of the trusted block differs from the conflicting block's *)
  assert (Hne : (lb_hash trusted =? lb_hash pblock) = false).
  { apply Z.eqb_neq. destruct C as [[Ex [F _]] | [Nh _]]; [|exact Nh].
    intro Q. destruct (NCt pblock Ipb (eq_sym Q)) as [Hd _]. apply hdr_height in Hd.
    rewrite Ex in Hd. lia. }
  (* lunatic: the evidence height is below the conflicting block *)
  assert (Hlb : lun = true -> base = common) by (intro Q; rewrite Ebase, Q; reflexivity).
  assert (Hnb : lun = false -> base = trusted) by (intro Q; rewrite Ebase, Q; reflexivity).
  set (ev := new_evidence_full true pblock trusted common).
  set (l := to_lca chain (lb_vals base) ev).
  assert (Elc : E.l_common l = lb_height base).
  { unfold l, ev. unfold EvidenceModel.to_lca, EvidenceModel.mk_lca, EvidenceModel.new_evidence_full.
    cbn [E.l_common ef_common]. rewrite <- Elun, <- Ebase. reflexivity. }
  assert (Elt : E.l_time l = lb_time base).
  { unfold l, ev. unfold EvidenceModel.to_lca, EvidenceModel.mk_lca, EvidenceModel.new_evidence_full.
    cbn [E.l_time ef_time]. rewrite <- Elun, <- Ebase. reflexivity. }
  assert (Elh : E.l_height l = lb_height pblock) by reflexivity.
  assert (Ect : E.l_ctime l = lb_time pblock) by reflexivity.
  (* which header the node compares with *)
  assert (Hsel : exists th, (th = lb_height pblock \/ (th < lb_height pblock /\ ~ lb_time trusted < lb_time pblock)) /\
     (if lb_height base =? E.l_height l then Some (lb_height base, to_header base)
      else match option_map (fun b => (E.l_height l, to_header b)) (node (E.l_height l)) with
           | Some t => Some t
           | None => match option_map (fun b => (top, to_header b)) (node top) with
                     | None => None
                     | Some t => if E.h_time (snd t) <? E.l_ctime l then None else Some t
                     end
           end) = Some (th, to_header trusted)).
  { rewrite Elh, Ect. destruct (lb_height base =? lb_height pblock) eqn:Eb.
    - apply Z.eqb_eq in Eb. destruct lun eqn:El.
      + rewrite (Hlb eq_refl) in Eb. lia.
      + rewrite (Hnb eq_refl) in *. exists (lb_height trusted). split; [left; exact Eb | reflexivity].
    - destruct Hnt as [[Q1 Q2] | [Q1 [Q2 [Q3 [Q4 Q5]]]]].
      + exists (lb_height pblock). split; [left; reflexivity|]. rewrite <- Q1, Q2. reflexivity.
      + rewrite Q2, Q4. cbn [option_map snd].
        change (E.h_time (to_header trusted)) with (lb_time trusted).
        assert ((lb_time trusted <? lb_time pblock) = false) as -> by lia.
        exists top. split; [right; split; [lia | exact Q5] | reflexivity]. }
  destruct Hsel as [th [Hth Hsel]].
  unfold EvidenceModel.to_evidence. fold ev. fold l.
  rewrite (verify_eval node top pst l base th (to_header trusted) Hnode Elc Elt Hexp Hsel).
  unfold E.verify_lca. rewrite Elh.
  (* 1: one skipping step from the common validators / a correctly derived header *)
  assert (S1 : (if negb (lb_height base =? lb_height pblock) then negb (E.l_trusting_ok l)
                else E.header_invalid l (to_header trusted)) = false).
  { destruct (lb_height base =? lb_height pblock) eqn:Eb; cbn [negb].
    - unfold l, EvidenceModel.to_lca. rewrite header_invalid_to. fold ev. change (ef_block sig ev) with pblock.
      rewrite <- Elun. destruct lun; [|reflexivity].
      apply Z.eqb_eq in Eb. rewrite (Hlb eq_refl) in Eb. lia.
    - apply negb_false_iff.
      change (E.l_trusting_ok l) with
        (res_ok (verify_commit_light_trusting sv (lb_vals base) chain (lb_commit pblock) 1 3)).
      assert (T : verify_commit_light_trusting sv (lb_vals base) chain (lb_commit pblock) 1 3 = R_ok);
        [|rewrite T; reflexivity].
      destruct Htrust as [[Q1 Q2] | [[Q1 Q2] | Q]]; [| |exact Q].
      + rewrite (Hlb Q1) in *.
        apply (trusting_level_third sig sv _ _ _ (p_num P) (p_den P) Hwf Hnum Hden Hlvl).
        rewrite <- Hvp, <- Hcp. apply Htr. rewrite Hhp. exact Q2.
      + rewrite (Hnb Q1) in Eb. apply Z.eqb_neq in Eb. contradiction. }
  rewrite S1.
  (* 2: +2/3 of the conflicting set *)
  assert (S2 : E.l_light_ok l = true).
  { change (E.l_light_ok l) with
      (res_ok (verify_commit_light sv (lb_vals pblock) chain (c_bid (lb_commit pblock))
                                   (lb_height pblock) (lb_commit pblock))).
    unfold own_commit_check in Hown. rewrite Hcp in Hown. rewrite Hown. reflexivity. }
  rewrite S2. cbn [negb].
  (* 3: all signatures for the block *)
  assert (S3 : E.sigs_for_block_ok l = true) by exact Hsigs.
  rewrite S3. cbn [negb].
  (* 4: total voting power *)
  assert (S4 : (E.l_total l =? E.vs_total (to_vals (lb_vals base))) = true).
  { unfold l, ev. unfold EvidenceModel.to_lca, EvidenceModel.mk_lca, EvidenceModel.new_evidence_full.
    cbn [E.l_total ef_total]. rewrite <- Elun, <- Ebase.
    rewrite vs_total_to_vals, (total_power_wf _ Hwf). apply Z.eqb_refl. }
  rewrite S4. cbn [negb].
  (* 5: a block above the node's chain must not be later in time *)
  assert (S5 : ((lb_height pblock >? th) && (E.l_ctime l >? E.h_time (to_header trusted))) = false).
  { rewrite Ect. change (E.h_time (to_header trusted)) with (lb_time trusted).
    destruct Hth as [-> | [Q1 Q2]]; [|lia]. assert ((lb_height pblock >? lb_height pblock) = false) as -> by lia.
    reflexivity. }
  rewrite S5.
  (* 6: a different block *)
  assert (S6 : (E.h_hash (to_header trusted) =? E.l_chash l)%N = false).
  { change (E.h_hash (to_header trusted)) with (hn (lb_hash trusted)).
    change (E.l_chash l) with (hn (lb_hash pblock)). rewrite hn_eqb. exact Hne. }
  rewrite S6.
  (* 7: the byzantine validators are the ones the node computes *)
  unfold E.validate_abci. rewrite S4. cbn [negb].
  assert (Ebz : E.byz_validators l (to_vals (lb_vals base)) (to_header trusted) =
                E.byz_validators (lca_core chain pblock) (to_vals (lb_vals base)) (to_header trusted))
    by reflexivity.
  cbv zeta. rewrite Ebz.
  assert (Eb : E.l_byz l = match E.byz_validators (lca_core chain pblock) (to_vals (lb_vals base)) (to_header trusted)
                           with [] => None | x => Some x end).
  { unfold l, ev. unfold EvidenceModel.to_lca, EvidenceModel.mk_lca, EvidenceModel.new_evidence_full.
    cbn [E.l_byz ef_byz ef_block]. rewrite <- Elun, <- Echain.
    assert ((if lun then common else if true then trusted else common) = base) as ->
      by (rewrite Ebase; reflexivity).
    reflexivity. }
  rewrite Eb.
  destruct (E.byz_validators (lca_core chain pblock) (to_vals (lb_vals base)) (to_header trusted)) as [|x m];
    [reflexivity | apply vals_eqb_refl].
Qed.

End PE.

(* ------------------------------------------------------------------ EvidenceRun.v is Model.v's call tree *)

Section Ref.
Variable sig : Type.
Variable sv : key -> signmsg -> sig -> bool.
Variable hash : header -> Z.
Variable vhash : list validator -> Z.
Variable bid_hash : blockid -> Z.
Variable an : Z -> N.
Variable hn : Z -> N.
Variable W : Type.
Variable ask : W -> pid -> Z -> preply sig * W.
Variable rank : pid -> Z.

Notation res := (res sig W).
Definition pr (r : res) : option cerr * client sig * st sig W := let '(e, c, s, _) := r in (e, c, s).

Notation handle_full := (handle_full sig sv hash vhash bid_hash an hn W ask).
Notation handle_conflicting := (handle_conflicting sig sv hash vhash bid_hash W ask).

Lemma detect_loop_full : forall P c now trace msgs s a matched rm,
  (let '(r, sa) := detect_loop sig (handle_full P c now trace) (s, a) msgs matched rm in (r, fst sa)) =
  detect_loop sig (fun s b i => handle_conflicting P c now s trace b i) s msgs matched rm.
Proof.
  intros P c now trace. induction msgs as [|m msgs IH]; intros s a matched rm.
  - cbn. destruct matched; reflexivity.
  - destruct m as [|b i|i| |]; cbn [detect_loop].
    + apply IH.
    + unfold EvidenceRun.handle_full at 1.
      destruct (handle_conflicting P c now s trace b i) as [r s'] eqn:E.
      destruct r; try reflexivity. apply IH.
    + apply IH.
    + apply IH.
    + reflexivity.
Qed.

Notation detect_divergence_full := (detect_divergence_full sig sv hash vhash bid_hash an hn W ask rank).
Notation detect_divergence := (detect_divergence sig sv hash vhash bid_hash W ask rank).

Lemma detect_divergence_full_pr : forall P c s a trace now,
  pr (detect_divergence_full P c s a trace now) = detect_divergence P c s trace now.
Proof.
  intros. unfold EvidenceRun.detect_divergence_full, C09.Model.detect_divergence.
  destruct trace as [|t0 [|t1 tr]]; try reflexivity.
  destruct (cl_witnesses sig c) as [|w0 ws] eqn:Ew; [reflexivity|].
  destruct (compare_all sig hash W ask s (last (t0 :: t1 :: tr) t0) (arrival_order rank (w0 :: ws))) as [msgs s1].
  pose proof (detect_loop_full P c now (t0 :: t1 :: tr) (firstn (length (w0 :: ws)) msgs) s1 a false []) as L.
  destruct (detect_loop sig (handle_full P c now (t0 :: t1 :: tr)) (s1, a) (firstn (length (w0 :: ws)) msgs) false [])
    as [r [s2 a2]].
  cbn [fst] in L. rewrite <- L.
  destruct r; try reflexivity; destruct (remove_witnesses (w0 :: ws) to_remove); reflexivity.
Qed.

Notation vsap_full := (vsap_full sig sv hash vhash bid_hash an hn W ask rank).
Notation vsap := (verify_skipping_against_primary sig sv hash vhash bid_hash W ask rank).

Lemma vsap_full_pr : forall fuel P c s a t u now,
  pr (vsap_full fuel P c s a t u now) = vsap fuel P c s t u now.
Proof.
  induction fuel as [|fuel IH]; intros; [reflexivity|].
  cbn [EvidenceRun.vsap_full C09.Model.verify_skipping_against_primary].
  destruct (verify_skipping sig sv hash vhash bid_hash W ask P (cl_primary sig c) s t u now) as [[tr|e] s1].
  - apply detect_divergence_full_pr.
  - destruct e as [v to| | |]; try reflexivity.
    + destruct v; try reflexivity.
      destruct (to =? lb_height sig u); [reflexivity|].
      destruct (find_new_primary sig W ask rank c s1 (lb_height sig u) true) as [[[repl|e] c1] s2]; [|reflexivity].
      destruct (negb (lb_hash sig hash repl =? lb_hash sig hash u)); [reflexivity|]. apply IH.
Qed.

Notation seq_loop_full := (seq_loop_full sig sv hash vhash bid_hash an hn W ask rank).
Notation seq_loop := (verify_sequential_loop sig sv hash vhash bid_hash W ask rank).

Lemma seq_loop_full_pr : forall fuel P c s a u now verified height trace,
  pr (seq_loop_full fuel P c s a u now verified height trace) = seq_loop fuel P c s u now verified height trace.
Proof.
  induction fuel as [|fuel IH]; intros; [reflexivity|].
  cbn [EvidenceRun.seq_loop_full C09.Model.verify_sequential_loop].
  destruct (lb_height sig u <? height); [apply detect_divergence_full_pr|].
  destruct (if height =? lb_height sig u then (inl u, c, s) else light_block_from_primary sig W ask rank c s height)
    as [[fetched c1] s1].
  destruct fetched as [interim|e].
  - destruct (verify_adjacent sig sv hash vhash bid_hash P verified interim now); try reflexivity.
    + apply IH.
    + destruct (lb_height sig interim =? lb_height sig u); [reflexivity|].
      destruct (find_new_primary sig W ask rank c1 s1 (lb_height sig u) true) as [[[repl|e] c2] s2]; [|reflexivity].
      destruct (negb (lb_hash sig hash repl =? lb_hash sig hash u)); [reflexivity|]. apply IH.
  - destruct e; reflexivity.
Qed.

Notation verify_func_full := (verify_func_full sig sv hash vhash bid_hash an hn W ask rank).
Notation verify_func := (verify_func sig sv hash vhash bid_hash W ask rank).

Lemma verify_func_full_pr : forall P c s a t u now,
  pr (verify_func_full P c s a t u now) = verify_func P c s t u now.
Proof.
  intros. unfold EvidenceRun.verify_func_full, C09.Model.verify_func, C09.Model.verify_sequential.
  destruct (p_sequential P); [apply seq_loop_full_pr | apply vsap_full_pr].
Qed.

Notation vlb_full := (verify_light_block_full sig sv hash vhash bid_hash an hn W ask rank).
Notation vlb := (verify_light_block sig sv hash vhash bid_hash W ask rank).

Lemma vlb_full_pr : forall P c s a u now, pr (vlb_full P c s a u now) = vlb P c s u now.
Proof.
  intros. unfold EvidenceRun.verify_light_block_full, C09.Model.verify_light_block.
  destruct (cl_latest sig c) as [latest|]; [|reflexivity].
  destruct (cl_store sig c) as [|firstb rest]; [reflexivity|].
  destruct (lb_height sig latest <=? lb_height sig u).
  - pose proof (verify_func_full_pr P c s a latest u now) as L.
    destruct (verify_func_full P c s a latest u now) as [[[e c1] s1] a1]. cbn [pr] in L. rewrite <- L.
    destruct e; reflexivity.
  - destruct (lb_height sig u <? lb_height sig firstb).
    + destruct (backwards sig hash W ask rank _ c s (lb_hdr sig firstb) (lb_hdr sig u)) as [[e c1] s1].
      destruct e; reflexivity.
    + destruct (store_before sig (firstb :: rest) (lb_height sig u)) as [closest|]; [|reflexivity].
      pose proof (verify_func_full_pr P c s a closest u now) as L.
      destruct (verify_func_full P c s a closest u now) as [[[e c1] s1] a1]. cbn [pr] in L. rewrite <- L.
      destruct e; reflexivity.
Qed.

Notation step_full := (step_full sig sv hash vhash bid_hash an hn W ask rank).
Notation step := (step sig sv hash vhash bid_hash W ask rank).

(* EvidenceRun's copy of the call tree is Model's: dropping the full evidence gives Model.step *)
Lemma step_full_refines : forall P c s o, pr (step_full P c s o) = step P c s o.
Proof.
  intros P c s o. destruct o as [h now|now]; cbn [EvidenceRun.step_full C09.Model.step].
  - unfold EvidenceRun.verify_at_full, C09.Model.verify_at.
    destruct (h <=? 0); [reflexivity|].
    destruct (if last_height sig c <? h then None else store_lookup sig (cl_store sig c) h); [reflexivity|].
    destruct (light_block_from_primary sig W ask rank c s h) as [[[b|e] c1] s1]; [apply vlb_full_pr | reflexivity].
  - unfold EvidenceRun.update_full, C09.Model.update.
    destruct (last_height sig c =? -1); [reflexivity|].
    destruct (light_block_from_primary sig W ask rank c s 0) as [[[b|e] c1] s1]; [|reflexivity].
    destruct (last_height sig c <? lb_height sig b); [apply vlb_full_pr | reflexivity].
Qed.

End Ref.
