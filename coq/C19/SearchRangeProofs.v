(* C19 (search half, transactions) — exactness of TxIndex.Search for conjunctions WITH integer
   range conditions (LookForRanges / matchRange / the intersect loops), on top of
   SearchProofs.v (range-free sub-language).  The characterisation of LookForRanges for
   arbitrary queries (lfr_char: one QueryRange per key, every range condition on the key applied
   in order) is shared with the block indexer (BlockProofs.v). *)
From Coq Require Import String Ascii List ZArith Bool Lia.
From TM Require Import C19.Query C19.SearchModel C19.SearchProofs C19.BlockModel C19.BlockProofs.
Import ListNotations.
Open Scope Z_scope.

(* ------------------------------------------------------------------ the loops of Search *)

Lemma run_nil : forall tmps, run_steps tmps true [] = (true, []).
Proof. induction tmps as [|t r IH]; simpl; [reflexivity | exact IH]. Qed.

Lemma run_app : forall l1 l2 i f,
  run_steps (l1 ++ l2) i f =
  run_steps l2 (fst (run_steps l1 i f)) (snd (run_steps l1 i f)).
Proof.
  induction l1 as [|a l1 IH]; intros l2 i f; simpl; [reflexivity|].
  destruct i; [apply IH|].
  destruct (is_nil (step_result true f a)) eqn:N; [|apply IH].
  simpl. destruct (step_result true f a); [|discriminate N]. rewrite run_nil. reflexivity.
Qed.

Lemma all_some_spec : forall (A : Type) (g : A -> option (list hash)) (P : A -> list hash -> Prop)
                             (l : list A),
  (forall k, In k l -> exists t, g k = Some t /\ P k t) ->
  exists ts, all_some (map g l) = Some ts /\ Forall2 P l ts.
Proof.
  intros A g P. induction l as [|k l IH]; intro H.
  - exists []. split; [reflexivity | constructor].
  - destruct (H k (or_introl eq_refl)) as [t [E Pt]].
    destruct IH as [ts [E' F]]; [intros; apply H; right; assumption|].
    exists (t :: ts). simpl. rewrite E, E'. split; [reflexivity | constructor; auto].
Qed.

Lemma forall2_all_h : forall (A : Type) (S : A -> hash -> Prop) (l : list A) (ts : list (list hash)) x,
  Forall2 (fun c t => forall y, In y t <-> S c y) l ts ->
  ((forall t, In t ts -> In x t) <-> (forall c, In c l -> S c x)).
Proof.
  intros A S l ts x F. induction F as [|c t l ts P F IH]; simpl; [tauto|]. split.
  - intros H c' [<-|I]; [apply P, H; auto | apply IH; auto].
  - intros H t' [<-|I]; [apply P, H; auto | apply IH; auto].
Qed.

(* ------------------------------------------------------------------ the query sub-language *)

(* every transaction has at most one value under k *)
Definition TxSingleValued (txs : list txres) (k : string) : Prop :=
  forall t, In t txs -> (List.length (tvals k t) <= 1)%nat.

(* the range conditions on one key are one condition, or a lower and an upper bound on a key
   that is single-valued in every transaction (complement of known class 25) *)
Definition TxRangeShape (txs : list txres) (q : query) : Prop :=
  forall k, In k (range_keys q) ->
    (exists c, ck q k = [c]) \/
    (exists c1 c2, ck q k = [c1; c2] /\
       is_lower_op (c_op c1) = negb (is_lower_op (c_op c2)) /\ TxSingleValued txs k).

(* per condition: a range condition has an integer operand on a NumKey key (no '/', not
   tx.hash); every other condition is in the range-free language of SearchProofs.wf_cond *)
Definition wf_cond_r (txs : list txres) (c : cond) : Prop :=
  if is_range c
  then no_slash (c_key c) = true /\ c_key c <> TxHashKey /\
       exists z, c_arg c = OInt z /\ NumKey txs (c_key c)
  else wf_cond txs c.

(* ------------------------------------------------------------------ one range = one scan *)

Definition olo (lo : option Z) (n : Z) : bool := match lo with Some l => l <=? n | None => true end.
Definition ohi (hi : option Z) (n : Z) : bool := match hi with Some h => n <=? h | None => true end.

Section RHits.
Variables (txs : list txres) (st : store).
Hypothesis OK : StoreOK txs st.
Hypothesis DOM : forall t, In t txs -> TxDomain t.

(* transaction id satisfies condition c *)
Definition TSat (c : cond) (id : hash) : Prop :=
  exists t, In t txs /\ id = t_hash t /\ match_cond c (tx_events t) = MTrue.

Lemma tsat_int : forall k op z id, op <> OpExists -> k <> TxHashKey -> NumKey txs k ->
  (TSat {| c_key := k; c_op := op; c_arg := OInt z |} id <->
   exists t, In t txs /\ id = t_hash t /\
     exists n, In (k, dec n) (ext_attrs t) /\ cmp_ok op n z = true).
Proof.
  intros k op z id NE NH NK. unfold TSat.
  split; intros [t [T1 [T2 M]]]; exists t; split; auto; split; auto.
  - rewrite match_cond_vals in M by (simpl; auto). cbn [c_key c_op c_arg] in M.
    apply mv_int in M; [|intros v I; apply (NK t v T1 I)].
    destruct M as [n [M1 M2]]. exists n. split; auto. apply In_vals. exact M1.
  - rewrite match_cond_vals by (simpl; auto). cbn [c_key c_op c_arg].
    apply mv_int; [intros v I; apply (NK t v T1 I)|].
    destruct M as [n [M1 M2]]. exists n. split; auto. apply In_vals. exact M1.
Qed.

Lemma numok_parse_t : forall v, NumOK v -> exists z, v = dec z /\ parse_int_go v = Some z.
Proof. intros v [z [E [_ P]]]. eauto. Qed.

Lemma numok_dec_t : forall n, NumOK (dec n) -> parse_int_go (dec n) = Some n.
Proof. intros n [z [E [_ P]]]. apply dec_inj in E. subst z. exact P. Qed.

(* matchRange on an integer range: the transactions with a value of the key inside the bounds
   (the scan is not narrowed by tx.height) *)
Lemma trange_int_spec : forall r lo hi,
  range_kind r = RInt lo hi -> no_slash (r_key r) = true -> NumKey txs (r_key r) ->
  exists hits, range_hits st r = Some hits /\
    forall id, In id hits <->
      exists t, In t txs /\ id = t_hash t /\
        exists n, In (r_key r, dec n) (ext_attrs t) /\ olo lo n && ohi hi n = true.
Proof.
  intros r lo hi RK NS NK. unfold range_hits. rewrite RK. eexists. split; [reflexivity|].
  intro id. rewrite (split_no_slash _ NS), in_flat_map. split.
  - intros [[key id'] [I G]].
    apply (scan_entry txs st OK DOM) in I as [t [tag [v [T1 [T2 [T3 [-> P]]]]]]].
    apply pp1 in P. subst tag. cbn [fst snd] in G.
    change (is_tag_key [r_key r; v; dec (t_height t); dec (t_index t)]) with true in G.
    change (extract_value [r_key r; v; dec (t_height t); dec (t_index t)]) with v in G.
    assert (N : NumOK v) by (apply (NK t v T1), In_vals; exact T3).
    destruct (numok_parse_t _ N) as [n [-> PI]]. rewrite PI in G.
    fold (olo lo n) in G. fold (ohi hi n) in G.
    destruct (olo lo n && ohi hi n) eqn:B; [|destruct G]. destruct G as [<-|[]].
    exists t. repeat split; auto. exists n. auto.
  - intros [t [T1 [T2 [n [T3 B]]]]].
    exists ([r_key r; dec n; dec (t_height t); dec (t_index t)], id). split.
    + apply (scan_entry txs st OK DOM). exists t, (r_key r), (dec n). repeat split; auto.
      apply pp1. reflexivity.
    + cbn [fst snd].
      change (is_tag_key [r_key r; dec n; dec (t_height t); dec (t_index t)]) with true.
      change (extract_value [r_key r; dec n; dec (t_height t); dec (t_index t)]) with (dec n).
      assert (N : NumOK (dec n)) by (apply (NK t _ T1), In_vals; exact T3).
      rewrite (numok_dec_t _ N). fold (olo lo n). fold (ohi hi n). rewrite B. left; reflexivity.
Qed.

End RHits.

Lemma one_bound_t : forall k op z, is_range_op op = true ->
  exists lo hi, range_kind (single {| c_key := k; c_op := op; c_arg := OInt z |}) = RInt lo hi /\
    forall n, olo lo n && ohi hi n = cmp_ok op n z.
Proof.
  intros k op z R. destruct op; try discriminate R;
    (eexists; eexists; split; [reflexivity|]); intro n; unfold cmp_ok, olo, ohi; simpl;
    rewrite ?Z.gtb_ltb, ?Z.geb_leb;
    repeat match goal with
           | |- context [Z.leb ?a ?b] => destruct (Z.leb_spec a b)
           | |- context [Z.ltb ?a ?b] => destruct (Z.ltb_spec a b)
           end; simpl; try reflexivity; lia.
Qed.

Lemma two_bounds_t : forall k op1 z1 op2 z2,
  is_range_op op1 = true -> is_range_op op2 = true ->
  is_lower_op op1 = negb (is_lower_op op2) ->
  exists lo hi,
    range_kind (apply_cond {| c_key := k; c_op := op2; c_arg := OInt z2 |}
                  (apply_cond {| c_key := k; c_op := op1; c_arg := OInt z1 |} (empty_range k)))
    = RInt lo hi /\
    forall n, olo lo n && ohi hi n = cmp_ok op1 n z1 && cmp_ok op2 n z2.
Proof.
  intros k op1 z1 op2 z2 R1 R2 LU.
  destruct op1; try discriminate R1; destruct op2; try discriminate R2; simpl in LU;
    try discriminate LU;
    (eexists; eexists; split; [reflexivity|]); intro n; unfold cmp_ok, olo, ohi; simpl;
    rewrite ?Z.gtb_ltb, ?Z.geb_leb;
    repeat match goal with
           | |- context [Z.leb ?a ?b] => destruct (Z.leb_spec a b)
           | |- context [Z.ltb ?a ?b] => destruct (Z.ltb_spec a b)
           end; simpl; try reflexivity; lia.
Qed.

(* the QueryRange of key k: its hits are the transactions satisfying every range condition on k *)
Lemma tmerged_hits : forall txs st, StoreOK txs st -> (forall t, In t txs -> TxDomain t) ->
  forall q, (forall c, In c q -> wf_cond_r txs c) -> TxRangeShape txs q ->
  forall k, In k (range_keys q) ->
  exists hits, range_hits st (merged q k) = Some hits /\
    forall id, In id hits <-> forall c, In c (ck q k) -> TSat txs c id.
Proof.
  intros txs st OK DOM q WF SH k IK.
  assert (CK : forall c, In c (ck q k) ->
            c_key c = k /\ is_range_op (c_op c) = true /\ no_slash k = true /\ k <> TxHashKey /\
            exists z, c_arg c = OInt z /\ NumKey txs k).
  { intros c I. apply filter_In in I as [I O]. unfold on_key in O.
    apply andb_true_iff in O as [O1 O2]. apply String.eqb_eq in O2.
    pose proof (WF c I) as W. unfold wf_cond_r in W. rewrite O1 in W. rewrite O2 in W.
    destruct W as [W1 [W2 W3]]. unfold is_range in O1. auto. }
  destruct (SH k IK) as [[c E]|[c1 [c2 [E [LU SV]]]]].
  - destruct (CK c) as [K [R [NS [NH [z [A NK]]]]]]; [rewrite E; left; reflexivity|].
    destruct c as [k' op arg]. simpl in *. subst k' arg.
    destruct (one_bound_t k op z R) as [lo [hi [RK CMP]]].
    assert (M : merged q k = single {| c_key := k; c_op := op; c_arg := OInt z |})
      by (unfold merged; rewrite E; reflexivity).
    rewrite <- M in RK.
    destruct (trange_int_spec txs st OK DOM _ lo hi RK) as [hits [H S]];
      try (rewrite merged_key; assumption).
    exists hits. split; [exact H|]. intro id. rewrite S, merged_key, E. split.
    + intros [t [T1 [T2 [n [I C]]]]] c [<-|[]].
      apply (tsat_int txs); auto; [destruct op; discriminate|].
      exists t. repeat split; auto. exists n. split; auto. rewrite <- CMP. exact C.
    + intro A. pose proof (A _ (or_introl eq_refl)) as S1.
      apply (tsat_int txs) in S1; auto; [|destruct op; discriminate].
      destruct S1 as [t [T1 [T2 [n [I C]]]]]. exists t. repeat split; auto. exists n. split; auto.
      rewrite CMP. exact C.
  - destruct (CK c1) as [K1 [R1 [NS [NH [z1 [A1 NK]]]]]]; [rewrite E; left; reflexivity|].
    destruct (CK c2) as [K2 [R2 [_ [_ [z2 [A2 _]]]]]]; [rewrite E; right; left; reflexivity|].
    destruct c1 as [k1 op1 a1], c2 as [k2 op2 a2]. simpl in *. subst k1 k2 a1 a2.
    destruct (two_bounds_t k op1 z1 op2 z2 R1 R2 LU) as [lo [hi [RK CMP]]].
    assert (M : merged q k = apply_cond {| c_key := k; c_op := op2; c_arg := OInt z2 |}
                   (apply_cond {| c_key := k; c_op := op1; c_arg := OInt z1 |} (empty_range k)))
      by (unfold merged; rewrite E; reflexivity).
    rewrite <- M in RK.
    destruct (trange_int_spec txs st OK DOM _ lo hi RK) as [hits [H S]];
      try (rewrite merged_key; assumption).
    assert (NE1 : op1 <> OpExists) by (destruct op1; discriminate).
    assert (NE2 : op2 <> OpExists) by (destruct op2; discriminate).
    exists hits. split; [exact H|]. intro id. rewrite S, merged_key, E. split.
    + intros [t [T1 [T2 [n [I C]]]]] c [<-|[<-|[]]];
        apply (tsat_int txs); auto; exists t; repeat split; auto; exists n; split; auto;
        rewrite CMP in C; apply andb_true_iff in C; tauto.
    + intro A.
      pose proof (A _ (or_introl eq_refl)) as S1.
      pose proof (A _ (or_intror (or_introl eq_refl))) as S2.
      apply (tsat_int txs) in S1; auto. apply (tsat_int txs) in S2; auto.
      destruct S1 as [t1 [X1 [X2 [n1 [J1 C1]]]]]. destruct S2 as [t2 [Y1 [Y2 [n2 [J2 C2]]]]].
      assert (t2 = t1).
      { assert (G1 : get st id = Some t1) by (apply (ok_prim _ _ OK); auto).
        assert (G2 : get st id = Some t2) by (apply (ok_prim _ _ OK); auto). congruence. }
      subst t2.
      assert (n1 = n2).
      { apply dec_inj. apply (single_valued_eq k (ext_attrs t1)); auto. apply (SV t1 X1). }
      subst n2. exists t1. repeat split; auto. exists n1. split; auto.
      rewrite CMP, C1, C2. reflexivity.
Qed.

(* ------------------------------------------------------------------ exactness of Search *)

Lemma wf_r_nohash : forall txs c, wf_cond_r txs c -> c_key c <> TxHashKey.
Proof.
  intros txs c W. unfold wf_cond_r in W. destruct (is_range c); [tauto|]. apply W.
Qed.

Lemma height_found_r : forall txs q, (forall c, In c q -> wf_cond_r txs c) ->
  exists H, look_for_height q = Some H /\
    (0 < H -> exists c, In c q /\ c_key c = TxHeightKey /\ c_op c = OpEq /\ c_arg c = OInt H).
Proof.
  intros txs. induction q as [|a q IH]; intro W.
  - exists 0. split; [reflexivity | lia].
  - destruct IH as [H [E HC]]; [intros; apply W; right; assumption|].
    assert (REST : exists H, look_for_height q = Some H /\
       (0 < H -> exists c, In c (a :: q) /\ c_key c = TxHeightKey /\ c_op c = OpEq /\ c_arg c = OInt H)).
    { exists H. split; auto. intro L. destruct (HC L) as [c [I X]]. exists c. split; [right|]; auto. }
    pose proof (W a (or_introl eq_refl)) as WA. unfold wf_cond_r, is_range in WA.
    simpl. destruct (String.eqb_spec (c_key a) TxHeightKey) as [K|_]; simpl; [|exact REST].
    destruct (c_op a) eqn:O; try exact REST. simpl in WA. destruct WA as [_ [_ WA]]. rewrite O in WA.
    destruct (c_arg a) eqn:AR; try contradiction.
    + destruct WA as [_ WA]. contradiction.
    + exists z. split; auto. intros _. exists a. auto.
Qed.

(* C19_tx_search_exact_ranges_partial: every AddBatch/Index history of distinct transactions in
   the value domain, every query that is a non-empty conjunction, in any order and number, of
     key = 'string'   key = integer   key CONTAINS 'string'   key EXISTS (dotted key)
     key < <= > >= integer
   (tx.height conditions of the integer kinds included) where the range conditions on one key are
   one condition, or one lower and one upper bound on a key that is single-valued in every
   transaction: LookForRanges (lfr_char), matchRange, both loops of Search with the first-run /
   empty-set short-cuts, the tx.height = H narrowing of the "=" scans (not of the range scans)
   and the final Get.  The excluded queries are the decidable known classes 17, 24-27.
   PARTIAL as C19_search_exact_partial: "the indexed values under the keys of integer
   conditions are canonical decimals" is the semantic premise NumKey (NumOK), the lemma that
   every [dec z], 0 <= z <= MaxInt64, is NumOK is missing. *)
Theorem C19_tx_search_exact_ranges_partial : forall (h : list iop) (q : query),
  Distinct (history_txs h) ->
  (forall t, In t (history_txs h) -> TxDomain t) ->
  q <> [] ->
  (forall c, In c q -> wf_cond_r (history_txs h) c) ->
  TxRangeShape (history_txs h) q ->
  exists ids, search (run_history h) q = SOk ids /\
    forall id, In id ids <->
      exists t, In t (history_txs h) /\ t_hash t = id /\ matches q (tx_events t) = MTrue.
Proof.
  intros h q D DOM NE WF SH. set (txs := history_txs h) in *. set (st := run_history h).
  assert (OK : StoreOK txs st) by (apply history_ok; exact D).
  destruct (height_found_r txs q WF) as [H [LH HC]].
  set (ks := range_keys q).
  set (oq := filter (fun c => negb (is_range_op (c_op c))) q).
  assert (WFO : forall c, In c oq -> wf_cond txs c).
  { intros c I. apply filter_In in I as [I R]. pose proof (WF c I) as W.
    unfold wf_cond_r, is_range in W. apply negb_true_iff in R. rewrite R in W. exact W. }
  destruct (all_some_spec _ (fun k => range_hits st (merged q k))
              (fun k t => forall id, In id t <-> forall c, In c (ck q k) -> TSat txs c id) ks)
    as [rl [E1 F1]].
  { intros k I. apply (tmerged_hits txs st OK DOM q WF SH k I). }
  set (OS := fun c id => exists t, In t txs /\ id = t_hash t /\
                          match_cond c (tx_events t) = MTrue /\ height_ok H c t).
  assert (F2 : Forall2 (fun c t => forall id, In id t <-> OS c id) oq (map (cond_hits st H) oq)).
  { clear -WFO OK DOM. induction oq as [|c l IH]; simpl; constructor.
    - intro id. apply (cond_hits_spec txs st OK DOM H c id). apply WFO. left; reflexivity.
    - apply IH. intros; apply WFO; right; assumption. }
  unfold search. rewrite no_hash by (intros c I; apply (wf_r_nohash txs), WF, I).
  rewrite (lfr_char q). fold ks. rewrite map_map, E1.
  destruct (run_steps rl false []) as [init1 f1] eqn:R1. rewrite LH. fold oq.
  destruct (run_steps (map (cond_hits st H) oq) init1 f1) as [i2 f2] eqn:R2.
  eexists; split; [reflexivity|]. intro id.
  assert (F2' : f2 = snd (run_steps (rl ++ map (cond_hits st H) oq) false [])).
  { rewrite run_app, R1. simpl. rewrite R2. reflexivity. }
  (* every condition of q is a range condition on a key of ks, or in oq *)
  assert (RALL : forall x, (forall k, In k ks -> forall c, In c (ck q k) -> TSat txs c x) <->
                           (forall c, In c q -> is_range c = true -> TSat txs c x)).
  { intro x. split.
    - intros A c I R. apply (A (c_key c)).
      + unfold ks, range_keys. apply sdedup_In, in_map, filter_In. auto.
      + apply filter_In. split; auto. unfold on_key. rewrite R, String.eqb_refl. reflexivity.
    - intros A k _ c I. apply filter_In in I as [I O]. unfold on_key in O.
      apply andb_true_iff in O as [O _]. auto. }
  assert (OALL : forall x, (forall c, In c oq -> OS c x) <->
                           (forall c, In c q -> is_range c = false -> OS c x)).
  { intro x. unfold oq, is_range. split.
    - intros A c I R. apply A. apply filter_In. rewrite R. auto.
    - intros A c I. apply filter_In in I as [I R]. apply negb_true_iff in R. auto. }
  assert (NN : rl ++ map (cond_hits st H) oq <> []).
  { intro X. apply app_eq_nil in X as [X1 X2]. rewrite X1 in F1. apply forall2_nil_r in F1.
    apply map_eq_nil in X2.
    destruct q as [|c q']; [contradiction|]. destruct (is_range c) eqn:R.
    - assert (I : In (c_key c) ks).
      { unfold ks, range_keys. apply sdedup_In, in_map, filter_In. simpl; auto. }
      rewrite F1 in I. destruct I.
    - assert (I : In c oq).
      { unfold oq. apply filter_In. unfold is_range in R. rewrite R. simpl; auto. }
      rewrite X2 in I. destruct I. }
  assert (ALL : forall x, In x f2 <->
            (forall c, In c q -> is_range c = true -> TSat txs c x) /\
            (forall c, In c q -> is_range c = false -> OS c x)).
  { intro x. rewrite F2', (run_false _ x NN). rewrite <- RALL, <- OALL.
    rewrite <- (forall2_all_h _ (fun k y => forall c, In c (ck q k) -> TSat txs c y) _ _ x F1).
    rewrite <- (forall2_all_h _ OS _ _ x F2). split.
    - intro A. split; intros t J; apply A, in_app_iff; auto.
    - intros [A B] t J. apply in_app_iff in J as [J|J]; auto. }
  (* a member of f2 is the hash of an indexed transaction *)
  assert (MEM : forall x, In x f2 -> exists t, In t txs /\ x = t_hash t).
  { intros x I. apply ALL in I as [A B]. destruct q as [|c0 q']; [contradiction|].
    destruct (is_range c0) eqn:R.
    - destruct (A c0 (or_introl eq_refl) R) as [t [T1 [T2 _]]]. eauto.
    - destruct (B c0 (or_introl eq_refl) R) as [t [T1 [T2 _]]]. eauto. }
  assert (NAME : forall x, In x f2 ->
            match get st x with Some r => t_hash r | None => "nil"%string end = x).
  { intros x I. destruct (MEM x I) as [t [T1 T2]].
    rewrite (proj2 (ok_prim _ _ OK x t)) by auto. auto. }
  assert (RES : In id (map (fun h0 => match get st h0 with Some r => t_hash r | None => "nil"%string end)
                         (sdedup f2)) <-> In id f2).
  { rewrite in_map_iff. split.
    - intros [x [E I]]. apply (proj1 (sdedup_In _ _)) in I. rewrite (NAME x I) in E. subst x. exact I.
    - intro I. exists id. split; [apply NAME; exact I | apply sdedup_In; exact I]. }
  rewrite RES. split.
  - intro I. destruct (MEM id I) as [t [T1 T2]]. apply ALL in I as [A B].
    exists t. split; auto. split; auto.
    rewrite matches_nonnil by apply tx_events_nonnil. apply match_conds_all. intros c J.
    assert (SAME : forall t', In t' txs -> id = t_hash t' -> t' = t).
    { intros t' X1 X2.
      assert (G1 : get st id = Some t) by (apply (ok_prim _ _ OK); auto).
      assert (G2 : get st id = Some t') by (apply (ok_prim _ _ OK); auto). congruence. }
    destruct (is_range c) eqn:R.
    + destruct (A c J R) as [t' [X1 [X2 M]]]. rewrite (SAME t' X1 X2) in M. exact M.
    + destruct (B c J R) as [t' [X1 [X2 [M _]]]]. rewrite (SAME t' X1 X2) in M. exact M.
  - intros [t [T1 [T2 M]]]. apply ALL.
    rewrite matches_nonnil in M by apply tx_events_nonnil.
    pose proof (proj1 (match_conds_all q (tx_events t)) M) as MA. split.
    + intros c J _. exists t. auto.
    + intros c J R. exists t. split; auto. split; auto. split; [apply MA; exact J|].
      intros _ L. destruct (HC L) as [c' [I' [K' [O' A']]]].
      pose proof (MA c' I') as M'. pose proof (WF c' I') as W'.
      unfold wf_cond_r, is_range in W'. rewrite O' in W'. simpl in W'.
      destruct W' as [_ [NK' W']]. rewrite O', A' in W'.
      rewrite match_cond_vals in M' by (rewrite ?O'; congruence). rewrite O', A', K' in *.
      apply mv_int in M'; [|intros v Iv; apply (W' t v T1 Iv)].
      destruct M' as [z [Z1 Z2]]. simpl in Z2. apply Z.eqb_eq in Z2. subst z.
      apply In_vals, ext_in in Z1 as [Z1|[_ Z1]].
      * destruct (DOM t T1 _ _ Z1) as [_ [_ [X _]]]. contradiction.
      * apply dec_inj in Z1. auto.
Qed.

Print Assumptions C19_tx_search_exact_ranges_partial.

(* ------------------------------------------------------------------ concrete instance *)

(* non-vacuity: the two-block history of SearchProofs (a.x single-valued), a seven-condition
   query with a two-sided range on a.x, a one-sided range on tx.height and the tx.height = 1
   narrowing; the search finds exactly transaction "0" *)
Definition nvr_q : query :=
  [cnd "tx.height" OpGe (OInt 1); cnd "a.x" OpGt (OInt 5); cnd "a.y" OpEq (OStr "p");
   cnd "a.x" OpLe (OInt 7); cnd "a.x" OpExists ONone; cnd "tx.height" OpEq (OInt 1);
   cnd "a.y" OpContains (OStr "q")]%string.

Example C19_tx_search_exact_ranges_nonvacuous :
  Distinct (history_txs nv_hist) /\
  (forall t, In t (history_txs nv_hist) -> TxDomain t) /\
  nvr_q <> [] /\
  (forall c, In c nvr_q -> wf_cond_r (history_txs nv_hist) c) /\
  TxRangeShape (history_txs nv_hist) nvr_q /\
  search (run_history nv_hist) nvr_q = SOk ["0"%string] /\
  sat nvr_q nv_t0 = true /\ sat nvr_q nv_t1 = false /\
  search (run_history nv_hist) [cnd "a.x" OpGe (OInt 5); cnd "a.x" OpLt (OInt 8)]%string
  = SOk ["1"; "0"]%string.
Proof.
  destruct C19_search_exact_nonvacuous as [D [DOM _]].
  split; [exact D|]. split; [exact DOM|]. split; [discriminate|].
  assert (NK : forall k, In k ["tx.height"; "a.x"]%string -> NumKey (history_txs nv_hist) k).
  { intros k [<-|[<-|[]]] t v [<-|[<-|[]]] I; vm_compute in I; apply nv_numok; simpl; tauto. }
  split.
  { intros c I. simpl in I.
    repeat (destruct I as [<-|I];
      [ unfold wf_cond_r, wf_cond, is_range; simpl;
        first [ split; [reflexivity|]; split; [discriminate|]; eexists; split; [reflexivity|];
                apply NK; simpl; tauto
              | repeat split; try discriminate; try reflexivity; try (apply NK; simpl; tauto) ] |]).
    destruct I. }
  split.
  { intros k I. vm_compute in I. destruct I as [<-|[<-|[]]].
    - left. eexists. reflexivity.
    - right. exists (cnd "a.x" OpGt (OInt 5)), (cnd "a.x" OpLe (OInt 7)).
      split; [reflexivity|]. split; [reflexivity|].
      intros t [<-|[<-|[]]]; vm_compute; lia. }
  vm_compute. auto.
Qed.
