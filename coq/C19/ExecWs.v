(* C19 — executable side for the websocket forwarder of rpc/core/events.go (finding F90; cases
   written by harness/overlay/rpc/core/verif_c19_ws_test.go).  Depends on Common.Hex only: the
   monitor is stated on the client's own observation, from the property text.

   A case: the connection's write-queue capacity, SubscriptionBufferSize, CloseOnSlowClient
   (for the reader of a replay); the publications in order (true = it satisfies the client's
   query), numbered 0, 1, 2, ...; the event numbers the client received, in order; whether it
   received an error response (the cancellation notice); whether its connection was closed —
   all taken after the client has read until nothing comes any more.

   CLAUSE (V_violation):
     20  a remote (websocket) subscriber did not receive its matching events in order, each
         once — all of them, or a prefix of them together with the explicit notice that its
         subscription was cancelled or with the end of its connection (a strict prefix on a
         connection that stays open and silent, or a gap, is the violation) *)
From Coq Require Import List Arith NArith Bool.
From TM Require Import Common.Hex.
Import ListNotations.

Inductive wcase :=
  WCase (qcap scap : nat) (close_slow : bool) (pubs : list bool) (got : list nat)
        (told closed : bool).

Definition viol (b : bool) (clause : N) : verdict := if b then V_ok else V_violation clause.

(* the numbers of the matching publications *)
Fixpoint matching (i : nat) (pubs : list bool) : list nat :=
  match pubs with
  | [] => []
  | b :: r => (if b then [i] else []) ++ matching (S i) r
  end.

(* got is a prefix of want; the rest of want *)
Fixpoint rest_after (got want : list nat) : option (list nat) :=
  match got, want with
  | [], _ => Some want
  | g :: got', w :: want' => if Nat.eqb g w then rest_after got' want' else None
  | _ :: _, [] => None
  end.

Definition wcheck (c : wcase) : verdict :=
  match c with
  | WCase _ _ _ pubs got told closed =>
    viol (match rest_after got (matching 0 pubs) with
          | Some [] => true
          | Some (_ :: _) => told || closed
          | None => false
          end) 20
  end.
