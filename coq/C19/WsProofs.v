(* C19 (remote subscribers, finding F90) — proofs about WsModel.v: with the repaired forwarder
   every schedule leaves the client, whenever nothing more can happen, with all its matching
   events, or with the cancellation notice, or with a closed connection — and never with a gap
   or a repetition; the transcription of the unrepaired events.go does not. *)
From Coq Require Import List Arith Bool Lia.
From TM Require Import C19.WsModel.
Import ListNotations.

Lemma evs_app : forall a b, evs (a ++ b) = evs a ++ evs b.
Proof. intros. unfold evs. apply flat_map_app. Qed.

Lemma has_notice_app : forall a b, has_notice (a ++ b) = has_notice a || has_notice b.
Proof. intros. unfold has_notice. apply existsb_app. Qed.

Lemma seq_prefix_gen : forall (l1 l2 : list nat) a k, l1 ++ l2 = seq a k ->
  l1 = seq a (length l1) /\ length l1 <= k.
Proof.
  induction l1 as [|x l1 IH]; intros l2 a k E; cbn; [split; [reflexivity | lia]|].
  destruct k as [|k]; [discriminate E|]. cbn in E. injection E as -> E.
  destruct (IH l2 (S a) k E) as [E1 E2]. split; [f_equal; exact E1 | lia].
Qed.

Lemma seq_prefix : forall (l1 l2 : list nat) k, l1 ++ l2 = seq 0 k ->
  l1 = seq 0 (length l1) /\ length l1 <= k.
Proof. intros. eapply seq_prefix_gen; eauto. Qed.

Definition hold (f : fwst) : list nat := match f with FHold m => [m] | _ => [] end.
Definition alive (f : fwst) : bool := match f with FIdle | FHold _ => true | _ => false end.

(* delivered or on the connection / still to be forwarded *)
Definition Dl (s : ws) : list nat := evs (w_client s) ++ evs (w_queue s).
Definition Pd (s : ws) : list nat := hold (w_fw s) ++ w_out s.

Record Inv (s : ws) : Prop := {
  i_del : exists j, Dl s = seq 0 j /\ j <= w_pub s;
  i_pipe : alive (w_fw s) = true ->
           exists k, Dl s ++ Pd s = seq 0 k /\ k <= w_pub s /\ (w_canc s = false -> k = w_pub s);
  i_done : w_fw s = FDone ->
           has_notice (w_client s ++ w_queue s) = true \/ w_open s = false }.

Lemma inv_init : Inv ws_init.
Proof.
  constructor; simpl.
  - exists 0. auto.
  - intros _. exists 0. auto.
  - discriminate.
Qed.

(* a state whose delivered part is that of an Inv state and whose forwarder is not alive *)
Lemma inv_dead : forall s s', Inv s -> Dl s' = Dl s -> w_pub s <= w_pub s' ->
  alive (w_fw s') = false ->
  (w_fw s' = FDone -> has_notice (w_client s' ++ w_queue s') = true \/ w_open s' = false) ->
  Inv s'.
Proof.
  intros s s' [[j [D J]] _ _] E P A DN. constructor.
  - exists j. rewrite E. split; [exact D | lia].
  - rewrite A. discriminate.
  - exact DN.
Qed.

(* a state with a live forwarder and the same pipeline *)
Lemma inv_alive : forall s' k,
  Dl s' ++ Pd s' = seq 0 k -> k <= w_pub s' -> (w_canc s' = false -> k = w_pub s') ->
  alive (w_fw s') = true -> Inv s'.
Proof.
  intros s' k E K C A. constructor.
  - destruct (seq_prefix _ _ _ E) as [E1 E2]. exists (length (Dl s')). split; [exact E1 | lia].
  - intros _. exists k. auto.
  - intro F. rewrite F in A. discriminate.
Qed.

Lemma notice_enqueued : forall c q, has_notice (c ++ q ++ [Notice]) = true.
Proof. intros. rewrite !has_notice_app. simpl. rewrite !orb_true_r. reflexivity. Qed.

Ltac evc :=
  repeat match goal with
         | |- context [evs [Ev ?m]] => change (evs [Ev m]) with [m]
         | |- context [evs [Notice]] => change (evs [Notice]) with (@nil nat)
         end.
Ltac prj := cbn [w_pub w_out w_canc w_fw w_queue w_client w_open set_fw enqueue set_canc stop_conn
                 hold alive app] in *; evc.

Lemma step_inv : forall c s a, repaired c = true -> Inv s -> Inv (step c s a).
Proof.
  intros c s a R I. destruct a; cbn [step].
  - (* SPub *)
    destruct (w_canc s) eqn:C.
    + destruct I as [[j [D J]] PI DN]. constructor; prj.
      * exists j. split; [exact D | lia].
      * intro A. destruct (PI A) as [k [E [K _]]]. exists k. split; [exact E|]. split; [lia | discriminate].
      * exact DN.
    + destruct (length (w_out s) <? s_cap c).
      * destruct I as [[j [D J]] PI DN]. constructor; prj.
        -- exists j. split; [exact D | lia].
        -- intro A. destruct (PI A) as [k [E [K CK]]]. specialize (CK C). subst k.
           exists (S (w_pub s)). split; [|split; [lia | reflexivity]].
           unfold Dl, Pd in *. prj. rewrite seq_S. cbn [Nat.add]. rewrite <- E. repeat rewrite <- app_assoc. reflexivity.
        -- exact DN.
      * destruct I as [[j [D J]] PI DN]. constructor; prj.
        -- exists j. split; [exact D | lia].
        -- intro A. destruct (PI A) as [k [E [K _]]]. exists k. split; [exact E|]. split; [lia | discriminate].
        -- exact DN.
  - (* SExit *)
    destruct I as [[j [D J]] PI DN]. constructor; prj.
    + exists j. auto.
    + intro A. destruct (PI A) as [k [E [K _]]]. exists k. split; [exact E|]. split; [exact K | discriminate].
    + exact DN.
  - (* STake *)
    destruct (w_fw s) eqn:F; try exact I. destruct (w_out s) as [|m r] eqn:O; [exact I|].
    destruct (i_pipe s I) as [k [E [K CK]]]; [rewrite F; reflexivity|].
    unfold Dl, Pd in E. rewrite F, O in E. prj.
    destruct (room c s).
    + apply (inv_alive _ k); prj; auto.
      unfold Dl, Pd. prj. rewrite evs_app. prj. rewrite <- E. rewrite <- !app_assoc. reflexivity.
    + apply (inv_alive _ k); prj; auto.
  - (* SCancel *)
    destruct (w_fw s) eqn:F; try exact I. destruct (w_canc s) eqn:C; [|exact I].
    unfold send_notice. destruct (room c s).
    + apply (inv_dead s); prj; auto.
      * unfold Dl. prj. rewrite evs_app. prj. rewrite app_nil_r. reflexivity.
      * intros _. left. apply notice_enqueued.
    + rewrite R. apply (inv_dead s); prj; auto. discriminate.
  - (* SWrite *)
    destruct (w_fw s) eqn:F; try exact I.
    + destruct (room c s); [|exact I].
      destruct (i_pipe s I) as [k [E [K CK]]]; [rewrite F; reflexivity|].
      unfold Dl, Pd in E. rewrite F in E. prj.
      apply (inv_alive _ k); prj; auto.
      unfold Dl, Pd. prj. rewrite evs_app. prj. rewrite <- E. rewrite <- !app_assoc. reflexivity.
    + destruct (room c s); [|exact I].
      apply (inv_dead s); prj; auto.
      * unfold Dl. prj. rewrite evs_app. prj. rewrite app_nil_r. reflexivity.
      * intros _. left. apply notice_enqueued.
  - (* STimeout *)
    destruct (w_fw s) eqn:F; try exact I.
    + rewrite R. destruct (close_slow c).
      * apply (inv_dead s); prj; auto.
      * unfold send_notice. rewrite R. destruct (room c (set_canc s)).
        -- apply (inv_dead s); prj; auto.
           ++ unfold Dl. prj. rewrite evs_app. prj. rewrite app_nil_r. reflexivity.
           ++ intros _. left. apply notice_enqueued.
        -- apply (inv_dead s); prj; auto. discriminate.
    + apply (inv_dead s); prj; auto.
  - (* SRead *)
    destruct (w_open s) eqn:OP; [|exact I]. destruct (w_queue s) as [|x r] eqn:Q; [exact I|].
    assert (DE : evs (w_client s ++ [x]) ++ evs r = Dl s).
    { unfold Dl. rewrite Q, evs_app. change (x :: r) with ([x] ++ r).
      rewrite (evs_app [x] r), app_assoc. reflexivity. }
    destruct I as [[j [D J]] PI DN]. constructor; prj.
    + exists j. unfold Dl. prj. rewrite DE. auto.
    + intro A. destruct (PI A) as [k [E X]]. exists k. split; [|exact X].
      unfold Dl, Pd in *. prj. rewrite DE. exact E.
    + intro A. destruct (DN A) as [N|N]; [left | right; congruence].
      rewrite Q in N. rewrite <- app_assoc. exact N.
Qed.

Lemma run_inv : forall c steps, repaired c = true -> Inv (run c steps).
Proof.
  intros c steps R. unfold run.
  assert (G : forall s, Inv s -> Inv (fold_left (step c) steps s)).
  { induction steps as [|a l IH]; intros s I; simpl; [exact I|]. apply IH, step_inv; assumption. }
  apply G, inv_init.
Qed.

(* never a gap or a repetition, at any time *)
Theorem ws_no_gap : forall c steps, repaired c = true ->
  exists j, evs (w_client (run c steps)) = seq 0 j /\ j <= w_pub (run c steps).
Proof.
  intros c steps R. destruct (i_del _ (run_inv c steps R)) as [j [D J]].
  unfold Dl in D. destruct (seq_prefix _ _ _ D) as [E L]. eexists. split; [exact E | lia].
Qed.

(* when nothing more can happen: everything, or told, or disconnected *)
Theorem ws_subscriber_told : forall c steps, repaired c = true ->
  quiescent (run c steps) = true -> observation_ok (run c steps).
Proof.
  intros c steps R Q. pose proof (run_inv c steps R) as I. set (s := run c steps) in *.
  destruct (ws_no_gap c steps R) as [j [E J]]. fold s in E, J.
  exists j. split; [exact E|]. split; [exact J|].
  unfold quiescent in Q. apply andb_true_iff in Q as [Q1 Q2].
  destruct (w_open s) eqn:OP; [|auto].
  destruct (w_queue s) as [|x r] eqn:QU; [|discriminate Q1].
  destruct (w_fw s) eqn:F; try discriminate Q2.
  - destruct (w_out s) eqn:O; [|discriminate Q2]. apply negb_true_iff in Q2.
    destruct (i_pipe s I) as [k [P [K CK]]]; [rewrite F; reflexivity|].
    unfold Dl, Pd in P. rewrite F, O, QU in P. cbn in P. rewrite !app_nil_r in P.
    rewrite E in P. apply (f_equal (@length nat)) in P. rewrite !seq_length in P.
    left. rewrite <- (CK Q2). exact P.
  - destruct (i_done s I F) as [N|N]; [|congruence]. rewrite QU, app_nil_r in N. auto.
Qed.

(* ------------------------------------------------------------------ concrete schedules *)

Definition cfg_rep (q b : nat) (cs : bool) : wcfg :=
  {| q_cap := q; s_cap := b; close_slow := cs; repaired := true |}.
Definition cfg_orig (q b : nat) (cs : bool) : wcfg :=
  {| q_cap := q; s_cap := b; close_slow := cs; repaired := false |}.

(* the audit's situation in small (queue 1, buffer 1): #0 queued, #1 held by the blocked
   forwarder, #2 buffered, #3 cancels; the client reads, the held write lands, the select takes
   Cancelled with the queue full again; the client reads on *)
Definition slow_reader : list wstep :=
  [SPub; STake; SPub; STake; SPub; SPub; SRead; SWrite; SCancel; SRead].
(* the client stalls while #1 is held (buffer 4: no cancellation): the write times out *)
Definition stall : list wstep :=
  [SPub; STake; SPub; STake; SPub; STimeout; STake; SRead; SWrite; SRead].

Example ws_subscriber_told_nonvacuous :
  quiescent (run (cfg_rep 1 1 false) (slow_reader ++ [SWrite; SRead])) = true /\
  w_client (run (cfg_rep 1 1 false) (slow_reader ++ [SWrite; SRead])) = [Ev 0; Ev 1; Notice] /\
  w_pub (run (cfg_rep 1 1 false) (slow_reader ++ [SWrite; SRead])) = 4 /\
  quiescent (run (cfg_rep 1 1 false) (slow_reader ++ [STimeout])) = true /\
  w_open (run (cfg_rep 1 1 false) (slow_reader ++ [STimeout])) = false /\
  w_client (run (cfg_rep 1 4 false) stall) = [Ev 0; Notice] /\
  quiescent (run (cfg_rep 1 4 false) stall) = true /\
  quiescent (run (cfg_rep 1 1 false) [SPub; STake; SRead; SPub; STake; SRead]) = true /\
  w_client (run (cfg_rep 1 1 false) [SPub; STake; SRead; SPub; STake; SRead]) = [Ev 0; Ev 1].
Proof. vm_compute. repeat split. Qed.

(* F90: the unrepaired forwarder leaves the client with a strict prefix, no notice and an open
   connection, for ever; and (CloseOnSlowClient = false) with a gap *)
Example ws_original_refuted :
  let s := run (cfg_orig 1 1 false) slow_reader in
  quiescent s = true /\ w_client s = [Ev 0; Ev 1] /\ w_pub s = 4 /\ w_open s = true /\
  w_fw s = FDone /\
  let g := run (cfg_orig 1 4 false) stall in
  quiescent g = true /\ w_client g = [Ev 0; Ev 2] /\ w_open g = true.
Proof. vm_compute. repeat split. Qed.

Lemma ws_original_not_ok : ~ observation_ok (run (cfg_orig 1 1 false) slow_reader).
Proof.
  intros [j [E [J [X|[X|X]]]]]; vm_compute in E, X; try discriminate X.
  subst j. discriminate E.
Qed.

Print Assumptions ws_subscriber_told.
Print Assumptions ws_no_gap.
