(* C19 — executable side for the duplicate-bytes family of the transaction indexer (finding
   F91; cases written by harness/overlay/state/txindex/kv/verif_c19_dup_test.go).  Depends on
   ExecSearch.v (case helpers), SearchModel.v and DupModel.v.

   Unlike ExecSearch.scase the monitors here make NO premise on transaction bytes: a committed
   transaction is a (bytes, height, index) triple, and Search's answer is recorded as the
   (hash token, Height, Index) of every TxResult it returned.

   CLAUSES (V_violation):
     11  Search returned an item that is not a committed transaction satisfying the query (the
         real Query.Matches on the event map of the commit with that hash, height and index)
     12  Search missed a committed transaction that satisfies the query (a failing / panicking
         Search counts as returning nothing)
     13  Search returned the same item twice, or a committed transaction is not retrievable by
         its hash with its height, index and code although no later commit of the same bytes
         is the documented reason (see known class 91)
   KNOWN class (V_known 91 instead of V_violation, all three clauses): two indexed results
     with equal transaction bytes at different (height, index) (DupModel.dup91)
   OBSERVABLE (V_mismatch): 31 model search (set of hash tokens) vs the tokens returned *)
From Coq Require Import String Ascii List ZArith NArith Bool.
From TM Require Import Common.Hex C19.SearchModel C19.DupModel.
From TM Require Export C19.ExecSearch.
Import ListNotations.
Open Scope Z_scope.

(* conditions; Search's answer (None: error or panic) as (token, height, index) triples;
   Matches' verdict for each commit of the history, in history order *)
Definition dquery_t := (list cond_t * option (list (string * Z * Z)) * list N)%type.
Inductive dcase := DCase (hist : list sop_t) (gets : list (option (Z * Z * Z))) (qs : list dquery_t).

Definition item_eqb (a b : string * Z * Z) : bool :=
  let '(x, h, i) := a in let '(y, h', i') := b in String.eqb x y && (h =? h') && (i =? i').
Fixpoint item_mem (x : string * Z * Z) (l : list (string * Z * Z)) : bool :=
  match l with [] => false | y :: r => item_eqb x y || item_mem x r end.
Fixpoint item_nodup (l : list (string * Z * Z)) : bool :=
  match l with [] => true | x :: r => negb (item_mem x r) && item_nodup r end.
Definition item_of (t : txres) : string * Z * Z := (t_hash t, t_height t, t_index t).

Fixpoint pick_items (txs : list txres) (mv : list N) : list (string * Z * Z) :=
  match txs, mv with
  | t :: txs', v :: mv' => (if (v =? 1)%N then [item_of t] else []) ++ pick_items txs' mv'
  | _, _ => []
  end.

Definition dquery_verdicts (c91 : bool) (st : store) (txs : list txres) (dq : dquery_t)
  : list verdict :=
  let '(conds, ans, mv) := dq in
  let q := map mk_cond conds in
  let returned := match ans with Some l => l | None => [] end in
  let satisfying := pick_items txs mv in
  [ classify (forallb (fun x => item_mem x satisfying) returned) 11 [(c91, 91%N)];
    classify (forallb (fun x => item_mem x returned) satisfying) 12 [(c91, 91%N)];
    classify (item_nodup returned) 13 [(c91, 91%N)];
    mism (match search st q, ans with
          | SOk a, Some l => set_eqb a (map (fun x => fst (fst x)) l)
          | SOk _, None => false
          | _, None => true
          | _, Some _ => false
          end) 31 ].

Definition dcheck (c : dcase) : verdict :=
  match c with
  | DCase hist gets qs =>
    let ops := map mk_op hist in
    let txs := history_txs ops in
    let st := run_history ops in
    let c91 := dup91 txs in
    first_of (
      [ classify (Nat.eqb (List.length gets) (List.length txs)
                  && forallb (fun tg => otriple_eqb (get_triple (Some (fst tg))) (snd tg))
                             (combine txs gets)) 13 [(c91, 91%N)];
        mism (Nat.eqb (List.length gets) (List.length txs)
              && forallb (fun tg => otriple_eqb (get_triple (get st (t_hash (fst tg)))) (snd tg))
                         (combine txs gets)) 33 ]
      ++ flat_map (dquery_verdicts c91 st txs) qs)
  end.
