(* C19 — the indexer service, state/txindex/indexer_service.go (IndexerService.OnStart: the
   goroutine that reads the NewBlockHeader subscription and the Tx subscription of the event
   bus), composed with the models of the two indexers (SearchModel.v: TxIndex.AddBatch;
   BlockModel.v: BlockerIndexer.Index).  NO proofs.

   The loop, per iteration: take a header (height, NumTxs, BeginBlock/EndBlock results);
   batch := NewBatch(NumTxs); NumTxs times: take a Tx event and Batch.Add it, i.e.
   batch.Ops[txResult.Index] = &txResult; then blockIdxr.Index(header): on error log, and Stop
   + return only if terminateOnError; then txIdxr.AddBatch(batch): same error handling.
   * Both subscriptions are unbuffered: the event bus hands a publication over when the loop
     asks for the next message of that subscription.  What the loop sees is therefore the
     sequence of header and Tx publications; a Tx publication while the loop waits for a header,
     or a header while it waits for a Tx, is never taken and blocks the event bus for good
     ([sv_blocked]; outside the publisher's contract, as is a batch with an index out of range
     or an empty slot, which panics: [sv_crashed]).
   * AddBatch on the kv indexer fails only on database errors (not modelled).
   * Batch.Add never fails. *)
From Coq Require Import String List ZArith Bool.
From TM Require Import C19.Query C19.SearchModel C19.BlockModel.
Import ListNotations.
Open Scope Z_scope.

Inductive sev :=
| EvHeader (b : block) (ntx : nat)      (* EventDataNewBlockHeader: header + results, NumTxs *)
| EvTx (t : txres).                     (* EventDataTx *)

Record svc := {
  sv_tx : store;                        (* the transaction index *)
  sv_blk : bstore;                      (* the block index *)
  sv_run : bool;                        (* the goroutine is in its loop *)
  sv_blocked : bool;
  sv_crashed : bool;
  sv_cur : option (block * nat * list (option txres))   (* header, Tx events still to come, batch.Ops *)
}.

Definition svc_init : svc :=
  {| sv_tx := empty_store; sv_blk := []; sv_run := true; sv_blocked := false; sv_crashed := false;
     sv_cur := None |}.

Fixpoint set_nth {A} (i : nat) (v : A) (l : list A) : option (list A) :=   (* None: index out of range *)
  match i, l with
  | _, [] => None
  | O, _ :: r => Some (v :: r)
  | S i', x :: r => match set_nth i' v r with Some r' => Some (x :: r') | None => None end
  end.

Fixpoint those {A} (l : list (option A)) : option (list A) :=
  match l with
  | [] => Some []
  | Some x :: r => match those r with Some xs => Some (x :: xs) | None => None end
  | None :: _ => None
  end.

(* the tail of an iteration: index the block events, then add the batch *)
Definition svc_finish (term : bool) (s : svc) (b : block) (ops : list (option txres)) : svc :=
  match those ops with
  | None => {| sv_tx := sv_tx s; sv_blk := sv_blk s; sv_run := false; sv_blocked := sv_blocked s;
               sv_crashed := true; sv_cur := None |}          (* AddBatch dereferences a nil entry *)
  | Some batch =>
    let '(bst, ok) := bindex (sv_blk s) b in
    if negb ok && term
    then {| sv_tx := sv_tx s; sv_blk := bst; sv_run := false; sv_blocked := sv_blocked s;
            sv_crashed := sv_crashed s; sv_cur := None |}      (* is.Stop(); return *)
    else {| sv_tx := add_batch (sv_tx s) batch; sv_blk := bst; sv_run := true;
            sv_blocked := sv_blocked s; sv_crashed := sv_crashed s; sv_cur := None |}
  end.

Definition svc_block (s : svc) : svc :=
  {| sv_tx := sv_tx s; sv_blk := sv_blk s; sv_run := sv_run s; sv_blocked := true;
     sv_crashed := sv_crashed s; sv_cur := sv_cur s |}.

Definition svc_step (term : bool) (s : svc) (e : sev) : svc :=
  if negb (sv_run s) || sv_blocked s then s      (* no subscriber any more / event bus stuck *)
  else
    match sv_cur s, e with
    | None, EvHeader b O => svc_finish term s b []
    | None, EvHeader b n =>
      {| sv_tx := sv_tx s; sv_blk := sv_blk s; sv_run := true; sv_blocked := false;
         sv_crashed := sv_crashed s; sv_cur := Some (b, n, repeat None n) |}
    | Some (b, S k, ops), EvTx t =>
      match set_nth (Z.to_nat (t_index t)) (Some t) ops with
      | None => {| sv_tx := sv_tx s; sv_blk := sv_blk s; sv_run := false; sv_blocked := false;
                   sv_crashed := true; sv_cur := None |}      (* index out of range *)
      | Some ops' =>
        match k with
        | O => svc_finish term s b ops'
        | _ => {| sv_tx := sv_tx s; sv_blk := sv_blk s; sv_run := true; sv_blocked := false;
                  sv_crashed := sv_crashed s; sv_cur := Some (b, k, ops') |}
        end
      end
    | _, _ => svc_block s
    end.

Definition svc_run (term : bool) (evs : list sev) : svc := fold_left (svc_step term) evs svc_init.

(* a published block: its header data and its Tx publications in the order published *)
Definition pblock := (block * list txres)%type.
Definition events_of (p : pblock) : list sev :=
  EvHeader (fst p) (List.length (snd p)) :: map EvTx (snd p).
Definition events_all (ps : list pblock) : list sev := flat_map events_of ps.
