(* C19 — Subscribers get exactly their matching events; searches return exact matches.
   Property theorems only; proofs are in Proofs.v (pub/sub), SearchProofs.v (transaction
   indexer) and BlockProofs.v (block indexer).

   Pub/sub half.  [run Q ord ops] is the state of the pubsub Server (Server.subscriptions, the
   loop's two tables, every Subscription handed out) after the history [ops] of
   Subscribe / Unsubscribe / UnsubscribeAll / PublishWithEvents / reader steps, with [Q] the
   query behind each query string and [ord] the iteration order of every `range` over a Go
   map (ANY family of permutations, possibly different at every publication).  The model is of
   the send loop as repaired for finding F10. *)
From Coq Require Import String List ZArith Bool Arith Permutation Sorted.
From TM Require Import C19.Query C19.Model C19.Proofs C19.SearchModel C19.SearchProofs.
From TM Require Import C19.BlockModel C19.BlockProofs C19.SearchRangeProofs.
From TM Require Import C19.PhaseModel C19.PhaseProofs.
From TM Require Import C19.ServiceModel C19.ServiceProofs.
From TM Require Import C19.BusModel C19.BusProofs.
Import ListNotations.
Local Open Scope nat_scope.

Definition order_ok (ord : forall A : Type, nat -> list A -> list A) : Prop :=
  forall A n (l : list A), Permutation (ord A n l) l.

(* 1. What the pair k = (client, query) observes — registered?, in the loop's table?, its
   current Subscription (capacity, queued and received messages, Err) — is, after ANY history
   and under ANY map order, exactly the state of the one-subscriber automaton [solo_step] that
   looks only at k's own operations and at the publications. *)
Theorem C19_subscriber_view_is_solo :
  forall Q ord, order_ok ord ->
  forall k ops, proj k (run Q ord ops) = solo_run Q k ops.
Proof. exact proj_run. Qed.
Print Assumptions C19_subscriber_view_is_solo.

(* 2. Isolation: two histories (different other clients, other queries, other capacities,
   other readers' speeds, other map orders, even other queries behind the other query
   strings) that agree on k's own operations and on the publications give k the same view. *)
Theorem C19_isolation :
  forall Q Q' ord ord', order_ok ord -> order_ok ord' ->
  forall k ops ops',
    Q (snd k) = Q' (snd k) ->
    map strip (filter (relevant k) ops) = map strip (filter (relevant k) ops') ->
    proj k (run Q ord ops) = proj k (run Q' ord' ops').
Proof. exact isolation. Qed.
Print Assumptions C19_isolation.

(* 3. Delivery: after a successful Subscribe of (c, q) and any further history [post] that does
   not (un)subscribe that pair, the messages pushed into its channel (received ++ still queued)
   are exactly the publications of [post] whose events match its OWN query, in order, each
   once, and it is still subscribed with Err() = nil — or it is a buffered subscription that
   was removed with Err() = ErrOutOfCapacity, and what was pushed is the strict prefix of that
   list up to the publication that found the buffer full. *)
Theorem C19_delivery_exact :
  forall Q ord, order_ok ord ->
  forall pre c q cap post,
    has_key (c, q) (outer (run Q ord pre)) = false ->
    forallb (quiet (c, q)) post = true ->
    let s := run Q ord (pre ++ Subscribe c q cap :: post) in
    exists ch, alookup key_eqb (c, q) (heap s) = Some ch /\ ch_cap ch = cap /\
      ((in_table (c, q) s = true /\ ch_err ch = None /\ pushed ch = matching Q (c, q) post) \/
       (in_table (c, q) s = false /\ cap <> 0 /\ ch_err ch = Some OutOfCapacity /\
        exists m rest, matching Q (c, q) post = pushed ch ++ m :: rest)).
Proof. exact delivery_exact. Qed.
Print Assumptions C19_delivery_exact.

(* 3b. ... and after its Unsubscribe, whatever follows short of a new Subscribe of the pair: the
   subscription is out of both tables, its Err() is ErrUnsubscribed with everything matching
   up to that point pushed (or ErrOutOfCapacity with the strict prefix, if it had been removed
   for capacity before), and nothing is pushed afterwards. *)
Theorem C19_unsubscribed_final :
  forall Q ord, order_ok ord ->
  forall pre c q cap post rest,
    has_key (c, q) (outer (run Q ord pre)) = false ->
    forallb (quiet (c, q)) post = true ->
    forallb (no_resub (c, q)) rest = true ->
    let s := run Q ord (pre ++ Subscribe c q cap :: post ++ Unsubscribe c q :: rest) in
    in_table (c, q) s = false /\ has_key (c, q) (outer s) = false /\
    exists ch, alookup key_eqb (c, q) (heap s) = Some ch /\ ch_cap ch = cap /\
      ((ch_err ch = Some Unsubscribed /\ pushed ch = matching Q (c, q) post) \/
       (cap <> 0 /\ ch_err ch = Some OutOfCapacity /\
        exists m r, matching Q (c, q) post = pushed ch ++ m :: r)).
Proof. exact unsubscribed_final. Qed.
Print Assumptions C19_unsubscribed_final.

(* 4. The loop never dereferences a missing state.queries entry and its tables stay
   consistent: distinct keys, no empty client map, refCount = number of clients, every table
   entry registered with the Server. *)
Theorem C19_tables_consistent :
  forall Q ord, order_ok ord -> forall ops, wf (run Q ord ops).
Proof. exact wf_run. Qed.
Print Assumptions C19_tables_consistent.

(* 4b. API calls IN FLIGHT AT ONCE (PhaseModel.v: every Subscribe / Unsubscribe / UnsubscribeAll
   call is split into its check phase under mtx.RLock, the hand-over of its command to the
   server loop, and its post phase under mtx.Lock; [prun xs] is the state after the schedule
   [xs] of such phase steps — any number of calls of any clients, checks on stale registrations
   included — and of capacity cancellations by send; code as repaired for F59/F60).  For EVERY
   schedule in which the post phases run in the order the loop took the commands: whenever no
   call is in flight, Server.subscriptions (what Subscribe / Unsubscribe / UnsubscribeAll /
   NumClientSubscriptions consult) holds exactly the pairs that are in the loop's table or were
   cancelled there for capacity and not unsubscribed since.
   On the ORIGINAL Unsubscribe the statement is false (C19_original_bookkeeping_refuted, F59: the
   post phase empties the inner map read during the check and deletes the client's current
   entry).  The premise on the order of the post phases cannot be dropped, for the repaired and
   the original code alike (C19_bookkeeping_post_order_needed): a post phase that overtakes the
   post phase of an earlier command is a matter of goroutine scheduling between `s.cmds <- cmd`
   and `s.mtx.Lock()`; it is neither forced by the harness nor excluded by the code. *)
Theorem C19_bookkeeping_consistent : forall xs : list pstep,
  forallb in_order xs = true ->
  quiescent (prun xs) = true ->
  forall k, kmem k (srv (prun xs)) = kmem k (tab (prun xs)) || kmem k (dropped (prun xs)).
Proof. exact PhaseProofs.C19_bookkeeping_consistent. Qed.
Print Assumptions C19_bookkeeping_consistent.

Example C19_bookkeeping_consistent_nonvacuous :
  forallb in_order sched_k = true /\ quiescent (prun sched_k) = true /\
  srv (prun sched_k) = [(0, 1)] /\ tab (prun sched_k) = [(0, 1)].
Proof. exact PhaseProofs.C19_bookkeeping_consistent_nonvacuous. Qed.

Example C19_original_bookkeeping_refuted :
  o_waiting (orun sched_k) = [] /\ o_posting (orun sched_k) = [] /\
  omem (0, 1) (o_srv (orun sched_k)) = false /\ ohas_client 0 (o_srv (orun sched_k)) = false /\
  kmem (0, 1) (o_tab (orun sched_k)) = true.
Proof. exact PhaseProofs.C19_original_bookkeeping_refuted. Qed.

Example C19_bookkeeping_post_order_needed :
  quiescent (prun sched_v) = true /\
  kmem (0, 1) (srv (prun sched_v)) = false /\ kmem (0, 1) (tab (prun sched_v)) = true.
Proof. exact PhaseProofs.C19_bookkeeping_post_order_needed. Qed.

(* ------------------------------------------------------------------ indexer half
   (state/txindex/kv; model in SearchModel.v: the store is the list of (key segments, hash)
   index entries plus the primary records; a rendered key tag/value/height/index is
   represented by its '/'-separated segments, so a value containing '/' contributes several
   segments exactly as in the real key). *)

(* 5. After any history of AddBatch / Index calls on pairwise distinct transactions (distinct
   bytes, distinct (height, index)): index keys and primary records are duplicate-free, the
   index holds exactly one key per indexed attribute occurrence plus the height key of every
   transaction, and Get(hash) returns exactly the transaction indexed under that hash. *)
Theorem C19_indexed_once : forall h : list iop,
  Distinct (history_txs h) ->
  let st := run_history h in
  NoDup (map fst (s_idx st)) /\ NoDup (map fst (s_prim st)) /\
  (forall k id, In (k, id) (s_idx st) <->
     exists t, In t (history_txs h) /\ id = t_hash t /\ In k (keys_of t)) /\
  (forall id t, get st id = Some t <-> In t (history_txs h) /\ t_hash t = id).
Proof. exact SearchProofs.C19_indexed_once. Qed.
Print Assumptions C19_indexed_once.

(* 6. PARTIAL.  Full statement: for every history in the value domain and EVERY query of the
   language without tx.hash / TIME / DATE / undotted EXISTS and with at most one lower and one
   upper bound per key (both only on single-valued keys), Search returns exactly the indexed
   transactions whose event map satisfies the pub/sub matcher.  Proved here: the same for the
   range-free sub-language (conjunctions of = 'string', = integer, CONTAINS, EXISTS on a dotted
   key, including the tx.height = H narrowing of every scan and the first-run / empty-set
   short-cuts); range conditions (< <= > >=) are modelled and checked by the differential run
   only.  Premises: TxDomain (no '/' in indexed tags and values, reserved tags unused),
   wf_cond (no '/' in query keys / string operands; integer equality only on keys whose indexed
   values are canonical decimals). *)
Theorem C19_search_exact_partial : forall (h : list iop) (q : query),
  Distinct (history_txs h) ->
  (forall t, In t (history_txs h) -> TxDomain t) ->
  q <> [] ->
  (forall c, In c q -> wf_cond (history_txs h) c) ->
  exists ids, search (run_history h) q = SOk ids /\
    forall id, In id ids <->
      exists t, In t (history_txs h) /\ t_hash t = id /\ matches q (tx_events t) = MTrue.
Proof. exact SearchProofs.C19_search_exact_partial. Qed.
Print Assumptions C19_search_exact_partial.
(* non-vacuity and the refutations outside the premises (findings 17, 24, 25, 26, 27):
   SearchProofs.C19_indexed_once_nonvacuous, C19_search_exact_nonvacuous,
   C19_search_slash_refuted, C19_search_numeric_refuted, C19_search_hash_shortcut_refuted,
   C19_search_merged_ranges_refuted, C19_search_merged_ranges_multivalued_refuted,
   C19_search_time_refuted, C19_search_exists_undotted_refuted. *)

(* 6b. Theorem 6 extended to integer RANGE conditions: for every history of distinct
   transactions in the value domain and every query outside the decidable known classes
   (17 '/' and numeric strictness, 24 tx.hash, 25 merged ranges, 26 TIME/DATE, 27 undotted
   EXISTS) — a non-empty conjunction in any order and number of = 'string', = integer, CONTAINS,
   dotted EXISTS and < <= > >= integer, tx.height conditions of the integer kinds included, the
   range conditions on one key being one condition or one lower and one upper bound on a key
   that is single-valued in every transaction (TxRangeShape) — Search returns exactly the
   indexed transactions whose event map satisfies the pub/sub matcher: LookForRanges
   (characterised for arbitrary queries), matchRange, both loops with the first-run / empty-set
   short-cuts, the tx.height = H narrowing of the "=" scans (range scans are not narrowed), the
   final Get.  PARTIAL as theorem 6: "canonical decimal" is the semantic premise NumKey (NumOK:
   the matcher's reading and strconv.ParseInt agree on the indexed values of the key, heights
   included); the lemma that every [dec z], 0 <= z <= MaxInt64, is NumOK is missing.
   Premises: Distinct, TxDomain, wf_cond_r (range conditions: integer operand on a NumKey key
   without '/', not tx.hash; other conditions: wf_cond of theorem 6), TxRangeShape. *)
Theorem C19_tx_search_exact_ranges_partial : forall (h : list iop) (q : query),
  Distinct (history_txs h) ->
  (forall t, In t (history_txs h) -> TxDomain t) ->
  q <> [] ->
  (forall c, In c q -> wf_cond_r (history_txs h) c) ->
  TxRangeShape (history_txs h) q ->
  exists ids, search (run_history h) q = SOk ids /\
    forall id, In id ids <->
      exists t, In t (history_txs h) /\ t_hash t = id /\ matches q (tx_events t) = MTrue.
Proof. exact SearchRangeProofs.C19_tx_search_exact_ranges_partial. Qed.
Print Assumptions C19_tx_search_exact_ranges_partial.

Example C19_tx_search_exact_ranges_nonvacuous :
  Distinct (history_txs nv_hist) /\
  (forall t, In t (history_txs nv_hist) -> TxDomain t) /\
  nvr_q <> [] /\
  (forall c, In c nvr_q -> wf_cond_r (history_txs nv_hist) c) /\
  TxRangeShape (history_txs nv_hist) nvr_q /\
  search (run_history nv_hist) nvr_q = SOk ["0"%string] /\
  sat nvr_q nv_t0 = true /\ sat nvr_q nv_t1 = false.
Proof. pose proof SearchRangeProofs.C19_tx_search_exact_ranges_nonvacuous as H. intuition. Qed.

(* ------------------------------------------------------------------ block indexer half
   (state/indexer/block/kv; model in BlockModel.v: the store is the list of (key, height)
   entries, a key being the orderedcode tuple itself: [PK h] = (block.height, h) or
   [EK type.attr value h begin_block|end_block]; Search as repaired for finding F47). *)

(* 7. After ANY history of Index calls (blocks rejected for the reserved key block.height and
   re-indexed heights included): every key is in the store once; a key is there, with value h,
   exactly when it is a key of a block of height h whose Index returned nil — its primary key or
   the key of one of its BeginBlock / EndBlock attributes with Index=true, non-empty type and
   key; Has(h) answers exactly "some Index of a block of height h returned nil". *)
Theorem C19_block_indexed_once : forall hist : list block,
  let st := brun hist in
  NoDup (map fst st) /\
  (forall k x, In (k, x) st <->
     exists b, In b hist /\ index_ok b = true /\ x = b_height b /\ In k (bkeys b)) /\
  (forall h, bhas st h = true <-> exists b, In b hist /\ index_ok b = true /\ b_height b = h).
Proof. exact BlockProofs.C19_block_indexed_once. Qed.
Print Assumptions C19_block_indexed_once.

(* 8. For every history in which a height is indexed once or re-indexed with the same events
   (BConsistent) and EVERY query of the language outside the decidable known classes — no
   TIME / DATE operands (36), no undotted EXISTS (38), no string comparison of block.height
   (34), integer conditions only on keys whose indexed values are canonical decimals (37), and
   per key one range condition or one lower and one upper bound on a single-valued key (25;
   RangeShape) — Search returns, strictly ascending, exactly the heights of the indexed blocks
   whose event map satisfies the pub/sub matcher: = 'string', = integer, CONTAINS, dotted
   EXISTS, < <= > >=, block.height conditions of all these kinds included, in any order and
   number, with LookForRanges, both loops of Search, the first-run / empty-set short-cuts, the
   primary-key scan of block.height = H (F47), the Has filter and the sort.
   PARTIAL: integer conditions on keys carrying digit-free values (both sides find nothing) are
   monitored only, and "canonical decimal" is the semantic premise BNumKey (the
   matcher's reading and strconv.ParseInt agree on the indexed values of the key, heights
   included: NumOK) — the lemma that every [dec z], 0 <= z <= MaxInt64, is NumOK is missing.
   Premises: BConsistent, bwf_cond (string conditions not on block.height; integer conditions
   on BNumKey keys; EXISTS on dotted keys), RangeShape. *)
Theorem C19_block_search_exact_partial : forall (hist : list block) (q : query),
  BConsistent hist ->
  q <> [] ->
  (forall c, In c q -> bwf_cond hist c) ->
  RangeShape hist q ->
  exists hs, bsearch (brun hist) q = BOk hs /\ StronglySorted Z.lt hs /\
    forall h, In h hs <->
      exists b, In b hist /\ index_ok b = true /\ b_height b = h /\
                matches q (blk_events b) = MTrue.
Proof. exact BlockProofs.C19_block_search_exact_partial. Qed.
Print Assumptions C19_block_search_exact_partial.
(* non-vacuity, the original Search and the refutations outside the premises (F47; classes
   25, 34, 36, 37, 38): BlockProofs.C19_block_indexed_once_nonvacuous,
   C19_block_search_exact_nonvacuous (restated below), C19_block_original_height_shortcut_refuted,
   C19_block_search_merged_ranges_refuted, C19_block_search_height_as_string_refuted,
   C19_block_search_time_refuted, C19_block_search_numeric_refuted,
   C19_block_search_exists_undotted_refuted. *)

Example C19_block_search_exact_nonvacuous :
  BConsistent bnv_hist /\ bnv_q <> [] /\
  (forall c, In c bnv_q -> bwf_cond bnv_hist c) /\ RangeShape bnv_hist bnv_q /\
  bsearch (brun bnv_hist) bnv_q = BOk [1%Z] /\
  bsat bnv_q bnv_b1 = true /\ bsat bnv_q bnv_b2 = false /\ bsat bnv_q bnv_b4 = false.
Proof. pose proof BlockProofs.C19_block_search_exact_nonvacuous as H. intuition. Qed.

(* F47: on the ORIGINAL Search a block.height = H condition short-cut the whole query *)
Example C19_block_original_search_refuted :
  let q := [Build_cond "block.height" OpEq (OInt 2); Build_cond "a.y" OpEq (OStr "q")] in
  bsearch_original (brun bnv_hist) q = BOk [2%Z] /\ bsat q bnv_b2 = false /\
  bsearch (brun bnv_hist) q = BOk [].
Proof. vm_compute. auto. Qed.

(* ------------------------------------------------------------------ the indexer service
   (state/txindex/indexer_service.go; ServiceModel.v: the loop that takes a header, collects
   its NumTxs Tx events into batch.Ops[Index], indexes the block events and adds the batch,
   composed with the two indexer models). *)

(* 9. With terminateOnError = false (the node's setting), after ANY history of well-formed
   block publications — a header, then its NumTxs Tx events in any order carrying the indices
   0..NumTxs-1 — of pairwise distinct transactions, and WHATEVER the block indexer answers on
   the blocks' events (blocks it rejects included): the service is back at the top of its
   loop; the transaction index holds every key once, a key belongs to a transaction exactly
   when it is one of that transaction's keys (its tx.height key among them), Get(hash) returns
   exactly the published transaction with that hash — every published transaction, nothing
   else; the block index is what BlockerIndexer.Index leaves after the headers in order
   (theorem 7: exactly the blocks it accepted).  With terminateOnError = true the service
   stops at the first rejected block (C19_service_terminate_on_error_stops): nothing is
   claimed from there on. *)
Theorem C19_service_indexes_every_tx : forall ps : list pblock,
  Forall wf_pblock ps ->
  Distinct (all_txs ps) ->
  let s := svc_run false (events_all ps) in
  sv_run s = true /\ sv_blocked s = false /\ sv_crashed s = false /\ sv_cur s = None /\
  NoDup (map fst (s_idx (sv_tx s))) /\ NoDup (map fst (s_prim (sv_tx s))) /\
  (forall k id, In (k, id) (s_idx (sv_tx s)) <->
     exists t, In t (all_txs ps) /\ id = t_hash t /\ In k (keys_of t)) /\
  (forall id t, get (sv_tx s) id = Some t <-> In t (all_txs ps) /\ t_hash t = id) /\
  sv_blk s = brun (map fst ps).
Proof. exact ServiceProofs.C19_service_indexes_every_tx. Qed.
Print Assumptions C19_service_indexes_every_tx.

Example C19_service_indexes_every_tx_nonvacuous :
  Forall wf_pblock svx_ps /\ Distinct (all_txs svx_ps) /\ index_ok svx_b2 = false /\
  let s := svc_run false (events_all svx_ps) in
  get (sv_tx s) "3"%string = Some svx_t3 /\ get (sv_tx s) "4"%string = Some svx_t4 /\
  bhas (sv_blk s) 1%Z = true /\ bhas (sv_blk s) 2%Z = false /\ bhas (sv_blk s) 3%Z = true.
Proof. pose proof ServiceProofs.C19_service_indexes_every_tx_nonvacuous as H. cbv zeta in *. intuition. Qed.

(* ------------------------------------------------------------------ the event bus
   (types/event_bus.go; BusModel.v: the event map PublishEventNewBlock / NewBlockHeader / Tx hand
   to pub/sub, as specified: composite key type.key -> all values in order, reserved pairs
   appended). *)

(* 10. For every Publish* method, every list of ABCI events and every attribute with a non-empty
   key of an event with a non-empty type — whatever its Index flag, however often the event
   type and the key are repeated — the event map has the composite key type.key and under it
   exactly the values of ALL attributes with that composite key, in order, this attribute's
   value among them; the same for the reserved pairs tm.event / tx.hash / tx.height the method
   appends (an application emitting these keys itself makes them multi-valued). *)
Theorem C19_eventbus_map_complete : forall k evs hash height,
  (forall e a, In e evs -> e_type e <> EmptyString -> In a (e_attrs e) -> a_key a <> EmptyString ->
     let ck := (e_type e ++ "." ++ a_key a)%string in
     ev_lookup ck (bus_map k evs hash height)
       = Some (vals_of ck (bus_pairs evs ++ reserved_pairs k hash height)) /\
     In (a_val a) (vals_of ck (bus_pairs evs ++ reserved_pairs k hash height))) /\
  (forall rk rv, In (rk, rv) (reserved_pairs k hash height) ->
     ev_lookup rk (bus_map k evs hash height)
       = Some (vals_of rk (bus_pairs evs ++ reserved_pairs k hash height)) /\
     In rv (vals_of rk (bus_pairs evs ++ reserved_pairs k hash height))).
Proof. exact BusProofs.C19_eventbus_map_complete. Qed.
Print Assumptions C19_eventbus_map_complete.

Example C19_eventbus_map_complete_nonvacuous :
  ev_lookup "transfer.to"%string (bus_map KTx bus_ex_evs "AB"%string 3%Z) = Some ["alice"; "bob"]%string /\
  matches [{| c_key := "transfer.to"; c_op := OpEq; c_arg := OStr "alice" |};
           {| c_key := "transfer.amount"; c_op := OpGt; c_arg := OInt 6 |}]%string
          (bus_map KTx bus_ex_evs "AB"%string 3%Z) = MTrue.
Proof. vm_compute. auto. Qed.

(* ------------------------------------------------------------------ non-vacuity *)

Definition ex_Q (i : nat) : query :=
  match i with
  | 0 => [Build_cond "tm.event" OpEq (OStr "Tx")]
  | _ => [Build_cond "x.n" OpGt (OInt 5)]
  end.
Definition ex_ev : events := [("tm.event"%string, ["Tx"%string]); ("x.n"%string, ["abc"%string])].
Definition ex_ev7 : events := [("tm.event"%string, ["Tx"%string]); ("x.n"%string, ["7"%string])].
Definition ord_id : forall A : Type, nat -> list A -> list A := fun _ _ l => l.
Definition ord_rev : forall A : Type, nat -> list A -> list A := fun _ _ l => rev l.

Lemma ord_id_ok : order_ok ord_id.
Proof. intros A n l. apply Permutation_refl. Qed.
Lemma ord_rev_ok : order_ok ord_rev.
Proof. intros A n l. apply Permutation_sym, Permutation_rev. Qed.

(* client 1 subscribes first with the ill-typed `x.n > 5` (visited first under ord_id), then
   client 0 unbuffered with tm.event = 'Tx'; publications 0,1 carry x.n = "abc", 2 carries 7 *)
Definition ex_post : list op :=
  [Publish 0 ex_ev 0; Publish 1 ex_ev 1; Publish 2 ex_ev7 2].
Definition ex_hist : list op := Subscribe 1 1 1 :: Subscribe 0 0 0 :: ex_post.

Example C19_delivery_exact_nonvacuous :
  has_key (0, 0) (outer (run ex_Q ord_id [Subscribe 1 1 1])) = false /\
  forallb (quiet (0, 0)) ex_post = true /\
  matching ex_Q (0, 0) ex_post = [0; 1; 2] /\
  option_map pushed (alookup key_eqb (0, 0) (heap (run ex_Q ord_id ex_hist))) = Some [0; 1; 2] /\
  option_map pushed (alookup key_eqb (0, 0) (heap (run ex_Q ord_rev ex_hist))) = Some [0; 1; 2] /\
  option_map pushed (alookup key_eqb (1, 1) (heap (run ex_Q ord_id ex_hist))) = Some [2].
Proof. vm_compute. repeat split. Qed.

(* the capacity branch: capacity 1, two matching publications, nobody reads *)
Example C19_delivery_capacity_nonvacuous :
  let s := run ex_Q ord_id [Subscribe 0 0 1; Publish 0 ex_ev 0; Publish 1 ex_ev 0; Publish 2 ex_ev 0] in
  in_table (0, 0) s = false /\
  option_map ch_err (alookup key_eqb (0, 0) (heap s)) = Some (Some OutOfCapacity) /\
  option_map pushed (alookup key_eqb (0, 0) (heap s)) = Some [0] /\
  has_key (0, 0) (outer s) = true.
Proof. vm_compute. repeat split. Qed.

Example C19_unsubscribed_final_nonvacuous :
  let s := run ex_Q ord_rev (Subscribe 1 1 1 :: Subscribe 0 0 0 :: ex_post ++ Unsubscribe 0 0 :: [Publish 3 ex_ev 0]) in
  forallb (no_resub (0, 0)) [Publish 3 ex_ev 0] = true /\
  option_map ch_err (alookup key_eqb (0, 0) (heap s)) = Some (Some Unsubscribed) /\
  option_map pushed (alookup key_eqb (0, 0) (heap s)) = Some [0; 1; 2].
Proof. vm_compute. repeat split. Qed.

(* isolation: with and without the other client *)
Example C19_isolation_nonvacuous :
  map strip (filter (relevant (0, 0)) ex_hist) =
  map strip (filter (relevant (0, 0)) (Subscribe 0 0 0 :: ex_post)) /\
  proj (0, 0) (run ex_Q ord_id ex_hist) = proj (0, 0) (run ex_Q ord_rev (Subscribe 0 0 0 :: ex_post)).
Proof. vm_compute. split; reflexivity. Qed.

(* F10: on the ORIGINAL send loop (return at the first query whose Matches errors) the same
   history starves client 0 of publications 0 and 1 when the ill-typed query is visited first,
   and not when it is visited last: delivery depended on the other subscriber and on the map
   order. *)
Definition ex_state : st := run ex_Q ord_id [Subscribe 1 1 1; Subscribe 0 0 0].
Example C19_original_send_refuted :
  option_map pushed (alookup key_eqb (0, 0) (heap (send_original ex_Q ord_id 0 0 ex_ev ex_state))) = Some [] /\
  option_map pushed (alookup key_eqb (0, 0) (heap (send_original ex_Q ord_rev 0 0 ex_ev ex_state))) = Some [0] /\
  option_map pushed (alookup key_eqb (0, 0) (heap (send ex_Q ord_id 0 0 ex_ev ex_state))) = Some [0].
Proof. vm_compute. repeat split. Qed.

(* ------------------------------------------------------------------ the decimal rendering
   and the search theorems WITHOUT the semantic premise NumOK (DecProofs.v, SearchExact.v,
   SearchNumerals.v, BlockNumerals.v). *)
From Coq Require Import Ascii.
From TM Require Import C19.DecProofs C19.SearchExact C19.SearchNumerals C19.BlockNumerals.

(* 11. The lemma theorems 6, 6b and 8 were waiting for: fmt "%d" of an integer is read back as
   that integer by the matcher (numRegex.FindString + strconv.ParseInt) AND by the indexers'
   strconv.ParseInt exactly when it is in 0 .. MaxInt64 (a negative height would be rendered
   "-n" and read as n by the matcher; nothing above MaxInt64 is read by either). *)
Theorem C19_dec_NumOK : forall z : Z, NumOK (dec z) <-> (0 <= z <= max_int64)%Z.
Proof. exact NumOK_dec_iff. Qed.
Print Assumptions C19_dec_NumOK.

(* 12. The semantic premise IS a syntactic, decidable test: a value is one on which both
   readers return the integer it is the rendering of, iff it is non-empty, consists of digits,
   has no leading zero (except "0") and does not exceed MaxInt64; and such a string is the
   rendering of its value (the converse round trip). *)
Theorem C19_NumOK_is_canonical : forall v : string,
  (NumOK v <-> canon v = true) /\ (canon v = true -> dec (digits_val 0 v) = v).
Proof. exact NumOK_is_canonical. Qed.
Print Assumptions C19_NumOK_is_canonical.

Example C19_NumOK_is_canonical_nonvacuous :
  canon "9223372036854775807" = true /\ canon "0" = true /\
  canon "007" = false /\ canon "+5" = false /\ canon "-0" = false /\
  canon "9223372036854775808" = false /\ canon "" = false /\
  value_as_int "007" = Some 7%Z /\ parse_int_go "007" = Some 7%Z /\
  value_as_int "-5" = Some 5%Z /\ parse_int_go "-5" = Some (-5)%Z.
Proof. vm_compute. repeat split. Qed.

(* 13. Both readers on the non-canonical numerals an application can emit, for ALL digit
   strings s (leading zeros allowed): s and "+s" are read alike by both (value of s if it fits
   int64, else by neither); "-s" is read as |s| by the matcher and as -|s| by ParseInt. *)
Theorem C19_numeral_readers : forall s : string, all_digits s = true -> s <> EmptyString ->
  value_as_int s = read_digits s /\ parse_int_go s = read_digits s /\
  value_as_int (String "+" s) = read_digits s /\ parse_int_go (String "+" s) = read_digits s /\
  value_as_int (String "-" s) = read_digits s /\
  parse_int_go (String "-" s) =
    (if (digits_val 0 s <=? max_int64 + 1)%Z then Some (- digits_val 0 s)%Z else None).
Proof. exact numeral_readers. Qed.
Print Assumptions C19_numeral_readers.

(* 14. Theorem 6 with the premise discharged.  For the values the indexer renders itself
   (tx.height) nothing is left but HeightsOK (heights are int64 values >= 0); for the values the
   application chooses, "= integer" conditions need CanonKey: the indexed values of that key
   pass the syntactic test [canon] (SearchExact.numkey_iff: this is exactly what NumKey meant).
   All premises are decidable properties of the history and the query. *)
Theorem C19_search_exact : forall (h : list iop) (q : query),
  Distinct (history_txs h) ->
  (forall t, In t (history_txs h) -> TxDomain t) ->
  HeightsOK (history_txs h) ->
  q <> [] ->
  (forall c, In c q -> wf_cond_c (history_txs h) c) ->
  exists ids, search (run_history h) q = SOk ids /\
    forall id, In id ids <->
      exists t, In t (history_txs h) /\ t_hash t = id /\ matches q (tx_events t) = MTrue.
Proof. exact SearchExact.C19_search_exact. Qed.
Print Assumptions C19_search_exact.

Example C19_search_exact_nonvacuous :
  Distinct (history_txs nv_hist) /\
  (forall t, In t (history_txs nv_hist) -> TxDomain t) /\
  HeightsOK (history_txs nv_hist) /\
  nv_q <> [] /\
  (forall c, In c nv_q -> wf_cond_c (history_txs nv_hist) c) /\
  search (run_history nv_hist) nv_q = SOk ["0"%string] /\
  sat nv_q nv_t0 = true /\ sat nv_q nv_t1 = false.
Proof. exact SearchExact.C19_search_exact_nonvacuous. Qed.

(* 15. Theorem 6b with the premise discharged (integer ranges included). *)
Theorem C19_tx_search_exact_ranges : forall (h : list iop) (q : query),
  Distinct (history_txs h) ->
  (forall t, In t (history_txs h) -> TxDomain t) ->
  HeightsOK (history_txs h) ->
  q <> [] ->
  (forall c, In c q -> wf_cond_rc (history_txs h) c) ->
  TxRangeShape (history_txs h) q ->
  exists ids, search (run_history h) q = SOk ids /\
    forall id, In id ids <->
      exists t, In t (history_txs h) /\ t_hash t = id /\ matches q (tx_events t) = MTrue.
Proof. exact SearchExact.C19_tx_search_exact_ranges. Qed.
Print Assumptions C19_tx_search_exact_ranges.

Example C19_tx_search_exact_ranges_full_nonvacuous :
  Distinct (history_txs nv_hist) /\
  (forall t, In t (history_txs nv_hist) -> TxDomain t) /\
  HeightsOK (history_txs nv_hist) /\
  nvr_q <> [] /\
  (forall c, In c nvr_q -> wf_cond_rc (history_txs nv_hist) c) /\
  TxRangeShape (history_txs nv_hist) nvr_q /\
  search (run_history nv_hist) nvr_q = SOk ["0"%string] /\
  sat nvr_q nv_t0 = true /\ sat nvr_q nv_t1 = false.
Proof. exact SearchExact.C19_tx_search_exact_ranges_nonvacuous. Qed.

(* 15b. A query on tx.height alone (= < <= > >=) needs no premise on attribute values: Search
   returns exactly the transactions whose height compares that way. *)
Theorem C19_tx_search_height_exact : forall (h : list iop) (op : opr) (H : Z),
  Distinct (history_txs h) ->
  (forall t, In t (history_txs h) -> TxDomain t) ->
  HeightsOK (history_txs h) ->
  op <> OpContains -> op <> OpExists ->
  let q := [{| c_key := TxHeightKey; c_op := op; c_arg := OInt H |}] in
  exists ids, search (run_history h) q = SOk ids /\
    forall id, In id ids <->
      exists t, In t (history_txs h) /\ t_hash t = id /\ cmp_ok op (t_height t) H = true.
Proof. exact SearchExact.C19_tx_search_height_exact. Qed.
Print Assumptions C19_tx_search_height_exact.

(* 16. Theorem 8 (block indexer) with the premise discharged: BHeightsOK and, for integer
   conditions on application keys, BCanonKey (SearchExact.bnumkey_iff: exactly BNumKey). *)
Theorem C19_block_search_exact : forall (hist : list block) (q : query),
  BConsistent hist ->
  BHeightsOK hist ->
  q <> [] ->
  (forall c, In c q -> bwf_cond_c hist c) ->
  RangeShape hist q ->
  exists hs, bsearch (brun hist) q = BOk hs /\ StronglySorted Z.lt hs /\
    forall h, In h hs <->
      exists b, In b hist /\ index_ok b = true /\ b_height b = h /\
                matches q (blk_events b) = MTrue.
Proof. exact SearchExact.C19_block_search_exact. Qed.
Print Assumptions C19_block_search_exact.

Example C19_block_search_exact_full_nonvacuous :
  BConsistent bnv_hist /\ BHeightsOK bnv_hist /\ bnv_q <> [] /\
  (forall c, In c bnv_q -> bwf_cond_c bnv_hist c) /\ RangeShape bnv_hist bnv_q /\
  bsearch (brun bnv_hist) bnv_q = BOk [1%Z] /\
  bsat bnv_q bnv_b1 = true /\ bsat bnv_q bnv_b2 = false /\ bsat bnv_q bnv_b4 = false.
Proof. exact SearchExact.C19_block_search_exact_nonvacuous. Qed.

(* 17. ARBITRARY attribute values (no premise on them at all) under one integer condition, the
   transaction indexer: "key = n" returns exactly the transactions carrying the LITERAL
   rendering of n under the key; "key < <= > >= n" returns exactly those with a value that
   strconv.ParseInt reads (whole value) as an m with m op n. *)
Theorem C19_tx_search_int_arbitrary_values : forall (h : list iop) (k : string) (n : Z),
  Distinct (history_txs h) ->
  (forall t, In t (history_txs h) -> TxDomain t) ->
  no_slash k = true -> k <> TxHashKey ->
  (exists ids, search (run_history h) [{| c_key := k; c_op := OpEq; c_arg := OInt n |}] = SOk ids /\
     forall id, In id ids <->
       exists t, In t (history_txs h) /\ t_hash t = id /\ In (dec n) (tvals k t)) /\
  (forall op, is_range_op op = true ->
   exists ids, search (run_history h) [{| c_key := k; c_op := op; c_arg := OInt n |}] = SOk ids /\
     forall id, In id ids <->
       exists t, In t (history_txs h) /\ t_hash t = id /\
         exists v m, In v (tvals k t) /\ parse_int_go v = Some m /\ cmp_ok op m n = true).
Proof. exact tx_search_int_arbitrary_values. Qed.
Print Assumptions C19_tx_search_int_arbitrary_values.

(* 18. Hence a range condition is exact on a strictly larger class than canonical decimals:
   wherever both readers read every value of the key alike ("007", "+7", "00" included). *)
Theorem C19_tx_search_range_exact_readalike : forall (h : list iop),
  Distinct (history_txs h) ->
  (forall t, In t (history_txs h) -> TxDomain t) ->
  forall (k : string) (op : opr) (n : Z),
  no_slash k = true -> k <> TxHashKey -> is_range_op op = true ->
  (forall t v, In t (history_txs h) -> In v (tvals k t) -> ReadAlike v) ->
  let q := [{| c_key := k; c_op := op; c_arg := OInt n |}] in
  exists ids, search (run_history h) q = SOk ids /\
    forall id, In id ids <->
      exists t, In t (history_txs h) /\ t_hash t = id /\ matches q (tx_events t) = MTrue.
Proof. exact tx_search_range_exact_readalike. Qed.
Print Assumptions C19_tx_search_range_exact_readalike.

Example C19_tx_search_range_exact_readalike_nonvacuous :
  let h := [OBatch [mk1 "0" 1 0 [("x", "007"); ("x", "+9")]; mk1 "1" 1 1 [("x", "8")]]]%string in
  (forall t v, In t (history_txs h) -> In v (tvals "a.x" t) -> ReadAlike v) /\
  search (run_history h) (nm_q OpGe 8) = SOk ["1"; "0"]%string /\
  search (run_history h) (nm_q OpLt 8) = SOk ["0"]%string.
Proof. exact tx_search_range_exact_readalike_nonvacuous. Qed.

(* 19. ... and the numeric strictness of known class 17 as theorems over ALL histories and
   values: every non-canonical numeral the matcher reads as n is a false negative of
   "key = n"; every "-d" (d > 0) is a false positive of "key < 0" and a false negative of
   "key > 0" (the matcher's regular expression drops the sign, ParseInt keeps it). *)
Theorem C19_tx_search_eq_noncanonical_refuted : forall (h : list iop),
  Distinct (history_txs h) ->
  (forall t, In t (history_txs h) -> TxDomain t) ->
  forall k n t v,
  no_slash k = true -> k <> TxHashKey ->
  In t (history_txs h) -> tvals k t = [v] -> value_as_int v = Some n -> canon v = false ->
  let q := [{| c_key := k; c_op := OpEq; c_arg := OInt n |}] in
  matches q (tx_events t) = MTrue /\
  exists ids, search (run_history h) q = SOk ids /\ ~ In (t_hash t) ids.
Proof. exact tx_search_eq_noncanonical_missed. Qed.
Print Assumptions C19_tx_search_eq_noncanonical_refuted.

Theorem C19_tx_search_range_sign_refuted : forall (h : list iop),
  Distinct (history_txs h) ->
  (forall t, In t (history_txs h) -> TxDomain t) ->
  forall k t s,
  no_slash k = true -> k <> TxHashKey ->
  In t (history_txs h) -> tvals k t = [String "-" s] ->
  all_digits s = true -> (0 < digits_val 0 s <= max_int64)%Z ->
  let lt0 := [{| c_key := k; c_op := OpLt; c_arg := OInt 0 |}] in
  let gt0 := [{| c_key := k; c_op := OpGt; c_arg := OInt 0 |}] in
  matches lt0 (tx_events t) = MFalse /\ matches gt0 (tx_events t) = MTrue /\
  (exists ids, search (run_history h) lt0 = SOk ids /\ In (t_hash t) ids) /\
  (exists ids, search (run_history h) gt0 = SOk ids /\ ~ In (t_hash t) ids).
Proof. exact tx_search_range_sign_disagrees. Qed.
Print Assumptions C19_tx_search_range_sign_refuted.

Example C19_tx_search_numerals_nonvacuous :
  sat (nm_q OpEq 7) (nm_t "007") = true /\
  search (run_history [OIndex (nm_t "007")]) (nm_q OpEq 7) = SOk [] /\
  search (run_history [OIndex (nm_t "007")]) (nm_q OpGe 7) = SOk ["0"%string] /\
  sat (nm_q OpLt 0) (nm_t "-5") = false /\
  search (run_history [OIndex (nm_t "-5")]) (nm_q OpLt 0) = SOk ["0"%string] /\
  sat (nm_q OpGt 0) (nm_t "-5") = true /\
  search (run_history [OIndex (nm_t "-5")]) (nm_q OpGt 0) = SOk [].
Proof. vm_compute. auto 10. Qed.

(* 20. The same for the block indexer (application keys): literal scan for "=", ParseInt of the
   whole value for ranges; ranges exact on ReadAlike values. *)
Theorem C19_block_search_int_arbitrary_values : forall (hist : list block) (k : string) (n : Z),
  k <> BlockHeightKey ->
  (exists hs, bsearch (brun hist) [{| c_key := k; c_op := OpEq; c_arg := OInt n |}] = BOk hs /\
     StronglySorted Z.lt hs /\
     forall h, In h hs <-> exists b, At hist h b /\ In (dec n) (bvals k b)) /\
  (forall op, is_range_op op = true ->
   exists hs, bsearch (brun hist) [{| c_key := k; c_op := op; c_arg := OInt n |}] = BOk hs /\
     StronglySorted Z.lt hs /\
     forall h, In h hs <->
       exists b, At hist h b /\
         exists v m, In v (bvals k b) /\ parse_int_go v = Some m /\ cmp_ok op m n = true).
Proof. exact block_search_int_arbitrary_values. Qed.
Print Assumptions C19_block_search_int_arbitrary_values.

Theorem C19_block_search_range_exact_readalike : forall (hist : list block) k op n,
  k <> BlockHeightKey -> is_range_op op = true ->
  (forall b v, In b hist -> index_ok b = true -> In v (bvals k b) -> ReadAlike v) ->
  let q := [{| c_key := k; c_op := op; c_arg := OInt n |}] in
  exists hs, bsearch (brun hist) q = BOk hs /\ StronglySorted Z.lt hs /\
    forall h, In h hs <->
      exists b, In b hist /\ index_ok b = true /\ b_height b = h /\
                matches q (blk_events b) = MTrue.
Proof. exact block_search_range_exact_readalike. Qed.
Print Assumptions C19_block_search_range_exact_readalike.

Example C19_block_search_numerals_nonvacuous :
  bsat (bnm_q OpEq 7) (bnm "007") = true /\
  bsearch (brun [bnm "007"]) (bnm_q OpEq 7) = BOk [] /\
  bsearch (brun [bnm "007"]) (bnm_q OpGe 7) = BOk [1%Z] /\
  bsat (bnm_q OpLt 0) (bnm "-5") = false /\
  bsearch (brun [bnm "-5"]) (bnm_q OpLt 0) = BOk [1%Z].
Proof. vm_compute. auto 10. Qed.

(* 21. Known class 37 as a theorem over ALL block histories: a height whose only indexed block
   carries, under the key, only a non-canonical numeral the matcher reads as n is a false
   negative of "key = n". *)
Theorem C19_block_search_eq_noncanonical_refuted : forall (hist : list block) k n b v,
  k <> BlockHeightKey ->
  In b hist -> index_ok b = true ->
  (forall b', In b' hist -> index_ok b' = true -> b_height b' = b_height b -> b' = b) ->
  bvals k b = [v] -> value_as_int v = Some n -> canon v = false ->
  let q := [{| c_key := k; c_op := OpEq; c_arg := OInt n |}] in
  matches q (blk_events b) = MTrue /\
  exists hs, bsearch (brun hist) q = BOk hs /\ ~ In (b_height b) hs.
Proof. exact block_search_eq_noncanonical_missed. Qed.
Print Assumptions C19_block_search_eq_noncanonical_refuted.

Example C19_block_search_eq_noncanonical_refuted_nonvacuous :
  let hist := [bnm "007"] in
  In (bnm "007") hist /\ index_ok (bnm "007") = true /\
  (forall b', In b' hist -> index_ok b' = true -> b_height b' = b_height (bnm "007") -> b' = bnm "007") /\
  bvals "a.x" (bnm "007") = ["007"%string] /\ value_as_int "007" = Some 7%Z /\ canon "007" = false.
Proof. exact block_search_eq_noncanonical_missed_nonvacuous. Qed.

(* ------------------------------------------------------------------ remote subscribers
   (rpc/core/events.go, finding F90; WsModel.v: the forwarder goroutine between a buffered
   pub/sub Subscription and the websocket connection's bounded write queue, as repaired by
   fixes/F90-ws-subscriber-told.diff). *)
From TM Require Import C19.WsModel C19.WsProofs.
Local Open Scope nat_scope.

(* 22. For EVERY schedule of publications, pub/sub exit, forwarder steps (both outcomes of the
   select when a buffered message and the cancellation are ready together), write-queue room,
   write timeouts and client reads, every queue and buffer capacity and both settings of
   CloseOnSlowClient: the client never sees a gap or a repetition, and whenever nothing more
   can happen (its queue is read or its connection closed, the forwarder gone or idle on a live
   subscription) it holds ALL its matching events, or the explicit cancellation notice, or its
   connection was closed — never an open connection that stays silent for ever. *)
Theorem C19_ws_subscriber_told : forall (c : wcfg) (steps : list wstep), repaired c = true ->
  quiescent (WsModel.run c steps) = true -> observation_ok (WsModel.run c steps).
Proof. exact ws_subscriber_told. Qed.
Print Assumptions C19_ws_subscriber_told.

Theorem C19_ws_no_gap : forall (c : wcfg) (steps : list wstep), repaired c = true ->
  exists j, evs (w_client (WsModel.run c steps)) = seq 0 j /\ (j <= w_pub (WsModel.run c steps))%nat.
Proof. exact ws_no_gap. Qed.
Print Assumptions C19_ws_no_gap.

Example C19_ws_subscriber_told_nonvacuous :
  quiescent (WsModel.run (cfg_rep 1 1 false) (slow_reader ++ [SWrite; SRead])) = true /\
  w_client (WsModel.run (cfg_rep 1 1 false) (slow_reader ++ [SWrite; SRead])) = [Ev 0; Ev 1; Notice] /\
  w_pub (WsModel.run (cfg_rep 1 1 false) (slow_reader ++ [SWrite; SRead])) = 4 /\
  quiescent (WsModel.run (cfg_rep 1 1 false) (slow_reader ++ [STimeout])) = true /\
  w_open (WsModel.run (cfg_rep 1 1 false) (slow_reader ++ [STimeout])) = false /\
  w_client (WsModel.run (cfg_rep 1 4 false) stall) = [Ev 0; Notice] /\
  quiescent (WsModel.run (cfg_rep 1 4 false) stall) = true.
Proof. vm_compute. repeat split. Qed.

(* F90: the transcription of the unrepaired events.go (notice through TryWriteRPCResponse; an
   event whose write times out is dropped) leaves the client of the same schedules with a
   strict prefix, no notice and an open connection for ever — and with a gap. *)
Example C19_ws_original_refuted :
  let s := WsModel.run (cfg_orig 1 1 false) slow_reader in
  quiescent s = true /\ w_client s = [Ev 0; Ev 1] /\ w_pub s = 4 /\ w_open s = true /\
  w_fw s = FDone /\ ~ observation_ok s /\
  let g := WsModel.run (cfg_orig 1 4 false) stall in
  quiescent g = true /\ w_client g = [Ev 0; Ev 2] /\ w_open g = true.
Proof.
  cbv zeta. repeat split; try (vm_compute; reflexivity). exact ws_original_not_ok.
Qed.

(* ------------------------------------------------------------------ the same transaction
   bytes committed twice (finding F91, known class 91; DupModel.v, DupProofs.v). *)
From TM Require Import C19.DupModel C19.DupProofs.

(* 23. Theorems 5 and 15 with the premise "transaction bytes pairwise distinct" replaced by the
   DECIDABLE class test: every history of commits at pairwise distinct (height, index) that is
   not in known class 91 (two indexed results with equal bytes at different positions). *)
Theorem C19_tx_search_exact_except_known : forall (h : list iop) (q : query),
  NoDup (map hpos (history_txs h)) ->
  dup91 (history_txs h) = false ->
  (forall t, In t (history_txs h) -> TxDomain t) ->
  HeightsOK (history_txs h) ->
  q <> [] ->
  (forall c, In c q -> wf_cond_rc (history_txs h) c) ->
  TxRangeShape (history_txs h) q ->
  exists ids, search (run_history h) q = SOk ids /\
    forall id, In id ids <->
      exists t, In t (history_txs h) /\ t_hash t = id /\ matches q (tx_events t) = MTrue.
Proof. exact tx_search_exact_except_known. Qed.
Print Assumptions C19_tx_search_exact_except_known.

Theorem C19_indexed_once_except_known : forall h : list iop,
  NoDup (map hpos (history_txs h)) ->
  dup91 (history_txs h) = false ->
  let st := run_history h in
  NoDup (map fst (s_idx st)) /\ NoDup (map fst (s_prim st)) /\
  (forall k id, In (k, id) (s_idx st) <->
     exists t, In t (history_txs h) /\ id = t_hash t /\ In k (keys_of t)) /\
  (forall id t, get st id = Some t <-> In t (history_txs h) /\ t_hash t = id).
Proof. exact indexed_once_except_known. Qed.
Print Assumptions C19_indexed_once_except_known.

Example C19_tx_search_exact_except_known_nonvacuous :
  NoDup (map hpos (history_txs nv_hist)) /\ dup91 (history_txs nv_hist) = false.
Proof. exact tx_search_exact_except_known_nonvacuous. Qed.

(* F91, inside the class: "k=v" committed at 5/0 (code 0, transfer.to = alice) and again at 9/0
   (code 7, transfer.to = nobody) through AddBatch: the record of the first commit is gone, and
   tx.height = 5, transfer.to = 'alice' and their conjunction return the record of height 9,
   which satisfies none of them. *)
Example C19_search_duplicate_bytes_refuted :
  let st := run_history d91_hist in
  let q5 := [cnd "tx.height" OpEq (OInt 5)]%string in
  let qa := [cnd "transfer.to" OpEq (OStr "alice")]%string in
  NoDup (map hpos (history_txs d91_hist)) /\ dup91 (history_txs d91_hist) = true /\
  get st "kv"%string = Some d91_t9 /\
  search st q5 = SOk ["kv"%string] /\ sat q5 d91_t9 = false /\ sat q5 d91_t5 = true /\
  search st qa = SOk ["kv"%string] /\ sat qa d91_t9 = false /\
  search st (q5 ++ qa) = SOk ["kv"%string] /\
  search st [cnd "tx.height" OpGe (OInt 1)]%string = SOk ["kv"%string].
Proof. exact search_duplicate_bytes_refuted. Qed.

(* ------------------------------------------------------------------ operand types the grammar
   accepts beyond the modelled ones (finding F92; TypedModel.v: both Search functions as
   repaired by fixes/F92-search-operand-types.diff). *)
From TM Require Import C19.TypedModel C19.TypedProofs.

(* 24. On well-typed queries (no float bound; tx.hash with a string operand; "tx.height =" with
   an integer) the repaired TxIndex.Search IS the Search of SearchModel.v: theorems 6, 14, 15,
   23 are theorems about the repaired code. *)
Theorem C19_tx_search_typed_agrees : forall st xq, well_typed xq ->
  tx_search_typed st xq = search st (map base xq).
Proof. exact tx_search_typed_agrees. Qed.
Print Assumptions C19_tx_search_typed_agrees.

(* 25. On EVERY store and EVERY query whose range operands are numbers - integers or floats;
   any operand whatsoever, EXISTS included, on tx.hash and tx.height - the repaired Search does
   not panic: it answers or refuses with an error (float bounds, ill-typed tx.hash).  The
   complement (a TIME / DATE bound mixed with an integer bound) is known class 26 / 36. *)
Theorem C19_tx_search_never_panics : forall st xq, numeric_ranges xq ->
  tx_search_typed st xq <> SPanic.
Proof. exact tx_search_typed_no_panic. Qed.
Print Assumptions C19_tx_search_never_panics.

Theorem C19_block_search_never_panics : forall st xq, numeric_ranges xq -> contains_strings xq ->
  block_search_typed st xq <> BPanic.
Proof. exact block_search_typed_no_panic. Qed.
Print Assumptions C19_block_search_never_panics.

Example C19_search_typed_nonvacuous :
  let st := run_history ty_hist in
  tx_search_typed st [xc "a.x" OpGt (XFloat 1 true)]%string = SErr /\
  tx_search_typed st [xc "a.x" OpGt (XA (OInt 1)); xc "a.x" OpLe (XFloat 2 true)]%string = SErr /\
  tx_search_typed st [xc "tx.hash" OpExists (XA ONone)]%string = SErr /\
  tx_search_typed st [xc "tx.height" OpEq (XA (OStr "1"))]%string = SOk ["0"%string] /\
  tx_search_typed st [xc "tx.height" OpEq (XFloat 2 false)]%string = SOk ["1"%string] /\
  tx_search_typed st [xc "a.x" OpGt (XA (OInt 2))]%string = SOk ["1"%string] /\
  block_search_typed (brun ty_bhist) [xc "a.x" OpGt (XFloat 1 true)]%string = BErr /\
  block_search_typed (brun ty_bhist) [xc "block.height" OpEq (XFloat 1 false)]%string = BErr /\
  block_search_typed (brun ty_bhist) [xc "a.x" OpGt (XA (OInt 2))]%string = BOk [2%Z].
Proof. vm_compute. repeat split. Qed.

(* F92: the transcriptions of the unrepaired Search functions panic on the same conditions *)
Example C19_search_untyped_refuted :
  let st := run_history ty_hist in
  search st (map base [xc "a.x" OpGt (XFloat 1 true)]%string) = SPanic /\
  search st (map base [xc "tx.hash" OpExists (XA ONone)]%string) = SPanic /\
  search st (map base [xc "tx.hash" OpEq (XA (OInt 5))]%string) = SPanic /\
  search st (map base [xc "tx.height" OpEq (XA (OStr "1"))]%string) = SPanic /\
  bsearch (brun ty_bhist) (map base [xc "a.x" OpGt (XFloat 1 true)]%string) = BPanic /\
  bsearch (brun ty_bhist)
    (map base [xc "a.x" OpGt (XA (OInt 1)); xc "a.x" OpLe (XFloat 2 true)]%string) = BPanic.
Proof. vm_compute. repeat split. Qed.
