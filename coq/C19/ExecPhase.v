(* C19 — executable side for OVERLAPPED API calls (cases written by
   harness/overlay/libs/pubsub/verif_c19_overlap_test.go).  Depends on Exec.v and PhaseModel.v.

   A case is a history on a real pubsub.Server made of
   * OBatch calls: Subscribe / Unsubscribe / UnsubscribeAll calls that are IN FLIGHT TOGETHER with
     a controlled interleaving: every call's check phase runs first (all against the same
     Server.subscriptions; a call whose check fails returns at once), then the server loop takes
     the commands of the others in the order listed and their post phases run in that same order
     (the harness holds Server.mtx for reading until all commands are taken).  A call issued on
     its own is a batch of one.  Each call carries its return value.
   * OPub: a publication (waited for), with the real Matches verdict per query.
   * OObs: NumClients() and NumClientSubscriptions(c) for every client, read when no call is in
     flight.
   Then every Subscription handed out (in the order the loop took the Subscribe commands) with
   what it received in total and its final Err(), and the result of repeating Subscribe for
   every (client, query) pair at the end ("probes").

   CLAUSES (V_violation), all computed from the implementation's own answers:
     1  delivery: a Subscription did not receive exactly the publications matching its own
        query (the implementation's Matches) between the Subscribe that created it and the next
        successful Unsubscribe / UnsubscribeAll of its client in command order, in order, each
        once — nor was it cancelled with ErrOutOfCapacity after a strict prefix of them, nor is
        it a second Subscription for a pair that already had a live one and cancelled at once
        with ErrAlreadySubscribed having received nothing
     6  bookkeeping: with no call in flight, NumClients / NumClientSubscriptions or the answer
        to a repeated Subscribe differ from what the calls told the clients (a pair is
        registered iff the last successful call on it, in command order, was its Subscribe), or
        a call's return value contradicts the registrations at the time it was issued
   OBSERVABLES (V_mismatch): 28 return values of the calls vs the phase model (PhaseModel.v,
     as repaired for F59)   29 NumClients / NumClientSubscriptions / probes vs the model *)
From Coq Require Import String List ZArith NArith Bool Arith.
From TM Require Import Common.Hex.
From TM Require Export C19.Exec C19.PhaseModel.
Import ListNotations.

Inductive oop :=
| OBatch (calls : list xop)
| OPub (m : nat) (ev : events) (mi : list N)
| OObs (ncl : nat) (per : list nat).

Inductive ocase :=
  OCase (qtab : list query) (ops : list oop) (incs : list inc) (probes : list (nat * nat * N)).

Definition to_call (x : xop) : option call :=
  match x with
  | XSub c q _ _ => Some (CSub c q)
  | XUnsub c q _ => Some (CUnsub c q)
  | XUnsubAll c _ => Some (CUnsubAll c)
  | _ => None
  end.
Definition x_res (x : xop) : N :=
  match x with XSub _ _ _ r | XUnsub _ _ r | XUnsubAll _ r => r | _ => 0%N end.

(* the return value the check phase gives on registrations [reg] *)
Definition check_res (reg : list key) (o : call) : N :=
  if pcheck reg o then 0%N else match o with CSub _ _ => 1%N | _ => 2%N end.

Definition clients_of (reg : list key) : list nat := nodup Nat.eq_dec (map fst reg).
Definition count_client (c : nat) (reg : list key) : nat :=
  List.length (filter (fun k => Nat.eqb (fst k) c) reg).
Definition obs_ok (reg : list key) (ncl : nat) (per : list nat) : bool :=
  Nat.eqb (List.length (clients_of reg)) ncl
  && list_eqb Nat.eqb (map (fun c => count_client c reg) (seq 0 (List.length per))) per.

(* ------------------------------------------------------------------ clause 6 (monitor): the
   registrations as the calls' own return values describe them *)

Definition reg_batch (reg : list key) (xs : list xop) : list key * bool :=
  fold_left (fun (acc : list key * bool) x =>
               match to_call x with
               | Some o =>
                 let ok := (x_res x =? check_res reg o)%N in       (* against the registrations at issue *)
                 ((if (x_res x =? 0)%N then ppost o (fst acc) else fst acc), snd acc && ok)
               | None => acc
               end) xs (reg, true).

Fixpoint reg_run (reg : list key) (ops : list oop) : list key * bool :=
  match ops with
  | [] => (reg, true)
  | OBatch xs :: r =>
    let '(reg', ok) := reg_batch reg xs in
    let '(regf, okr) := reg_run reg' r in (regf, ok && okr)
  | OPub _ _ _ :: r => reg_run reg r
  | OObs ncl per :: r =>
    let '(regf, okr) := reg_run reg r in (regf, obs_ok reg ncl per && okr)
  end.

Fixpoint probes_ok (reg : list key) (ps : list (nat * nat * N)) : bool :=
  match ps with
  | [] => true
  | (c, q, r) :: rest =>
    (r =? check_res reg (CSub c q))%N
    && probes_ok (if (r =? 0)%N then ppost (CSub c q) reg else reg) rest
  end.

(* ------------------------------------------------------------------ clause 1 (monitor) *)

(* per Subscription in creation order: key, window open?, matching publications, duplicate? *)
Definition owin := (key * bool * list nat * bool)%type.

Definition oclose_if (p : key -> bool) (w : owin) : owin :=
  let '(k, o, m, d) := w in if p k then (k, false, m, d) else w.

Definition omon_step (ws : list owin) (x : xop) : list owin :=
  match x with
  | XSub c q _ r =>
    if (r =? 0)%N then
      if existsb (fun w : owin => let '(k, o, _, d) := w in key_eqb k (c, q) && o && negb d) ws
      then ws ++ [((c, q), false, [], true)]
      else ws ++ [((c, q), true, [], false)]
    else ws
  | XUnsub c q r => if (r =? 0)%N then map (oclose_if (key_eqb (c, q))) ws else ws
  | XUnsubAll c r => if (r =? 0)%N then map (oclose_if (fun k => Nat.eqb (fst k) c)) ws else ws
  | XPub m _ mi =>
    map (fun w : owin => let '(k, o, ms, d) := w in
           if o && (nth (snd k) mi 0 =? 1)%N then (k, o, ms ++ [m], d) else w) ws
  | XRead _ _ _ => ws
  end.

(* Err(): 0 nil, 1 ErrUnsubscribed, 2 ErrOutOfCapacity, 3 ErrAlreadySubscribed, 9 other *)
Definition oinc_ok (w : owin) (i : inc) : bool :=
  let '(k, _, ms, dup) := w in
  let '(c, q, cap, got, err) := i in
  key_eqb k (c, q) &&
  (if dup then (err =? 3)%N && list_eqb Nat.eqb got []
   else if (err =? 2)%N then negb (Nat.eqb cap 0) && is_prefix got ms
   else negb (err =? 3)%N && list_eqb Nat.eqb got ms).

Definition linear (ops : list oop) : list xop :=
  flat_map (fun o => match o with
                     | OBatch xs => xs
                     | OPub m ev mi => [XPub m ev mi]
                     | OObs _ _ => []
                     end) ops.

Definition odelivery_ok (ops : list oop) (incs : list inc) : bool :=
  all2 oinc_ok (fold_left omon_step (linear ops) []) incs.

(* ------------------------------------------------------------------ the phase model *)

Definition model_batch (s : pst) (xs : list xop) : pst * list N :=
  let calls := flat_map (fun x => match to_call x with Some o => [o] | None => [] end) xs in
  let res := map (check_res (srv s)) calls in
  let s1 := fold_left pstep_f (map PCheck calls) s in
  let s2 := fold_left (fun s' _ => pstep_f (pstep_f s' (PEnq 0)) PPost) (waiting s1) s1 in
  (s2, res).

Fixpoint model_run (s : pst) (ops : list oop) : pst * bool * bool :=   (* results ok, observations ok *)
  match ops with
  | [] => (s, true, true)
  | OBatch xs :: r =>
    let '(s', res) := model_batch s xs in
    let '(sf, a, b) := model_run s' r in
    (sf, list_eqb N.eqb res (map x_res (filter (fun x => match to_call x with Some _ => true | None => false end) xs)) && a, b)
  | OPub _ _ _ :: r => model_run s r
  | OObs ncl per :: r =>
    let '(sf, a, b) := model_run s r in (sf, a, obs_ok (srv s) ncl per && b)
  end.

(* ------------------------------------------------------------------ known classes (decidable on
   the input; used only if findings F59 / F60 are kept as known findings instead of repaired):
     59  some batch holds three successful calls of one client in this command order: an
         Unsubscribe / UnsubscribeAll, then a Subscribe, then an Unsubscribe (the last one's post
         phase works on the inner map it read during its check, detached and re-created by then)
     60  some batch holds two successful Subscribe calls of the same (client, query) *)
Definition ok_call (x : xop) : option call := if (x_res x =? 0)%N then to_call x else None.

Fixpoint stale_unsub (stage1 stage2 : list nat) (xs : list xop) : bool :=
  match xs with
  | [] => false
  | x :: r =>
    match ok_call x with
    | Some (CUnsubAll c) => stale_unsub (c :: stage1) stage2 r
    | Some (CUnsub c _) => memn c stage2 || stale_unsub (c :: stage1) stage2 r
    | Some (CSub c _) => stale_unsub stage1 (if memn c stage1 then c :: stage2 else stage2) r
    | None => stale_unsub stage1 stage2 r
    end
  end.

Fixpoint dup_sub (seen : list key) (xs : list xop) : bool :=
  match xs with
  | [] => false
  | x :: r =>
    match ok_call x with
    | Some (CSub c q) => kmem (c, q) seen || dup_sub ((c, q) :: seen) r
    | _ => dup_sub seen r
    end
  end.

Definition in59 (ops : list oop) : bool :=
  existsb (fun o => match o with OBatch xs => stale_unsub [] [] xs | _ => false end) ops.
Definition in60 (ops : list oop) : bool :=
  existsb (fun o => match o with OBatch xs => dup_sub [] xs | _ => false end) ops.

Definition oclassify (ok : bool) (clause : N) (ops : list oop) : verdict :=
  if ok then V_ok
  else if in59 ops then V_known 59
  else if in60 ops then V_known 60
  else V_violation clause.

Definition ocheck_case (c : ocase) : verdict :=
  match c with
  | OCase qtab ops incs probes =>
    let '(regf, regok) := reg_run [] ops in
    let '(sf, resok, obsok) := model_run pinit ops in
    first_of [
      oclassify (odelivery_ok ops incs) 1 ops;
      oclassify (regok && probes_ok regf probes) 6 ops;
      mism resok 28;
      mism (obsok && probes_ok (srv sf) probes) 29 ]
  end.
