(* C19 — executable side for the event bus (cases written by
   harness/overlay/types/verif_c19_eventbus_test.go).  Depends on ExecSearch.v (case helpers)
   and BusModel.v.

   A case: the queries (client i is subscribed with query i, capacity above the number of
   publications); the publications in order — which Publish* method, the ABCI events it is
   given (BeginBlock events, EndBlock events; for a transaction its DeliverTx events), the
   transaction's hash in upper-case hex and height —; what every client received (publication
   numbers, in order) and its final Err(); and the event map of every publication as pub/sub
   delivered it to a catch-all subscriber (Message.Events(), keys sorted).

   CLAUSE (V_violation):
     1  a subscriber did not receive exactly the publications whose event map — computed by
        the SPECIFICATION of the bus (BusModel.v: type.key -> all values in order, reserved
        pairs appended) — satisfies its query (Query.v), in order, each once, or was cancelled
   OBSERVABLE (V_mismatch): 61 the event map delivered with each publication vs the
     specification (same keys, same values in the same order) *)
From Coq Require Import String Ascii List ZArith NArith Bool.
From TM Require Import Common.Hex C19.Query C19.SearchModel.
From TM Require Export C19.ExecSearch C19.BusModel.
Import ListNotations.

(* kind (0 NewBlock, 1 NewBlockHeader, 2 Tx), first events, second events, hash, height *)
Definition upub := (N * list event_t * list event_t * string * Z)%type.

Inductive ucase :=
  UCase (qs : list (list cond_t)) (pubs : list upub) (got : list (list nat)) (errs : list N)
        (maps : list events).

Definition kind_of (n : N) : pkind :=
  match n with 0%N => KNewBlock | 1%N => KNewBlockHeader | _ => KTx end.

Definition spec_map (p : upub) : events :=
  let '(k, e1, e2, hash, height) := p in
  bus_map (kind_of k) (map mk_event e1 ++ map mk_event e2) hash height.

Fixpoint expected (q : query) (i : nat) (ms : list events) : list nat :=
  match ms with
  | [] => []
  | ev :: r => (match matches q ev with MTrue => [i] | _ => [] end) ++ expected q (S i) r
  end.

Fixpoint nat_list_eqb (a b : list nat) : bool :=
  match a, b with
  | [], [] => true
  | x :: a', y :: b' => Nat.eqb x y && nat_list_eqb a' b'
  | _, _ => false
  end.
Fixpoint str_list_eqb (a b : list string) : bool :=
  match a, b with
  | [], [] => true
  | x :: a', y :: b' => String.eqb x y && str_list_eqb a' b'
  | _, _ => false
  end.

Definition map_agree (spec real : events) : bool :=
  Nat.eqb (List.length spec) (List.length real)
  && forallb (fun kv => match ev_lookup (fst kv) real with
                        | Some vs => str_list_eqb vs (snd kv)
                        | None => false
                        end) spec.

Fixpoint all2b {A B} (f : A -> B -> bool) (a : list A) (b : list B) : bool :=
  match a, b with
  | [], [] => true
  | x :: a', y :: b' => f x y && all2b f a' b'
  | _, _ => false
  end.

Definition ucheck (c : ucase) : verdict :=
  match c with
  | UCase qs pubs got errs maps =>
    let specs := map spec_map pubs in
    first_of [
      viol (all2b (fun q g => nat_list_eqb (expected (map mk_cond q) 0 specs) g) qs got
            && forallb (fun e => (e =? 0)%N) errs
            && Nat.eqb (List.length errs) (List.length qs)) 1;
      mism (all2b map_agree specs maps) 61 ]
  end.
